/-
  C09 at world level — when callbacks run and what they see.

  "Callbacks for creation, addition, set and relation assignment run after the change and
  callbacks for removals run before it.  Inside a callback the reported entity is alive, is the
  entity the operation affects, appears exactly once in any query, and its components (including
  those about to be removed) are readable with their current values; the world is locked during
  removal and batch callbacks and in the caller's lock state otherwise."

  Formalisation.  In the setting of Ark/Props/C08World.lean, for a read-only runner whose records
  do not depend on the log (`LogBlind rec`; the `look` probe of the harness: `lookRec_logBlind`),
  the complete log an operation writes is

      (fired.reverse.flatMap fun l => notifyFlat rec l e seen) ++ w.log

  — for every notified observer `l` (the documented set `fired`, C08) its `cb l e` record and the
  records `rec seen l e p` of the probes `p` of its script — where `seen` is ONE world, the same
  for all observers of a notification round: "the world the callbacks see".  Each theorem
  `*_sees` identifies `seen` and states what holds on it.  `e` is the entity the operation
  affects (for creations: the returned handle).

  * AFTER the change, in the caller's lock state: `add_sees`, `newEntity_sees`, `newEntity0_sees`,
    `copyEntity_sees`, `set_sees` (no lock requirement at all), the addition round of
    `exchange_sees`.  On `seen` the entity is alive with its NEW component set.  Values: through
    the typed paths (`Map`, `MapN`) the values passed to the call are already written (`seen` is
    the final world up to the log); through `Unsafe.Add`/`Unsafe.NewEntity` the added components
    still read zero — the caller writes them after the call returns (that is how the Go API works).
  * BEFORE the change, under the lock: `remove_sees`, `removeEntity_sees`, the removal round of
    `exchange_sees`.  On `seen`: `isLocked = true`; EVERY entity — the reported one included — has
    the component set and values it had before the call (`SameEnt w seen j` for all `j`), so the
    components about to be removed are readable with their current values; every handle tests
    alive as before; structural operations are rejected with the state unchanged (`NewEntity()`
    shown; all of Ark/Proofs/Rejects.lean apply to a locked world); a complete iteration of any
    uncached untyped query succeeds, restores everything but the lock's bit pool and is exact for
    the entity sets of the world BEFORE the removal (`QueryExactOn`): the reported entity occurs
    exactly once, at its old row, if the filter matches its old mask, not at all otherwise
    (`exact_visits_once`).

  Finding: for `Remove`/`Exchange` the world the removal callbacks see is not literally the world
  before the call with the lock held: the destination archetype and table of the move have already
  been created if they did not exist (`Looked`); they are empty, and no entity-level observation
  (liveness, components, values, queries) can tell the difference.
-/
import Ark.Props.C08World
import Ark.Proofs.CallbacksQuery

set_option autoImplicit false

namespace Ark.Props.C09World
open Ark Ark.World Ark.Spec Ark.Refine Ark.QueryExact Ark.Props.C01World

variable {run : ProbeRunner} {S : Probe → Prop} {rec : World → Nat → Ent → Probe → List LogEv}
  {w : World} {fl : List Nat}

/-! ### after the change -/

theorem add_sees (st : Setting run S rec w fl) (hb : LogBlind rec) (p : Path)
    (hl : w.isLocked = false) {e : Ent} (he : Live w fl e) {add : List Comp} (hne : add ≠ [])
    (hnd : add.Nodup) (hreg : ∀ (c : Comp), c ∈ add → c < w.kinds.length)
    (hnew : ∀ (c : Comp), c ∈ add → (w.maskOf e).get c = false) (vals : List (Comp × Val))
    (hfew : w.tables.length < maxU32) (hrows : ∀ t : Nat, (w.tbl t).len + 1 < 2 ^ 32) :
    ∃ seen w' : World,
      opAdd run p e add vals [] w = .ok () w' ∧
      w'.log = ((firing w.obs Ev.onAddComponents
          (.add (w.maskOf e) (add.foldl Mask.set (w.maskOf e)))).reverse.flatMap
            fun l => notifyFlat rec l e seen) ++ w.log ∧
      seen.obs = w.obs ∧ seen.isLocked = w.isLocked ∧ (∀ x : Ent, seen.alive x = w.alive x) ∧
      compsOf seen e.id = some ((add.foldl Mask.set (w.maskOf e)).toList w.kinds.length) ∧
      (∀ c : Comp, c ∈ add → valOf seen e.id c =
        some (if p = .unsafe_ ∨ (w.kinds.getD c {}).zst = true then 0 else applyVals 0 vals c)) ∧
      (∀ j : Nat, j ≠ e.id → SameEnt w seen j) ∧
      (p ≠ .unsafe_ → seen = w'.relog w.obs w.log) :=
  Ark.add_sees st hb p hl he hne hnd hreg hnew vals hfew hrows

theorem newEntity_sees (st : Setting run S rec w fl) (hb : LogBlind rec) (p : Path)
    (hl : w.isLocked = false) {ids : List Comp} (hnd : ids.Nodup)
    (hreg : ∀ (c : Comp), c ∈ ids → c < w.kinds.length) (vals : List (Comp × Val))
    (hfew : w.tables.length < maxU32) (hrows : ∀ t : Nat, (w.tbl t).len + 1 < 2 ^ 32) :
    ∃ seen w' : World,
      opNewEntity run p ids vals [] w = .ok (w.pool.get).2 w' ∧
      w'.log = ((firing w.obs Ev.onCreateEntity (.entity (Mask.ofList ids))).reverse.flatMap
            fun l => notifyFlat rec l (w.pool.get).2 seen) ++ w.log ∧
      seen.obs = w.obs ∧ seen.isLocked = w.isLocked ∧ seen.alive (w.pool.get).2 = true ∧
      compsOf seen (w.pool.get).2.id = some ((Mask.ofList ids).toList w.kinds.length) ∧
      (∀ c : Comp, c ∈ ids → valOf seen (w.pool.get).2.id c =
        some (if p = .unsafe_ ∨ (w.kinds.getD c {}).zst = true then 0 else applyVals 0 vals c)) ∧
      (∀ j : Nat, j ≠ (w.pool.get).2.id → SameEnt w seen j) ∧
      (p ≠ .unsafe_ → seen = w'.relog w.obs w.log) :=
  Ark.newEntity_sees st hb p hl hnd hreg vals hfew hrows

theorem newEntity0_sees (st : Setting run S rec w fl) (hb : LogBlind rec)
    (hl : w.isLocked = false) (hb0 : (w.tbl 0).len + 1 < 2 ^ 32) :
    ∃ seen w' : World,
      opNewEntity0 run w = .ok (w.pool.get).2 w' ∧
      w'.log = ((firing w.obs Ev.onCreateEntity (.entity Mask.empty)).reverse.flatMap
            fun l => notifyFlat rec l (w.pool.get).2 seen) ++ w.log ∧
      seen = w'.relog w.obs w.log ∧ seen.isLocked = w.isLocked ∧
      seen.alive (w.pool.get).2 = true ∧ compsOf seen (w.pool.get).2.id = some [] ∧
      (∀ j : Nat, j ≠ (w.pool.get).2.id → SameEnt w seen j) :=
  Ark.newEntity0_sees st hb hl hb0

theorem copyEntity_sees (st : Setting run S rec w fl) (hb : LogBlind rec)
    (hl : w.isLocked = false) {src : Ent} (he : Live w fl src)
    (hrows : ∀ t : Nat, (w.tbl t).len + 1 < 2 ^ 32) :
    ∃ seen w' : World,
      opCopyEntity run src w = .ok (w.pool.get).2 w' ∧
      w'.log = ((firing w.obs Ev.onCreateEntity (.entity (w.maskOf src))).reverse.flatMap
            fun l => notifyFlat rec l (w.pool.get).2 seen) ++ w.log ∧
      seen = w'.relog w.obs w.log ∧ seen.isLocked = w.isLocked ∧
      seen.alive (w.pool.get).2 = true ∧ seen.alive src = true ∧
      compsOf seen (w.pool.get).2.id = compsOf w src.id ∧
      (∀ c : Comp, valOf seen (w.pool.get).2.id c = valOf w src.id c) ∧
      (∀ j : Nat, j ≠ (w.pool.get).2.id → SameEnt w seen j) :=
  Ark.copyEntity_sees st hb hl he hrows

/-- `Set`: after the write, in the caller's lock state whatever it is -/
theorem set_sees (st : Setting run S rec w fl) (hb : LogBlind rec) {e : Ent} (he : Live w fl e)
    {ids : List Comp} (hhas : ∀ (c : Comp), c ∈ ids → (w.maskOf e).get c = true)
    (vals : List (Comp × Val)) :
    ∃ seen w' : World,
      opSet run e ids vals w = .ok () w' ∧
      w'.log = ((firing w.obs Ev.onSetComponents
          (.set (Mask.ofList ids) (w.maskOf e))).reverse.flatMap
            fun l => notifyFlat rec l e seen) ++ w.log ∧
      seen = w'.relog w.obs w.log ∧ seen.isLocked = w.isLocked ∧
      (∀ x : Ent, seen.alive x = w.alive x) ∧ compsOf seen e.id = compsOf w e.id ∧
      (∀ (c : Comp) (v : Val), valOf w e.id c = some v → valOf seen e.id c =
        some (if (w.kinds.getD c {}).zst = true then v else applyVals v vals c)) ∧
      (∀ j : Nat, j ≠ e.id → SameEnt w seen j) :=
  Ark.set_sees st hb he hhas vals

/-- custom events (`Event.Emit`): the callbacks run on the unchanged world itself, in the caller's
    lock state -/
theorem emit_sees (hro : ReadOnly run S rec) (hb : LogBlind rec) (hs : ScriptsIn w.obs S)
    (hok : ObsOK w.obs) (evt : Nat) (comps : List Comp) (e : Ent) (hevt : evt ≤ Ev.custom)
    (hent : if e.isZero then (Mask.ofList comps).isZero = true else w.alive e = true)
    (hcont : ((if e.isZero then (w.arch 0).mask else w.maskOf e).contains (Mask.ofList comps)) = true) :
    ∃ w' : World, opEmit run evt comps e w = .ok () w' ∧ w' = { w with log := w'.log } ∧
      w'.log = ((firing w.obs evt (.set (Mask.ofList comps)
          (if e.isZero then (w.arch 0).mask else w.maskOf e))).reverse.flatMap
            fun l => notifyFlat rec l e w) ++ w.log :=
  Ark.emit_sees hro hb hs hok evt comps e hevt hent hcont

/-! ### before the change, under the lock -/

theorem remove_sees (st : Setting run S rec w fl) (hb : LogBlind rec) (p : Path)
    (hl : w.isLocked = false) {e : Ent} (he : Live w fl e) {rem : List Comp} (hne : rem ≠ [])
    (hnd : rem.Nodup) (hpres : ∀ (c : Comp), c ∈ rem → (w.maskOf e).get c = true)
    (hfew : w.tables.length < maxU32) (hrows : ∀ t : Nat, (w.tbl t).len + 1 < 2 ^ 32)
    {l1 l2 : Lock} {b : Nat} (hL : LockCycle w.locks l1 b l2)
    {l1' l2' : Lock} {b' : Nat} (hL' : LockCycle l1 l1' b' l2') :
    ∃ seen w' : World,
      opRemove run p e rem w = .ok () w' ∧
      w'.log = ((firing w.obs Ev.onRemoveComponents
          (.remove (w.maskOf e) (rem.foldl Mask.clear (w.maskOf e)))).reverse.flatMap
            fun l => notifyFlat rec l e seen) ++ w.log ∧
      seen.obs = w.obs ∧ seen.isLocked = true ∧ CInvObs seen fl ∧
      (∀ x : Ent, seen.alive x = w.alive x) ∧ (∀ j : Nat, SameEnt w seen j) ∧
      seen.entities = w.entities ∧
      (∀ r : ProbeRunner, opNewEntity0 r seen = .panic .locked seen) ∧
      (∀ fo : FilterObj, fo.cache = none → (fo.typed = false ∨ fo.ids = []) →
        ∃ q visits, QueryExactOn seen fl fo (seen.withLocks l1') q visits (seen.withLocks l2')) :=
  Ark.remove_sees st hb p hl he hne hnd hpres hfew hrows hL hL'

theorem removeEntity_sees (st : Setting run S rec w fl) (hb : LogBlind rec)
    (hl : w.isLocked = false) {e : Ent} (he : Live w fl e)
    {l1 l2 : Lock} {b : Nat} (hL : LockCycle w.locks l1 b l2)
    {l1' l2' : Lock} {b' : Nat} (hL' : LockCycle l1 l1' b' l2') :
    ∃ w' : World,
      opRemoveEntity run e w = .ok () w' ∧
      w'.log = ((firing w.obs Ev.onRemoveEntity (.entity (w.maskOf e))).reverse.flatMap
            fun l => notifyFlat rec l e (w.withLocks l1)) ++ w.log ∧
      (w.withLocks l1).isLocked = true ∧ CInvObs (w.withLocks l1) fl ∧
      (w.withLocks l1).alive e = true ∧ (∀ j : Nat, SameEnt w (w.withLocks l1) j) ∧
      (∀ r : ProbeRunner, opNewEntity0 r (w.withLocks l1) = .panic .locked (w.withLocks l1)) ∧
      (∀ r : ProbeRunner, opRemoveEntity r e (w.withLocks l1) = .panic .locked (w.withLocks l1)) ∧
      (∀ fo : FilterObj, fo.cache = none → (fo.typed = false ∨ fo.ids = []) →
        ∃ q visits, QueryExactOn (w.withLocks l1) fl fo ((w.withLocks l1).withLocks l1') q visits
          ((w.withLocks l1).withLocks l2')) :=
  Ark.removeEntity_sees st hb hl he hL hL'

/-- `Exchange`: removal round before (locked), addition round after (unlocked again) -/
theorem exchange_sees (st : Setting run S rec w fl) (hb : LogBlind rec) (p : Path)
    (hl : w.isLocked = false) {e : Ent} (he : Live w fl e)
    {add rem : List Comp} (hne : ¬ (add = [] ∧ rem = [])) (hrnd : rem.Nodup)
    (hpres : ∀ (c : Comp), c ∈ rem → (w.maskOf e).get c = true) (hand : add.Nodup)
    (hreg : ∀ (c : Comp), c ∈ add → c < w.kinds.length)
    (hnew : ∀ (c : Comp), c ∈ add → (w.maskOf e).get c = false) (vals : List (Comp × Val))
    (hfew : w.tables.length < maxU32) (hrows : ∀ t : Nat, (w.tbl t).len + 1 < 2 ^ 32)
    {l1 l2 : Lock} {b : Nat} (hL : LockCycle w.locks l1 b l2)
    (hl2 : l2.isLocked = false) :
    ∃ seenB seenA w' : World,
      opExchange run p e add vals rem [] w = .ok () w' ∧
      w'.log =
        ((firingAddX w.obs p add (w.maskOf e)
            (add.foldl Mask.set (rem.foldl Mask.clear (w.maskOf e)))).reverse.flatMap
          fun l => notifyFlat rec l e seenA) ++
        (((firingX w rem (w.maskOf e)
            (add.foldl Mask.set (rem.foldl Mask.clear (w.maskOf e)))).reverse.flatMap
          fun l => notifyFlat rec l e seenB) ++ w.log) ∧
      seenB.obs = w.obs ∧ seenB.isLocked = true ∧ CInvObs seenB fl ∧
      (∀ x : Ent, seenB.alive x = w.alive x) ∧ (∀ j : Nat, SameEnt w seenB j) ∧
      (∀ r : ProbeRunner, opNewEntity0 r seenB = .panic .locked seenB) ∧
      seenA.obs = w.obs ∧ seenA.isLocked = false ∧ (∀ x : Ent, seenA.alive x = w.alive x) ∧
      compsOf seenA e.id =
        some ((add.foldl Mask.set (rem.foldl Mask.clear (w.maskOf e))).toList w.kinds.length) ∧
      (∀ c : Comp, c ∈ rem → valOf seenA e.id c = none) ∧
      (∀ c : Comp, c ∈ add → valOf seenA e.id c =
        some (if p = .unsafe_ ∨ (w.kinds.getD c {}).zst = true then 0 else applyVals 0 vals c)) ∧
      (∀ j : Nat, j ≠ e.id → SameEnt w seenA j) :=
  Ark.exchange_sees st hb p hl he hne hrnd hpres hand hreg hnew vals hfew hrows hL hl2

/-! ### "appears exactly once in any query" -/

/-- an exact visit list contains a live entity whose mask the filter matches exactly once, at the
    row the entity index records … -/
theorem exact_visits_once {w : World} {fl : List Nat} {f : Filter} {vs : List Visit}
    (h : ExactVisits w fl f vs) {i t r : Nat} (h2 : 2 ≤ i) (hnf : i ∉ fl)
    (hi : w.entities[i]? = some (t, r)) (ht : t ≠ maxU32)
    (hm : f.matchesMask (w.arch (w.tbl t).arch).mask = true) :
    occ vs i = 1 ∧ ∃ v ∈ vs, v.e.id = i ∧ v.table = t ∧ v.row = r :=
  Ark.ExactVisits.occ_one h h2 hnf hi ht hm

/-- … and an entity whose mask it does not match not at all -/
theorem exact_visits_none {w : World} {fl : List Nat} {f : Filter} {vs : List Visit}
    (h : ExactVisits w fl f vs) {i t r : Nat} (hi : w.entities[i]? = some (t, r))
    (hm : f.matchesMask (w.arch (w.tbl t).arch).mask = false) : occ vs i = 0 :=
  Ark.ExactVisits.occ_zero h hi hm

/-- on the world a removal callback sees the mask of an entity is its mask before the call -/
theorem seen_before_old_mask {w w1 : World} {fl : List Nat} (h : CInvObs w fl)
    (lk : Looked w.noObs fl w1) (l1 : Lock) {i t r : Nat} (hi : w.entities[i]? = some (t, r))
    (ht : t ≠ maxU32) :
    ((w1.reframe w.obs w.log l1).arch ((w1.reframe w.obs w.log l1).tbl t).arch).mask
      = (w.arch (w.tbl t).arch).mask := seen_before_mask h lk l1 hi ht

/-- **the `query` probe of the harness, run by a removal callback, counts the reported entity
    exactly once**: on the world `seen = w1.reframe w.obs w.log l1` a removal callback sees, for
    an unregistered untyped filter object under label `f` that matches the entity's mask before
    the operation, the probe records `q f total 1` and leaves `seen` unchanged but for the log and
    the lock's bit pool.  (`hrow`: the entity's row holds its handle — the generation is not part
    of `CInv`; it is part of `RowsLive` of Ark/Proofs/BatchRemove.lean.) -/
theorem query_probe_in_removal_callback {w w1 : World} {fl : List Nat} (h : CInvObs w fl)
    (lk : Looked w.noObs fl w1) {l1 l2 : Lock} {b : Nat} (hL : LockCycle w.locks l1 b l2)
    {l1' l2' : Lock} {b' : Nat} (hL' : LockCycle l1 l1' b' l2') (fuel l f : Nat) {e : Ent}
    {t r : Nat} (h2 : 2 ≤ e.id) (hnf : e.id ∉ fl) (hi : w.entities[e.id]? = some (t, r))
    (ht : t ≠ maxU32) (hrow : (w.tbl t).getEntity r = e)
    (hc : ((AL.find? w1.filters f).getD {}).cache = none)
    (hu : ((AL.find? w1.filters f).getD {}).typed = false ∨ ((AL.find? w1.filters f).getD {}).ids = [])
    (hm : ((AL.find? w1.filters f).getD {}).filter.matchesMask (w.arch (w.tbl t).arch).mask = true) :
    ∃ total : Nat,
      runProbe (fuel + 1) l e (.query f) (w1.reframe w.obs w.log l1)
        = .ok () (((w1.reframe w.obs w.log l1).withLocks l2').addLog [.q f total 1]) :=
  query_probe_seen_before h lk hL hL' fuel l f h2 hnf hi ht hrow hc hu hm

/-! ### the runner of the harness -/

/-- the runner of the harness (`World.probe`) restricted to `look` probes is read-only, log-blind
    and writes no `cb` records: what a `look` probe records (`lookRec`) is liveness of the
    reported entity, the lock state, its components with their values, its relation targets -/
theorem harness_runner :
    ReadOnly World.probe (· = Probe.look) lookRec ∧ LogBlind lookRec ∧ NoCb lookRec :=
  ⟨probe_readOnly, lookRec_logBlind, lookRec_noCb⟩

/-! ### non-vacuity: the demo world of C08World -/

section Demo
open Ark.Props.C08World

set_option synthInstance.maxSize 2048

/-- the `look` records of a log: (alive, locked, components with values), newest first -/
def looksOf (lg : List LogEv) : List (Bool × Bool × List (Comp × Val)) :=
  lg.filterMap fun ev => match ev with
    | .look a l cs _ => some (a, l, cs)
    | _ => none

def looksAfter {α : Type} (r : Res World α) : Option (List (Bool × Bool × List (Comp × Val))) :=
  match r with
  | .ok _ w' => some (looksOf w'.log)
  | .panic _ _ => none

/-- what the callbacks of the demo world observe (`⟨2,0⟩ : [0 ↦ 10]`, `⟨3,0⟩ : [0 ↦ 20, 1 ↦ 21]`):
    * `Add` of component 1 with value 5 through the typed path: both notified observers see the
      entity alive, the world unlocked, the NEW component with the value already written;
      through `Unsafe`: the new component still zero;
    * `Remove` of component 0 from `⟨3,0⟩`: alive, LOCKED, the component about to be removed still
      there with its value;
    * `RemoveEntity ⟨2,0⟩` (two observers): alive, locked, the old values. -/
example :
    looksAfter (opAdd World.probe .typed e2 [1] [(1, 5)] [] wObs)
      = some [(true, false, [(0, 10), (1, 5)]), (true, false, [(0, 10), (1, 5)])] ∧
    looksAfter (opAdd World.probe .unsafe_ e2 [1] [(1, 5)] [] wObs)
      = some [(true, false, [(0, 10), (1, 0)]), (true, false, [(0, 10), (1, 0)])] := by
  decide +kernel

example :
    looksAfter (opRemove World.probe .typed e3 [0] wObs)
      = some [(true, true, [(0, 20), (1, 21)])] ∧
    looksAfter (opRemoveEntity World.probe e2 wObs)
      = some [(true, true, [(0, 10)]), (true, true, [(0, 10)])] := by
  decide +kernel

/-- … and after the calls: the value is written (also through `Unsafe`), the component is gone,
    the entity is dead -/
example :
    (match opAdd World.probe .unsafe_ e2 [1] [(1, 5)] [] wObs with
     | .ok _ w' => valOf w' 2 1 | .panic _ _ => none) = some 5 ∧
    (match opRemove World.probe .typed e3 [0] wObs with
     | .ok _ w' => (valOf w' 3 0, valOf w' 3 1, w'.isLocked) | .panic _ _ => (none, none, true))
      = (none, some 21, false) ∧
    (match opRemoveEntity World.probe e2 wObs with
     | .ok _ w' => (w'.alive e2, w'.isLocked) | .panic _ _ => (true, true)) = (false, false) := by
  decide +kernel

/-- the theorem applied: `Remove` of component 0 from `⟨3,0⟩` on the demo world; a query opened by
    a callback nests its lock cycle (bit 1) inside the one of the operation (bit 0) -/
example : ∃ seen w' : World,
    opRemove World.probe .typed e3 [0] wObs = .ok () w' ∧
    seen.isLocked = true ∧ seen.alive e3 = true ∧ (∀ j : Nat, SameEnt wObs seen j) ∧
    (∀ fo : FilterObj, fo.cache = none → (fo.typed = false ∨ fo.ids = []) →
      ∃ q visits l1' l2', QueryExactOn seen [] fo (seen.withLocks l1') q visits (seen.withLocks l2')) := by
  obtain ⟨st, hb, _, he3, hl, _, hfew, hrows⟩ := demo_setting
  have hlocks : wObs.locks = {} := by decide +kernel
  obtain ⟨l1, b, l2, hL, _, _, l1', b', l2', hL', _⟩ :=
    lockCycle_of_invariant (w := wObs) (out := []) (flk := [])
      (by rw [hlocks]; exact Lock.linv_init) hl
  obtain ⟨seen, w', h1, _, _, h4, _, h6, h7, _, _, h10⟩ := remove_sees st hb .typed hl he3
    (rem := [0]) (by simp) (by simp) (by decide +kernel) hfew hrows hL hL'
  refine ⟨seen, w', h1, h4, ?_, h7, fun fo hc hu => ?_⟩
  · rw [h6]; exact he3.alive
  · obtain ⟨q, visits, Q⟩ := h10 fo hc hu
    exact ⟨q, visits, _, _, Q⟩

/-- a removal observer whose callback runs a query ("has component 0", `UnsafeFilter`, label 1) -/
def objsQ : AL ObsObj :=
  [ (1, { spec := { event := Ev.onRemoveEntity, script := [.query 1, .look] } }) ]

def wQ : World :=
  regAll [1] { s0.w with obs := { objs := objsQ },
                         filters := [(1, { filter := { mask := Mask.ofList [0] }, typed := false })] }

/-- the `query` records of a log: (filter label, total, occurrences of the reported entity) -/
def qsAfter {α : Type} (r : Res World α) : Option (List (Nat × Nat × Nat)) :=
  match r with
  | .ok _ w' => some (w'.log.filterMap fun ev => match ev with
      | .q f total occ => some (f, total, occ)
      | _ => none)
  | .panic _ _ => none

/-- inside the `OnRemoveEntity` callback for `⟨2,0⟩` the query still finds both entities with
    component 0, the reported one exactly once; the world is locked; afterwards it is unlocked
    again and the entity is gone -/
example :
    qsAfter (opRemoveEntity World.probe e2 wQ) = some [(1, 2, 1)] ∧
    looksAfter (opRemoveEntity World.probe e2 wQ) = some [(true, true, [(0, 10)])] ∧
    (match opRemoveEntity World.probe e2 wQ with
     | .ok _ w' => (w'.alive e2, w'.isLocked, w'.locks.locks) | .panic _ _ => (true, true, 1#64))
      = (false, false, 0#64) := by
  decide +kernel

end Demo

end Ark.Props.C09World
