/-
  C07 over histories — the world lock discipline with queries that stay open across other
  operations.

  "From the creation of a query until it is exhausted or explicitly closed […] each
  structure-changing operation panics without effect, while reads, writes through component
  pointers, Set, event emission and further queries keep working.  The world is unlocked again
  exactly when the last open query has finished or been closed; up to 64 queries may be open at
  once and closing a finished or closed query again is harmless."

  The machine (`Ark.Proofs.LockHistQ`): the operations of `Ark.Refine` (`reg | new p | new0 |
  add p | rem p | xchg p | set | del | copy | shrink | reset`, the non-relation, observer-free
  fragment) interleaved with `qopen q fo` (`q := fo.Query()` on an unregistered filter object,
  stored under the fresh name `q`), `qnext q` (`q.Next()`), `qclose q` (`q.Close()`) and
  `emit evt comps e` (`Event.Emit`).  `reachQ run cap rel ops` is the state reached from
  `NewWorld(cap, rel)`; its ghost component `openQ` lists the queries that were opened
  successfully, have not reported the end and have not been closed.  All statements are about
  every reachable state, for histories of any length below `2^32 - 2` (as `Refine.reach_hinv`).

  1. `locked_iff_open`, `open_iff_cursor`, `mask_exact`, `at_most_64`, `qopen_65th`,
     `qopen_below_64`;
  2. `structural_rejected_while_locked` (with the exact panic class `lockedClass`),
     `set_while_locked`, `reads_agree`, `emit_keeps_working`, `qnext_keeps_working`;
  3. `qnext_end_releases`, `qclose_releases`, `qclose_again_harmless`, `qnext_after_end_rejected`,
     `unlocked_iff_none_open`, `hinv_when_unlocked`, `continuation_is_refine`,
     `continuation_runs_refine`;
  (`set_while_locked` and `continuation_is_refine` describe one more step and therefore ask that
  the history with that step is still within the bound: `ops.length + 1 < 2^32 - 2`.)
  4. `cursor_frozen` (an open query's rows still to visit are a suffix of the rows `expected`
     right after `Query()`; the world is frozen in between), `frozen_while_open`.

  **Finding** (`lockedClass`): "panics `locked`" is not literally true for every structural
  call on a locked world — `Add`/`Remove` through `Unsafe`/`Map` and `Unsafe.Exchange` on a DEAD
  handle panic `deadEntity` (the liveness check precedes the lock check), and registering a new
  component type panics `registerLocked`, or `registryFull` when the registry is full.  In every
  case the world is returned unchanged.
-/
import Ark.Proofs.LockHistCursor

set_option autoImplicit false

namespace Ark.Props.C07Hist

open Ark World Refine LockHist Ark.Props.C01World

section Reach

variable (run : ProbeRunner) (cap rel : Nat) (ops : List OpQ) (hlen : ops.length < 2 ^ 32 - 2)
include hlen

/-- the inductive invariant holds at every reachable state -/
theorem reach_inv : ∃ (fl lfl : List Nat), HInvQ (reachQ run cap rel ops) fl lfl :=
  reachQ_inv run cap rel ops hlen

private theorem sizes (hlen1 : ops.length + 1 < 2 ^ 32 - 2) :
    (reachQ run cap rel ops).w.tables.length < maxU32 ∧
    (reachQ run cap rel ops).w.entities.length + 1 < 2 ^ 32 := by
  obtain ⟨b1, b2⟩ := reachQ_bounds run cap rel ops hlen
  simp only [maxU32]
  omega

/-! ### 1. locked iff a query is open; at most 64 -/

/-- **the world is locked iff some opened query has neither reported the end nor been closed** -/
theorem locked_iff_open :
    (reachQ run cap rel ops).w.isLocked = true ↔ (reachQ run cap rel ops).openQ ≠ [] := by
  obtain ⟨fl, lfl, H⟩ := reachQ_inv run cap rel ops hlen
  exact H.locked_iff

/-- the ghost list meets the model: `q` is open iff the query object the client holds under `q`
    is not closed (`Close` sets `table = -2`) -/
theorem open_iff_cursor (q : Nat) :
    q ∈ (reachQ run cap rel ops).openQ ↔
      ∃ (c : QueryObj), AL.find? (reachQ run cap rel ops).cursors q = some c ∧ -1 ≤ c.table := by
  obtain ⟨fl, lfl, H⟩ := reachQ_inv run cap rel ops hlen
  exact H.open_iff q

/-- the 64-bit mask holds exactly the lock bits of the open queries, which are pairwise distinct
    and below 64; no query is listed twice -/
theorem mask_exact :
    (∀ (b : Nat), (reachQ run cap rel ops).w.locks.locks.getLsbD b = true ↔
      b ∈ outstanding (reachQ run cap rel ops)) ∧
    (outstanding (reachQ run cap rel ops)).Nodup ∧
    (∀ (b : Nat), b ∈ outstanding (reachQ run cap rel ops) → b < 64) ∧
    (reachQ run cap rel ops).openQ.Nodup := by
  obtain ⟨fl, lfl, H⟩ := reachQ_inv run cap rel ops hlen
  refine ⟨H.linv.locks_iff, H.linv.out_nodup, ?_, H.openNodup⟩
  intro b hb
  have h1 := H.linv.out_lt b hb
  have h2 := H.linv.len64
  simp only at h1 h2
  omega

/-- at most 64 queries are open at once -/
theorem at_most_64 : (reachQ run cap rel ops).openQ.length ≤ 64 := by
  obtain ⟨fl, lfl, H⟩ := reachQ_inv run cap rel ops hlen
  exact H.open_le

/-- **the 65th `Query()` panics `outOfLocks` and changes nothing**: not the world (the panic
    happens inside `Lock()`, before anything is written), not the machine state -/
theorem qopen_65th (q : Nat) (fo : FilterObj)
    (h64 : (reachQ run cap rel ops).openQ.length = 64)
    (hg : guardQ (reachQ run cap rel ops) (.qopen q fo) = true) :
    qOpen fo [] (reachQ run cap rel ops).w = .panic .outOfLocks (reachQ run cap rel ops).w ∧
    stepQ run (reachQ run cap rel ops) (.qopen q fo) = reachQ run cap rel ops := by
  obtain ⟨fl, lfl, H⟩ := reachQ_inv run cap rel ops hlen
  rcases step_qopen run H q fo hg with ⟨_, h1, h2⟩ | ⟨hlt, _⟩
  · exact ⟨h1, h2⟩
  · omega

/-- **below 64 open queries `Query()` succeeds** — also on a locked world: it changes nothing but
    the lock, the query object gets a lock bit below 64 that no open query holds, the query is
    open and the world is locked -/
theorem qopen_below_64 (q : Nat) (fo : FilterObj)
    (hlt : (reachQ run cap rel ops).openQ.length < 64)
    (hg : guardQ (reachQ run cap rel ops) (.qopen q fo) = true) :
    ∃ (c : QueryObj) (l : Lock),
      qOpen fo [] (reachQ run cap rel ops).w = .ok c ((reachQ run cap rel ops).w.withLocks l) ∧
      c.lockBit < 64 ∧ c.lockBit ∉ outstanding (reachQ run cap rel ops) ∧ c.table = -1 ∧
      stepQ run (reachQ run cap rel ops) (.qopen q fo) =
        ⟨(reachQ run cap rel ops).base.withLocks l, AL.insert (reachQ run cap rel ops).cursors q c,
          q :: (reachQ run cap rel ops).openQ⟩ ∧
      outstanding (stepQ run (reachQ run cap rel ops) (.qopen q fo)) =
        c.lockBit :: outstanding (reachQ run cap rel ops) ∧
      (stepQ run (reachQ run cap rel ops) (.qopen q fo)).w.isLocked = true := by
  obtain ⟨fl, lfl, H⟩ := reachQ_inv run cap rel ops hlen
  rcases step_qopen run H q fo hg with ⟨h64, _⟩ | ⟨_, l, b, _, hb, hbn, hop, hstep, lfl', HI⟩
  · omega
  · have hqo : q ∉ (reachQ run cap rel ops).openQ := by
      intro h
      obtain ⟨c, hc', _⟩ := (H.open_iff q).mp h
      simp only [guardQ, Bool.and_eq_true, Option.isNone_iff_eq_none] at hg
      rw [hg.1] at hc'; cases hc'
    refine ⟨_, l, hop, hb, hbn, rfl, hstep, ?_, ?_⟩
    · rw [hstep]; exact outstanding_open _ _ _ _ hqo
    · rw [hstep]; exact HI.locked_iff.mpr (List.cons_ne_nil _ _)

/-! ### 2. while locked: structural operations are rejected, the rest keeps working -/

/-- **while the world is locked every structural operation** (`reg`, `new`, `new0`, `add`, `rem`,
    `xchg`, `del`, `copy`, `shrink`, `reset`) **panics and nothing changes**: the model returns
    exactly the world it was called on, and the machine state (world, specification, issued
    handles, query objects) is unchanged.  The panic class is `lockedClass`: `locked`, except
    `registerLocked`/`registryFull` for `reg` and `deadEntity` for `add`/`rem`/`xchg` through a
    path that checks liveness first on a dead handle. -/
theorem structural_rejected_while_locked (op : Op)
    (hl : (reachQ run cap rel ops).w.isLocked = true) (hs : op.structural = true) :
    exec run (reachQ run cap rel ops).w op =
      .panic (lockedClass (reachQ run cap rel ops).w op) (reachQ run cap rel ops).w ∧
    stepQ run (reachQ run cap rel ops) (.base op) = reachQ run cap rel ops := by
  obtain ⟨fl, lfl, H⟩ := reachQ_inv run cap rel ops hlen
  exact step_base_locked run H (H.locked_iff.mp hl) op hs

/-- **`Set` keeps working, locked or not, with its usual effect**: the step is the step of
    `Ark.Refine` (model `opSet` and specification `specStep` in lock step); a call whose
    precondition (the handle is alive and has the components) fails panics with the world
    unchanged, a call whose precondition holds succeeds; neither the lock nor the open queries
    change.  That the written values are then read back is `reads_agree` at the next state. -/
theorem set_while_locked (hlen1 : ops.length + 1 < 2 ^ 32 - 2) (e : Ent) (vals : Comps) :
    stepQ run (reachQ run cap rel ops) (.base (.set e vals)) =
      { reachQ run cap rel ops with
        base := Refine.step run (reachQ run cap rel ops).base (.set e vals) } ∧
    (guard (reachQ run cap rel ops).base (.set e vals) = true →
      ¬ pre (reachQ run cap rel ops).base.ss (.set e vals) →
      ∃ k, exec run (reachQ run cap rel ops).w (.set e vals) = .panic k (reachQ run cap rel ops).w) ∧
    (guard (reachQ run cap rel ops).base (.set e vals) = true →
      pre (reachQ run cap rel ops).base.ss (.set e vals) →
      ∃ r w', exec run (reachQ run cap rel ops).w (.set e vals) = .ok r w') ∧
    (stepQ run (reachQ run cap rel ops) (.base (.set e vals))).w.locks =
      (reachQ run cap rel ops).w.locks := by
  obtain ⟨fl, lfl, H⟩ := reachQ_inv run cap rel ops hlen
  obtain ⟨h1, G, h3, _⟩ := step_set run H (sizes run cap rel ops hlen hlen1).2 e vals
  refine ⟨h1, G.2.2.2.1, G.2.2.2.2.1, ?_⟩
  rw [h1]; exact h3

/-- **reads keep working** (`Alive`, `Ids`/`Has`, `Get` are not subject to the lock): at every
    reachable state, locked or not, every entity of the specification is alive, has exactly the
    specified components, and every component reads the specified value — in particular the
    value last written by `Set` while the world was locked -/
theorem reads_agree (e : Ent) (cs : Comps) (hm : (e, cs) ∈ (reachQ run cap rel ops).base.ss.ents) :
    (reachQ run cap rel ops).w.alive e = true ∧
    compsOf (reachQ run cap rel ops).w e.id =
      some (sortedIds (reachQ run cap rel ops).w.kinds.length (keys cs)) ∧
    ∀ cv ∈ cs, valOf (reachQ run cap rel ops).w e.id cv.1 = some cv.2 := by
  obtain ⟨fl, lfl, H⟩ := reachQ_inv run cap rel ops hlen
  have H0 : HInv ((reachQ run cap rel ops).base.withLocks {}) fl := (H.hinv.withLocks {}).toHInv rfl
  have ok := H.hinv.ok e cs hm
  exact ⟨(H0.live_facts hm).2.1, ok.comps, ok.vals⟩

/-- **event emission keeps working**: `Event.Emit` returns (the fragment has no observers) or
    rejects a predefined event type; nothing changes -/
theorem emit_keeps_working (evt : Nat) (comps : List Comp) (e : Ent) :
    (opEmit run evt comps e (reachQ run cap rel ops).w = .ok () (reachQ run cap rel ops).w ∨
      opEmit run evt comps e (reachQ run cap rel ops).w =
        .panic .emitPredefined (reachQ run cap rel ops).w) ∧
    stepQ run (reachQ run cap rel ops) (.emit evt comps e) = reachQ run cap rel ops := by
  obtain ⟨fl, lfl, H⟩ := reachQ_inv run cap rel ops hlen
  exact step_emit run H evt comps e

/-- **`Next` on an open query keeps working** — whatever else is open: it never panics; it
    either yields a row (`true`, the world unchanged, the query still open with its lock bit)
    or reports the end (`false`) -/
theorem qnext_keeps_working (q : Nat) (c : QueryObj)
    (hc : AL.find? (reachQ run cap rel ops).cursors q = some c)
    (hq : q ∈ (reachQ run cap rel ops).openQ) :
    (∃ (c' : QueryObj), qNext c (reachQ run cap rel ops).w = .ok (c', true) (reachQ run cap rel ops).w ∧
      c'.lockBit = c.lockBit ∧ 0 ≤ c'.table ∧
      (stepQ run (reachQ run cap rel ops) (.qnext q)).openQ = (reachQ run cap rel ops).openQ ∧
      (stepQ run (reachQ run cap rel ops) (.qnext q)).w = (reachQ run cap rel ops).w) ∨
    (∃ (c' : QueryObj) (w' : World), qNext c (reachQ run cap rel ops).w = .ok (c', false) w') := by
  obtain ⟨fl, lfl, H⟩ := reachQ_inv run cap rel ops hlen
  rcases step_qnext_open run H hc hq with ⟨c', _, _, hn, hs, hb, ht, _⟩ | ⟨c', l', _, _, hn, _⟩
  · exact Or.inl ⟨c', hn, hb, ht, by rw [hs], by rw [hs]; rfl⟩
  · exact Or.inr ⟨_, _, hn⟩

/-! ### 3. the lock is released exactly at the end -/

/-- **`Next` that reports the end closes the query and releases exactly its bit**: `Unlock` of
    the query's bit succeeds, nothing else in the world changes, the query object is closed,
    the query is no longer open, and the outstanding bits are the former ones without this bit.
    And `Next` reports the end only when no row is left to visit. -/
theorem qnext_end_releases (q : Nat) (c c' : QueryObj) (w' : World)
    (hc : AL.find? (reachQ run cap rel ops).cursors q = some c)
    (hq : q ∈ (reachQ run cap rel ops).openQ)
    (hn : qNext c (reachQ run cap rel ops).w = .ok (c', false) w') :
    ∃ (l' : Lock), (reachQ run cap rel ops).w.locks.unlock c.lockBit = some l' ∧
      w' = (reachQ run cap rel ops).w.withLocks l' ∧ c'.table = -2 ∧
      Drain.remaining (reachQ run cap rel ops).w c = some [] ∧
      (stepQ run (reachQ run cap rel ops) (.qnext q)).openQ = (reachQ run cap rel ops).openQ.erase q ∧
      q ∉ (stepQ run (reachQ run cap rel ops) (.qnext q)).openQ ∧
      outstanding (stepQ run (reachQ run cap rel ops) (.qnext q)) =
        (outstanding (reachQ run cap rel ops)).erase c.lockBit := by
  obtain ⟨fl, lfl, H⟩ := reachQ_inv run cap rel ops hlen
  rcases step_qnext_open run H hc hq with ⟨c1, _, _, hn1, _⟩ | ⟨c1, l', hr, hul, hn1, hs, HI⟩
  · rw [hn1] at hn; cases hn
  · rw [hn1] at hn
    injection hn with h1 h2
    injection h1 with h1 _
    subst h1; subst h2
    refine ⟨l', hul, rfl, rfl, hr, by rw [hs], ?_, ?_⟩
    · rw [hs]; exact List.Nodup.not_mem_erase H.openNodup
    · rw [hs]; exact H.outstanding_release _ hc hq _

/-- **`Close` of an open query releases exactly its bit** -/
theorem qclose_releases (q : Nat) (c : QueryObj)
    (hc : AL.find? (reachQ run cap rel ops).cursors q = some c)
    (hq : q ∈ (reachQ run cap rel ops).openQ) :
    ∃ (l' : Lock), (reachQ run cap rel ops).w.locks.unlock c.lockBit = some l' ∧
      qClose c (reachQ run cap rel ops).w =
        .ok (Drain.closed c) ((reachQ run cap rel ops).w.withLocks l') ∧
      (stepQ run (reachQ run cap rel ops) (.qclose q)).openQ = (reachQ run cap rel ops).openQ.erase q ∧
      q ∉ (stepQ run (reachQ run cap rel ops) (.qclose q)).openQ ∧
      outstanding (stepQ run (reachQ run cap rel ops) (.qclose q)) =
        (outstanding (reachQ run cap rel ops)).erase c.lockBit := by
  obtain ⟨fl, lfl, H⟩ := reachQ_inv run cap rel ops hlen
  obtain ⟨l', hul, hcl, hs, HI⟩ := step_qclose_open run H hc hq
  refine ⟨l', hul, hcl, by rw [hs], ?_, ?_⟩
  · rw [hs]; exact List.Nodup.not_mem_erase H.openNodup
  · rw [hs]; exact H.outstanding_release _ hc hq _

/-- **closing a finished or closed query again is harmless**: `Close` returns the query object
    as it is on the world as it is; the machine state is unchanged -/
theorem qclose_again_harmless (q : Nat) (c : QueryObj)
    (hc : AL.find? (reachQ run cap rel ops).cursors q = some c)
    (hq : q ∉ (reachQ run cap rel ops).openQ) :
    qClose c (reachQ run cap rel ops).w = .ok c (reachQ run cap rel ops).w ∧
    stepQ run (reachQ run cap rel ops) (.qclose q) = reachQ run cap rel ops := by
  obtain ⟨fl, lfl, H⟩ := reachQ_inv run cap rel ops hlen
  exact step_qclose_closed run H hc hq

/-- `Next` on a finished or closed query panics `queryDone` and changes nothing -/
theorem qnext_after_end_rejected (q : Nat) (c : QueryObj)
    (hc : AL.find? (reachQ run cap rel ops).cursors q = some c)
    (hq : q ∉ (reachQ run cap rel ops).openQ) :
    qNext c (reachQ run cap rel ops).w = .panic .queryDone (reachQ run cap rel ops).w ∧
    stepQ run (reachQ run cap rel ops) (.qnext q) = reachQ run cap rel ops := by
  obtain ⟨fl, lfl, H⟩ := reachQ_inv run cap rel ops hlen
  exact step_qnext_closed run H hc hq

/-- **the world is unlocked exactly when the last open query has finished or been closed** -/
theorem unlocked_iff_none_open :
    (reachQ run cap rel ops).w.isLocked = false ↔ (reachQ run cap rel ops).openQ = [] := by
  obtain ⟨fl, lfl, H⟩ := reachQ_inv run cap rel ops hlen
  exact H.unlocked_iff

/-- … **and then the invariant `Refine.HInv` of the history machine of `Ark.Refine` holds again**
    (with its field `unlocked`), so the whole theory of `Ark.Refine` applies to the continuation … -/
theorem hinv_when_unlocked (h0 : (reachQ run cap rel ops).openQ = []) :
    ∃ (fl : List Nat), HInv (reachQ run cap rel ops).base fl := by
  obtain ⟨fl, lfl, H⟩ := reachQ_inv run cap rel ops hlen
  exact ⟨fl, H.toHInv h0⟩

/-- … every operation of `Ark.Refine` is then a step of that machine again, with everything
    `Refine.StepGoal` says (accepted iff the specification's precondition holds, …) -/
theorem continuation_is_refine (hlen1 : ops.length + 1 < 2 ^ 32 - 2)
    (h0 : (reachQ run cap rel ops).openQ = []) (op : Op) :
    stepQ run (reachQ run cap rel ops) (.base op) =
      { reachQ run cap rel ops with base := Refine.step run (reachQ run cap rel ops).base op } ∧
    StepGoal run (reachQ run cap rel ops).base op := by
  obtain ⟨fl, lfl, H⟩ := reachQ_inv run cap rel ops hlen
  obtain ⟨h1, G, _⟩ := step_base_unlocked run H h0 (sizes run cap rel ops hlen hlen1).1
    (sizes run cap rel ops hlen hlen1).2 op
  exact ⟨h1, G⟩

omit hlen in
/-- … and a whole history of such operations is run by the machine of `Ark.Refine` (from its
    state `(reachQ …).base`, which satisfies `Refine.HInv` by `hinv_when_unlocked`) -/
theorem continuation_runs_refine (h0 : (reachQ run cap rel ops).openQ = []) (ops' : List Op) :
    reachQ run cap rel (ops ++ ops'.map .base) =
      { reachQ run cap rel ops with base := Refine.runOps run (reachQ run cap rel ops).base ops' } := by
  have : reachQ run cap rel (ops ++ ops'.map .base) =
      runQ run (reachQ run cap rel ops) (ops'.map .base) := by
    simp only [reachQ, runQ, List.foldl_append]
  rw [this]
  exact runQ_base_unlocked run ops' _ h0

/-! ### 4. the cursor sees a frozen world -/

/-- **while some query is open every step leaves frozen everything a query walks over**:
    archetypes, component index, entity index, entity pool, registry, and of every table the
    metadata, the length and the entity column (`Set` changes component values only) -/
theorem frozen_while_open (h1 : (reachQ run cap rel ops).openQ ≠ []) (op : OpQ) :
    Frozen (reachQ run cap rel ops).w (stepQ run (reachQ run cap rel ops) op).w := by
  obtain ⟨fl, lfl, H⟩ := reachQ_inv run cap rel ops hlen
  exact stepQ_frozen run H h1 op

/-- **`Next` yields the head of the rows still to visit**: when `Next` on an open query returns
    `true`, the query object points at the first of the rows it had to visit, and has the rest
    still to visit -/
theorem qnext_yields_head (q : Nat) (c c' : QueryObj) (w' : World)
    (hc : AL.find? (reachQ run cap rel ops).cursors q = some c)
    (hq : q ∈ (reachQ run cap rel ops).openQ)
    (hn : qNext c (reachQ run cap rel ops).w = .ok (c', true) w') :
    w' = (reachQ run cap rel ops).w ∧
    ∃ (rs : List (Nat × Nat)),
      Drain.remaining (reachQ run cap rel ops).w c = some ((c'.cur.getD 0, c'.index) :: rs) ∧
      Drain.remaining (reachQ run cap rel ops).w c' = some rs ∧
      qEntity (reachQ run cap rel ops).w c' =
        some (((reachQ run cap rel ops).w.tbl (c'.cur.getD 0)).getEntity c'.index) := by
  obtain ⟨fl, lfl, H⟩ := reachQ_inv run cap rel ops hlen
  rcases step_qnext_open run H hc hq with ⟨c1, r, rs, hn1, _, _, ht, hr, hcur, hidx, hrs, _⟩ |
      ⟨c1, l', _, _, hn1, _⟩
  · rw [hn1] at hn
    injection hn with h1 h2
    injection h1 with h1 _
    subst h1; subst h2
    refine ⟨rfl, rs, ?_, hrs, ?_⟩
    · rw [hr, hcur, hidx]; rfl
    · rw [Drain.qEntity_at _ _ r.1 ht hcur, hcur]; rfl
  · rw [hn1] at hn; cases hn

end Reach

/-- **the cursor sees a frozen world**: let `qopen q fo` be issued at a reachable state with fewer
    than 64 queries open, and let `q` still be open after the further history `ops2`.  Then the
    rows `q` still has to visit are a suffix of the rows `Drain.expected` — the rows of the tables
    the counting walk (`Count`) selects — computed in the world right after `Query()`; the world
    has been frozen since (no structural change: same archetypes, tables, rows, entities in the
    rows); and `q` holds the lock bit it was given. -/
theorem cursor_frozen (run : ProbeRunner) (cap rel : Nat) (ops1 ops2 : List OpQ) (q : Nat)
    (fo : FilterObj) (hlen : (ops1 ++ .qopen q fo :: ops2).length < 2 ^ 32 - 2)
    (hg : guardQ (reachQ run cap rel ops1) (.qopen q fo) = true)
    (hlt : (reachQ run cap rel ops1).openQ.length < 64)
    (hq : q ∈ (reachQ run cap rel (ops1 ++ .qopen q fo :: ops2)).openQ) :
    ∃ (c1 c2 : QueryObj) (pre rest : List (Nat × Nat)),
      AL.find? (reachQ run cap rel (ops1 ++ [.qopen q fo])).cursors q = some c1 ∧
      AL.find? (reachQ run cap rel (ops1 ++ .qopen q fo :: ops2)).cursors q = some c2 ∧
      c2.lockBit = c1.lockBit ∧
      Drain.expected (reachQ run cap rel (ops1 ++ [.qopen q fo])).w c1 = some (pre ++ rest) ∧
      Drain.remaining (reachQ run cap rel (ops1 ++ .qopen q fo :: ops2)).w c2 = some rest ∧
      Frozen (reachQ run cap rel (ops1 ++ [.qopen q fo])).w
        (reachQ run cap rel (ops1 ++ .qopen q fo :: ops2)).w := by
  simp only [List.length_append, List.length_cons] at hlen
  obtain ⟨fl, lfl, H⟩ := reachQ_inv run cap rel ops1 (by omega)
  obtain ⟨b1, b2⟩ := reachQ_bounds run cap rel ops1 (by omega)
  have e1 : reachQ run cap rel (ops1 ++ [.qopen q fo]) =
      stepQ run (reachQ run cap rel ops1) (.qopen q fo) := reachQ_snoc run cap rel ops1 _
  have e2 : reachQ run cap rel (ops1 ++ .qopen q fo :: ops2) =
      runQ run (stepQ run (reachQ run cap rel ops1) (.qopen q fo)) ops2 := by
    simp only [reachQ, runQ, List.foldl_append, List.foldl_cons]
  rw [e2] at hq ⊢
  rw [e1]
  exact opened_span run H q fo ops2 (by simp only [maxU32]; omega) (by omega) hg hlt hq

/-! ## Non-vacuity: concrete histories -/

def noProbe : ProbeRunner := fun _ _ _ => pure ()

/-- `Filter1[A]` with `A` = component 0 -/
def fA : FilterObj := { filter := { mask := Mask.ofList [0] }, ids := [0], typed := true }
/-- an `UnsafeFilter` that matches every entity -/
def fAll : FilterObj := { typed := false }

def panicOf {α : Type} : Res World α → Option PanicKind
  | .ok _ _ => none
  | .panic k _ => some k

/-- two component types; entities `2.0` with `{0}` and `3.0` with `{0,1}`; `4.0` created and
    removed (a dead handle).  Then: query 0 (`Filter1[A]`) is opened and advanced once, query 1
    (everything) is opened while query 0 is open; `NewEntity` and `Add` on the dead handle are
    rejected; `Set` works; an event is emitted; both queries are advanced; query 0 is exhausted
    (its second `Next` yields `3.0`, its third reports the end), query 1 is closed — twice —,
    query 0 is closed after its end; finally `NewEntity` is accepted again. -/
def demo : List OpQ :=
  [.base (.reg 8 false), .base (.reg 8 false),
   .base (.new .unsafe_ [0] [(0, 7)]), .base (.new .typed [0, 1] [(1, 9)]),
   .base .new0, .base (.del ⟨4, 0⟩),
   .qopen 0 fA, .qnext 0, .qopen 1 fAll,
   .base .new0,
   .base (.add .unsafe_ ⟨4, 0⟩ [1] []),
   .base (.set ⟨2, 0⟩ [(0, 5)]),
   .emit 100 [] ⟨2, 0⟩,
   .qnext 1, .qnext 0, .qnext 0,
   .qclose 1, .qclose 1, .qclose 0,
   .base .new0]

/-- the open queries, the lock flag and the 64-bit mask along the history: the world is locked
    from the first `Query()` (step 7) until the last open query is closed (step 17); query 0
    holds bit 0, query 1 bit 1; the end of query 0 (step 16) releases bit 0 only -/
example :
    ([6, 7, 9, 13, 15, 16, 17, 18, 19, 20].map fun n =>
      ((reachQ noProbe 4 1 (demo.take n)).openQ, (reachQ noProbe 4 1 (demo.take n)).w.isLocked,
        (reachQ noProbe 4 1 (demo.take n)).w.locks.locks.toNat)) =
    [([], false, 0), ([0], true, 1), ([1, 0], true, 3), ([1, 0], true, 3), ([1, 0], true, 3),
     ([1], true, 2), ([], false, 0), ([], false, 0), ([], false, 0), ([], false, 0)] := by
  decide +kernel

/-- the hypotheses of `qopen_below_64`, `structural_rejected_while_locked`, `qnext_keeps_working`,
    `qclose_releases`, `qclose_again_harmless`, `qnext_after_end_rejected` are satisfiable:
    the guards hold, the world is locked with two queries open, query 1 is open at step 16 and
    closed at step 17, query 0 has ended at step 16 -/
example :
    guardQ (reachQ noProbe 4 1 (demo.take 6)) (.qopen 0 fA) = true ∧
    guardQ (reachQ noProbe 4 1 (demo.take 8)) (.qopen 1 fAll) = true ∧
    (reachQ noProbe 4 1 (demo.take 9)).w.isLocked = true ∧
    (1 ∈ (reachQ noProbe 4 1 (demo.take 16)).openQ ∧
      ((AL.find? (reachQ noProbe 4 1 (demo.take 16)).cursors 1).map (·.table)) = some 0) ∧
    (1 ∉ (reachQ noProbe 4 1 (demo.take 17)).openQ ∧
      ((AL.find? (reachQ noProbe 4 1 (demo.take 17)).cursors 1).map (·.table)) = some (-2)) ∧
    (0 ∉ (reachQ noProbe 4 1 (demo.take 16)).openQ ∧
      ((AL.find? (reachQ noProbe 4 1 (demo.take 16)).cursors 0).map (·.table)) = some (-2)) := by
  decide +kernel

/-- with two queries open: `NewEntity` panics `locked`; `Add` on the dead handle `4.0` panics
    `deadEntity` through `Unsafe` and `locked` through `MapN`; a new component type panics
    `registerLocked`; `RemoveEntity`, `Shrink`, `Reset` panic `locked`.  Nothing changes: tables,
    entity index, pool, registry, lock, specification, issued handles. -/
example :
    [panicOf (exec noProbe (reachQ noProbe 4 1 (demo.take 9)).w .new0),
     panicOf (exec noProbe (reachQ noProbe 4 1 (demo.take 9)).w (.add .unsafe_ ⟨4, 0⟩ [1] [])),
     panicOf (exec noProbe (reachQ noProbe 4 1 (demo.take 9)).w (.add .typed ⟨4, 0⟩ [1] [])),
     panicOf (exec noProbe (reachQ noProbe 4 1 (demo.take 9)).w (.reg 8 false)),
     panicOf (exec noProbe (reachQ noProbe 4 1 (demo.take 9)).w (.del ⟨2, 0⟩)),
     panicOf (exec noProbe (reachQ noProbe 4 1 (demo.take 9)).w (.shrink false)),
     panicOf (exec noProbe (reachQ noProbe 4 1 (demo.take 9)).w .reset)] =
      [some .locked, some .deadEntity, some .locked, some .registerLocked, some .locked,
       some .locked, some .locked] ∧
    (reachQ noProbe 4 1 (demo.take 11)).w.tables = (reachQ noProbe 4 1 (demo.take 9)).w.tables ∧
    (reachQ noProbe 4 1 (demo.take 11)).w.entities = (reachQ noProbe 4 1 (demo.take 9)).w.entities ∧
    (reachQ noProbe 4 1 (demo.take 11)).w.pool = (reachQ noProbe 4 1 (demo.take 9)).w.pool ∧
    (reachQ noProbe 4 1 (demo.take 11)).w.kinds = (reachQ noProbe 4 1 (demo.take 9)).w.kinds ∧
    (reachQ noProbe 4 1 (demo.take 11)).w.locks = (reachQ noProbe 4 1 (demo.take 9)).w.locks ∧
    (reachQ noProbe 4 1 (demo.take 11)).base.ss.ents = (reachQ noProbe 4 1 (demo.take 9)).base.ss.ents ∧
    (reachQ noProbe 4 1 (demo.take 11)).base.issued = (reachQ noProbe 4 1 (demo.take 9)).base.issued := by
  decide +kernel

/-- `Set` on the locked world works: specification and model record the new value of component
    0 of `2.0`, the lock and the open queries are untouched; `Emit` changes nothing -/
example :
    (reachQ noProbe 4 1 (demo.take 11)).base.ss.ents = [(⟨3, 0⟩, [(0, 0), (1, 9)]), (⟨2, 0⟩, [(0, 7)])] ∧
    (reachQ noProbe 4 1 (demo.take 12)).base.ss.ents = [(⟨3, 0⟩, [(0, 0), (1, 9)]), (⟨2, 0⟩, [(0, 5)])] ∧
    valOf (reachQ noProbe 4 1 (demo.take 11)).w 2 0 = some 7 ∧
    valOf (reachQ noProbe 4 1 (demo.take 12)).w 2 0 = some 5 ∧
    (reachQ noProbe 4 1 (demo.take 12)).w.locks = (reachQ noProbe 4 1 (demo.take 11)).w.locks ∧
    (reachQ noProbe 4 1 (demo.take 12)).openQ = [1, 0] ∧
    panicOf (opEmit noProbe 100 [] ⟨2, 0⟩ (reachQ noProbe 4 1 (demo.take 12)).w) = none ∧
    (reachQ noProbe 4 1 (demo.take 13)).w.tables = (reachQ noProbe 4 1 (demo.take 12)).w.tables := by
  decide +kernel

/-- after both queries are closed `NewEntity` is accepted again: the recycled ID 4 comes back
    with generation 1 -/
example :
    (reachQ noProbe 4 1 demo).base.issued = [⟨4, 1⟩, ⟨4, 0⟩, ⟨3, 0⟩, ⟨2, 0⟩] ∧
    (reachQ noProbe 4 1 demo).w.alive ⟨4, 1⟩ = true ∧
    (reachQ noProbe 4 1 demo).w.isLocked = false ∧
    (reachQ noProbe 4 1 demo).base.ss.ents =
      [(⟨4, 1⟩, []), (⟨3, 0⟩, [(0, 0), (1, 9)]), (⟨2, 0⟩, [(0, 5)])] := by
  decide +kernel

/-- the cursor of query 1: right after `Query()` (step 9) it expects the rows `(1,0)` (entity
    `2.0`) and `(2,0)` (entity `3.0`); after the rejected calls, the `Set`, the `Emit` and one
    `Next` (step 14) the row `(2,0)` is left — a suffix (`cursor_frozen`) -/
example :
    Drain.expected (reachQ noProbe 4 1 (demo.take 9)).w
      ((AL.find? (reachQ noProbe 4 1 (demo.take 9)).cursors 1).getD default) = some [(1, 0), (2, 0)] ∧
    Drain.remaining (reachQ noProbe 4 1 (demo.take 14)).w
      ((AL.find? (reachQ noProbe 4 1 (demo.take 14)).cursors 1).getD default) = some [(2, 0)] ∧
    ((reachQ noProbe 4 1 (demo.take 14)).w.tbl 1).getEntity 0 = ⟨2, 0⟩ ∧
    ((reachQ noProbe 4 1 (demo.take 14)).w.tbl 2).getEntity 0 = ⟨3, 0⟩ := by
  decide +kernel

/-- the result flag of `Next` -/
def moreOf : Res World (QueryObj × Bool) → Option Bool
  | .ok (_, more) _ => some more
  | .panic _ _ => none

/-- the hypotheses of `qnext_yields_head`, `qnext_end_releases` and `cursor_frozen` are
    satisfiable: at step 14 `Next` on query 0 returns `true`, at step 15 it returns `false` (and
    query 0 is open before); query 1, opened at step 8 with one query open, is still open five
    steps later -/
example :
    moreOf (qNext ((AL.find? (reachQ noProbe 4 1 (demo.take 14)).cursors 0).getD default)
      (reachQ noProbe 4 1 (demo.take 14)).w) = some true ∧
    moreOf (qNext ((AL.find? (reachQ noProbe 4 1 (demo.take 15)).cursors 0).getD default)
      (reachQ noProbe 4 1 (demo.take 15)).w) = some false ∧
    0 ∈ (reachQ noProbe 4 1 (demo.take 15)).openQ ∧
    (reachQ noProbe 4 1 (demo.take 8)).openQ.length = 1 ∧
    1 ∈ (reachQ noProbe 4 1 (demo.take 8 ++ .qopen 1 fAll :: (demo.drop 9).take 5)).openQ := by
  decide +kernel

/-- 64 queries opened one after the other -/
def open64 : List OpQ := (List.range 64).map fun q => .qopen q fAll

/-- **64 queries are open at once, all 64 bits are set, and the 65th `Query()` panics
    `outOfLocks` without effect** (`qopen_65th`); closing one of them makes room again -/
example :
    (reachQ noProbe 4 1 open64).openQ.length = 64 ∧
    (reachQ noProbe 4 1 open64).w.locks.locks = BitVec.allOnes 64 ∧
    guardQ (reachQ noProbe 4 1 open64) (.qopen 64 fAll) = true ∧
    panicOf (qOpen fAll [] (reachQ noProbe 4 1 open64).w) = some .outOfLocks ∧
    (stepQ noProbe (reachQ noProbe 4 1 open64) (.qopen 64 fAll)).openQ = (reachQ noProbe 4 1 open64).openQ ∧
    (stepQ noProbe (reachQ noProbe 4 1 open64) (.qopen 64 fAll)).w.locks = (reachQ noProbe 4 1 open64).w.locks ∧
    (reachQ noProbe 4 1 (open64 ++ [.qclose 17, .qopen 64 fAll])).openQ.length = 64 ∧
    ((AL.find? (reachQ noProbe 4 1 (open64 ++ [.qclose 17, .qopen 64 fAll])).cursors 64).map (·.lockBit)) =
      some 17 := by
  decide +kernel

end Ark.Props.C07Hist
