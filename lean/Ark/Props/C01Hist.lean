/-
  Ark.Props.C01Hist — C01 over histories of ANY length, for the fragment of the API without
  components, relations and observers: `World.NewEntity()`, `World.RemoveEntity`, `Map.Set`.

  The history machine runs the model's own operations (`opNewEntity0`, `opRemoveEntity`, `opSet`)
  on an unlocked world and keeps ghost state: the handles returned so far (`issued`) and the
  handles created and not removed (`live`).  The theorems are proved by induction over an
  arbitrary operation list, bounded only by the explicit hypothesis that fewer than `2^32 − 1`
  operations are performed (table 0 stays below `2^32` rows):

  * `reach_winv`          the joint invariant `WInv` holds in every reachable world;
  * `alive_exact_world`   `Alive(h)` ⇔ `h` created and not removed, for every returned handle;
  * `count_world`         used entities = alive entities = Σ table sizes;
  * `handles_fresh_world` every `NewEntity()` returns a handle different from all earlier ones.

  Handles are opaque in the Go API (`Entity` has unexported fields), so a client can pass only
  handles it was given: `del`/`set` on a handle that was never returned is not a step of the
  machine.  `forged_alive` records why this matters: `Alive` compares generations only.
-/
import Ark.Proofs.WInv
import Ark.Proofs.PoolHistory

set_option autoImplicit false

namespace Ark.Props.C01Hist
open Ark Ark.World Ark.Props.C01World

/-- the operations of the fragment -/
inductive Op
  /-- `World.NewEntity()` -/
  | new
  /-- `World.RemoveEntity(e)` -/
  | del (e : Ent)
  /-- `Map.Set` / `MapN.Set` on `e` for the components `ids` with the values `vals` -/
  | set (e : Ent) (ids : List Comp) (vals : List (Comp × Val))
  deriving Repr

/-- world + ghost history -/
structure St where
  w : World
  /-- handles returned by `new`, newest first -/
  issued : List Ent
  /-- handles created and not removed -/
  live : List Ent

def St.init (cap rel : Nat) : St := ⟨World.init cap rel, [], []⟩

/-- One step: run the model operation.  A panic keeps the state the model reached (Go
    `recover`); that a rejected call leaves the world unchanged is a theorem (`step_del_dead`),
    not part of the definition. -/
def step (run : ProbeRunner) (s : St) : Op → St
  | .new =>
    match opNewEntity0 run s.w with
    | .ok e w' => ⟨w', e :: s.issued, e :: s.live⟩
    | .panic _ w' => ⟨w', s.issued, s.live⟩
  | .del e =>
    if e ∈ s.issued then
      match opRemoveEntity run e s.w with
      | .ok _ w' => ⟨w', s.issued, s.live.erase e⟩
      | .panic _ w' => ⟨w', s.issued, s.live⟩
    else s
  | .set e ids vals =>
    if e ∈ s.issued then ⟨(opSet run e ids vals s.w).state, s.issued, s.live⟩ else s

def run (pr : ProbeRunner) (s : St) (ops : List Op) : St := ops.foldl (step pr) s

/-- the state reached from `NewWorld(cap, rel)` by the history `ops` -/
def reach (pr : ProbeRunner) (cap rel : Nat) (ops : List Op) : St := run pr (St.init cap rel) ops

/-- the handle returned by a call, if it succeeded -/
def retOf {α : Type} : Res World α → Option α
  | .ok a _ => some a
  | .panic _ _ => none

/-- the pool with the ghost history, as in `Ark.Proofs.PoolHistory` -/
def St.ps (s : St) : Pool.PS := ⟨s.w.pool, s.issued, s.live⟩

/-- the inductive invariant of the history machine -/
structure HInv (s : St) (fl : List Nat) : Prop where
  winv : WInv s.w fl
  ginv : Pool.GInv s.ps fl
  unlocked : s.w.isLocked = false
  nodup : s.issued.Nodup
  /-- rows of table 0 = live handles -/
  rows : (s.w.tbl 0).len = s.live.length

theorem hinv_init (cap rel : Nat) : HInv (St.init cap rel) [] where
  winv := winv_init cap rel
  ginv := Pool.ginv_init
  unlocked := rfl
  nodup := List.nodup_nil
  rows := rfl

/-- an issued handle that tests alive is live: ID ≥ 2, not on the free list, in its slot -/
theorem HInv.live_of_alive {s : St} {fl : List Nat} (h : HInv s fl) {e : Ent}
    (hi : e ∈ s.issued) (ha : s.w.alive e = true) :
    e ∈ s.live ∧ 2 ≤ e.id ∧ e.id ∉ fl := by
  have hl := (Pool.alive_iff_live s.ps fl h.ginv e hi).mp ha
  obtain ⟨a, b, _⟩ := (h.ginv.live_iff e).mp hl
  exact ⟨hl, a, b⟩

/-! ### the steps -/

variable (pr : ProbeRunner)

/-- `new` on a state satisfying the invariant: the model call succeeds with the pool's handle,
    which was never returned before -/
theorem step_new {s : St} {fl : List Nat} (h : HInv s fl) (hb : s.live.length + 1 < 2 ^ 32) :
    ∃ w', opNewEntity0 pr s.w = .ok (s.w.pool.get).2 w' ∧
      step pr s .new = ⟨w', (s.w.pool.get).2 :: s.issued, (s.w.pool.get).2 :: s.live⟩ ∧
      (s.w.pool.get).2 ∉ s.issued ∧ HInv (step pr s .new) fl.tail := by
  obtain ⟨w', hok, post⟩ := newEntity0_spec_partial pr h.winv h.unlocked (by rw [h.rows]; exact hb)
  have hstep : step pr s .new = ⟨w', (s.w.pool.get).2 :: s.issued, (s.w.pool.get).2 :: s.live⟩ := by
    simp only [step, hok]
  have g := Pool.get_spec s.w.pool fl h.winv.pool
  -- freshness w.r.t. everything returned before
  have hfresh : (s.w.pool.get).2 ∉ s.issued := by
    intro hm
    obtain ⟨_, sl, hsl, hle, hlt⟩ := h.ginv.issued_bound _ hm
    have hsl' : s.w.pool.ents[(s.w.pool.get).2.id]? = some sl := hsl
    rcases g.cases with ⟨a, _, _⟩ | ⟨_, b, sl', hsl'', hgen⟩
    · rw [a, List.getElem?_eq_none (Nat.le_refl _)] at hsl'; cases hsl'
    · have hmem : (s.w.pool.get).2.id ∈ fl := by rw [b]; exact List.mem_cons_self
      have := hlt hmem
      rw [hsl''] at hsl'
      have : sl' = sl := Option.some.inj hsl'
      subst this
      omega
  refine ⟨w', hok, hstep, hfresh, ?_⟩
  rw [hstep]
  obtain ⟨fl1, g1⟩ := Pool.step_inv s.ps fl h.ginv .get
  have hps : s.ps.step .get =
      (⟨w', (s.w.pool.get).2 :: s.issued, (s.w.pool.get).2 :: s.live⟩ : St).ps := by
    show (⟨s.w.pool.get.1, _, _⟩ : Pool.PS) = ⟨w'.pool, _, _⟩
    rw [post.pool]; rfl
  rw [hps] at g1
  have hfl : fl1 = fl.tail := g1.pinv.unique post.winv.pool
  subst hfl
  exact
    { winv := post.winv
      ginv := g1
      unlocked := post.unlocked
      nodup := List.nodup_cons.mpr ⟨hfresh, h.nodup⟩
      rows := by
        show (w'.tbl 0).len = s.live.length + 1
        rw [post.tabLen, h.rows] }

/-- `del` of an issued handle that tests alive -/
theorem step_del_alive {s : St} {fl : List Nat} (h : HInv s fl) {e : Ent} (hi : e ∈ s.issued)
    (ha : s.w.alive e = true) :
    ∃ w', opRemoveEntity pr e s.w = .ok () w' ∧
      step pr s (.del e) = ⟨w', s.issued, s.live.erase e⟩ ∧ HInv (step pr s (.del e)) (e.id :: fl) := by
  obtain ⟨hl, h2, hnf⟩ := h.live_of_alive hi ha
  obtain ⟨w', hok, post⟩ := removeEntity_spec_partial pr h.winv h.unlocked e h2 hnf ha
  have hstep : step pr s (.del e) = ⟨w', s.issued, s.live.erase e⟩ := by
    simp only [step, hi, if_true, hok]
  refine ⟨w', hok, hstep, ?_⟩
  rw [hstep]
  obtain ⟨fl1, g1⟩ := Pool.step_inv s.ps fl h.ginv (.recycle e)
  have hps : s.ps.step (.recycle e) = (⟨w', s.issued, s.live.erase e⟩ : St).ps := by
    have hc : e ∈ s.ps.issued ∧ s.ps.p.alive e = true := ⟨hi, ha⟩
    simp only [Pool.PS.step, hc, and_self, if_true]
    show (⟨s.w.pool.recycle e, _, _⟩ : Pool.PS) = ⟨w'.pool, _, _⟩
    rw [post.pool]; rfl
  rw [hps] at g1
  have hfl : fl1 = e.id :: fl := g1.pinv.unique post.winv.pool
  subst hfl
  exact
    { winv := post.winv
      ginv := g1
      unlocked := post.unlocked
      nodup := h.nodup
      rows := by
        show (w'.tbl 0).len = (s.live.erase e).length
        have := post.tabLen
        have hpos : 0 < s.live.length := List.length_pos_of_mem hl
        rw [List.length_erase_of_mem hl, ← h.rows]
        omega }

/-- **invalid `del`**: removing a dead handle is the rejected panic and leaves world and ghost
    state unchanged -/
theorem step_del_dead {s : St} (hl : s.w.isLocked = false) {e : Ent}
    (hd : s.w.alive e = false) :
    opRemoveEntity pr e s.w = .panic .deadEntity s.w ∧ step pr s (.del e) = s := by
  have hp := opRemoveEntity_dead pr s.w hl e hd
  refine ⟨hp, ?_⟩
  simp only [step, hp]
  split <;> rfl

/-- `set` never changes the ghost state and keeps the invariant -/
theorem step_set {s : St} {fl : List Nat} (h : HInv s fl) (e : Ent) (ids : List Comp)
    (vals : List (Comp × Val)) :
    (step pr s (.set e ids vals)).issued = s.issued ∧ (step pr s (.set e ids vals)).live = s.live ∧
    HInv (step pr s (.set e ids vals)) fl := by
  by_cases hi : e ∈ s.issued
  · have hstep : step pr s (.set e ids vals) = ⟨(opSet pr e ids vals s.w).state, s.issued, s.live⟩ := by
      simp only [step, hi, if_true]
    rw [hstep]
    refine ⟨rfl, rfl, ?_⟩
    cases ha : s.w.alive e with
    | false =>
      rw [World.opSet_dead pr s.w e ha ids vals]
      exact h
    | true =>
      obtain ⟨_, h2, hnf⟩ := h.live_of_alive hi ha
      cases ids with
      | cons c ids =>
        rw [opSet_missing_frag pr h.winv e h2 hnf ha c ids vals]
        exact h
      | nil =>
        rw [opSet_eq pr s.w e [] vals ha rfl (h.winv.noObs _)]
        obtain ⟨hw, hlk, _⟩ := writeVals_winv h.winv e h2 hnf ha vals
        exact
          { winv := hw
            ginv := h.ginv
            unlocked := hlk.trans h.unlocked
            nodup := h.nodup
            rows := (writeVals_rows h.winv e h2 hnf ha vals).trans h.rows }
  · have hstep : step pr s (.set e ids vals) = s := by simp only [step, hi, if_false]
    rw [hstep]; exact ⟨rfl, rfl, h⟩

/-- every step keeps the invariant (for some free list) and creates at most one entity -/
theorem step_inv {s : St} {fl : List Nat} (h : HInv s fl) (hb : s.live.length + 1 < 2 ^ 32)
    (op : Op) :
    (∃ fl', HInv (step pr s op) fl') ∧ (step pr s op).live.length ≤ s.live.length + 1 := by
  cases op with
  | new =>
    obtain ⟨w', _, hstep, _, hinv⟩ := step_new pr h hb
    exact ⟨⟨_, hinv⟩, by rw [hstep]; exact Nat.le_refl _⟩
  | del e =>
    by_cases hi : e ∈ s.issued
    · cases ha : s.w.alive e with
      | true =>
        obtain ⟨w', _, hstep, hinv⟩ := step_del_alive pr h hi ha
        refine ⟨⟨_, hinv⟩, ?_⟩
        rw [hstep]
        exact Nat.le_trans (List.length_erase_le ..) (Nat.le_succ _)
      | false =>
        rw [(step_del_dead pr h.unlocked ha).2]
        exact ⟨⟨_, h⟩, Nat.le_succ _⟩
    · have : step pr s (.del e) = s := by simp only [step, hi, if_false]
      rw [this]; exact ⟨⟨_, h⟩, Nat.le_succ _⟩
  | set e ids vals =>
    obtain ⟨_, hl, hinv⟩ := step_set pr h e ids vals
    exact ⟨⟨_, hinv⟩, by rw [hl]; exact Nat.le_succ _⟩

/-- the invariant holds after every history that stays within the size bound -/
theorem run_inv (ops : List Op) : ∀ (s : St) (fl : List Nat), HInv s fl →
    s.live.length + ops.length < 2 ^ 32 → ∃ fl', HInv (run pr s ops) fl' := by
  induction ops with
  | nil => intro s fl h _; exact ⟨fl, h⟩
  | cons op ops ih =>
    intro s fl h hb
    simp only [List.length_cons] at hb
    obtain ⟨⟨fl1, h1⟩, hlen⟩ := step_inv pr h (by omega) op
    exact ih _ fl1 h1 (by omega)

variable (cap rel : Nat)

theorem reach_hinv (ops : List Op) (hlen : ops.length < 2 ^ 32 - 1) :
    ∃ fl, HInv (reach pr cap rel ops) fl :=
  run_inv pr ops _ [] (hinv_init cap rel) (by
    show 0 + ops.length < 2 ^ 32
    omega)

/-! ### the property theorems -/

/-- **reach_winv** — the joint world invariant holds after every history -/
theorem reach_winv (ops : List Op) (hlen : ops.length < 2 ^ 32 - 1) :
    ∃ fl, WInv (reach pr cap rel ops).w fl := by
  obtain ⟨fl, h⟩ := reach_hinv pr cap rel ops hlen
  exact ⟨fl, h.winv⟩

/-- **alive_exact_world** — for every handle returned by a `new` of the history, `Alive` holds
    iff the handle was created and not removed since -/
theorem alive_exact_world (ops : List Op) (hlen : ops.length < 2 ^ 32 - 1) (h : Ent)
    (hi : h ∈ (reach pr cap rel ops).issued) :
    (reach pr cap rel ops).w.alive h = true ↔ h ∈ (reach pr cap rel ops).live := by
  obtain ⟨fl, hinv⟩ := reach_hinv pr cap rel ops hlen
  exact Pool.alive_iff_live _ fl hinv.ginv h hi

/-- the ghost `live` list is duplicate free and consists of returned handles -/
theorem live_nodup_sub (ops : List Op) (hlen : ops.length < 2 ^ 32 - 1) :
    (reach pr cap rel ops).live.Nodup ∧
    ∀ h ∈ (reach pr cap rel ops).live, h ∈ (reach pr cap rel ops).issued := by
  obtain ⟨fl, hinv⟩ := reach_hinv pr cap rel ops hlen
  exact ⟨hinv.ginv.live_nodup, hinv.ginv.live_issued⟩

/-- **count_world** — used entities (`pool.Len()`) = alive entities = rows of table 0 = sum of
    all table sizes -/
theorem count_world (ops : List Op) (hlen : ops.length < 2 ^ 32 - 1) :
    (reach pr cap rel ops).w.pool.len = (reach pr cap rel ops).live.length ∧
    ((reach pr cap rel ops).w.tbl 0).len = (reach pr cap rel ops).live.length ∧
    ((reach pr cap rel ops).w.tables.map (·.len)).sum = (reach pr cap rel ops).live.length := by
  obtain ⟨fl, hinv⟩ := reach_hinv pr cap rel ops hlen
  refine ⟨?_, hinv.rows, ?_⟩
  · have hc := hinv.ginv.count
    have ha := hinv.winv.pool.avail
    show (reach pr cap rel ops).w.pool.ents.length - Pool.reserved -
      (reach pr cap rel ops).w.pool.available = _
    have hc' : (reach pr cap rel ops).w.pool.ents.length =
        2 + (reach pr cap rel ops).live.length + fl.length := hc
    simp only [Pool.reserved]
    omega
  · obtain ⟨T, hT, _⟩ := hinv.winv.tab0
    have h0 : (reach pr cap rel ops).w.tbl 0 = T := tbl_of_get (by rw [hT]; rfl)
    rw [← hinv.rows, h0, hT]
    simp

/-- all handles returned so far are pairwise different -/
theorem issued_nodup (ops : List Op) (hlen : ops.length < 2 ^ 32 - 1) :
    (reach pr cap rel ops).issued.Nodup := by
  obtain ⟨fl, hinv⟩ := reach_hinv pr cap rel ops hlen
  exact hinv.nodup

/-- at most one handle is returned per operation -/
theorem issued_length_le (ops : List Op) : ∀ s : St,
    (run pr s ops).issued.length ≤ s.issued.length + ops.length := by
  induction ops with
  | nil => intro s; exact Nat.le_refl _
  | cons op ops ih =>
    intro s
    have hs : (step pr s op).issued.length ≤ s.issued.length + 1 := by
      cases op with
      | new => simp only [step]; split <;> simp
      | del e =>
        simp only [step]
        split
        · split <;> simp
        · simp
      | set e ids vals => simp only [step]; split <;> simp
    have := ih (step pr s op)
    simp only [run, List.foldl_cons, List.length_cons] at this ⊢
    omega

/-- **handles_fresh_world** — a `new` after any history succeeds and returns a handle different
    from all handles returned before; it is alive afterwards -/
theorem handles_fresh_world (ops : List Op) (hlen : ops.length + 1 < 2 ^ 32 - 1) :
    ∃ e w', opNewEntity0 pr (reach pr cap rel ops).w = .ok e w' ∧
      (reach pr cap rel (ops ++ [.new])).w = w' ∧
      (reach pr cap rel (ops ++ [.new])).issued = e :: (reach pr cap rel ops).issued ∧
      e ∉ (reach pr cap rel ops).issued ∧ w'.alive e = true := by
  obtain ⟨fl, hinv⟩ := reach_hinv pr cap rel ops (by omega)
  have hb : (reach pr cap rel ops).live.length + 1 < 2 ^ 32 := by
    have h1 : (reach pr cap rel ops).live.length ≤ (reach pr cap rel ops).issued.length :=
      List.Nodup.length_le_of_subset hinv.ginv.live_nodup hinv.ginv.live_issued
    have h2 : (reach pr cap rel ops).issued.length ≤ 0 + ops.length :=
      issued_length_le pr ops (St.init cap rel)
    omega
  obtain ⟨w', hok, hstep, hfresh, hinv'⟩ := step_new pr hinv hb
  have hreach : reach pr cap rel (ops ++ [.new]) = step pr (reach pr cap rel ops) .new := by
    simp only [reach, run, List.foldl_append, List.foldl_cons, List.foldl_nil]
  refine ⟨_, w', hok, by rw [hreach, hstep], by rw [hreach, hstep], hfresh, ?_⟩
  rw [hstep] at hinv'
  exact (Pool.alive_iff_live _ _ hinv'.ginv _ List.mem_cons_self).mpr List.mem_cons_self

/-! ### the callbacks are never consulted -/

theorem step_run_indep (pr' : ProbeRunner) {s : St} {fl : List Nat} (h : HInv s fl) (op : Op) :
    step pr s op = step pr' s op := by
  cases op with
  | new => simp only [step, newEntity0_run_indep pr pr' h.winv h.unlocked]
  | del e =>
    by_cases hi : e ∈ s.issued
    · have := removeEntity_run_indep pr pr' h.winv h.unlocked e
        (fun ha => (h.live_of_alive hi ha).2)
      simp only [step, this]
    · simp only [step, hi, if_false]
  | set e ids vals => simp only [step, opSet_run_indep pr pr' h.winv e ids vals]

theorem run_run_indep (pr' : ProbeRunner) (ops : List Op) : ∀ (s : St) (fl : List Nat),
    HInv s fl → s.live.length + ops.length < 2 ^ 32 → run pr s ops = run pr' s ops := by
  induction ops with
  | nil => intro s fl _ _; simp only [run, List.foldl_nil]
  | cons op ops ih =>
    intro s fl h hb
    simp only [List.length_cons] at hb
    obtain ⟨⟨fl1, h1⟩, hlen⟩ := step_inv pr h (by omega) op
    have := ih _ fl1 h1 (by omega)
    simp only [run, List.foldl_cons] at this ⊢
    rw [this, step_run_indep pr pr' h op]

/-- the reached state does not depend on the callback runner: no observer ever fires -/
theorem reach_run_indep (pr' : ProbeRunner) (ops : List Op) (hlen : ops.length < 2 ^ 32 - 1) :
    reach pr cap rel ops = reach pr' cap rel ops :=
  run_run_indep pr pr' ops _ [] (hinv_init cap rel) (by
    show 0 + ops.length < 2 ^ 32
    omega)

/-! ### `issued` is exactly the set of handles returned by the `new` calls of the history -/

theorem step_issued (s : St) (op : Op) (h : Ent) :
    h ∈ (step pr s op).issued ↔
      h ∈ s.issued ∨ (op = .new ∧ retOf (opNewEntity0 pr s.w) = some h) := by
  cases op with
  | new =>
    simp only [step]
    cases opNewEntity0 pr s.w with
    | ok e w' =>
      simp only [retOf, List.mem_cons, true_and, Option.some.injEq]
      constructor
      · rintro (h1 | h1)
        · exact Or.inr h1.symm
        · exact Or.inl h1
      · rintro (h1 | h1)
        · exact Or.inr h1
        · exact Or.inl h1.symm
    | panic k w' => simp [retOf]
  | del e =>
    have : (step pr s (.del e)).issued = s.issued := by
      simp only [step]
      split
      · split <;> rfl
      · rfl
    rw [this]; simp
  | set e ids vals =>
    have : (step pr s (.set e ids vals)).issued = s.issued := by
      simp only [step]; split <;> rfl
    rw [this]; simp

theorem run_issued (ops : List Op) : ∀ (s : St) (h : Ent),
    h ∈ (run pr s ops).issued ↔ h ∈ s.issued ∨
      ∃ ops1 ops2, ops = ops1 ++ .new :: ops2 ∧
        retOf (opNewEntity0 pr (run pr s ops1).w) = some h := by
  induction ops with
  | nil =>
    intro s h
    constructor
    · exact fun h1 => Or.inl h1
    · rintro (h1 | ⟨ops1, ops2, heq, _⟩)
      · exact h1
      · cases ops1 <;> cases heq
  | cons op ops ih =>
    intro s h
    have hrun : ∀ l, run pr s (op :: l) = run pr (step pr s op) l := fun _ => by
      simp only [run, List.foldl_cons]
    rw [hrun, ih, step_issued]
    constructor
    · rintro ((h1 | ⟨rfl, h2⟩) | ⟨ops1, ops2, rfl, h3⟩)
      · exact Or.inl h1
      · exact Or.inr ⟨[], ops, rfl, h2⟩
      · exact Or.inr ⟨op :: ops1, ops2, rfl, by rw [hrun]; exact h3⟩
    · rintro (h1 | ⟨ops1, ops2, heq, h3⟩)
      · exact Or.inl (Or.inl h1)
      · cases ops1 with
        | nil =>
          injection heq with h4 h5
          subst h4; subst h5
          exact Or.inl (Or.inr ⟨rfl, h3⟩)
        | cons o ops1 =>
          injection heq with h4 h5
          subst h4
          rw [hrun] at h3
          exact Or.inr ⟨ops1, ops2, h5, h3⟩

/-- a handle is in `issued` iff some `new` of the history returned it -/
theorem issued_iff_returned (ops : List Op) (h : Ent) :
    h ∈ (reach pr cap rel ops).issued ↔
      ∃ ops1 ops2, ops = ops1 ++ .new :: ops2 ∧
        retOf (opNewEntity0 pr (reach pr cap rel ops1).w) = some h := by
  have := run_issued pr ops (St.init cap rel) h
  constructor
  · intro hm
    rcases this.mp hm with h1 | h1
    · cases h1
    · exact h1
  · exact fun hh => this.mpr (Or.inr hh)

/-! ### non-vacuity: a concrete history with recycling -/

/-- create 3, delete the middle one, create 2 more (the first of them recycles ID 3) -/
def demoOps : List Op := [.new, .new, .new, .del ⟨3, 0⟩, .new, .new]

example :
    let s := reach noProbe 4 1 demoOps
    -- handles returned, newest first: 5.0, 3.1 (recycled), 4.0, 3.0, 2.0
    s.issued = [⟨5, 0⟩, ⟨3, 1⟩, ⟨4, 0⟩, ⟨3, 0⟩, ⟨2, 0⟩] ∧
    s.live = [⟨5, 0⟩, ⟨3, 1⟩, ⟨4, 0⟩, ⟨2, 0⟩] ∧
    -- the alive vector over all returned handles: only 3.0 is dead
    s.issued.map s.w.alive = [true, true, true, false, true] ∧
    -- the rows of table 0 (swap-remove moved 4.0 into row 1)
    ((s.w.tbl 0).ents.take (s.w.tbl 0).len) = [⟨2, 0⟩, ⟨4, 0⟩, ⟨3, 1⟩, ⟨5, 0⟩] ∧
    s.w.entities = [(maxU32, 0), (maxU32, 0), (0, 0), (0, 2), (0, 1), (0, 3)] ∧
    s.w.pool.len = 4 ∧ s.w.tables.length = 1 := by
  decide +kernel

/-- the state after `new; del 2.0`: slot 2 is on the free list with generation 1 -/
def forgedW : World := (reach noProbe 4 1 [.new, .del ⟨2, 0⟩]).w

/-- **Why the specifications are restricted to returned handles.**  `Alive` compares only the
    generation stored in the slot.  After `2.0` was removed, slot 2 is on the free list with
    the bumped generation 1, so the handle `2.1` — never returned by any call, and exactly the
    handle the next `NewEntity()` will return — already tests alive.  Hence `w.alive e = false`
    is not a valid freshness statement for `NewEntity()`, and `RemoveEntity`/`Alive` are exact
    only for handles the world has handed out. -/
theorem forged_alive :
    forgedW.alive ⟨2, 0⟩ = false ∧ forgedW.alive ⟨2, 1⟩ = true ∧
    (forgedW.pool.get).2 = ⟨2, 1⟩ ∧
    (⟨2, 1⟩ : Ent) ∉ (reach noProbe 4 1 [.new, .del ⟨2, 0⟩]).issued := by
  decide +kernel

/-- **Model-fidelity note (forged handles only).**  Removing the forged handle `2.1` is accepted
    by the model (`World.tbl` answers a default table for the index entry `maxU32`) and recycles
    the free slot a second time: the free list becomes the cycle `2 → 2` and the next two
    `NewEntity()` calls return the same handle `2.2`.  In Go the same call dies with a runtime
    panic at `s.tables[index.table]` (index `maxTableID` out of range) before any mutation.
    Both behaviours are outside the API contract; every theorem above is therefore stated for
    handles the world has returned. -/
theorem forged_remove_model :
    let w1 := (opRemoveEntity noProbe ⟨2, 1⟩ forgedW).state
    let r2 := opNewEntity0 noProbe w1
    let r3 := opNewEntity0 noProbe r2.state
    retOf (opRemoveEntity noProbe ⟨2, 1⟩ forgedW) = some () ∧
    retOf r2 = some ⟨2, 2⟩ ∧ retOf r3 = some ⟨2, 2⟩ ∧ (r3.state.tbl 0).len = 2 := by
  decide +kernel

end Ark.Props.C01Hist
