/-
  Ark.Props.C04Hist — C01 + C04 for the observer-free fragment WITH relation components, over
  histories of any length:

    C01  "after any sequence of valid operations every alive entity has exactly the set of
          components those operations imply, every component holds the value most recently
          written to it through any access path, and an operation on one entity never changes the
          components or values of any other entity."
    C04  "an entity's relation target is always the zero entity or an alive entity: it is the
          target last assigned, until that target is removed from the world, at which point it
          becomes the zero entity while the entity keeps all its components and values.  Removing
          targets …, and the reuse of per-target storage for other targets, never changes any
          other entity's targets or data and never fails for a valid call."

  The abstract specification (`Ark.RelRefine.Spec` = alive handle ↦ (component ↦ value, relation
  component ↦ target), registry with `zst` and `isRel` flags; `specStep`) and the history machine
  (`Ark.RelRefine.step`: the model operation and the specification step, in lock step from
  `World.init cap rel`) are defined in Ark/Proofs/RelRefine.lean, the inductive invariant
  (`HInv` = `TInv` ∧ pool ghost state ∧ every entry realised ∧ every specified target zero or
  specified) is proved in Ark/Proofs/RelRefineSteps.lean, totality of `NewEntity`/`Add` with
  relations in Ark/Proofs/RelTotal.lean, `Remove` with relations in Ark/Proofs/RelRemove.lean, the
  theorems below in Ark/Proofs/RelRefineHist.lean.
  The operations (`Ark.RelRefine.Op`, run by `Ark.RelRefine.exec`):

    reg size zst isRel     `registerComponent`
    new p ids vals rels    `opNewEntity p`     (any access path `p`: `Unsafe`, `Map`, `MapN`)
    add p e ids vals rels  `opAdd p`
    rem p e ids            `opRemove p`        (relation components or not)
    setrel p e rels        `opSetRelations p`  (typed paths: the mapper of the components named)
    set e vals             `opSet`
    del e                  `opRemoveEntity`    (also of a relation target: `cleanupArchetypes`)

  The specification step of `rem` drops the components named together with the relations on
  them; that of `del e` drops `e`'s entry AND sets to the zero entity every target equal to `e` in
  every other entry.

  Scope (what is a step of the machine, `Ark.RelRefine.guard`).  Handles are opaque and component
  IDs are obtained by registration: an operation on a handle no `new` returned, a target that is
  neither the zero entity nor such a handle, or adding an unregistered component ID, is not a
  step.  In addition the relation arguments of `new` / `add` must satisfy `RelsStep`: no relation
  component named twice, every relation component among `ids` named, and — through `Map[T]` only,
  whose pre-validation has no membership check in the model — each on a component among `ids`.
  This restriction is forced by FINDINGS (§ 7): the model creates the archetype before
  `createTable` notices a relation component named twice (refused with `relTwice` since the repair
  of defect D18 — finding 1 of `Props/C04World.lean` —; since the repair of defect D26 also by
  `GetTable`, without effect, when the archetype has an active table; § 7 (f)) or a missing
  relation, so that such a call is refused but — when the archetype is new or has no active
  table — NOT without effect.  (Until the repair of the `Unsafe` API the guard
  asked for the whole of `RelsWF` — also: each relation names a relation component among `ids` —,
  and through `Unsafe` for valid targets: `Unsafe` noticed those late, too.  Now the
  pre-validation of `Unsafe` and `MapN` refuses them without effect, § 7 (a), (c).)  Everything
  else is a step: a relation on a non-relation component, a relation on a component that is not
  added (`Unsafe`, `MapN`), dead handles, components present / absent, empty and duplicate lists, a full registry, and for
  `setrel` (any path) a relation component named twice (refused since the repair of defect D19,
  § 7 (e)), a relation component the entity lacks, a dead target; a dead target of `new` / `add`
  through ANY path (through `Unsafe` since the repair of its relation validation,
  `ToCheckedRelationIDsForUnsafe`; § 7 (a)) — the specification leaves its state unchanged and the
  model panics without effect (`rejected`).

  Bound: `ops.length < 2^16`.  `RemoveEntity` of a relation target may create one table per
  relation archetype (`RemovedRelPost.tablesLen`), every operation creates at most one relation
  archetype: after `n` operations there are at most `1 + n²` tables, and table IDs must fit
  `uint32` (`reach_bounds`).
-/
import Ark.Proofs.RelRefineHist

set_option autoImplicit false

namespace Ark.Props.C04Hist
open Ark Ark.World Ark.RelRefine Ark.Props.C01World
open Ark.Refine (Comps keys sortedIds writeComps zeros)

variable (run : ProbeRunner) (cap rel : Nat)

/-! ## 1. the invariant along histories, refinement -/

/-- the world-level invariant `TInv` of C04 (`Ark/Proofs/TargetsInv.lean`) holds after every
    history -/
theorem reach_tinv (ops : List Op) (hlen : ops.length < 2 ^ 16) :
    ∃ fl, TInv (reach run cap rel ops).w fl :=
  RelRefine.reach_tinv run cap rel ops hlen

/-- at most `1 + n²` tables, `n` relation archetypes and `2 + n` index slots after `n`
    operations -/
theorem reach_bounds (ops : List Op) (hlen : ops.length < 2 ^ 16) :
    (reach run cap rel ops).w.tables.length ≤ 1 + ops.length * ops.length ∧
    (reach run cap rel ops).w.relationArchetypes.length ≤ ops.length ∧
    (reach run cap rel ops).w.entities.length ≤ 2 + ops.length :=
  RelRefine.reach_bounds run cap rel ops hlen

/-- the specification's registry is the model's: zero-size flags and relation flags -/
theorem registry_agrees (ops : List Op) (hlen : ops.length < 2 ^ 16) :
    (reach run cap rel ops).ss.zst = (reach run cap rel ops).w.kinds.map (·.zst) ∧
    (reach run cap rel ops).ss.isRel = (reach run cap rel ops).w.kinds.map (·.isRel) :=
  RelRefine.registry_agrees run cap rel ops hlen

/-- **refines** — after every history, for every entry `(e, en)` of the specification: `e` is
    alive, its component set is the sorted list of the keys of `en.comps`, every component holds
    the recorded value, every relation component has the recorded target; the keys are distinct
    registered IDs and the recorded relations are exactly the relation components among them -/
theorem refines (ops : List Op) (hlen : ops.length < 2 ^ 16) (e : Ent) (en : Entry)
    (hm : (e, en) ∈ (reach run cap rel ops).ss.ents) :
    (reach run cap rel ops).w.alive e = true ∧
    compsOf (reach run cap rel ops).w e.id =
      some (sortedIds (reach run cap rel ops).w.kinds.length (keys en.comps)) ∧
    (∀ cv ∈ en.comps, valOf (reach run cap rel ops).w e.id cv.1 = some cv.2) ∧
    (∀ r ∈ en.rels, targetOf (reach run cap rel ops).w e.id r.comp = some r.target) ∧
    (keys en.comps).Nodup ∧ (∀ c ∈ keys en.comps, c < (reach run cap rel ops).w.kinds.length) ∧
    (en.rels.map (·.comp)).Nodup ∧
    (∀ c : Comp, c ∈ en.rels.map (·.comp) ↔
      c ∈ keys en.comps ∧ (reach run cap rel ops).w.isRelComp c = true) :=
  RelRefine.refines run cap rel ops hlen e en hm

/-- … a component that is not a key of the entry is absent, and a component for which the entry
    records no relation carries no target -/
theorem refines_absent (ops : List Op) (hlen : ops.length < 2 ^ 16) (e : Ent) (en : Entry)
    (hm : (e, en) ∈ (reach run cap rel ops).ss.ents) (c : Comp) :
    (c ∉ keys en.comps → valOf (reach run cap rel ops).w e.id c = none) ∧
    (c ∉ en.rels.map (·.comp) → targetOf (reach run cap rel ops).w e.id c = none) :=
  RelRefine.refines_absent run cap rel ops hlen e en hm c

/-- **exactly the alive entities are specified**: a handle returned by some `new` is alive iff
    the specification has an entry for it -/
theorem alive_iff_specified (ops : List Op) (hlen : ops.length < 2 ^ 16) (h : Ent)
    (hi : h ∈ (reach run cap rel ops).issued) :
    (reach run cap rel ops).w.alive h = true ↔ h ∈ (reach run cap rel ops).ss.ents.map (·.1) :=
  RelRefine.alive_iff_specified run cap rel ops hlen h hi

/-- the entries have pairwise different handles, all of them returned by some `new`, and no
    handle was returned twice -/
theorem spec_handles_nodup (ops : List Op) (hlen : ops.length < 2 ^ 16) :
    ((reach run cap rel ops).ss.ents.map (·.1)).Nodup ∧
    (∀ h ∈ (reach run cap rel ops).ss.ents.map (·.1), h ∈ (reach run cap rel ops).issued) ∧
    (reach run cap rel ops).issued.Nodup :=
  RelRefine.spec_handles_nodup run cap rel ops hlen

/-! ## 2. C04, first sentence: a target is the zero entity or an alive entity -/

/-- **targets_zero_or_alive** (specification): every target the specification records is the
    zero entity or has an entry itself (= is alive, by `refines`) -/
theorem targets_zero_or_alive (ops : List Op) (hlen : ops.length < 2 ^ 16) (e : Ent) (en : Entry)
    (hm : (e, en) ∈ (reach run cap rel ops).ss.ents) (r : RelID) (hr : r ∈ en.rels) :
    r.target.isZero = true ∨ r.target ∈ (reach run cap rel ops).ss.ents.map (·.1) :=
  RelRefine.targets_zero_or_alive run cap rel ops hlen e en hm r hr

/-- **targets_zero_or_alive** (model): every relation target read through the index, of any ID,
    is the zero entity or alive -/
theorem targets_zero_or_alive_world (ops : List Op) (hlen : ops.length < 2 ^ 16) (j : Nat)
    (c : Comp) (x : Ent) (ht : targetOf (reach run cap rel ops).w j c = some x) :
    x.isZero = true ∨ (reach run cap rel ops).w.alive x = true :=
  RelRefine.targets_zero_or_alive_world run cap rel ops hlen j c x ht

/-! ## 3. invalid operations are rejected without effect, valid ones never fail -/

/-- **rejected** — a step of the machine (`guard`) whose precondition (`pre`, a statement about
    the specification only) fails: the model panics with the world unchanged, and the whole
    machine state (world, returned handles, specification) is unchanged.  Includes: a dead
    target named by `setrel`, `new` or `add` through any path (`Unsafe` too, since the repair of
    its relation validation), and (since the repair of defect D19) a `setrel` naming one relation
    component twice. -/
theorem rejected (ops : List Op) (op : Op) (hlen : ops.length + 1 < 2 ^ 16)
    (hg : guard (reach run cap rel ops) op = true) (hnp : ¬ pre (reach run cap rel ops).ss op) :
    (∃ k, exec run (reach run cap rel ops).w op = .panic k (reach run cap rel ops).w) ∧
    (∀ fresh, specStep (reach run cap rel ops).ss fresh op = (reach run cap rel ops).ss) ∧
    reach run cap rel (ops ++ [op]) = reach run cap rel ops :=
  RelRefine.rejected run cap rel ops op hlen hg hnp

/-- **accepted** ("never fails for a valid call") — a step of the machine whose precondition
    holds succeeds: all seven operations, every access path; in particular `NewEntity` / `Add` /
    `Remove` with relations (`Ark/Proofs/RelTotal.lean`, `RelRemove.lean`) and `RemoveEntity` of a
    relation target -/
theorem accepted (ops : List Op) (op : Op) (hlen : ops.length + 1 < 2 ^ 16)
    (hg : guard (reach run cap rel ops) op = true) (hp : pre (reach run cap rel ops).ss op) :
    ∃ r w', exec run (reach run cap rel ops).w op = .ok r w' :=
  RelRefine.accepted run cap rel ops op hlen hg hp

/-- **a dead target is never accepted** — in every reachable state, through ANY path, whether
    or not the target is a handle the client was given: `NewEntity` with well-formed relation
    arguments naming a dead target does not return … -/
theorem dead_target_not_accepted_new (ops : List Op) (hlen : ops.length + 1 < 2 ^ 16) (p : Path)
    (ids : List Comp) (vals : Comps) (rels : Rels)
    (hreg : ∀ c ∈ ids, c < (reach run cap rel ops).ss.zst.length)
    (hwf : RelsWF (reach run cap rel ops).ss.isRel ids rels)
    (hd : ∃ r ∈ rels, r.target.isZero = false ∧ (reach run cap rel ops).w.alive r.target = false)
    (e : Ent) (w' : World) :
    opNewEntity run p ids vals rels (reach run cap rel ops).w ≠ .ok e w' :=
  RelRefine.dead_target_not_accepted_new run cap rel ops hlen p ids vals rels hreg hwf hd e w'

/-- … nor does `Add` on a specified entity … -/
theorem dead_target_not_accepted_add (ops : List Op) (hlen : ops.length + 1 < 2 ^ 16) (p : Path)
    (x : Ent) (en : Entry) (hm : (x, en) ∈ (reach run cap rel ops).ss.ents)
    (ids : List Comp) (vals : Comps) (rels : Rels)
    (hreg : ∀ c ∈ ids, c < (reach run cap rel ops).ss.zst.length)
    (hwf : RelsWF (reach run cap rel ops).ss.isRel ids rels)
    (hd : ∃ r ∈ rels, r.target.isZero = false ∧ (reach run cap rel ops).w.alive r.target = false)
    (w' : World) :
    opAdd run p x ids vals rels (reach run cap rel ops).w ≠ .ok () w' :=
  RelRefine.dead_target_not_accepted_add run cap rel ops hlen p x en hm ids vals rels hreg hwf hd w'

/-- … nor `SetRelations` (any mapper) on relation components the entity has -/
theorem dead_target_not_accepted_setrel (ops : List Op) (hlen : ops.length + 1 < 2 ^ 16) (p : Path)
    (x : Ent) (en : Entry) (hm : (x, en) ∈ (reach run cap rel ops).ss.ents)
    (mapperIds : List Comp) (rels : Rels) (hne : rels ≠ []) (hnd : (rels.map (·.comp)).Nodup)
    (hhas : ∀ r ∈ rels, r.comp ∈ en.rels.map (·.comp))
    (hd : ∃ r ∈ rels, r.target.isZero = false ∧ (reach run cap rel ops).w.alive r.target = false)
    (w' : World) :
    opSetRelations run p x mapperIds rels (reach run cap rel ops).w ≠ .ok () w' :=
  RelRefine.dead_target_not_accepted_setrel run cap rel ops hlen p x en hm mapperIds rels hne hnd
    hhas hd w'

/-! ## 4. C04: the target last assigned, until that target is removed -/

/-- **target_last_assigned (`new`)** — a valid `new p ids vals rels` returns a handle `e'` never
    returned before; the new entity is alive, has exactly the components `ids`, every component
    reads the last value written to it (zero if none; a zero-size component always zero), and
    every relation component has the target given -/
theorem new_assigns (ops : List Op) (p : Path) (ids : List Comp) (vals : Comps) (rels : Rels)
    (hlen : ops.length + 1 < 2 ^ 16)
    (hg : guard (reach run cap rel ops) (.new p ids vals rels) = true)
    (hp : NewOK (reach run cap rel ops).ss ids rels) :
    ∃ e' : Ent, e' ∉ (reach run cap rel ops).issued ∧
      (reach run cap rel (ops ++ [.new p ids vals rels])).issued = e' :: (reach run cap rel ops).issued ∧
      (reach run cap rel (ops ++ [.new p ids vals rels])).ss.ents =
        (e', ⟨writeComps (reach run cap rel ops).ss.zst vals (zeros ids), rels⟩) ::
          (reach run cap rel ops).ss.ents ∧
      (reach run cap rel (ops ++ [.new p ids vals rels])).w.alive e' = true ∧
      compsOf (reach run cap rel (ops ++ [.new p ids vals rels])).w e'.id =
        some (sortedIds (reach run cap rel (ops ++ [.new p ids vals rels])).w.kinds.length ids) ∧
      (∀ c ∈ ids, valOf (reach run cap rel (ops ++ [.new p ids vals rels])).w e'.id c =
        some (if (reach run cap rel ops).ss.zst.getD c false = true then 0
              else (lastVal vals c).getD 0)) ∧
      (∀ r ∈ rels, targetOf (reach run cap rel (ops ++ [.new p ids vals rels])).w e'.id r.comp =
        some r.target) :=
  RelRefine.new_assigns run cap rel ops p ids vals rels hlen hg hp

/-- **target_last_assigned (`add`)** — after a valid `add p e ids vals rels`: every relation
    component added has the target given, every relation component `e` had keeps its target; the
    component set is the old one with `ids`; an added component reads the last value written to
    it (zero if none), an old one the last value written to it, else its old value -/
theorem add_assigns (ops : List Op) (p : Path) (e : Ent) (ids : List Comp) (vals : Comps)
    (rels : Rels) (hlen : ops.length + 1 < 2 ^ 16) (en : Entry)
    (hm : (e, en) ∈ (reach run cap rel ops).ss.ents)
    (hg : guard (reach run cap rel ops) (.add p e ids vals rels) = true)
    (hp : AddOK (reach run cap rel ops).ss en ids rels) :
    (e, ⟨writeComps (reach run cap rel ops).ss.zst vals (en.comps ++ zeros ids), en.rels ++ rels⟩) ∈
      (reach run cap rel (ops ++ [.add p e ids vals rels])).ss.ents ∧
    (∀ r ∈ rels, targetOf (reach run cap rel (ops ++ [.add p e ids vals rels])).w e.id r.comp =
      some r.target) ∧
    (∀ r ∈ en.rels, targetOf (reach run cap rel (ops ++ [.add p e ids vals rels])).w e.id r.comp =
      some r.target) ∧
    compsOf (reach run cap rel (ops ++ [.add p e ids vals rels])).w e.id =
      some (sortedIds (reach run cap rel (ops ++ [.add p e ids vals rels])).w.kinds.length
        (keys en.comps ++ ids)) ∧
    (∀ c ∈ ids, valOf (reach run cap rel (ops ++ [.add p e ids vals rels])).w e.id c =
      some (if (reach run cap rel ops).ss.zst.getD c false = true then 0
            else (lastVal vals c).getD 0)) ∧
    (∀ (c : Comp) (v : Val), (c, v) ∈ en.comps →
      valOf (reach run cap rel (ops ++ [.add p e ids vals rels])).w e.id c =
        some (if (reach run cap rel ops).ss.zst.getD c false = true then v
              else (lastVal vals c).getD v)) :=
  RelRefine.add_assigns run cap rel ops p e ids vals rels hlen en hm hg hp

/-- **target_last_assigned (`setrel`)** — after a valid `setrel p e rels`: every relation
    component named has the target given, every other relation component of `e` keeps its target,
    and `e` keeps its component set and all its values -/
theorem setrel_assigns (ops : List Op) (p : Path) (e : Ent) (rels : Rels)
    (hlen : ops.length + 1 < 2 ^ 16) (en : Entry)
    (hm : (e, en) ∈ (reach run cap rel ops).ss.ents)
    (hg : guard (reach run cap rel ops) (.setrel p e rels) = true)
    (hp : SetRelOK (reach run cap rel ops).ss en rels) :
    (e, { en with rels := setRels en.rels rels }) ∈
      (reach run cap rel (ops ++ [.setrel p e rels])).ss.ents ∧
    (∀ r ∈ rels, targetOf (reach run cap rel (ops ++ [.setrel p e rels])).w e.id r.comp =
      some r.target) ∧
    (∀ r ∈ en.rels, (∀ r' ∈ rels, r'.comp ≠ r.comp) →
      targetOf (reach run cap rel (ops ++ [.setrel p e rels])).w e.id r.comp = some r.target) ∧
    compsOf (reach run cap rel (ops ++ [.setrel p e rels])).w e.id =
      compsOf (reach run cap rel ops).w e.id ∧
    (∀ c : Comp, valOf (reach run cap rel (ops ++ [.setrel p e rels])).w e.id c =
      valOf (reach run cap rel ops).w e.id c) :=
  RelRefine.setrel_assigns run cap rel ops p e rels hlen en hm hg hp

/-- **target_stays** — "… it is the target last assigned, until that target is removed": a target
    the specification records for `x` is still read after any operation that is not a `del`, not
    a `setrel` on `x` naming that relation component and not a `rem` on `x` removing it — whatever
    entity the operation is about (also `x` itself: `set`, `add`, `setrel` / `rem` of other
    components), valid or rejected -/
theorem target_stays (ops : List Op) (op : Op) (hlen : ops.length + 1 < 2 ^ 16) (x : Ent)
    (en : Entry) (hm : (x, en) ∈ (reach run cap rel ops).ss.ents) (r : RelID) (hr : r ∈ en.rels)
    (hd : op.isDel = false)
    (hs : ∀ p rels', op = .setrel p x rels' → ∀ r' ∈ rels', r'.comp ≠ r.comp)
    (hrm : ∀ p ids', op = .rem p x ids' → r.comp ∉ ids') :
    targetOf (reach run cap rel (ops ++ [op])).w x.id r.comp = some r.target :=
  RelRefine.target_stays run cap rel ops op hlen x en hm r hr hd hs hrm

/-- **del_detaches** — "… at which point it becomes the zero entity while the entity keeps all its
    components and values": after `del g` of a specified (= alive) entity — which never fails,
    `accepted` — `g` is dead and unspecified; every other specified entity keeps its component
    set and its values, and each of its targets reads the zero entity if it was `g` and is
    unchanged otherwise -/
theorem del_detaches (ops : List Op) (g : Ent) (hlen : ops.length + 1 < 2 ^ 16) (eng : Entry)
    (hg : (g, eng) ∈ (reach run cap rel ops).ss.ents) :
    (reach run cap rel (ops ++ [.del g])).w.alive g = false ∧
    find (reach run cap rel (ops ++ [.del g])).ss.ents g = none ∧
    ∀ (x : Ent) (en : Entry), (x, en) ∈ (reach run cap rel ops).ss.ents → x ≠ g →
      (x, en.detach g) ∈ (reach run cap rel (ops ++ [.del g])).ss.ents ∧
      compsOf (reach run cap rel (ops ++ [.del g])).w x.id =
        compsOf (reach run cap rel ops).w x.id ∧
      (∀ c : Comp, valOf (reach run cap rel (ops ++ [.del g])).w x.id c =
        valOf (reach run cap rel ops).w x.id c) ∧
      (∀ c : Comp, targetOf (reach run cap rel (ops ++ [.del g])).w x.id c =
        if targetOf (reach run cap rel ops).w x.id c = some g then some Ent.zero
        else targetOf (reach run cap rel ops).w x.id c) :=
  RelRefine.del_detaches run cap rel ops g hlen eng hg

/-! ## 5. C01: last write wins (`set`), frame -/

/-- **rem_effect** — after a valid `rem p e ids` (`ids` non-empty, distinct, all of them
    components of `e`; relation components or not): the removed components are gone, with their
    targets; every component that stays keeps its value and — a relation component — its target;
    the component set is the old one without `ids` -/
theorem rem_effect (ops : List Op) (p : Path) (e : Ent) (ids : List Comp)
    (hlen : ops.length + 1 < 2 ^ 16) (en : Entry)
    (hm : (e, en) ∈ (reach run cap rel ops).ss.ents)
    (hv : ids ≠ [] ∧ ids.Nodup ∧ ∀ c ∈ ids, c ∈ keys en.comps) :
    (∀ c ∈ ids, valOf (reach run cap rel (ops ++ [.rem p e ids])).w e.id c = none ∧
      targetOf (reach run cap rel (ops ++ [.rem p e ids])).w e.id c = none) ∧
    (∀ (c : Comp) (v : Val), (c, v) ∈ en.comps → c ∉ ids →
      valOf (reach run cap rel (ops ++ [.rem p e ids])).w e.id c = some v) ∧
    (∀ r ∈ en.rels, r.comp ∉ ids →
      targetOf (reach run cap rel (ops ++ [.rem p e ids])).w e.id r.comp = some r.target) ∧
    compsOf (reach run cap rel (ops ++ [.rem p e ids])).w e.id =
      some (sortedIds (reach run cap rel (ops ++ [.rem p e ids])).w.kinds.length
        (keys (en.comps.filter fun cv => decide (cv.1 ∉ ids)))) :=
  RelRefine.rem_effect run cap rel ops p e ids hlen en hm hv

/-- **set_writes** — after a valid `set e vals`: every component of `e` reads the LAST value
    `vals` gives it, its previous value if `vals` does not mention it (a zero-size component is not
    written); the component set and all targets of `e` are kept -/
theorem set_writes (ops : List Op) (e : Ent) (vals : Comps) (hlen : ops.length + 1 < 2 ^ 16)
    (en : Entry) (hm : (e, en) ∈ (reach run cap rel ops).ss.ents)
    (hv : ∀ cv ∈ vals, cv.1 ∈ keys en.comps) :
    (∀ (c : Comp) (v : Val), (c, v) ∈ en.comps →
      valOf (reach run cap rel (ops ++ [.set e vals])).w e.id c =
        some (if (reach run cap rel ops).ss.zst.getD c false = true then v
              else (lastVal vals c).getD v)) ∧
    compsOf (reach run cap rel (ops ++ [.set e vals])).w e.id =
      compsOf (reach run cap rel ops).w e.id ∧
    (∀ c : Comp, targetOf (reach run cap rel (ops ++ [.set e vals])).w e.id c =
      targetOf (reach run cap rel ops).w e.id c) :=
  RelRefine.set_writes run cap rel ops e vals hlen en hm hv

/-- **frame** (specification): the step for an operation on `e` other than `del` changes only
    `e`'s entry (`target`: the handle the operation names, the fresh handle for `new`) -/
theorem frame (ss : SS) (fresh : Ent) (op : Op) (x : Ent) (hd : op.isDel = false)
    (hx : target fresh op ≠ some x) : find (specStep ss fresh op).ents x = find ss.ents x :=
  specStep_frame ss fresh op x hd hx

/-- **frame** (specification, `del`): a valid `del g` changes every other entry by exactly
    `Entry.detach g` (targets `g` become the zero entity; components and values are kept) -/
theorem frame_del (ss : SS) (fresh : Ent) (g : Ent) {eng : Entry}
    (hg : find ss.ents g = some eng) (x : Ent) (hx : x ≠ g) :
    find (specStep ss fresh (.del g)).ents x = (find ss.ents x).map (Entry.detach g) :=
  specStep_del ss fresh g hg x hx

/-- **frame_world** — an operation other than `del` that does not name `x` (`subject`; `reg` and
    `new` name no existing entity): the specified entity `x` has the same component set, the same
    values and the same targets before and after.  For `del g` — the one operation that changes
    other entities, and exactly their targets that were `g` — see `del_detaches`. -/
theorem frame_world (ops : List Op) (op : Op) (hlen : ops.length + 1 < 2 ^ 16) (x : Ent)
    (en : Entry) (hm : (x, en) ∈ (reach run cap rel ops).ss.ents)
    (hd : op.isDel = false) (hx : subject op ≠ some x) :
    compsOf (reach run cap rel (ops ++ [op])).w x.id = compsOf (reach run cap rel ops).w x.id ∧
    (∀ c : Comp, valOf (reach run cap rel (ops ++ [op])).w x.id c =
      valOf (reach run cap rel ops).w x.id c) ∧
    (∀ c : Comp, targetOf (reach run cap rel (ops ++ [op])).w x.id c =
      targetOf (reach run cap rel ops).w x.id c) :=
  RelRefine.frame_world run cap rel ops op hlen x en hm hd hx

/-- **any access path** — a valid step gives the same result (world, returned handle) through
    `Unsafe…`, `Map…` and `MapN…` (`Op.withPath q` replaces the access path of `new`/`add`/
    `setrel`), it is a step through each of them, and the machine reaches the same state: all the
    theorems of this file hold whichever path each valid operation of a history takes.  (Rejected
    calls differ in the class of the panic only; see § 7 for calls that are not steps.) -/
theorem any_access_path (ops : List Op) (op : Op) (q : Path) (hlen : ops.length + 1 < 2 ^ 16)
    (hg : guard (reach run cap rel ops) op = true) (hp : pre (reach run cap rel ops).ss op) :
    guard (reach run cap rel ops) (op.withPath q) = true ∧
    exec run (reach run cap rel ops).w (op.withPath q) = exec run (reach run cap rel ops).w op ∧
    reach run cap rel (ops ++ [op.withPath q]) = reach run cap rel (ops ++ [op]) :=
  RelRefine.any_access_path run cap rel ops op q hlen hg hp

/-! ## 6. non-vacuity: a concrete history

Component 0 = `ChildOf` (a zero-size relation component), component 1 = `Pos`.  Two parents
`2.0`, `3.0`; children `4.0`, `5.0` of `2.0` and `6.0` of `3.0` (two relation tables); parent `2.0`
is removed — the children are detached and keep their values; a new parent `2.1` (it recycles ID
2) and a child `7.0` of it, whose table is the recycled table 1. -/

def p1 : Ent := ⟨2, 0⟩
def p2 : Ent := ⟨3, 0⟩
def p3 : Ent := ⟨2, 1⟩

def demoOps : List Op :=
  [.reg 0 true true, .reg 8 false false,
   .new .unsafe_ [] [] [], .new .unsafe_ [] [] [],
   .new .typed [0, 1] [(1, 7)] [⟨0, p1⟩],
   .new .typed [0, 1] [(1, 8)] [⟨0, p1⟩],
   .new .unsafe_ [0, 1] [(1, 9)] [⟨0, p2⟩],
   .del p1,
   .new .unsafe_ [] [] [],
   .new .map1 [0, 1] [(1, 5)] [⟨0, p3⟩]]

/-- the model agrees with the specification entry by entry (decidable form of `refines`) -/
def agrees (s : St) : Bool :=
  s.ss.ents.all fun x =>
    s.w.alive x.1 && (compsOf s.w x.1.id == some (sortedIds s.w.kinds.length (keys x.2.comps))) &&
      (x.2.comps.all fun cv => valOf s.w x.1.id cv.1 == some cv.2) &&
      (x.2.rels.all fun r => targetOf s.w x.1.id r.comp == some r.target)

/-- table id, archetype, rows, free?, per-column relation targets -/
def summary (w : World) : List (Nat × Nat × Nat × Bool × List Ent) :=
  w.tables.map fun T => (T.id, T.arch, T.len, T.isFree, T.targets)

/-- the panic class of a call, if it panicked -/
def panicOf {α : Type} : Res World α → Option PanicKind
  | .ok _ _ => none
  | .panic k _ => some k

/-- before the removal: the specification, the two relation tables -/
example :
    (reach noProbe 2 2 (demoOps.take 7)).ss.ents =
      [(⟨6, 0⟩, ⟨[(0, 0), (1, 9)], [⟨0, p2⟩]⟩), (⟨5, 0⟩, ⟨[(0, 0), (1, 8)], [⟨0, p1⟩]⟩),
       (⟨4, 0⟩, ⟨[(0, 0), (1, 7)], [⟨0, p1⟩]⟩), (p2, ⟨[], []⟩), (p1, ⟨[], []⟩)] ∧
    (reach noProbe 2 2 (demoOps.take 7)).ss.isRel = [true, false] ∧
    agrees (reach noProbe 2 2 (demoOps.take 7)) = true ∧
    summary (reach noProbe 2 2 (demoOps.take 7)).w =
      [(0, 0, 2, false, []), (1, 1, 2, false, [p1, Ent.zero]), (2, 1, 1, false, [p2, Ent.zero])] := by
  decide +kernel

/-- after `del p1`: the entry of `p1` is gone, the children 4 and 5 are detached (target zero) in
    the specification and in the model — they sit in the new table 3 and keep components and
    values; child 6 keeps its target; table 1 is free -/
example :
    (reach noProbe 2 2 (demoOps.take 8)).ss.ents =
      [(⟨6, 0⟩, ⟨[(0, 0), (1, 9)], [⟨0, p2⟩]⟩), (⟨5, 0⟩, ⟨[(0, 0), (1, 8)], [⟨0, Ent.zero⟩]⟩),
       (⟨4, 0⟩, ⟨[(0, 0), (1, 7)], [⟨0, Ent.zero⟩]⟩), (p2, ⟨[], []⟩)] ∧
    agrees (reach noProbe 2 2 (demoOps.take 8)) = true ∧
    (reach noProbe 2 2 (demoOps.take 8)).w.alive p1 = false ∧
    (targetOf (reach noProbe 2 2 (demoOps.take 8)).w 4 0,
      targetOf (reach noProbe 2 2 (demoOps.take 8)).w 5 0,
      targetOf (reach noProbe 2 2 (demoOps.take 8)).w 6 0) =
        (some Ent.zero, some Ent.zero, some p2) ∧
    (valOf (reach noProbe 2 2 (demoOps.take 8)).w 4 1, valOf (reach noProbe 2 2 (demoOps.take 8)).w 5 1,
      valOf (reach noProbe 2 2 (demoOps.take 8)).w 6 1) = (some 7, some 8, some 9) ∧
    summary (reach noProbe 2 2 (demoOps.take 8)).w =
      [(0, 0, 1, false, []), (1, 1, 0, true, [p1, Ent.zero]), (2, 1, 1, false, [p2, Ent.zero]),
       (3, 1, 2, false, [Ent.zero, Ent.zero])] := by
  decide +kernel

/-- the whole history: the new parent `2.1` recycles ID 2, its child 7 sits in the recycled
    table 1; nobody else's targets or values changed; the model agrees with the specification -/
example :
    (reach noProbe 2 2 demoOps).ss.ents =
      [(⟨7, 0⟩, ⟨[(0, 0), (1, 5)], [⟨0, p3⟩]⟩), (p3, ⟨[], []⟩),
       (⟨6, 0⟩, ⟨[(0, 0), (1, 9)], [⟨0, p2⟩]⟩), (⟨5, 0⟩, ⟨[(0, 0), (1, 8)], [⟨0, Ent.zero⟩]⟩),
       (⟨4, 0⟩, ⟨[(0, 0), (1, 7)], [⟨0, Ent.zero⟩]⟩), (p2, ⟨[], []⟩)] ∧
    (reach noProbe 2 2 demoOps).issued = [⟨7, 0⟩, p3, ⟨6, 0⟩, ⟨5, 0⟩, ⟨4, 0⟩, p2, p1] ∧
    agrees (reach noProbe 2 2 demoOps) = true ∧
    summary (reach noProbe 2 2 demoOps).w =
      [(0, 0, 2, false, []), (1, 1, 1, false, [p3, Ent.zero]), (2, 1, 1, false, [p2, Ent.zero]),
       (3, 1, 2, false, [Ent.zero, Ent.zero])] := by
  decide +kernel

/-- the hypotheses of the theorems are satisfiable in this history: the bound, the guard and the
    preconditions of `del p1`, of the last `new`, of a `setrel` and of an `add` with a relation -/
example :
    demoOps.length + 1 < 2 ^ 16 ∧
    guard (reach noProbe 2 2 (demoOps.take 7)) (.del p1) = true ∧
    (p1, ⟨[], []⟩) ∈ (reach noProbe 2 2 (demoOps.take 7)).ss.ents ∧
    guard (reach noProbe 2 2 (demoOps.take 9)) (.new .map1 [0, 1] [(1, 5)] [⟨0, p3⟩]) = true ∧
    NewOK (reach noProbe 2 2 (demoOps.take 9)).ss [0, 1] [⟨0, p3⟩] ∧
    guard (reach noProbe 2 2 demoOps) (.setrel .typed ⟨6, 0⟩ [⟨0, p3⟩]) = true ∧
    SetRelOK (reach noProbe 2 2 demoOps).ss ⟨[(0, 0), (1, 9)], [⟨0, p2⟩]⟩ [⟨0, p3⟩] ∧
    guard (reach noProbe 2 2 demoOps) (.add .unsafe_ p2 [0] [] [⟨0, p3⟩]) = true ∧
    AddOK (reach noProbe 2 2 demoOps).ss ⟨[], []⟩ [0] [⟨0, p3⟩] := by
  decide +kernel

/-- … and those of `rejected`, `rem_effect` and `dead_target_not_accepted_*`: in the final state
    `p1` is an issued, dead, non-zero handle; `setrel .typed 6.0 [ChildOf ↦ p1]` is a step whose
    precondition fails (the entry of `6.0` is the one shown, and `SetRelOK` fails for it); the
    relation list `[ChildOf ↦ p1]` is well-formed for `ids = [0]`; `rem 6.0 [0]` is valid -/
example :
    guard (reach noProbe 2 2 demoOps) (.setrel .typed ⟨6, 0⟩ [⟨0, p1⟩]) = true ∧
    find (reach noProbe 2 2 demoOps).ss.ents ⟨6, 0⟩ = some ⟨[(0, 0), (1, 9)], [⟨0, p2⟩]⟩ ∧
    ¬ SetRelOK (reach noProbe 2 2 demoOps).ss ⟨[(0, 0), (1, 9)], [⟨0, p2⟩]⟩ [⟨0, p1⟩] ∧
    RelsWF (reach noProbe 2 2 demoOps).ss.isRel [0] [⟨0, p1⟩] ∧
    (∃ r ∈ [(⟨0, p1⟩ : RelID)], r.target.isZero = false ∧
      (reach noProbe 2 2 demoOps).w.alive r.target = false) ∧
    p1 ∈ (reach noProbe 2 2 demoOps).issued ∧
    ([0] ≠ [] ∧ [0].Nodup ∧ ∀ c ∈ [0], c ∈ keys [((0 : Comp), (0 : Val)), (1, 9)]) := by
  decide +kernel

/-- `setrel` and `add` with a relation in the final state: child 6 is re-targeted to `2.1`; the
    parent `3.0` becomes a child of `2.1`; the model agrees with the specification -/
example :
    find (step noProbe (reach noProbe 2 2 demoOps) (.setrel .typed ⟨6, 0⟩ [⟨0, p3⟩])).ss.ents ⟨6, 0⟩ =
      some ⟨[(0, 0), (1, 9)], [⟨0, p3⟩]⟩ ∧
    agrees (step noProbe (reach noProbe 2 2 demoOps) (.setrel .typed ⟨6, 0⟩ [⟨0, p3⟩])) = true ∧
    find (step noProbe (reach noProbe 2 2 demoOps) (.add .unsafe_ p2 [0] [] [⟨0, p3⟩])).ss.ents p2 =
      some ⟨[(0, 0)], [⟨0, p3⟩]⟩ ∧
    agrees (step noProbe (reach noProbe 2 2 demoOps) (.add .unsafe_ p2 [0] [] [⟨0, p3⟩])) = true := by
  decide +kernel

/-- `rem` in the final state: removing the relation component from child 6 drops its target and
    keeps `Pos`; removing `Pos` from the detached child 4 keeps its (zero) target -/
example :
    find (step noProbe (reach noProbe 2 2 demoOps) (.rem .typed ⟨6, 0⟩ [0])).ss.ents ⟨6, 0⟩ =
      some ⟨[(1, 9)], []⟩ ∧
    agrees (step noProbe (reach noProbe 2 2 demoOps) (.rem .typed ⟨6, 0⟩ [0])) = true ∧
    (targetOf (step noProbe (reach noProbe 2 2 demoOps) (.rem .typed ⟨6, 0⟩ [0])).w 6 0,
      valOf (step noProbe (reach noProbe 2 2 demoOps) (.rem .typed ⟨6, 0⟩ [0])).w 6 1) =
      (none, some 9) ∧
    find (step noProbe (reach noProbe 2 2 demoOps) (.rem .unsafe_ ⟨4, 0⟩ [1])).ss.ents ⟨4, 0⟩ =
      some ⟨[(0, 0)], [⟨0, Ent.zero⟩]⟩ ∧
    agrees (step noProbe (reach noProbe 2 2 demoOps) (.rem .unsafe_ ⟨4, 0⟩ [1])) = true := by
  decide +kernel

/-- rejected steps in the final state (`p1` is dead): a dead target (`setrel`, `new`, `add`; for
    `Unsafe` see § 7 (a)), a dead entity, a relation component the entity lacks — the machine
    state does not move and the world comes back unchanged -/
example :
    guard (reach noProbe 2 2 demoOps) (.setrel .typed ⟨6, 0⟩ [⟨0, p1⟩]) = true ∧
    [panicOf (exec noProbe (reach noProbe 2 2 demoOps).w (.setrel .typed ⟨6, 0⟩ [⟨0, p1⟩])),
     panicOf (exec noProbe (reach noProbe 2 2 demoOps).w (.new .map1 [0] [] [⟨0, p1⟩])),
     panicOf (exec noProbe (reach noProbe 2 2 demoOps).w (.add .typed p2 [0] [] [⟨0, p1⟩])),
     panicOf (exec noProbe (reach noProbe 2 2 demoOps).w (.setrel .unsafe_ p1 [⟨0, p2⟩])),
     panicOf (exec noProbe (reach noProbe 2 2 demoOps).w (.setrel .unsafe_ p2 [⟨0, p3⟩]))] =
      [some .deadTarget, some .deadTarget, some .deadTarget, some .deadEntity, some .noRelComponent] ∧
    (step noProbe (reach noProbe 2 2 demoOps) (.setrel .typed ⟨6, 0⟩ [⟨0, p1⟩])).ss.ents =
      (reach noProbe 2 2 demoOps).ss.ents ∧
    summary (exec noProbe (reach noProbe 2 2 demoOps).w (.new .map1 [0] [] [⟨0, p1⟩])).state =
      summary (reach noProbe 2 2 demoOps).w ∧
    (exec noProbe (reach noProbe 2 2 demoOps).w (.new .map1 [0] [] [⟨0, p1⟩])).state.archetypes.length =
      (reach noProbe 2 2 demoOps).w.archetypes.length := by
  decide +kernel

/-! ## 7. findings: why the guard restricts the relation arguments

All calls are made in the final state of `demoOps` (a reachable state, `p1 = 2.0` is dead).  The
model refuses each of them — (b) and (f) NOT without effect: `findOrCreateTableAdd` creates the
archetype of the new mask before `getTable` / `createTable` look at the relations.  (Whether the
world reached still satisfies the invariants is not proved.  The next valid call that needs the
archetype finds it and creates its table.)  These calls are therefore not steps of the machine.
(a) and (c) were of this kind through `Unsafe` until the `Unsafe` API was repaired to validate
its relation arguments like the typed API (`ToCheckedRelationIDsForUnsafe`); they are kept to show
the repaired behaviour. -/

/-- (a) REPAIRED: a dead target through `Unsafe` (`NewEntity`, `Add`) is refused with
    `deadTarget` before anything is touched, as through the typed paths — it is a step of the
    machine on every path (`rejected`).  Before the repair the archetype had already been created
    (one more archetype: `(2, 3, 3, 2)`), and the call was excluded from the machine. -/
example :
    guard (reach noProbe 2 2 demoOps) (.new .unsafe_ [0] [] [⟨0, p1⟩]) = true ∧
    guard (reach noProbe 2 2 demoOps) (.add .unsafe_ p2 [0] [] [⟨0, p1⟩]) = true ∧
    guard (reach noProbe 2 2 demoOps) (.new .typed [0] [] [⟨0, p1⟩]) = true ∧
    panicOf (opNewEntity noProbe .unsafe_ [0] [] [⟨0, p1⟩] (reach noProbe 2 2 demoOps).w) =
      some .deadTarget ∧
    panicOf (opAdd noProbe .unsafe_ p2 [0] [] [⟨0, p1⟩] (reach noProbe 2 2 demoOps).w) =
      some .deadTarget ∧
    ((reach noProbe 2 2 demoOps).w.archetypes.length,
      (opNewEntity noProbe .unsafe_ [0] [] [⟨0, p1⟩] (reach noProbe 2 2 demoOps).w).state.archetypes.length,
      (opAdd noProbe .unsafe_ p2 [0] [] [⟨0, p1⟩] (reach noProbe 2 2 demoOps).w).state.archetypes.length,
      (opNewEntity noProbe .typed [0] [] [⟨0, p1⟩] (reach noProbe 2 2 demoOps).w).state.archetypes.length) =
      (2, 2, 2, 2) := by
  decide +kernel

/-- … the tables are untouched and the machine state does not move -/
example :
    summary (opNewEntity noProbe .unsafe_ [0] [] [⟨0, p1⟩] (reach noProbe 2 2 demoOps).w).state =
      summary (reach noProbe 2 2 demoOps).w ∧
    (step noProbe (reach noProbe 2 2 demoOps) (.new .unsafe_ [0] [] [⟨0, p1⟩])).ss.ents =
      (reach noProbe 2 2 demoOps).ss.ents := by
  decide +kernel

example :
    summary (opAdd noProbe .unsafe_ p2 [0] [] [⟨0, p1⟩] (reach noProbe 2 2 demoOps).w).state =
      summary (reach noProbe 2 2 demoOps).w := by
  decide +kernel

/-- (b) a relation component among `ids` that `rels` does not name: refused with
    `relUnspecified` on every path, one more archetype -/
example :
    guard (reach noProbe 2 2 demoOps) (.new .typed [0] [] []) = false ∧
    panicOf (opNewEntity noProbe .typed [0] [] [] (reach noProbe 2 2 demoOps).w) =
      some .relUnspecified ∧
    (opNewEntity noProbe .typed [0] [] [] (reach noProbe 2 2 demoOps).w).state.archetypes.length = 3 := by
  decide +kernel

/-- (c) REPAIRED: a relation naming a component that is not a relation component, or a
    component that is not among `ids`, through `Unsafe`: refused with `notRelation` resp.
    `relNotInMask` before anything is touched (before the repair: refused with `notRelation` by
    `createTable`, one more archetype — without relation columns and without a table, which
    `SInv.settled` forbids).  Such calls are now steps of the machine (`rejected` applies: `NewOK` /
    `AddOK` fail); only through `Map[T]`, where the model has no membership check, the guard still
    asks that the relations are on components among `ids`. -/
example :
    guard (reach noProbe 2 2 demoOps) (.new .unsafe_ [1] [] [⟨1, p2⟩]) = true ∧
    guard (reach noProbe 2 2 demoOps) (.new .unsafe_ [1] [] [⟨0, p2⟩]) = true ∧
    guard (reach noProbe 2 2 demoOps) (.add .unsafe_ p2 [1] [] [⟨0, p3⟩]) = true ∧
    guard (reach noProbe 2 2 demoOps) (.new .map1 [1] [] [⟨0, p2⟩]) = false ∧
    ¬ NewOK (reach noProbe 2 2 demoOps).ss [1] [⟨1, p2⟩] ∧
    panicOf (opNewEntity noProbe .unsafe_ [1] [] [⟨1, p2⟩] (reach noProbe 2 2 demoOps).w) =
      some .notRelation ∧
    panicOf (opNewEntity noProbe .unsafe_ [1] [] [⟨0, p2⟩] (reach noProbe 2 2 demoOps).w) =
      some .relNotInMask ∧
    panicOf (opAdd noProbe .unsafe_ p2 [1] [] [⟨0, p3⟩] (reach noProbe 2 2 demoOps).w) =
      some .relNotInMask ∧
    (opNewEntity noProbe .unsafe_ [1] [] [⟨1, p2⟩] (reach noProbe 2 2 demoOps).w).state.archetypes.length = 2 ∧
    summary (opNewEntity noProbe .unsafe_ [1] [] [⟨1, p2⟩] (reach noProbe 2 2 demoOps).w).state =
      summary (reach noProbe 2 2 demoOps).w ∧
    (opNewEntity noProbe .unsafe_ [1] [] [⟨0, p2⟩] (reach noProbe 2 2 demoOps).w).state.archetypes.length = 2 ∧
    (opAdd noProbe .unsafe_ p2 [1] [] [⟨0, p3⟩] (reach noProbe 2 2 demoOps).w).state.archetypes.length = 2 := by
  decide +kernel

/-- (d) `SetRelations` with a dead target is a step through every path, also before the repair
    (the archetype exists, `createTable` checks the target before it touches anything); since the
    repair `Unsafe.SetRelations` refuses it in its pre-validation (`rejected`) -/
example :
    guard (reach noProbe 2 2 demoOps) (.setrel .unsafe_ ⟨6, 0⟩ [⟨0, p1⟩]) = true ∧
    panicOf (opSetRelations noProbe .unsafe_ ⟨6, 0⟩ [0] [⟨0, p1⟩] (reach noProbe 2 2 demoOps).w) =
      some .deadTarget ∧
    summary (opSetRelations noProbe .unsafe_ ⟨6, 0⟩ [0] [⟨0, p1⟩] (reach noProbe 2 2 demoOps).w).state =
      summary (reach noProbe 2 2 demoOps).w := by
  decide +kernel

/-- (e) **defect D19, repaired: `SetRelations` naming one relation component twice.**  Child `6.0`
    has the target `3.0`; `SetRelations(6.0, ChildOf ↦ 2.1, ChildOf ↦ 3.0)` — both targets alive.
    Before the repair `getExchangeTargets` set its `changed` flag at the first relation and arrived
    at the old targets with the second, `GetTable` returned the entity's OWN table, the entity was
    added to it and its old row removed: the call was accepted on every path, the index entry of
    `6.0` was left pointing at row 1 of a one-row table and its `Pos` read 0 instead of 9.  Now
    `getExchangeTargets` keeps the components seen and refuses the second `ChildOf` with
    "relation component … specified more than once" (`relTwice`) before it looks at the column:
    the call is a step of the machine (`guard`), its precondition fails (`SetRelOK` asks for
    distinct components), and it is rejected without effect on every path (`rejected`,
    `setRelationsCore_not_nodup`) -/
example :
    guard (reach noProbe 2 2 demoOps) (.setrel .typed ⟨6, 0⟩ [⟨0, p3⟩, ⟨0, p2⟩]) = true ∧
    guard (reach noProbe 2 2 demoOps) (.setrel .unsafe_ ⟨6, 0⟩ [⟨0, p3⟩, ⟨0, p2⟩]) = true ∧
    ¬ SetRelOK (reach noProbe 2 2 demoOps).ss ⟨[(0, 0), (1, 9)], [⟨0, p2⟩]⟩ [⟨0, p3⟩, ⟨0, p2⟩] ∧
    (reach noProbe 2 2 demoOps).w.alive p3 = true ∧ (reach noProbe 2 2 demoOps).w.alive p2 = true ∧
    panicOf (opSetRelations noProbe .typed ⟨6, 0⟩ [0] [⟨0, p3⟩, ⟨0, p2⟩]
      (reach noProbe 2 2 demoOps).w) = some .relTwice ∧
    panicOf (opSetRelations noProbe .unsafe_ ⟨6, 0⟩ [0] [⟨0, p3⟩, ⟨0, p2⟩]
      (reach noProbe 2 2 demoOps).w) = some .relTwice ∧
    (step noProbe (reach noProbe 2 2 demoOps) (.setrel .typed ⟨6, 0⟩ [⟨0, p3⟩, ⟨0, p2⟩])).ss.ents =
      (reach noProbe 2 2 demoOps).ss.ents ∧
    summary (opSetRelations noProbe .typed ⟨6, 0⟩ [0] [⟨0, p3⟩, ⟨0, p2⟩]
      (reach noProbe 2 2 demoOps).w).state = summary (reach noProbe 2 2 demoOps).w ∧
    (valOf (opSetRelations noProbe .typed ⟨6, 0⟩ [0] [⟨0, p3⟩, ⟨0, p2⟩]
        (reach noProbe 2 2 demoOps).w).state 6 1,
      targetOf (opSetRelations noProbe .typed ⟨6, 0⟩ [0] [⟨0, p3⟩, ⟨0, p2⟩]
        (reach noProbe 2 2 demoOps).w).state 6 0,
      (opSetRelations noProbe .typed ⟨6, 0⟩ [0] [⟨0, p3⟩, ⟨0, p2⟩]
        (reach noProbe 2 2 demoOps).w).state.entities.getD 6 (0, 0),
      ((opSetRelations noProbe .typed ⟨6, 0⟩ [0] [⟨0, p3⟩, ⟨0, p2⟩]
        (reach noProbe 2 2 demoOps).w).state.tbl 2).len) = (some 9, some p2, (2, 0), 1) := by
  decide +kernel

/-- (f) **defects D18 and D26, repaired: `NewEntity` / `Add` naming one relation component
    twice** are refused with `relTwice` — by `createTable` when no table matches (D18; before that
    repair they were accepted, finding 1 of `Props/C04World.lean`), and by `GetTable`'s slow path
    when the archetype has an active table (D26; before that repair the list was accepted when a
    table matched, the duplicate standing in for a relation component nobody named:
    `Props/C10Rel.lean` § 4).  With an active table the refusal is without effect
    (`World.opNewEntity_relTwice`: here the archetype `{ChildOf, Pos}`).  But when the archetype is
    new, or has no active table, `GetTable` answers "no table" BEFORE any check and `createTable`
    runs after `findOrCreateArch`: the refusal is not without effect (one more archetype), on
    every path.  This late case is why such calls stay outside the machine (the "no relation
    component named twice" conjunct of `RelsStep` in `guard` cannot be dropped: whether the call is
    without effect depends on the archetypes of the world, not on the specification state) -/
example :
    (opNewEntity noProbe .unsafe_ [0, 1] [] [⟨0, p3⟩, ⟨0, p2⟩]
      (reach noProbe 2 2 demoOps).w).state.archetypes.length = 2 ∧
    guard (reach noProbe 2 2 demoOps) (.new .typed [0] [] [⟨0, p3⟩, ⟨0, p2⟩]) = false ∧
    panicOf (opNewEntity noProbe .typed [0] [] [⟨0, p3⟩, ⟨0, p2⟩] (reach noProbe 2 2 demoOps).w) =
      some .relTwice ∧
    panicOf (opNewEntity noProbe .unsafe_ [0, 1] [] [⟨0, p3⟩, ⟨0, p2⟩]
      (reach noProbe 2 2 demoOps).w) = some .relTwice ∧
    ((reach noProbe 2 2 demoOps).w.archetypes.length,
      (opNewEntity noProbe .typed [0] [] [⟨0, p3⟩, ⟨0, p2⟩]
        (reach noProbe 2 2 demoOps).w).state.archetypes.length) = (2, 3) := by
  decide +kernel

example :
    summary (opNewEntity noProbe .unsafe_ [0, 1] [] [⟨0, p3⟩, ⟨0, p2⟩]
      (reach noProbe 2 2 demoOps).w).state = summary (reach noProbe 2 2 demoOps).w := by
  decide +kernel

end Ark.Props.C04Hist
