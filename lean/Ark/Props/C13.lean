import Ark.Generated.FactsMutex
import Ark.Props.C07

namespace Ark.Props.C13
open Ark

/-! C13 — concurrent query execution is race-free and exact (PARTIAL: the theorem side covers
    the lock-bit machine under arbitrary interleavings of its atomic steps and the extracted
    lockset discipline; the Go memory model, the mutex implementation and real schedules are
    exercised by the race-detector run of the check, not proved). -/

/-- T2 (regenerated): in every `FilterN.Query` all reads and writes of the shared fields
    `generation`/`rareComp` are inside the mutex region (repaired defect D13). -/
theorem filter_fields_guarded : Generated.mutexRegions.all (fun r => r.2.1 == 0 && r.2.2 == 0) = true ∧
    Generated.mutexRegions.length = 9 := by decide

/-- `LockSafe`/`UnlockSafe` are atomic (mutex): ANY interleaving of the lock steps of concurrent queries is a history of the lock machine, for which the mask equals the set of outstanding bits -/
theorem interleavings_keep_lock_exact : type_of% @Ark.Props.C07.locks_exact := @Ark.Props.C07.locks_exact

/-- once every query has finished or been closed the world is unlocked -/
theorem unlocked_after_all_closed : type_of% @Ark.Props.C07.unlocked_after_all_returned := @Ark.Props.C07.unlocked_after_all_returned

/-- a further query can be opened iff fewer than 64 are open -/
theorem up_to_64_open : type_of% @Ark.Props.C07.lock_succeeds_iff := @Ark.Props.C07.lock_succeeds_iff

end Ark.Props.C13
