/-
  Ark.Props.C02Src — the part of C02's theorems that is stated over definitions TRANSLATED from the
  Go source on every run (tools/extract/book.go).  Kept apart from Props/C02.lean because other
  properties' proofs import that file: a change of the translated code must break exactly the
  properties that depend on it.  The check builds and audits both files.
-/
import Ark.Props.C02
import Ark.Proofs.GenBridge.BookPool

namespace Ark.Props.C02Src
open Ark


/-! ### The code itself: `entityPool` of pool.go, translated statement by statement on every run -/

/-- `entityPool.getNew` as in the source = the model's -/
theorem src_pool_getNew : type_of% @Ark.GenBridge.Book.entityPool_getNew_eq := @Ark.GenBridge.Book.entityPool_getNew_eq
/-- `entityPool.Get` as in the source = the model's `Pool.get` (fresh ID or head of the implicit free list) -/
theorem src_pool_get : type_of% @Ark.GenBridge.Book.entityPool_get_eq := @Ark.GenBridge.Book.entityPool_get_eq
/-- `entityPool.Recycle` as in the source = the model's `Pool.recycle`; reserved IDs panic -/
theorem src_pool_recycle : type_of% @Ark.GenBridge.Book.entityPool_recycle_eq := @Ark.GenBridge.Book.entityPool_recycle_eq
/-- `entityPool.Reset` as in the source: slice truncated to the reserved entries, free list emptied -/
theorem src_pool_reset : type_of% @Ark.GenBridge.Book.entityPool_reset_eq := @Ark.GenBridge.Book.entityPool_reset_eq
/-- `entityPool.Len` as in the source = the model's -/
theorem src_pool_len : type_of% @Ark.GenBridge.Book.entityPool_len_eq := @Ark.GenBridge.Book.entityPool_len_eq
/-- `entityPool.Cap` as in the source = the model's -/
theorem src_pool_cap : type_of% @Ark.GenBridge.Book.entityPool_cap_eq := @Ark.GenBridge.Book.entityPool_cap_eq


end Ark.Props.C02Src
