/-
  C16, last clause — "… and filters and observers that were registered before can be registered
  again."  Model level: the full model, with relations, the filter cache and observers
  (definitions and proofs: Ark/Proofs/ResetRegister.lean; hypotheses as for
  `C16World.reset_establishes`, all of which hold in a new world and again after `Reset`).

  * `filters_can_be_registered_again` — after `Reset` every filter object has the filter and the
    relations it had and is not marked registered, and `FilterN.Register` of any filter object
    whose archetype walk did not panic in the world before `Reset` succeeds.
  * `observers_can_be_registered_again` — after `Reset` every observer object has the
    specification it had and no ID, the registry is the same, and `Observer.Register` succeeds iff
    the specification passes the two checks of `AddObserver` (callback present; a relation observer
    names relation components) in the world before `Reset`; a registration that ever succeeded
    passed them (`registered_once_passed_checks`).
  * in any world in the empty state: `register_filter_in_empty_state`,
    `register_observer_without_id`.

  Hypothesis the proof forced (finding): `Register` of a filter walks the archetypes, and `Reset`
  keeps them.  The walk indexes `relationTables[componentsMap[rels[0].component]]` in every
  relation archetype the filter matches; if that component is not a column there, it is a Go
  runtime panic — before `Reset`, after `Reset`, but NOT on a new world (which has no such
  archetype yet): `bogus_relation_filter` is the concrete model-level example.  Typed filters
  cannot get there: `relationSlice.ToRelations` (relation.go) panics unless every relation
  component is a relation component of the filter's mask, which implies the condition
  (`RelsOK`, `relsOK_of_mask`, `HeadColOK.of_relsOK`).
-/
import Ark.Proofs.ResetRegister

set_option autoImplicit false

namespace Ark.Props.C16Register
open Ark Ark.World

/-- **filters can be registered again** -/
theorem filters_can_be_registered_again : type_of% @filter_reregister := @filter_reregister

/-- **observers can be registered again** -/
theorem observers_can_be_registered_again : type_of% @observer_reregister := @observer_reregister

/-- a registration of an observer that succeeds passed the checks on its specification -/
theorem registered_once_passed_checks : type_of% @opObsRegister_ok_inv := @opObsRegister_ok_inv

/-- in any world in the empty state `Register` of a filter succeeds, provided the first relation
    of the filter object names a column of every relation archetype the filter matches -/
theorem register_filter_in_empty_state : type_of% @EmptyState.opFilterRegister_ok :=
  @EmptyState.opFilterRegister_ok

/-- `Register` of an observer object without ID succeeds if the two checks pass -/
theorem register_observer_without_id : type_of% @opObsRegister_ok_of := @opObsRegister_ok_of

/-- the condition is the one under which the walk does not panic in the world before `Reset` … -/
theorem walk_ok_gives_condition : type_of% @headColOK_of_walk := @headColOK_of_walk

/-- … `Reset` keeps it … -/
theorem reset_keeps_condition : type_of% @HeadColOK.resetW := @HeadColOK.resetW

/-- … and it follows from the general panic-freedom condition `RelsOK` of the cache proofs -/
theorem condition_of_relsOK : type_of% @HeadColOK.of_relsOK := @HeadColOK.of_relsOK

/-- the hypotheses are satisfiable: a new world (`reset_hyps_init`) -/
example (cap relCap maxComps : Nat) :
    ∃ (w' : World), opReset (World.init cap relCap maxComps) = .ok () w' ∧
      ∀ l : Nat, (w'.obs.obj l).oid = none := by
  obtain ⟨hl, hS, hI, hR, hC, hFE, hRes, hSt, hOB, hOR, hFR⟩ := Ark.reset_hyps_init cap relCap maxComps
  obtain ⟨w', h1, _, h2⟩ := observer_reregister _ hl hS hI hR hC hFE hRes hSt hOB hOR hFR
  exact ⟨w', h1, fun l => (h2 l).2.1⟩

/-! ## non-vacuity: a concrete world -/

section Demo

private def noRun : ProbeRunner := fun _ _ _ => pure ()

/-- Components 0 (plain), 1 and 2 (relations).  Filter objects: label 0 "has 0"; label 1 "has 0
    and 1, relation 1 → p1" (a well-formed relation filter); label 2 "has 0, relation 2 → p1"
    (ill-formed: component 2 is not in its mask).  Observers 10 (`OnCreateEntity`) and 11
    (`OnRemoveRelations` of component 1); observer 12 has no callback.  Entities: targets `p1`,
    `p2`; `4.0` with component 0; `5.0`, `6.0` with components 0, 1 and targets `p1`, `p2`.
    Filters 0 and 1 and observers 10 and 11 are registered. -/
private def setup : W Unit := do
  let _ ← registerComponent {}
  let _ ← registerComponent { isRel := true }
  let _ ← registerComponent { isRel := true }
  let p1 ← opNewEntity0 noRun
  let p2 ← opNewEntity0 noRun
  M.modify fun w => { w with
    filters := [(0, { filter := { mask := Mask.ofList [0] }, ids := [0] }),
                (1, { filter := { mask := Mask.ofList [0, 1] }, ids := [0, 1], rels := [⟨1, p1⟩] }),
                (2, { filter := { mask := Mask.ofList [0] }, ids := [0], rels := [⟨2, p1⟩] })]
    obs := ((w.obs.setObj 10 { spec := { event := Ev.onCreateEntity } }).setObj 11
      { spec := { event := Ev.onRemoveRelations, comps := [1] } }).setObj 12
      { spec := { event := Ev.onCreateEntity, hasCallback := false } } }
  opObsRegister 10
  opObsRegister 11
  let _ ← opNewEntity noRun .unsafe_ [0] [(0, 5)] []
  let _ ← opNewEntity noRun .unsafe_ [0, 1] [(0, 7)] [⟨1, p1⟩]
  let _ ← opNewEntity noRun .unsafe_ [0, 1] [(0, 8)] [⟨1, p2⟩]
  opFilterRegister 0
  opFilterRegister 1

private def isOk {α : Type} : Res World α → Bool
  | .ok _ _ => true
  | .panic _ _ => false

private def panicOf {α : Type} : Res World α → Option PanicKind
  | .ok _ _ => none
  | .panic k _ => some k

/-- the world before `Reset` -/
private def w0 : World := (setup (World.init 4 2)).state
/-- the world after `Reset` -/
private def w1 : World := (opReset w0).state
/-- a new world with the same component types -/
private def wNew : World :=
  ((do let _ ← registerComponent {}
       let _ ← registerComponent { isRel := true }
       let _ ← registerComponent { isRel := true }
       let p1 ← opNewEntity0 noRun
       let _ ← opNewEntity0 noRun
       M.modify fun w => { w with
         filters := [(2, { filter := { mask := Mask.ofList [0] }, ids := [0], rels := [⟨2, p1⟩] })] } :
     W Unit) (World.init 4 2)).state

/-- the set-up runs; before `Reset` the two filters and the two observers are registered, and
    registering them again is refused -/
example :
    isOk (setup (World.init 4 2)) = true ∧ w0.isLocked = false ∧
    w0.filters.map (·.2.cache) = [some 0, some 1, none] ∧
    w0.cache.filters.map (·.tables.tables) = [[1, 2, 3], [2]] ∧
    (w0.obs.obj 10).oid = some 0 ∧ (w0.obs.obj 11).oid = some 1 ∧
    panicOf (opFilterRegister 0 w0) = some .filterRegistered ∧
    panicOf (opFilterRegister 1 w0) = some .filterRegistered ∧
    panicOf (opObsRegister 10 w0) = some .obsRegistered ∧
    panicOf (opObsRegister 11 w0) = some .obsRegistered := by
  decide +kernel

/-- the hypothesis of `filters_can_be_registered_again` holds for the filters 0 and 1 (their walk
    does not panic before `Reset`), and the two checks of `AddObserver` hold for 10 and 11 -/
example :
    (w0.getCacheTables (w0.filterObj 0).filter (w0.filterObj 0).rels).isSome = true ∧
    (w0.getCacheTables (w0.filterObj 1).filter (w0.filterObj 1).rels).isSome = true ∧
    (w0.obs.obj 10).spec.hasCallback = true ∧ (w0.obs.obj 11).spec.hasCallback = true ∧
    (ObsMgr.computeData (w0.obs.obj 10).spec (fun c => w0.isRelComp c)).isSome = true ∧
    (ObsMgr.computeData (w0.obs.obj 11).spec (fun c => w0.isRelComp c)).isSome = true := by
  decide +kernel

/-- `Reset` succeeds; afterwards nothing is registered, the objects are kept … -/
example :
    isOk (opReset w0) = true ∧
    w1.filters.map (·.2.cache) = [none, none, none] ∧
    w1.filters.map (·.2.filter) = w0.filters.map (·.2.filter) ∧
    w1.filters.map (·.2.rels) = w0.filters.map (·.2.rels) ∧
    (w1.obs.obj 10).oid = none ∧ (w1.obs.obj 11).oid = none ∧
    (w1.obs.obj 10).spec = (w0.obs.obj 10).spec ∧ (w1.obs.obj 11).spec = (w0.obs.obj 11).spec := by
  decide +kernel

/-- … and every one of them can be registered again: the filters get cache entries (with the —
    now empty — tables the walk selects), the observers get IDs and are listed again -/
example :
    isOk (opFilterRegister 0 w1) = true ∧ isOk (opFilterRegister 1 w1) = true ∧
    isOk (opObsRegister 10 w1) = true ∧ isOk (opObsRegister 11 w1) = true ∧
    ((opFilterRegister 0 w1).state.filterObj 0).cache = some 0 ∧
    (opFilterRegister 0 w1).state.cache.filters.map (·.tables.tables) = [[1]] ∧
    (opFilterRegister 1 w1).state.cache.filters.map (·.tables.tables) = [[]] ∧
    ((opObsRegister 10 w1).state.obs.obj 10).oid = some 0 ∧
    (opObsRegister 11 w1).state.obs.hasObservers Ev.onRemoveRelations = true := by
  decide +kernel

/-- an observer that could not be registered before (no callback) cannot be registered after
    `Reset` either — for the same reason, not because of a stale ID -/
example :
    panicOf (opObsRegister 12 w0) = some .obsNoCallback ∧
    panicOf (opObsRegister 12 w1) = some .obsNoCallback := by
  decide +kernel

/-- **finding (the hypothesis on the walk is necessary; model level)**: the ill-formed filter
    object 2 (its relation component 2 is not a column of the relation archetype `{0, 1}` its mask
    matches) makes `Register` hit the runtime panic before `Reset` AND after `Reset`, because the
    archetype is kept — while on a new world with the same component types, where that archetype
    does not exist, the same `Register` succeeds.  Not expressible through the typed Go API
    (`relationSlice.ToRelations` rejects a relation component outside the filter's mask). -/
theorem bogus_relation_filter :
    (w0.getCacheTables (w0.filterObj 2).filter (w0.filterObj 2).rels).isSome = false ∧
    panicOf (opFilterRegister 2 w0) = some .runtime ∧
    panicOf (opFilterRegister 2 w1) = some .runtime ∧
    (wNew.filterObj 2) = (w1.filterObj 2) ∧ wNew.kinds = w1.kinds ∧
    isOk (opFilterRegister 2 wNew) = true := by
  decide +kernel

end Demo

end Ark.Props.C16Register
