/-
  Ark.Props.C17Hist — C17 (b) over histories of ANY length of the entity machine `Ark.Refine`
  (non-relation, observer-free fragment with components):

    "Loading an entity dump into an empty or reset world reproduces the alive/dead status of
     every handle of the source world, and consecutive entity creations in both worlds then
     return the same handles."

  Setting.  `pre` is any history of the eleven entity operations from `NewWorld(cap, rel)`;
  `s = reach run cap rel pre` the machine state it reaches (`s.w` the world, `s.issued` the
  handles handed out, `s.ss.ents` the specification: alive handle ↦ components).
    * `World.opDump` — `Unsafe.DumpEntities` (a `Filter0` query iterated to the end + a copy of the
      pool core), Ark/Proofs/LoadHist.lean;
    * `World.opLoad` — `Unsafe.LoadEntities` (Ark/Model/World.lean); `loadW` the pure function it
      computes (`opLoad_eq`);
    * `EmptySt t` — `t` is a machine state satisfying the invariant whose pool has only the two
      reserved slots: the world after `Reset` (`emptySt_reset`, `dump_reset_is_empty`), or a new
      world with any registrations (`emptySt_regs`), with any capacities;
    * `newN run n` — `n` consecutive `World.NewEntity()` calls;
    * `Loaded s fl t wL` — what holds of the loaded world (Ark/Proofs/LoadInv.lean).

  Main theorems: `dump_spec`, `dump_load_alive_and_handles` (the property), `dump_load_creations`,
  `loaded_world` (well-formedness of the loaded world: all alive handles of the source sit in
  table 0 without components, …), `loaded_world_normalised` (with the dead index entries
  normalised it satisfies the full machine invariant), `loaded_index_deviates` (finding).

  Findings / hypotheses recorded here:
    * `DumpEntities` does not leave the world literally unchanged: the query pushes its lock bit
      onto the free list of the bit pool (`withLocks lockAfterQuery`), as every query does.
    * One dump per history: the theorems take the dump at the end of a history of entity
      operations (the lock is then in its initial state); `Refine.dump_load` is the state-level
      version for any lock state with a free bit (`LockCycle`).
    * **The loaded world does not satisfy the index invariant I2 as `CInv` states it**: the index
      entries of reserved and free IDs are the zero value `(table 0, row 0)` instead of
      `(maxU32, _)` (`loaded_index_deviates`).  Everything else of `CInv` holds (`Loaded`).  The
      entries are dead — every access of the model is preceded by the `Alive` check, creation
      overwrites them, and the Go code never compares against `maxTableID` — so the deviation is
      not observable; it is the reason why the later history of a loaded world is covered here
      for creations and not by re-using the machine invariant: sequences of `NewEntity()` are
      shown to succeed and to return the same handles (`newN`); for creations with components
      the handles are shown equal whenever the calls succeed in both worlds
      (`dump_load_creations`) — their success in the loaded world is not derived, because the
      specification lemma of the table lookup in this development assumes the index invariant.
    * `Alive` of a handle whose ID lies beyond the source's pool slice (not issued since the last
      `Reset`) is `false` in the loaded world (`Refine.dump_load`); in the source it reads the
      memory `Reset` keeps behind the slice.
    * Bound: `pre.length < 2^32 − 2`, as for `Refine.reach_hinv`.
-/
import Ark.Proofs.LoadInv

set_option autoImplicit false

namespace Ark.Props.C17Hist
open Ark Ark.World Ark.Refine Ark.QueryExact

variable (run : ProbeRunner) (cap rel : Nat)

/-! ## 1. `DumpEntities` -/

/-- after any history: the dump succeeds, changes only the lock's bit pool, copies the pool
    core, and lists exactly the IDs of the alive entities, each once -/
theorem dump_spec (pre : List Op) (hlen : pre.length < 2 ^ 32 - 2) :
    ∃ (d : Dump),
      opDump (reach run cap rel pre).w =
        .ok d ((reach run cap rel pre).w.withLocks lockAfterQuery) ∧
      d.entities = (reach run cap rel pre).w.pool.ents ∧
      d.next = (reach run cap rel pre).w.pool.next ∧
      d.available = (reach run cap rel pre).w.pool.available ∧
      d.alive.Nodup ∧
      ∀ (i : Nat), i ∈ d.alive ↔
        ∃ (e : Ent) (cs : Comps), (e, cs) ∈ (reach run cap rel pre).ss.ents ∧ e.id = i := by
  obtain ⟨fl, H⟩ := reach_hinv run cap rel pre hlen
  have X := reach_xinv run cap rel pre hlen
  have hL : LockCycle (reach run cap rel pre).w.locks lockDuringQuery 0 lockAfterQuery := by
    rw [X.locks]; exact lockCycle_default
  obtain ⟨d, hd, he, hn, ha, hnd, hal⟩ := opDump_spec H.cinv hL
  refine ⟨d, hd, he, hn, ha, hnd, fun i => ?_⟩
  rw [hal i]
  constructor
  · rintro ⟨h2, hnf, hlt⟩
    have hget := List.getElem?_eq_getElem hlt
    have hid := H.cinv.pool.self i _ hget hnf
    have hlive : (reach run cap rel pre).w.pool.ents[i] ∈ (reach run cap rel pre).ps.live :=
      (H.ginv.live_iff _).mpr ⟨by rw [hid]; exact h2, by rw [hid]; exact hnf,
        by rw [hid]; exact hget⟩
    obtain ⟨y, hy, hy1⟩ := List.mem_map.mp hlive
    exact ⟨y.1, y.2, hy, by rw [hy1]; exact hid⟩
  · rintro ⟨e, cs, hm, rfl⟩
    obtain ⟨_, _, h2, hnf, _, hsl⟩ := H.live_facts hm
    exact ⟨h2, hnf, (List.getElem?_eq_some_iff.mp hsl).1⟩

/-! ## 2. the worlds `LoadEntities` accepts -/

/-- the reset world (after any history) -/
theorem reset_is_empty (pre : List Op) (hlen : pre.length < 2 ^ 32 - 2) :
    EmptySt (reach run cap rel (pre ++ [.reset])) := by
  obtain ⟨fl, H⟩ := reach_hinv run cap rel pre hlen
  rw [reach_snoc]
  exact (emptySt_reset run H).2

/-- the real sequence `d := DumpEntities(); Reset()`: `Reset` succeeds on the world the dump
    leaves, and the result is an empty machine state -/
theorem dump_reset_is_empty (pre : List Op) (hlen : pre.length < 2 ^ 32 - 2) :
    opReset ((reach run cap rel pre).w.withLocks lockAfterQuery) =
      .ok () (resetW ((reach run cap rel pre).w.withLocks lockAfterQuery)) ∧
    EmptySt ⟨resetW ((reach run cap rel pre).w.withLocks lockAfterQuery), [],
      ⟨[], (reach run cap rel pre).ss.zst⟩⟩ :=
  reach_dump_reset run cap rel pre hlen

/-- a new world (any capacities) with any component registrations -/
theorem new_world_is_empty (cap' rel' : Nat) (regs : List Op) (hr : OnlyRegs regs)
    (hlen : regs.length < 2 ^ 32 - 2) : EmptySt (reach run cap' rel' regs) :=
  emptySt_regs run cap' rel' regs hr hlen

/-- what `EmptySt` gives -/
theorem empty_facts {t : St} (E : EmptySt t) :
    HInv t [] ∧ t.ss.ents = [] ∧ t.w.pool.available = 0 ∧ t.w.isLocked = false := E.facts

/-! ## 3. the property -/

/-- **C17 over histories.**  After ANY history `pre`: `DumpEntities` succeeds; `LoadEntities`
    of the dump into any empty machine state `t` (the reset world, a new world with any
    registrations) succeeds; every handle issued in `pre` has the same `Alive` answer in the
    loaded world as at dump time; and any number of consecutive `NewEntity()` calls return the
    same handles in the source world and in the loaded world. -/
theorem dump_load_alive_and_handles (pre : List Op) (hlen : pre.length < 2 ^ 32 - 2) {t : St}
    (E : EmptySt t) :
    ∃ (d : Dump),
      opDump (reach run cap rel pre).w =
        .ok d ((reach run cap rel pre).w.withLocks lockAfterQuery) ∧
      opLoad d t.w = .ok () (loadW d t.w) ∧
      (∀ (e : Ent), e ∈ (reach run cap rel pre).issued →
        (loadW d t.w).alive e = (reach run cap rel pre).w.alive e) ∧
      (∀ (run' : ProbeRunner) (n : Nat), ∃ (w1 w2 : World),
        newN run' n ((reach run cap rel pre).w.withLocks lockAfterQuery) =
          .ok ((reach run cap rel pre).w.pool.getN n) w1 ∧
        newN run' n (loadW d t.w) = .ok ((reach run cap rel pre).w.pool.getN n) w2) :=
  reach_dump_load run cap rel pre hlen E

/-- **any sequence of creations** (`NewEntity()` and `NewEntity(ids…)` through any path, mixed)
    that succeeds in the source world and in the loaded world returns the same handles — the next
    handles of the source's pool.  The handle of a successful creation is determined by the pool
    alone (`creation_handle`). -/
theorem dump_load_creations (pre : List Op) (hlen : pre.length < 2 ^ 32 - 2) {t : St}
    (E : EmptySt t) :
    ∃ (d : Dump),
      opDump (reach run cap rel pre).w =
        .ok d ((reach run cap rel pre).w.withLocks lockAfterQuery) ∧
      opLoad d t.w = .ok () (loadW d t.w) ∧
      ∀ (run' : ProbeRunner) (qs : List CreateReq) (es1 es2 : List Ent) (w1 w2 : World),
        createAll run' qs ((reach run cap rel pre).w.withLocks lockAfterQuery) = .ok es1 w1 →
        createAll run' qs (loadW d t.w) = .ok es2 w2 →
        es1 = (reach run cap rel pre).w.pool.getN qs.length ∧ es2 = es1 :=
  reach_dump_load_creations run cap rel pre hlen E

/-- the handle of ANY successful creation (with or without components) on an unlocked world
    without observers is the next handle of the pool, and the pool makes one `Get` -/
theorem creation_handle (run' : ProbeRunner) (q : CreateReq) (w : World) (hl : w.isLocked = false)
    (hno : ∀ (evt : Nat), w.obs.hasObservers evt = false) {e : Ent} {w' : World}
    (h : createOne run' q w = .ok e w') :
    e = (w.pool.get).2 ∧ w'.pool = (w.pool.get).1 ∧ w'.isLocked = false ∧
      ∀ (evt : Nat), w'.obs.hasObservers evt = false :=
  createOne_handle run' q w hl hno h

/-- in terms of the specification: a handle issued in `pre` is alive in the loaded world iff
    the specification of the source holds it -/
theorem loaded_alive_iff_spec (pre : List Op) (hlen : pre.length < 2 ^ 32 - 2) {t : St}
    (E : EmptySt t) :
    ∃ (d : Dump), opLoad d t.w = .ok () (loadW d t.w) ∧
      ∀ (e : Ent), e ∈ (reach run cap rel pre).issued →
        ((loadW d t.w).alive e = true ↔ ∃ (cs : Comps), (e, cs) ∈ (reach run cap rel pre).ss.ents) := by
  obtain ⟨fl, H⟩ := reach_hinv run cap rel pre hlen
  obtain ⟨d, _, hl, hal, _⟩ := reach_dump_load run cap rel pre hlen E
  refine ⟨d, hl, fun e hi => ?_⟩
  rw [hal e hi]
  constructor
  · intro ha
    obtain ⟨cs, _, hm⟩ := H.find_of_alive hi ha
    exact ⟨cs, hm⟩
  · rintro ⟨cs, hm⟩
    exact (H.live_facts hm).2.1

/-- the state-level statement (any lock state with a free bit, any unlocked target with an empty
    pool), with the pool core and the answer beyond the source's slice -/
theorem dump_load_state {s : St} {fl : List Nat} (H : HInv s fl) {l1 l2 : Lock} {b : Nat}
    (hL : LockCycle s.w.locks l1 b l2) (wT : World) (hTl : wT.isLocked = false)
    (hTe : wT.pool.ents.length ≤ 2 ∧ wT.pool.available = 0) :
    ∃ (d : Dump), opDump s.w = .ok d (s.w.withLocks l2) ∧
      opLoad d wT = .ok () (loadW d wT) ∧
      (∀ (e : Ent), e ∈ s.issued → (loadW d wT).alive e = s.w.alive e) ∧
      (∀ (e : Ent), e.id < s.w.pool.ents.length → (loadW d wT).alive e = s.w.alive e) ∧
      (∀ (e : Ent), s.w.pool.ents.length ≤ e.id → (loadW d wT).alive e = false) ∧
      (loadW d wT).pool.Core = s.w.pool.Core ∧
      (∀ (n : Nat), (loadW d wT).pool.getN n = s.w.pool.getN n) :=
  dump_load H hL wT hTl hTe

/-- `n` consecutive `NewEntity()` calls on an unlocked world without observers succeed and return
    the next `n` handles of the pool -/
theorem creations (run' : ProbeRunner) (n : Nat) (w : World) (hl : w.isLocked = false)
    (hno : w.obs.hasObservers Ev.onCreateEntity = false) :
    ∃ (w' : World), newN run' n w = .ok (w.pool.getN n) w' ∧ w'.pool = w.pool.afterN n :=
  newN_eq run' n w hl hno

/-! ## 4. the loaded world -/

/-- **the loaded world is well formed**: registry, archetypes and tables ≠ 0 of the target; pool
    core, pool invariant and ghost invariant of the source; `SInv`; every alive handle of the
    source sits with its generation in a row of table 0, indexed to it; every row of table 0
    holds one; all other tables are empty; the loaded world realises the source's specification
    with all components dropped. -/
theorem loaded_world (pre : List Op) (hlen : pre.length < 2 ^ 32 - 2) {t : St} (E : EmptySt t) :
    ∃ (d : Dump) (fl : List Nat),
      opDump (reach run cap rel pre).w =
        .ok d ((reach run cap rel pre).w.withLocks lockAfterQuery) ∧
      opLoad d t.w = .ok () (loadW d t.w) ∧
      HInv (reach run cap rel pre) fl ∧
      Loaded (reach run cap rel pre) fl t (loadW d t.w) :=
  reach_loaded run cap rel pre hlen E

/-- **the loaded world is one normalisation away from a machine state**: with the index entries
    of the reserved and free IDs — which no operation reads — set to `(maxU32, 0)` (`fixDead`), it
    satisfies the full invariant `HInv` of the entity machine, with the handles issued in `pre`
    and the specification of the source with all components dropped -/
theorem loaded_world_normalised (pre : List Op) (hlen : pre.length < 2 ^ 32 - 2) {t : St}
    (E : EmptySt t) :
    ∃ (d : Dump) (fl : List Nat),
      opDump (reach run cap rel pre).w =
        .ok d ((reach run cap rel pre).w.withLocks lockAfterQuery) ∧
      opLoad d t.w = .ok () (loadW d t.w) ∧
      HInv ⟨fixDead fl (loadW d t.w), (reach run cap rel pre).issued,
        ⟨(reach run cap rel pre).ss.ents.map fun x => (x.1, []), t.ss.zst⟩⟩ fl :=
  reach_loaded_normalised run cap rel pre hlen E

section clauses
variable {s t : St} {fl : List Nat} {wL : World} (L : Loaded s fl t wL)
include L

/-- every alive entity of the source is in table 0, with no components -/
theorem loaded_entities (e : Ent) (cs : Comps) (hm : (e, cs) ∈ s.ss.ents) :
    (∃ (r : Nat), wL.entities[e.id]? = some (0, r) ∧ r < (wL.tbl 0).len ∧
      (wL.tbl 0).getEntity r = e) ∧
    Ark.Props.C01World.compsOf wL e.id = some [] ∧ wL.alive e = true := by
  refine ⟨L.live e cs hm, ?_, ?_⟩
  · have := (L.ok e cs hm).comps
    simpa [keys, sortedIds_nil] using this
  · have hl : e ∈ (⟨wL.pool, s.issued, s.ss.ents.map (·.1)⟩ : Pool.PS).live :=
      List.mem_map.mpr ⟨(e, cs), hm, rfl⟩
    exact (Pool.alive_iff_live _ fl L.ginv e (L.ginv.live_issued e hl)).mpr hl

/-- table 0 holds exactly the alive entities, the other tables are empty -/
theorem loaded_tables :
    (wL.tbl 0).len = s.ss.ents.length ∧ (∀ (t' : Nat), t' ≠ 0 → (wL.tbl t').len = 0) ∧
    ∀ (r : Nat), r < (wL.tbl 0).len → ∃ (e : Ent) (cs : Comps), (e, cs) ∈ s.ss.ents ∧
      (wL.tbl 0).getEntity r = e ∧ wL.entities[e.id]? = some (0, r) :=
  ⟨L.len0, L.othersEmpty, L.rows⟩

/-- the parts of the joint invariant `CInv` that hold of the loaded world -/
theorem loaded_cinv_parts :
    SInv wL ∧ Pool.PInv wL.pool fl ∧ (∀ (e : Ent), e ∈ wL.pool.stale → e.gen = maxU32) ∧
    wL.entities.length = wL.pool.ents.length ∧ wL.isTarget.length = wL.entities.length ∧
    (∀ (i : Nat), wL.isTarget.getD i false = false) ∧
    (∀ (evt : Nat), wL.obs.hasObservers evt = false) ∧ wL.isLocked = false :=
  ⟨L.sinv, L.pinv, (by
      intro e he
      have hs : wL.pool.stale = [] := by rw [L.pool]
      rw [hs] at he; cases he),
    L.lenEq, L.tgtLen, L.noTargets, L.noObs, L.unlocked⟩

/-- **finding**: reserved and free IDs are indexed to `(table 0, row 0)`, so the clauses
    `reservedUnindexed` / `freeUnindexed` of `CInv` fail for the loaded world -/
theorem loaded_index_deviates :
    (∀ (i : Nat), i < wL.entities.length → (i < 2 ∨ i ∈ fl) → wL.entities[i]? = some (0, 0)) ∧
    ¬ CInv wL fl := by
  refine ⟨L.dead, fun hC => ?_⟩
  have h2 : 2 ≤ wL.entities.length := by rw [L.lenEq]; exact L.pinv.len2
  obtain ⟨r, hr⟩ := hC.reservedUnindexed 0 (by omega)
  rw [L.dead 0 (by omega) (Or.inl (by omega))] at hr
  have : (0 : Nat) = maxU32 := (Prod.mk.inj (Option.some.inj hr)).1
  exact absurd this (by decide)

end clauses

/-! ## 5. non-vacuity: a concrete history

`NewWorld(2, 1)`; one component type; entities `2{0}`, `3{}`, `4{}`, `5{0}`; `RemoveEntity(3)`;
`NewEntity()` re-issues slot 3 with generation 1; `RemoveEntity(2)` leaves slot 2 on the free
list.  The dump is loaded into the reset world and into a new world `NewWorld(8, 8)` with the
same registration. -/

def noProbe : ProbeRunner := fun _ _ _ => pure ()

def pre : List Op :=
  [.reg 4 false, .new .unsafe_ [0] [(0, 7)], .new0, .new0, .new .typed [0] [(0, 9)],
   .del ⟨3, 0⟩, .new0, .del ⟨2, 0⟩]

def src : St := reach noProbe 2 1 pre

def dumpOf (w : World) : Dump :=
  match opDump w with
  | .ok d _ => d
  | .panic _ _ => default

def d : Dump := dumpOf src.w

/-- the world `d := DumpEntities(); Reset()` leaves -/
def wR : World := resetW (src.w.withLocks lockAfterQuery)

/-- a new world with other capacities and the same registration -/
def wN : World := (reach noProbe 8 8 [.reg 4 false]).w

def handles (w : World) (n : Nat) : Option (List Ent) :=
  match newN noProbe n w with
  | .ok l _ => some l
  | .panic _ _ => none

example : pre.length < 2 ^ 32 - 2 := by decide

example : OnlyRegs [.reg 4 false] := by
  intro op h
  simp only [List.mem_singleton] at h
  exact ⟨4, false, h⟩

/-- the two targets of the demo are empty machine states -/
example : EmptySt ⟨wR, [], ⟨[], src.ss.zst⟩⟩ ∧ EmptySt (reach noProbe 8 8 [.reg 4 false]) :=
  ⟨(dump_reset_is_empty noProbe 2 1 pre (by decide)).2,
    new_world_is_empty noProbe 8 8 [.reg 4 false]
      (fun op h => ⟨4, false, by simpa only [List.mem_singleton] using h⟩) (by decide)⟩

/-- the loaded demo world satisfies `Loaded` (hence `loaded_index_deviates` applies to it) -/
example : ∃ (fl : List Nat), Loaded src fl ⟨wR, [], ⟨[], src.ss.zst⟩⟩ (loadW d wR) := by
  obtain ⟨d', fl, hd, _, _, L⟩ := loaded_world noProbe 2 1 pre (by decide)
    (dump_reset_is_empty noProbe 2 1 pre (by decide)).2
  have hdd : d = d' := by
    show dumpOf (reach noProbe 2 1 pre).w = d'
    simp only [dumpOf, hd]
  rw [hdd]
  exact ⟨fl, L⟩

/-- the source: five handles issued, three alive; the dump -/
example :
    src.issued = [⟨3, 1⟩, ⟨5, 0⟩, ⟨4, 0⟩, ⟨3, 0⟩, ⟨2, 0⟩] ∧
    src.ss.ents.map (·.1) = [⟨3, 1⟩, ⟨5, 0⟩, ⟨4, 0⟩] ∧
    d.entities = [⟨0, maxU32⟩, ⟨1, maxU32⟩, ⟨0, 1⟩, ⟨3, 1⟩, ⟨4, 0⟩, ⟨5, 0⟩] ∧
    d.alive = [4, 3, 5] ∧ d.next = 2 ∧ d.available = 1 := by
  decide +kernel

/-- both targets are unlocked and have an empty pool; both loads succeed -/
example :
    wR.isLocked = false ∧ wR.pool.ents.length = 2 ∧ wR.pool.available = 0 ∧
    wN.isLocked = false ∧ wN.pool.ents.length = 2 ∧ wN.pool.available = 0 ∧
    opLoad d wR = .ok () (loadW d wR) ∧ opLoad d wN = .ok () (loadW d wN) := by
  refine ⟨by decide +kernel, by decide +kernel, by decide +kernel, by decide +kernel,
    by decide +kernel, by decide +kernel, ?_, ?_⟩
  · exact opLoad_eq d wR (by decide +kernel) (by decide +kernel)
  · exact opLoad_eq d wN (by decide +kernel) (by decide +kernel)

/-- alive/dead status of every issued handle: source, reset+load, new world+load -/
example :
    (src.issued.map fun e => (src.w.alive e, (loadW d wR).alive e, (loadW d wN).alive e)) =
      [(true, true, true), (true, true, true), (true, true, true), (false, false, false),
       (false, false, false)] := by
  decide +kernel

/-- the next four creations: the recycled slot 2 (generation 1), then new slots -/
example :
    handles (src.w.withLocks lockAfterQuery) 4 = some [⟨2, 1⟩, ⟨6, 0⟩, ⟨7, 0⟩, ⟨8, 0⟩] ∧
    handles (loadW d wR) 4 = some [⟨2, 1⟩, ⟨6, 0⟩, ⟨7, 0⟩, ⟨8, 0⟩] ∧
    handles (loadW d wN) 4 = some [⟨2, 1⟩, ⟨6, 0⟩, ⟨7, 0⟩, ⟨8, 0⟩] := by
  decide +kernel

def created (w : World) (qs : List CreateReq) : Option (List Ent) :=
  match createAll noProbe qs w with
  | .ok l _ => some l
  | .panic _ _ => none

/-- mixed creations (with component 0 through the `Unsafe` path, without components, with
    component 0 through the typed path) succeed in all three worlds and return the same handles -/
example :
    let qs : List CreateReq := [some (.unsafe_, [0], [(0, 5)]), none, some (.typed, [0], [])]
    created (src.w.withLocks lockAfterQuery) qs = some [⟨2, 1⟩, ⟨6, 0⟩, ⟨7, 0⟩] ∧
    created (loadW d wR) qs = some [⟨2, 1⟩, ⟨6, 0⟩, ⟨7, 0⟩] ∧
    created (loadW d wN) qs = some [⟨2, 1⟩, ⟨6, 0⟩, ⟨7, 0⟩] := by
  decide +kernel

/-- the loaded world: the alive handles in table 0 in dump order, the other table empty; the
    index; **the finding**: the reserved IDs 0, 1 and the free ID 2 are indexed to `(0, 0)` —
    the row of entity 4 — where `NewWorld`/`RemoveEntity`/`Reset` leave `(maxU32, _)` -/
example :
    (loadW d wR).tables.map (·.len) = [3, 0] ∧
    ((loadW d wR).tbl 0).ents.take 3 = [⟨4, 0⟩, ⟨3, 1⟩, ⟨5, 0⟩] ∧
    (loadW d wR).entities = [(0, 0), (0, 0), (0, 0), (0, 1), (0, 0), (0, 2)] ∧
    src.w.entities.map (·.1) = [maxU32, maxU32, maxU32, 0, 0, 1] := by
  decide +kernel

end Ark.Props.C17Hist
