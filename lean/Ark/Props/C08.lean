/-
  C08 — Observers fire exactly per their declared filter, whatever else is registered.

  * `pred_*_spec`: the per-observer test of every `Fire*` function of events.go, applied to the
    masks `AddObserver` computes from a specification, decides exactly the documented rule
    `Spec.fires` (Ark/Spec/Observers.lean) — for all masks (2^256 of them), all specifications
    with component IDs below 256.
  * `aggInv_*`: the union masks / "any observer without …" flags kept per event type satisfy
    `AggInv` initially and after `AddObserver`, `RemoveObserver` (its two recomputation loops with
    early `break`) and `Reset`.
  * `earlyOut_*_sound`: under `AggInv`, whenever a `Fire*` function returns early, no registered
    observer's test would have passed.
  * `dispatch_independent_*`: hence the observers notified are exactly the registered ones whose
    own test passes; whether an observer fires does not depend on which others are registered.
  * `dispatch_exact_*`: combined — the observers notified are exactly the registered ones whose
    *specification* fires according to the documented rule.

  The model follows the repaired `FireRemove` (D5: the per-observer test is the mirror of
  `FireAdd`); with the earlier test `pred_remove_spec` is false (For(A,B), only A removed).

  Hypothesis recorded once (`Spec.IdsOK`): the IDs given to `For`/`With` are below 256.
-/
import Ark.Proofs.Observers
import Ark.Proofs.GenBridge.Obs
import Ark.Props.C20Words

namespace Ark.Props.C08
open Ark Ark.Spec

/-! ### a. per-observer predicate ⇔ documented rule -/

/-- `FireCreateEntity` / `FireRemoveEntity`. -/
theorem pred_entity_spec (s : ObsSpec) (isRel : Comp → Bool) (d : ObsData)
    (hd : ObsMgr.computeData s isRel = some d) (hid : IdsOK s)
    (hev : s.event = Ev.onCreateEntity ∨ s.event = Ev.onRemoveEntity) (m : Mask) :
    Pred.entity d m = true ↔ Spec.fires s (.entity m) := by
  rw [computeData_eq s isRel d hd]
  refine pred_entity_dataOf s hid ?_ m
  rcases hev with h | h <;> simp [isEntityEvt, h]

private theorem not_ent {e : Nat} (h : e ≠ Ev.onCreateEntity ∧ e ≠ Ev.onRemoveEntity) :
    isEntityEvt e = false := by
  simp [isEntityEvt, h.1, h.2]

/-- `FireCreateEntityRel` / `FireRemoveEntityRel` (event types OnAddRelations /
    OnRemoveRelations; stated for every non-entity event type). -/
theorem pred_entityRel_spec (s : ObsSpec) (isRel : Comp → Bool) (d : ObsData)
    (hd : ObsMgr.computeData s isRel = some d) (hid : IdsOK s)
    (hev : s.event ≠ Ev.onCreateEntity ∧ s.event ≠ Ev.onRemoveEntity) (m : Mask) :
    Pred.entityRel d m = true ↔ Spec.fires s (.entityRel m) := by
  rw [computeData_eq s isRel d hd]
  exact pred_entityRel_dataOf s hid (not_ent hev) m

/-- `FireAdd` (OnAddComponents, OnAddRelations; stated for every non-entity event type). -/
theorem pred_add_spec (s : ObsSpec) (isRel : Comp → Bool) (d : ObsData)
    (hd : ObsMgr.computeData s isRel = some d) (hid : IdsOK s)
    (hev : s.event ≠ Ev.onCreateEntity ∧ s.event ≠ Ev.onRemoveEntity) (old new : Mask) :
    Pred.add d old new = true ↔ Spec.fires s (.add old new) := by
  rw [computeData_eq s isRel d hd]
  exact pred_add_dataOf s hid (not_ent hev) old new

/-- `FireRemove` (OnRemoveComponents, OnRemoveRelations; every non-entity event type). -/
theorem pred_remove_spec (s : ObsSpec) (isRel : Comp → Bool) (d : ObsData)
    (hd : ObsMgr.computeData s isRel = some d) (hid : IdsOK s)
    (hev : s.event ≠ Ev.onCreateEntity ∧ s.event ≠ Ev.onRemoveEntity) (old new : Mask) :
    Pred.remove d old new = true ↔ Spec.fires s (.remove old new) := by
  rw [computeData_eq s isRel d hd]
  exact pred_remove_dataOf s hid (not_ent hev) old new

/-- `FireSet`, `FireSetRelations`, `FireCustom` (OnSetComponents, relation re-targeting, custom
    events; every non-entity event type). -/
theorem pred_set_spec (s : ObsSpec) (isRel : Comp → Bool) (d : ObsData)
    (hd : ObsMgr.computeData s isRel = some d) (hid : IdsOK s)
    (hev : s.event ≠ Ev.onCreateEntity ∧ s.event ≠ Ev.onRemoveEntity) (changed m : Mask) :
    Pred.set d changed m = true ↔ Spec.fires s (.set changed m) := by
  rw [computeData_eq s isRel d hd]
  exact pred_set_dataOf s hid (not_ent hev) changed m

/-! ### c. early-outs never suppress an observer that should fire -/

theorem earlyOut_entity_sound (m : ObsMgr) (evt : Nat) (h : AggInv m evt) (mask : Mask)
    (he : Early.entity (m.evt evt) mask = true) :
    ∀ l ∈ (m.evt evt).observers, Pred.entity (m.obj l).data mask = false :=
  AggInvES.early_entity h mask he

theorem earlyOut_entityRel_sound (m : ObsMgr) (evt : Nat) (h : AggInv m evt)
    (hev : evt ≠ Ev.onCreateEntity ∧ evt ≠ Ev.onRemoveEntity) (mask : Mask)
    (he : Early.entityRel (m.evt evt) mask = true) :
    ∀ l ∈ (m.evt evt).observers, Pred.entityRel (m.obj l).data mask = false := by
  unfold AggInv at h; rw [not_ent hev] at h
  exact AggInvES.early_entityRel h mask he

theorem earlyOut_add_sound (m : ObsMgr) (evt : Nat) (h : AggInv m evt)
    (hev : evt ≠ Ev.onCreateEntity ∧ evt ≠ Ev.onRemoveEntity) (old new : Mask)
    (he : Early.add (m.evt evt) old new = true) :
    ∀ l ∈ (m.evt evt).observers, Pred.add (m.obj l).data old new = false := by
  unfold AggInv at h; rw [not_ent hev] at h
  exact AggInvES.early_add h old new he

theorem earlyOut_remove_sound (m : ObsMgr) (evt : Nat) (h : AggInv m evt)
    (hev : evt ≠ Ev.onCreateEntity ∧ evt ≠ Ev.onRemoveEntity) (old new : Mask)
    (he : Early.remove (m.evt evt) old new = true) :
    ∀ l ∈ (m.evt evt).observers, Pred.remove (m.obj l).data old new = false := by
  unfold AggInv at h; rw [not_ent hev] at h
  exact AggInvES.early_remove h old new he

theorem earlyOut_set_sound (m : ObsMgr) (evt : Nat) (h : AggInv m evt)
    (hev : evt ≠ Ev.onCreateEntity ∧ evt ≠ Ev.onRemoveEntity) (mask emask : Mask)
    (he : Early.set (m.evt evt) mask emask = true) :
    ∀ l ∈ (m.evt evt).observers, Pred.set (m.obj l).data mask emask = false := by
  unfold AggInv at h; rw [not_ent hev] at h
  exact AggInvES.early_set h mask emask he

/-! ### d. the set of notified observers does not depend on the early-out -/

/- `ObsMgr.notified m evt useEarly early pred` (Ark/Proofs/Observers.lean) is the list of observers
   a `Fire*` function notifies: `[]` if the early-out is enabled and taken, otherwise the
   registered ones (in slice order) whose own test passes — the shape of every `fire*` of
   Ark/Model/World.lean. -/

theorem dispatch_independent_entity (m : ObsMgr) (evt : Nat) (h : AggInv m evt) (mask : Mask)
    (useEarly : Bool) :
    m.notified evt useEarly (Early.entity (m.evt evt) mask) (fun d => Pred.entity d mask)
      = (m.evt evt).observers.filter fun l => Pred.entity (m.obj l).data mask :=
  ObsMgr.notified_eq _ _ _ _ _ (earlyOut_entity_sound m evt h mask)

theorem dispatch_independent_entityRel (m : ObsMgr) (evt : Nat) (h : AggInv m evt)
    (hev : evt ≠ Ev.onCreateEntity ∧ evt ≠ Ev.onRemoveEntity) (mask : Mask) (useEarly : Bool) :
    m.notified evt useEarly (Early.entityRel (m.evt evt) mask) (fun d => Pred.entityRel d mask)
      = (m.evt evt).observers.filter fun l => Pred.entityRel (m.obj l).data mask :=
  ObsMgr.notified_eq _ _ _ _ _ (earlyOut_entityRel_sound m evt h hev mask)

theorem dispatch_independent_add (m : ObsMgr) (evt : Nat) (h : AggInv m evt)
    (hev : evt ≠ Ev.onCreateEntity ∧ evt ≠ Ev.onRemoveEntity) (old new : Mask) (useEarly : Bool) :
    m.notified evt useEarly (Early.add (m.evt evt) old new) (fun d => Pred.add d old new)
      = (m.evt evt).observers.filter fun l => Pred.add (m.obj l).data old new :=
  ObsMgr.notified_eq _ _ _ _ _ (earlyOut_add_sound m evt h hev old new)

theorem dispatch_independent_remove (m : ObsMgr) (evt : Nat) (h : AggInv m evt)
    (hev : evt ≠ Ev.onCreateEntity ∧ evt ≠ Ev.onRemoveEntity) (old new : Mask) (useEarly : Bool) :
    m.notified evt useEarly (Early.remove (m.evt evt) old new) (fun d => Pred.remove d old new)
      = (m.evt evt).observers.filter fun l => Pred.remove (m.obj l).data old new :=
  ObsMgr.notified_eq _ _ _ _ _ (earlyOut_remove_sound m evt h hev old new)

theorem dispatch_independent_set (m : ObsMgr) (evt : Nat) (h : AggInv m evt)
    (hev : evt ≠ Ev.onCreateEntity ∧ evt ≠ Ev.onRemoveEntity) (mask emask : Mask)
    (useEarly : Bool) :
    m.notified evt useEarly (Early.set (m.evt evt) mask emask) (fun d => Pred.set d mask emask)
      = (m.evt evt).observers.filter fun l => Pred.set (m.obj l).data mask emask :=
  ObsMgr.notified_eq _ _ _ _ _ (earlyOut_set_sound m evt h hev mask emask)

/-! ### d'. … and is exactly the set of registered observers whose declared filter matches -/

/- `Registered m evt isRel` (Ark/Proofs/Observers.lean): every observer listed under `evt` was
   registered for `evt` through `AddObserver` — its data is what the mask computation yields for
   its specification — with component IDs below 256. -/

private theorem filter_spec {obs : List Nat} {p : Nat → Bool} {q : Nat → Prop} [DecidablePred q]
    (h : ∀ l ∈ obs, p l = true ↔ q l) : obs.filter p = obs.filter fun l => decide (q l) := by
  apply List.filter_congr
  intro l hl
  rw [Bool.eq_iff_iff, decide_eq_true_iff]
  exact h l hl

theorem dispatch_exact_entity (m : ObsMgr) (evt : Nat) (isRel : Comp → Bool) (h : AggInv m evt)
    (hreg : Registered m evt isRel) (hev : evt = Ev.onCreateEntity ∨ evt = Ev.onRemoveEntity)
    (mask : Mask) (useEarly : Bool) :
    m.notified evt useEarly (Early.entity (m.evt evt) mask) (fun d => Pred.entity d mask)
      = (m.evt evt).observers.filter fun l => decide (Spec.fires (m.obj l).spec (.entity mask)) := by
  rw [dispatch_independent_entity m evt h mask useEarly]
  refine filter_spec fun l hl => ?_
  obtain ⟨h1, h2, h3⟩ := hreg l hl
  exact pred_entity_spec _ isRel _ h3 h2 (h1 ▸ hev) mask

theorem dispatch_exact_entityRel (m : ObsMgr) (evt : Nat) (isRel : Comp → Bool) (h : AggInv m evt)
    (hreg : Registered m evt isRel) (hev : evt ≠ Ev.onCreateEntity ∧ evt ≠ Ev.onRemoveEntity)
    (mask : Mask) (useEarly : Bool) :
    m.notified evt useEarly (Early.entityRel (m.evt evt) mask) (fun d => Pred.entityRel d mask)
      = (m.evt evt).observers.filter fun l =>
          decide (Spec.fires (m.obj l).spec (.entityRel mask)) := by
  rw [dispatch_independent_entityRel m evt h hev mask useEarly]
  refine filter_spec fun l hl => ?_
  obtain ⟨h1, h2, h3⟩ := hreg l hl
  exact pred_entityRel_spec _ isRel _ h3 h2 (h1 ▸ hev) mask

theorem dispatch_exact_add (m : ObsMgr) (evt : Nat) (isRel : Comp → Bool) (h : AggInv m evt)
    (hreg : Registered m evt isRel) (hev : evt ≠ Ev.onCreateEntity ∧ evt ≠ Ev.onRemoveEntity)
    (old new : Mask) (useEarly : Bool) :
    m.notified evt useEarly (Early.add (m.evt evt) old new) (fun d => Pred.add d old new)
      = (m.evt evt).observers.filter fun l =>
          decide (Spec.fires (m.obj l).spec (.add old new)) := by
  rw [dispatch_independent_add m evt h hev old new useEarly]
  refine filter_spec fun l hl => ?_
  obtain ⟨h1, h2, h3⟩ := hreg l hl
  exact pred_add_spec _ isRel _ h3 h2 (h1 ▸ hev) old new

theorem dispatch_exact_remove (m : ObsMgr) (evt : Nat) (isRel : Comp → Bool) (h : AggInv m evt)
    (hreg : Registered m evt isRel) (hev : evt ≠ Ev.onCreateEntity ∧ evt ≠ Ev.onRemoveEntity)
    (old new : Mask) (useEarly : Bool) :
    m.notified evt useEarly (Early.remove (m.evt evt) old new) (fun d => Pred.remove d old new)
      = (m.evt evt).observers.filter fun l =>
          decide (Spec.fires (m.obj l).spec (.remove old new)) := by
  rw [dispatch_independent_remove m evt h hev old new useEarly]
  refine filter_spec fun l hl => ?_
  obtain ⟨h1, h2, h3⟩ := hreg l hl
  exact pred_remove_spec _ isRel _ h3 h2 (h1 ▸ hev) old new

theorem dispatch_exact_set (m : ObsMgr) (evt : Nat) (isRel : Comp → Bool) (h : AggInv m evt)
    (hreg : Registered m evt isRel) (hev : evt ≠ Ev.onCreateEntity ∧ evt ≠ Ev.onRemoveEntity)
    (mask emask : Mask) (useEarly : Bool) :
    m.notified evt useEarly (Early.set (m.evt evt) mask emask) (fun d => Pred.set d mask emask)
      = (m.evt evt).observers.filter fun l =>
          decide (Spec.fires (m.obj l).spec (.set mask emask)) := by
  rw [dispatch_independent_set m evt h hev mask emask useEarly]
  refine filter_spec fun l hl => ?_
  obtain ⟨h1, h2, h3⟩ := hreg l hl
  exact pred_set_spec _ isRel _ h3 h2 (h1 ▸ hev) mask emask

/-! ### b. the aggregate invariant is established and preserved -/

/-- the empty manager -/
theorem aggInv_init (evt : Nat) : AggInv {} evt := AggInv.init evt

/-- `AddObserver`, for data produced by its own mask computation.  For event types other than
    the observer's own, the object must not already be listed there (`Register` panics on an
    already registered observer). -/
theorem aggInv_addObserver (m : ObsMgr) (evt l : Nat) (o : ObsObj) (oid : Nat)
    (isRel : Comp → Bool) (d : ObsData) (hd : ObsMgr.computeData o.spec isRel = some d)
    (hid : IdsOK o.spec) (hfresh : evt ≠ o.spec.event → l ∉ (m.evt evt).observers)
    (h : AggInv m evt) : AggInv (m.addComputed l o oid d) evt :=
  AggInv.addComputed l o oid d (ObsMgr.computeData_wf o.spec isRel d hid hd) hfresh h

/-- `RemoveObserver`: swap-remove and both recomputation loops (with their early `break`), for
    any object, id and index. -/
theorem aggInv_removeObserver (m : ObsMgr) (evt l oid idx : Nat) (h : AggInv m evt) :
    AggInv (m.removeAt l oid idx) evt := AggInv.removeAt l oid idx h

/-- `Reset`. -/
theorem aggInv_reset (m : ObsMgr) (evt : Nat) (h : AggInv m evt) : AggInv m.reset evt :=
  AggInv.reset h

/-! ### e. non-vacuity -/

section Examples
open Mask

/-- `Observe(OnRemoveComponents).For(A,B)` with A = 0, B = 1 -/
private def sRemAB : ObsSpec := { event := Ev.onRemoveComponents, comps := [0, 1] }

-- fires when A and B are removed together …
example : Spec.fires sRemAB (.remove (ofList [0, 1, 2]) (ofList [2])) := by decide
-- … not when only A is removed (D5), nor when the entity never had B
example : ¬ Spec.fires sRemAB (.remove (ofList [0, 1, 2]) (ofList [1, 2])) := by decide
example : ¬ Spec.fires sRemAB (.remove (ofList [0, 2]) (ofList [2])) := by decide
-- and the implementation agrees on these instances
example : (ObsMgr.computeData sRemAB (fun _ => false)).map
    (fun d => (Pred.remove d (ofList [0, 1, 2]) (ofList [2]),
               Pred.remove d (ofList [0, 1, 2]) (ofList [1, 2]))) = some (true, false) := by decide

/-- `Observe(OnAddComponents).For(A).With(C).Without(D)`, A = 0, C = 2, D = 3 -/
private def sAdd : ObsSpec :=
  { event := Ev.onAddComponents, comps := [0], with_ := [2], without := [3] }

example : Spec.fires sAdd (.add (ofList [2]) (ofList [0, 2])) := by decide
-- `With` is evaluated on the old mask
example : ¬ Spec.fires sAdd (.add (ofList []) (ofList [0, 2])) := by decide
example : ¬ Spec.fires sAdd (.add (ofList [2, 3]) (ofList [0, 2, 3])) := by decide
-- A was already there: not "added"
example : ¬ Spec.fires sAdd (.add (ofList [0, 2]) (ofList [0, 1, 2])) := by decide

/-- `Observe(OnCreateEntity).For(A).With(B).Exclusive()` -/
private def sCreateExcl : ObsSpec :=
  { event := Ev.onCreateEntity, comps := [0], with_ := [1], exclusive := true }

set_option maxRecDepth 8192 in
example : Spec.fires sCreateExcl (.entity (ofList [0, 1])) := by decide
set_option maxRecDepth 8192 in
example : ¬ Spec.fires sCreateExcl (.entity (ofList [0, 1, 2])) := by decide
example : ¬ Spec.fires sCreateExcl (.entity (ofList [0])) := by decide

/-- wildcard observer (`For` nothing) on OnSetComponents with `With(B)` -/
private def sSetWild : ObsSpec := { event := Ev.onSetComponents, with_ := [1] }

example : Spec.fires sSetWild (.set (ofList [5]) (ofList [1, 5])) := by decide
example : ¬ Spec.fires sSetWild (.set (ofList [5]) (ofList [5])) := by decide

/-- a manager with two OnAddComponents observers: `For(A)` (label 10) and `For(B).With(C)`
    (label 11), registered through the model of `AddObserver` -/
private def mgr2 : ObsMgr :=
  let o1 : ObsObj := { spec := { event := Ev.onAddComponents, comps := [0] } }
  let o2 : ObsObj := { spec := { event := Ev.onAddComponents, comps := [1], with_ := [2] } }
  let d1 := (ObsMgr.computeData o1.spec (fun _ => false)).getD {}
  let d2 := (ObsMgr.computeData o2.spec (fun _ => false)).getD {}
  (({} : ObsMgr).addComputed 10 o1 0 d1).addComputed 11 o2 1 d2

-- adding D = 3 only: the early-out is taken, and indeed no observer's own test passes
example : Early.add (mgr2.evt Ev.onAddComponents) (ofList [2]) (ofList [2, 3]) = true := by decide
example : (mgr2.evt Ev.onAddComponents).observers.filter
    (fun l => Pred.add (mgr2.obj l).data (ofList [2]) (ofList [2, 3])) = [] := by decide
-- adding A: no early-out, exactly the `For(A)` observer is notified, with or without early-out
example : mgr2.notified Ev.onAddComponents true
    (Early.add (mgr2.evt Ev.onAddComponents) (ofList [2]) (ofList [0, 2]))
    (fun d => Pred.add d (ofList [2]) (ofList [0, 2])) = [10] := by decide
-- adding A and B to an entity with C: both
example : mgr2.notified Ev.onAddComponents true
    (Early.add (mgr2.evt Ev.onAddComponents) (ofList [2]) (ofList [0, 1, 2]))
    (fun d => Pred.add d (ofList [2]) (ofList [0, 1, 2])) = [10, 11] := by decide
-- after unregistering the `For(A)` observer the union masks shrink: adding A is an early-out
example : Early.add ((mgr2.removeAt 10 0 0).evt Ev.onAddComponents) (ofList [2]) (ofList [0, 2])
    = true := by decide

end Examples


/-! ### Tie to the source: the predicates and early-outs above ARE the ones regenerated from
    events.go on this run (Ark/Generated/Logic.lean), for all masks and flags. -/

/-- `fireCreateEntity`: the per-observer test of the Go code equals the predicate of the model -/
theorem fireCreateEntity_pred_as_in_source : type_of% @Ark.GenBridge.fireCreateEntity_skip_eq := @Ark.GenBridge.fireCreateEntity_skip_eq

/-- `fireCreateEntity`: the early-out of the Go code equals the early-out of the model -/
theorem fireCreateEntity_early_as_in_source : type_of% @Ark.GenBridge.fireCreateEntity_early_eq := @Ark.GenBridge.fireCreateEntity_early_eq

/-- `fireCreateEntityRel`: the per-observer test of the Go code equals the predicate of the model -/
theorem fireCreateEntityRel_pred_as_in_source : type_of% @Ark.GenBridge.fireCreateEntityRel_skip_eq := @Ark.GenBridge.fireCreateEntityRel_skip_eq

/-- `fireCreateEntityRel`: the early-out of the Go code equals the early-out of the model -/
theorem fireCreateEntityRel_early_as_in_source : type_of% @Ark.GenBridge.fireCreateEntityRel_early_eq := @Ark.GenBridge.fireCreateEntityRel_early_eq

/-- `fireRemoveEntity`: the per-observer test of the Go code equals the predicate of the model -/
theorem fireRemoveEntity_pred_as_in_source : type_of% @Ark.GenBridge.fireRemoveEntity_skip_eq := @Ark.GenBridge.fireRemoveEntity_skip_eq

/-- `fireRemoveEntity`: the early-out of the Go code equals the early-out of the model -/
theorem fireRemoveEntity_early_as_in_source : type_of% @Ark.GenBridge.fireRemoveEntity_early_eq := @Ark.GenBridge.fireRemoveEntity_early_eq

/-- `fireRemoveEntityRel`: the per-observer test of the Go code equals the predicate of the model -/
theorem fireRemoveEntityRel_pred_as_in_source : type_of% @Ark.GenBridge.fireRemoveEntityRel_skip_eq := @Ark.GenBridge.fireRemoveEntityRel_skip_eq

/-- `fireRemoveEntityRel`: the early-out of the Go code equals the early-out of the model -/
theorem fireRemoveEntityRel_early_as_in_source : type_of% @Ark.GenBridge.fireRemoveEntityRel_early_eq := @Ark.GenBridge.fireRemoveEntityRel_early_eq

/-- `fireAdd`: the per-observer test of the Go code equals the predicate of the model -/
theorem fireAdd_pred_as_in_source : type_of% @Ark.GenBridge.fireAdd_skip_eq := @Ark.GenBridge.fireAdd_skip_eq

/-- `fireAdd`: the early-out of the Go code equals the early-out of the model -/
theorem fireAdd_early_as_in_source : type_of% @Ark.GenBridge.fireAdd_early_eq := @Ark.GenBridge.fireAdd_early_eq

/-- `fireRemove`: the per-observer test of the Go code equals the predicate of the model -/
theorem fireRemove_pred_as_in_source : type_of% @Ark.GenBridge.fireRemove_skip_eq := @Ark.GenBridge.fireRemove_skip_eq

/-- `fireRemove`: the early-out of the Go code equals the early-out of the model -/
theorem fireRemove_early_as_in_source : type_of% @Ark.GenBridge.fireRemove_early_eq := @Ark.GenBridge.fireRemove_early_eq

/-- `fireSet`: the per-observer test of the Go code equals the predicate of the model -/
theorem fireSet_pred_as_in_source : type_of% @Ark.GenBridge.fireSet_skip_eq := @Ark.GenBridge.fireSet_skip_eq

/-- `fireSet`: the early-out of the Go code equals the early-out of the model -/
theorem fireSet_early_as_in_source : type_of% @Ark.GenBridge.fireSet_early_eq := @Ark.GenBridge.fireSet_early_eq

/-- `fireSetRelations`: the per-observer test of the Go code equals the predicate of the model -/
theorem fireSetRelations_pred_as_in_source : type_of% @Ark.GenBridge.fireSetRelations_skip_eq := @Ark.GenBridge.fireSetRelations_skip_eq

/-- `fireSetRelations`: the early-out of the Go code equals the early-out of the model -/
theorem fireSetRelations_early_as_in_source : type_of% @Ark.GenBridge.fireSetRelations_early_eq := @Ark.GenBridge.fireSetRelations_early_eq

/-- `fireCustom`: the per-observer test of the Go code equals the predicate of the model -/
theorem fireCustom_pred_as_in_source : type_of% @Ark.GenBridge.fireCustom_skip_eq := @Ark.GenBridge.fireCustom_skip_eq

/-- `fireCustom`: the early-out of the Go code equals the early-out of the model -/
theorem fireCustom_early_as_in_source : type_of% @Ark.GenBridge.fireCustom_early_eq := @Ark.GenBridge.fireCustom_early_eq


/-! ## the mask operations the observer conditions rely on, as the word-level Go code computes them -/

theorem words_mask256_contains : type_of% @Ark.Props.C20Words.mask256_contains := @Ark.Props.C20Words.mask256_contains

theorem words_mask256_containsAny : type_of% @Ark.Props.C20Words.mask256_containsAny := @Ark.Props.C20Words.mask256_containsAny

theorem words_mask256_orI : type_of% @Ark.Props.C20Words.mask256_orI := @Ark.Props.C20Words.mask256_orI

theorem words_mask256_isZero : type_of% @Ark.Props.C20Words.mask256_isZero := @Ark.Props.C20Words.mask256_isZero

theorem words_mask256_set : type_of% @Ark.Props.C20Words.mask256_set := @Ark.Props.C20Words.mask256_set

theorem words_mask256_reset : type_of% @Ark.Props.C20Words.mask256_reset := @Ark.Props.C20Words.mask256_reset

theorem words_mask64_contains : type_of% @Ark.Props.C20Words.mask64_contains := @Ark.Props.C20Words.mask64_contains

theorem words_mask64_containsAny : type_of% @Ark.Props.C20Words.mask64_containsAny := @Ark.Props.C20Words.mask64_containsAny

theorem words_mask64_orI : type_of% @Ark.Props.C20Words.mask64_orI := @Ark.Props.C20Words.mask64_orI


end Ark.Props.C08
