/-
  C16 over histories — "From then on [after Reset] every history has the same outcome as on a new
  world with the same component types registered in the same order, up to the identity of entity
  handles and iteration order."

  Setting: the history machine `Ark.Refine` of Ark/Proofs/Refine.lean (operations `reg | new p |
  new0 | add p | rem p | xchg p | set | del | copy | shrink | reset` on the non-relation,
  observer-free fragment with components, each through any access path; `reach run cap rel ops`
  is the state after the history `ops` from `NewWorld(cap, rel)`).

  For ANY history `pre` and ANY later history `post` (registrations may be interleaved anywhere in
  both; bound: `pre.length + 1 + post.length < 2^32 − 2`), any two callback runners and any
  capacities of the two worlds, compare

      A = pre ++ [reset] ++ post   from NewWorld(cap, rel)
      B = regsOf pre ++ post       from NewWorld(cap', rel')     (regsOf = the `reg`s of `pre`)

  * `same_trace` — for every operation of `post`: it is expressible (`guard`) on both sides or on
    neither; it is accepted on both or rejected on both with the SAME panic class; a creation
    returns the SAME handle, ID and generation (`Reset` re-issues handles by design and a new world
    issues the same ones — so not only "up to the identity of handles").  `trace_entry` says what an
    entry of the trace is; `outcome_from_spec` says why: the outcome of a call is a function of
    the specification state and the pool's next handle.
  * `same_state_after_every_prefix` — after every prefix of `post` the two machine states are
    related by `Sim`: same specification (alive handle ↦ component ↦ value, registry flags), same
    issued handles, same registry, same pool core.
  * `same_worlds` — on the model worlds: for EVERY entity ID the same component set and the same
    component values (`compsOf`, `valOf`), the same `Alive` for every issued handle (and every
    handle whose generation is not the sentinel `maxU32`), the same next handle; every query from
    an unregistered filter visits the same SET of entities (`query_exact` on both sides), counts
    the same and reads the same values — iteration order, tables and rows may differ.
    `same_cached_queries`: the same through a cache entry registered on both sides.

  No hypothesis on `post` was needed.  Hypothesis that WAS needed: `Alive` agrees only for handles
  whose generation is not `maxU32` or whose ID lies inside the pool slice — the reset world keeps
  invalidated memory behind the slice (`Pool.stale`, D14), and the unchecked `Alive` of a forged
  handle `⟨id beyond the slice, maxU32⟩` reads it: `forged_sentinel_handle_differs` is the concrete
  counterexample.  No handle the API ever returned has that generation
  (`C01Refine.issued_gen_bound`).

  Re-registration of filters and observers after `Reset` (model level): Ark/Props/C16Register.lean.
-/
import Ark.Proofs.ResetEquiv

set_option autoImplicit false

namespace Ark.Props.C16Hist
open Ark Ark.World Ark.Refine Ark.Props.C01World QueryExact

/-! ## the outcome of a call is a function of the specification -/

/-- in every reachable state, for every expressible operation: the returned handle, the
    accept/reject decision and the panic class are `specOutcome` of the specification state and the
    pool's next handle (`specOutcome ss fresh op = if pre ss op then ok (retSpec fresh op) else
    panic (rejKind ss op)`) -/
theorem outcome_from_spec (run : ProbeRunner) (cap rel : Nat) (ops : List Op) (op : Op)
    (hlen : ops.length + 1 < 2 ^ 32 - 2) (hg : guard (reach run cap rel ops) op = true) :
    outcome (exec run (reach run cap rel ops).w op) =
      specOutcome (reach run cap rel ops).ss ((reach run cap rel ops).w.pool.get).2 op := by
  obtain ⟨fl, H⟩ := reach_hinv run cap rel ops (by omega)
  have hb := reach_bounds run cap rel ops (by omega)
  exact exec_outcome run H (by simp only [maxU32]; omega) (by omega) op hg

/-! ## C16: every later history -/

/-- **same trace** — handles, accept/reject decisions and panic classes of `post` agree -/
theorem same_trace (run1 run2 : ProbeRunner) (cap rel cap' rel' : Nat) (pre post : List Op)
    (hlen : pre.length + 1 + post.length < 2 ^ 32 - 2) :
    trace run1 (reach run1 cap rel (pre ++ [.reset])) post =
      trace run2 (reach run2 cap' rel' (regsOf pre)) post :=
  (reset_equiv run1 run2 cap rel cap' rel' pre post hlen).1

/-- what the `n`-th entry of a trace is: `none` if the `n`-th operation is not expressible in the
    state reached by the first `n` operations, otherwise the `outcome` of executing it there -/
theorem trace_entry (run : ProbeRunner) (s : St) (ops : List Op) (n : Nat) :
    (trace run s ops)[n]? = (ops[n]?).map fun op =>
      if guard (runOps run s (ops.take n)) op = true
      then some (outcome (exec run (runOps run s (ops.take n)).w op)) else none :=
  trace_get run ops s n

/-- **same state after every prefix** of `post` (`Sim`: specification, issued handles, registry,
    pool core) -/
theorem same_state_after_every_prefix (run1 run2 : ProbeRunner) (cap rel cap' rel' : Nat)
    (pre post : List Op) (hlen : pre.length + 1 + post.length < 2 ^ 32 - 2) (n : Nat) :
    Sim (reach run1 cap rel (pre ++ [.reset] ++ post.take n))
      (reach run2 cap' rel' (regsOf pre ++ post.take n)) :=
  reset_equiv_prefix run1 run2 cap rel cap' rel' pre post hlen n

/-- **same worlds, as far as the API shows them** -/
theorem same_worlds : type_of% @reset_equiv_worlds := @reset_equiv_worlds

/-- **same queries through the filter cache** (register the same filter on both sides, query
    through the cache entries) -/
theorem same_cached_queries : type_of% @reset_equiv_cached := @reset_equiv_cached

/-- `Sim` is kept by every step from ANY pair of related states satisfying the invariant (not only
    after `Reset`), and the client sees the same -/
theorem sim_is_a_simulation : type_of% @sim_step := @sim_step

/-! ## non-vacuity: a concrete pair of histories -/

/-- `pre`: three registrations (the third one after two creations), creations, exchanges, a copy,
    a write, removals (ID 3 is recycled with generation 1, ID 5 stays on the free list), `Shrink` -/
def preOps : List Op :=
  [.reg 8 false, .reg 0 true,
   .new .unsafe_ [0] [(0, 7)], .new0,
   .reg 8 false,
   .xchg .unsafe_ ⟨2, 0⟩ [2, 1] [0] [(2, 5), (0, 9)],
   .xchg .typed ⟨3, 0⟩ [0] [] [(0, 4)],
   .copy ⟨2, 0⟩, .set ⟨2, 0⟩ [(2, 8)],
   .new .map1 [0] [(0, 1)], .new .map1 [0] [(0, 2)],
   .del ⟨5, 0⟩, .del ⟨3, 0⟩, .copy ⟨4, 0⟩, .shrink true]

/-- `post`: creations; a valid `add`; rejected calls (component present, added and removed,
    component absent); a call on a handle not issued in this epoch (not expressible); a removal
    and a call on the dead handle; a fourth registration; a copy that recycles ID 3; a `new` with a
    duplicate; an exchange on the recycled handle; `Shrink` -/
def postOps : List Op :=
  [.new .typed [2] [(2, 1)], .new0, .new .map1 [0, 1] [(0, 3)],
   .add .unsafe_ ⟨3, 0⟩ [0, 2] [(2, 6)],
   .add .unsafe_ ⟨3, 0⟩ [0] [],
   .xchg .unsafe_ ⟨2, 0⟩ [2] [2] [],
   .rem .typed ⟨4, 0⟩ [2],
   .add .map1 ⟨9, 0⟩ [0] [],
   .del ⟨3, 0⟩,
   .set ⟨3, 0⟩ [(0, 1)],
   .reg 4 false,
   .copy ⟨4, 0⟩,
   .new .unsafe_ [3, 3] [],
   .xchg .typed ⟨3, 1⟩ [3] [1] [(3, 2)],
   .shrink false]

/-- `regsOf preOps` is `[reg 8 false, reg 0 true, reg 8 false]` (`Op` has no decidable equality:
    compare the arguments) -/
example :
    ((regsOf preOps).map fun op => match op with | .reg size z => some (size, z) | _ => none) =
      [some (8, false), some (0, true), some (8, false)] := by decide +kernel

/-- the hypothesis of the theorems holds, and the state before `Reset` is not trivial -/
example :
    preOps.length + 1 + postOps.length < 2 ^ 32 - 2 ∧
    (reach noProbe 4 1 preOps).ss.ents =
      [(⟨3, 1⟩, [(2, 5), (1, 0)]), (⟨6, 0⟩, [(0, 2)]), (⟨4, 0⟩, [(2, 5), (1, 0)]),
       (⟨2, 0⟩, [(2, 8), (1, 0)])] ∧
    (reach noProbe 4 1 preOps).w.tables.length = 3 := by
  decide +kernel

/-- the trace of `post` after `pre ++ [reset]` (capacities 4/1) … -/
example :
    trace noProbe (reach noProbe 4 1 (preOps ++ [.reset])) postOps =
      [some (.ok (some ⟨2, 0⟩)), some (.ok (some ⟨3, 0⟩)), some (.ok (some ⟨4, 0⟩)),
       some (.ok none), some (.panic .alreadyHas), some (.panic .addedAndRemoved),
       some (.panic .missing), none, some (.ok none), some (.panic .deadEntity),
       some (.ok none), some (.ok (some ⟨3, 1⟩)), some (.panic .alreadyHas),
       some (.ok none), some (.ok none)] := by
  decide +kernel

/-- … is the trace of `post` after the three registrations on a new world (capacities 64/8) -/
example :
    trace noProbe (reach noProbe 64 8 (regsOf preOps)) postOps =
      trace noProbe (reach noProbe 4 1 (preOps ++ [.reset])) postOps := by
  decide +kernel

/-- the two final states: same specification, issued handles, registry, pool core … -/
example :
    (reach noProbe 4 1 (preOps ++ [.reset] ++ postOps)).ss.ents =
      [(⟨3, 1⟩, [(0, 3), (3, 2)]), (⟨4, 0⟩, [(0, 3), (1, 0)]), (⟨2, 0⟩, [(2, 1)])] ∧
    (reach noProbe 64 8 (regsOf preOps ++ postOps)).ss.ents =
      (reach noProbe 4 1 (preOps ++ [.reset] ++ postOps)).ss.ents ∧
    (reach noProbe 64 8 (regsOf preOps ++ postOps)).ss.zst =
      (reach noProbe 4 1 (preOps ++ [.reset] ++ postOps)).ss.zst ∧
    (reach noProbe 64 8 (regsOf preOps ++ postOps)).issued =
      (reach noProbe 4 1 (preOps ++ [.reset] ++ postOps)).issued ∧
    (reach noProbe 4 1 (preOps ++ [.reset] ++ postOps)).issued = [⟨3, 1⟩, ⟨4, 0⟩, ⟨3, 0⟩, ⟨2, 0⟩] ∧
    (reach noProbe 64 8 (regsOf preOps ++ postOps)).w.kinds =
      (reach noProbe 4 1 (preOps ++ [.reset] ++ postOps)).w.kinds ∧
    (reach noProbe 64 8 (regsOf preOps ++ postOps)).w.pool.Core =
      (reach noProbe 4 1 (preOps ++ [.reset] ++ postOps)).w.pool.Core := by
  decide +kernel

/-- … and the same component sets and values for every ID, although the worlds differ: the reset
    world kept the tables of the archetypes `pre` created (7 tables against 5) and the
    invalidated memory behind the pool slice -/
example :
    ((List.range 8).map fun i => compsOf (reach noProbe 4 1 (preOps ++ [.reset] ++ postOps)).w i) =
      [none, none, some [2], some [0, 3], some [0, 1], none, none, none] ∧
    ((List.range 8).map fun i => compsOf (reach noProbe 64 8 (regsOf preOps ++ postOps)).w i) =
      [none, none, some [2], some [0, 3], some [0, 1], none, none, none] ∧
    ((List.range 8).map fun i => (List.range 5).map fun c =>
        valOf (reach noProbe 4 1 (preOps ++ [.reset] ++ postOps)).w i c) =
      ((List.range 8).map fun i => (List.range 5).map fun c =>
        valOf (reach noProbe 64 8 (regsOf preOps ++ postOps)).w i c) ∧
    (valOf (reach noProbe 4 1 (preOps ++ [.reset] ++ postOps)).w 3 0,
      valOf (reach noProbe 4 1 (preOps ++ [.reset] ++ postOps)).w 3 3,
      valOf (reach noProbe 4 1 (preOps ++ [.reset] ++ postOps)).w 3 1) = (some 3, some 2, none) ∧
    (reach noProbe 4 1 (preOps ++ [.reset] ++ postOps)).w.tables.length = 7 ∧
    (reach noProbe 64 8 (regsOf preOps ++ postOps)).w.tables.length = 5 ∧
    (reach noProbe 4 1 (preOps ++ [.reset] ++ postOps)).w.pool.stale.length = 2 ∧
    (reach noProbe 64 8 (regsOf preOps ++ postOps)).w.pool.stale = [] := by
  decide +kernel

/-- `Alive` of the issued handles agrees (the removed handle `3.0` is dead on both sides) -/
example :
    (reach noProbe 4 1 (preOps ++ [.reset] ++ postOps)).issued.map
        (reach noProbe 4 1 (preOps ++ [.reset] ++ postOps)).w.alive = [true, true, false, true] ∧
    (reach noProbe 4 1 (preOps ++ [.reset] ++ postOps)).issued.map
        (reach noProbe 64 8 (regsOf preOps ++ postOps)).w.alive = [true, true, false, true] := by
  decide +kernel

/-- the entities (with table and row) a complete iteration of an uncached query visits -/
def visitsOf (w : World) (f : Filter) : List (Ent × Nat × Nat) :=
  match drain { filter := f, cache := none } [] w with
  | .ok vs _ => vs.map fun v => (v.e, v.table, v.row)
  | .panic _ _ => []

/-- the same queries on the two final worlds: the same entities, in different tables -/
example :
    visitsOf (reach noProbe 4 1 (preOps ++ [.reset] ++ postOps)).w { mask := Mask.ofList [0] } =
      [(⟨4, 0⟩, 4, 0), (⟨3, 1⟩, 6, 0)] ∧
    visitsOf (reach noProbe 64 8 (regsOf preOps ++ postOps)).w { mask := Mask.ofList [0] } =
      [(⟨4, 0⟩, 2, 0), (⟨3, 1⟩, 4, 0)] ∧
    visitsOf (reach noProbe 4 1 (preOps ++ [.reset] ++ postOps)).w {} =
      [(⟨2, 0⟩, 3, 0), (⟨4, 0⟩, 4, 0), (⟨3, 1⟩, 6, 0)] ∧
    visitsOf (reach noProbe 64 8 (regsOf preOps ++ postOps)).w {} =
      [(⟨2, 0⟩, 1, 0), (⟨4, 0⟩, 2, 0), (⟨3, 1⟩, 4, 0)] := by
  decide +kernel

/-- "up to iteration order" is needed: `pre` created the archetype `{0}` before `{1, 2}`; a `post`
    that populates them in the other order is iterated in archetype order on the reset world and
    in creation order on the new world — the same set, in a different order -/
example :
    (visitsOf (reach noProbe 4 1 (preOps ++ [.reset] ++ [.new .typed [1, 2] [], .new .typed [0] []])).w
      {}).map (·.1) = [⟨3, 0⟩, ⟨2, 0⟩] ∧
    (visitsOf (reach noProbe 64 8 (regsOf preOps ++ [.new .typed [1, 2] [], .new .typed [0] []])).w
      {}).map (·.1) = [⟨2, 0⟩, ⟨3, 0⟩] := by
  decide +kernel

/-- **finding (necessary hypothesis of the `Alive` clause)**: for a forged handle with the
    sentinel generation `maxU32` and an ID just beyond the pool slice the two worlds answer
    differently — the reset world reads the invalidated memory `Reset` keeps behind the slice
    (`Pool.stale`, D14), a new world has no such memory.  Hence `h.gen ≠ maxU32` (or an ID inside
    the slice) cannot be dropped from `same_worlds`; no issued handle has this generation. -/
theorem forged_sentinel_handle_differs :
    (reach noProbe 4 1 (preOps ++ [.reset] ++ postOps)).w.alive ⟨5, maxU32⟩ = true ∧
    (reach noProbe 64 8 (regsOf preOps ++ postOps)).w.alive ⟨5, maxU32⟩ = false ∧
    (reach noProbe 4 1 (preOps ++ [.reset] ++ postOps)).w.pool.ents.length = 5 := by
  decide +kernel

/-- the simulation relation is not the identity on worlds, and it is not trivially true: the
    state BEFORE `Reset` is not related to the registrations-only state -/
example :
    (reach noProbe 4 1 preOps).ss.ents ≠ (reach noProbe 64 8 (regsOf preOps)).ss.ents ∧
    (reach noProbe 4 1 preOps).w.pool.Core ≠ (reach noProbe 64 8 (regsOf preOps)).w.pool.Core := by
  decide +kernel

/-- `specOutcome` computes: in the state after `pre ++ [reset]` and the first three creations of
    `post`, from the specification alone -/
example :
    let s := reach noProbe 4 1 (preOps ++ [.reset] ++ postOps.take 4)
    [specOutcome s.ss ⟨5, 0⟩ (.add .unsafe_ ⟨3, 0⟩ [0] []),
     specOutcome s.ss ⟨5, 0⟩ (.xchg .unsafe_ ⟨2, 0⟩ [2] [2] []),
     specOutcome s.ss ⟨5, 0⟩ (.xchg .unsafe_ ⟨2, 0⟩ [0] [1] []),
     specOutcome s.ss ⟨5, 0⟩ (.rem .typed ⟨4, 0⟩ [2]),
     specOutcome s.ss ⟨5, 0⟩ (.rem .typed ⟨4, 0⟩ []),
     specOutcome s.ss ⟨5, 0⟩ (.copy ⟨4, 0⟩),
     specOutcome s.ss ⟨5, 0⟩ (.del ⟨4, 0⟩)] =
    [.panic .alreadyHas, .panic .addedAndRemoved, .panic .missing, .panic .missing,
     .panic .noComponents, .ok (some ⟨5, 0⟩), .ok none] := by
  decide +kernel

end Ark.Props.C16Hist
