/-
  C20 — The 64-bit mask build (`ark_tiny`) and the 256-bit mask build behave identically on
  histories that stay within 64 component types.

  The two builds differ in one type only: the component mask (`bitMask64`, one uint64, against
  `bitMask256`, 4×uint64).  Everything the world decides from masks goes through the operations
  below, so the statement is a simulation: `embed : Mask64 → Mask` (zero extension) commutes with
  every mask operation on component IDs below 64, and every mask *test* gives the same answer.

  * `mask64_sim_*` — `get`, `set`, `clear`, `or`, `ofList`, `contains`, `containsAny`, `isZero`,
    equality; `toList_embed` (the archetype's component list).
  * complement is the one operation that does not commute (`mask64_not_differs`,
    `mask64_not_relation`); a complement is only ever consumed by `containsAny` against the mask
    of an entity/archetype, where the width does not matter (`mask64_sim_containsAny_not`).
    `contains` against a complement would tell the builds apart (`mask64_contains_not_differs`);
    the library never does that.
  * `filter_sim`, `exclusive_filter_sim` — `filter.matches`, with `Exclusive` applied in each
    build at its own width.
  * `observer_pred_sim_*`, `observer_early_sim_*` — the per-observer predicates and the
    early-outs of the five `Fire*` families, for non-exclusive and exclusive observers.
  * the `example`s at the end evaluate both builds on concrete masks.

  Hypothesis recorded once: all component IDs that are set are `< 64` (the tiny build's registry
  panics at the 65th type).  `mask64_set_ge` shows what happens beyond: the shift yields 0.
-/
import Ark.Proofs.MaskWidth
import Ark.Props.C20Words

namespace Ark.Props.C20
open Ark Ark.Mask64

/-! ## 1. Mask operations -/

theorem mask64_sim_get (m : Mask64) (c : Nat) :
    (embed m).get c = (decide (c < 64) && m.get c) :=
  get_embed m c

/-- … and the guard is redundant. -/
theorem mask64_sim_get' (m : Mask64) (c : Nat) : (embed m).get c = m.get c :=
  get_embed' m c

theorem mask64_sim_empty : embed Mask64.empty = Mask.empty :=
  embed_empty

theorem mask64_sim_set (m : Mask64) (c : Nat) (hc : c < 64) :
    embed (m.set c) = (embed m).set c :=
  embed_set m c hc

/-- Outside the hypothesis the builds do differ: setting an ID ≥ 64 is a no-op at width 64. -/
theorem mask64_set_ge (m : Mask64) (c : Nat) (hc : 64 ≤ c) : m.set c = m :=
  set_ge m c hc

theorem mask64_sim_clear (m : Mask64) (c : Nat) : embed (m.clear c) = (embed m).clear c :=
  embed_clear m c

theorem mask64_sim_or (a b : Mask64) : embed (a.or b) = (embed a).or (embed b) :=
  embed_or a b

theorem mask64_sim_ofList (cs : List Nat) (h : ∀ c ∈ cs, c < 64) :
    embed (Mask64.ofList cs) = Mask.ofList cs :=
  embed_ofList cs h

theorem mask64_sim_contains (a b : Mask64) : (embed a).contains (embed b) = a.contains b :=
  contains_embed a b

theorem mask64_sim_containsAny (a b : Mask64) :
    (embed a).containsAny (embed b) = a.containsAny b :=
  containsAny_embed a b

theorem mask64_sim_isZero (m : Mask64) : (embed m).isZero = m.isZero :=
  isZero_embed m

/-- Mask equality (archetype lookup) is preserved and reflected. -/
theorem mask64_sim_eq (a b : Mask64) : embed a = embed b ↔ a = b :=
  embed_eq_iff a b

/-- The archetype's component list is the same in both builds (for any number `n` of registered
    types; in the tiny build `n ≤ 64`). -/
theorem toList_embed (m : Mask64) (n : Nat) :
    (embed m).toList n = (List.range n).filter m.get :=
  Mask64.toList_embed m n

theorem toList_embed' (m : Mask64) (n : Nat) : (embed m).toList n = m.toList n :=
  Mask64.toList_embed m n

/-! ## 2. Complement -/

/-- `not` never commutes with the embedding. -/
theorem mask64_not_differs (m : Mask64) : embed m.not ≠ (embed m).not :=
  embed_not_ne m

/-- The exact relation, bitwise … -/
theorem mask64_not_get (m : Mask64) (c : Nat) :
    (embed m).not.get c = (decide (c < 256) && !(decide (c < 64) && m.get c)) ∧
    (embed m.not).get c = (decide (c < 64) && !m.get c) :=
  ⟨get_not_embed m c, get_embed_not m c⟩

/-- … and as masks: the 64-bit complement is the 256-bit one restricted to IDs below 64. -/
theorem mask64_not_relation (m : Mask64) :
    embed m.not = (embed m).not &&& embed Mask64.empty.not :=
  embed_not m

/-- The use of a complement (`Exclusive`): the same answer at both widths. -/
theorem mask64_sim_containsAny_not (a f : Mask64) :
    (embed a).containsAny (embed f).not = a.containsAny f.not :=
  containsAny_embed_not a f

/-- `contains` against a complement distinguishes the builds: at width 256 it is always false on
    embedded masks, at width 64 it is true for `a = f.not`. -/
theorem mask64_contains_not_differs (f : Mask64) :
    (embed f.not).contains (embed f).not = false ∧ f.not.contains f.not = true :=
  ⟨contains_embed_not f.not f, (Mask64.contains_iff _ _).mpr (fun _ h => h)⟩

/-! ## 3. Filters -/

/-- Non-exclusive filters. -/
theorem filter_sim (f : Filter64) (a : Mask64) :
    f.embed.matchesMask (embed a) = f.matchesMask a :=
  Filter64.matchesMask_embed f a

/-- `Without(cs…)` commutes with the embedding. -/
theorem filter_without_sim (f : Filter64) (cs : List Nat) (h : ∀ c ∈ cs, c < 64) :
    (f.withoutList cs).embed = f.embed.withoutList cs :=
  Filter64.withoutList_embed f cs h

/-- `Exclusive` filters: each build complements at its own width; the filters differ as objects
    but match the same masks. -/
theorem exclusive_filter_sim (f : Filter64) (a : Mask64) :
    f.embed.exclusive.matchesMask (embed a) = f.exclusive.matchesMask a :=
  Filter64.exclusive_matchesMask_embed f a

theorem exclusive_filter_differs (f : Filter64) : f.exclusive.embed ≠ f.embed.exclusive :=
  Filter64.exclusive_embed_ne f

/-- In both builds an exclusive filter matches exactly its own mask. -/
theorem exclusive_filter_matches_iff (f : Filter64) (a : Mask64) :
    (f.exclusive.matchesMask a = true ↔ a = f.mask) ∧
    (f.embed.exclusive.matchesMask (embed a) = true ↔ a = f.mask) := by
  refine ⟨Filter64.exclusive_matches_iff f a, ?_⟩
  rw [exclusive_filter_sim]
  exact Filter64.exclusive_matches_iff f a

/-! ## 4. Observers

`d.embed excl` is the default-build `observerData`; for `excl = true` its `withoutMask` is
`withMask.not` at width 256, and `d.ExclOK excl` says the tiny-build `withoutMask` is
`withMask.not` at width 64. -/

theorem observer_pred_sim_entity (excl : Bool) (d : ObsData64) (h : d.ExclOK excl) (m : Mask64) :
    Pred.entity (d.embed excl) (embed m) = Pred64.entity d m :=
  Pred64.entity_embed excl d h m

theorem observer_pred_sim_entityRel (excl : Bool) (d : ObsData64) (h : d.ExclOK excl)
    (m : Mask64) :
    Pred.entityRel (d.embed excl) (embed m) = Pred64.entityRel d m :=
  Pred64.entityRel_embed excl d h m

theorem observer_pred_sim_add (excl : Bool) (d : ObsData64) (h : d.ExclOK excl)
    (old new : Mask64) :
    Pred.add (d.embed excl) (embed old) (embed new) = Pred64.add d old new :=
  Pred64.add_embed excl d h old new

theorem observer_pred_sim_remove (excl : Bool) (d : ObsData64) (h : d.ExclOK excl)
    (old new : Mask64) :
    Pred.remove (d.embed excl) (embed old) (embed new) = Pred64.remove d old new :=
  Pred64.remove_embed excl d h old new

theorem observer_pred_sim_set (excl : Bool) (d : ObsData64) (h : d.ExclOK excl)
    (mask emask : Mask64) :
    Pred.set (d.embed excl) (embed mask) (embed emask) = Pred64.set d mask emask :=
  Pred64.set_embed excl d h mask emask

/-- The hypothesis is what `AddObserver` establishes: a non-exclusive observer needs nothing, an
    exclusive one has `withoutMask = withMask.not`. -/
theorem observer_exclOK_false (d : ObsData64) : d.ExclOK false :=
  fun h => nomatch h

theorem observer_exclOK_true (d : ObsData64) :
    ({ d with withoutMask := d.withMask.not, hasWithout := true } : ObsData64).ExclOK true :=
  fun _ => rfl

theorem observer_early_sim_entity (es : EvtMasks64) (os : List Nat) (ho : Bool) (m : Mask64) :
    Early.entity (es.embed os ho) (embed m) = Early64.entity es m :=
  Early64.entity_embed es os ho m

theorem observer_early_sim_entityRel (es : EvtMasks64) (os : List Nat) (ho : Bool) (m : Mask64) :
    Early.entityRel (es.embed os ho) (embed m) = Early64.entityRel es m :=
  Early64.entityRel_embed es os ho m

theorem observer_early_sim_add (es : EvtMasks64) (os : List Nat) (ho : Bool) (old new : Mask64) :
    Early.add (es.embed os ho) (embed old) (embed new) = Early64.add es old new :=
  Early64.add_embed es os ho old new

theorem observer_early_sim_remove (es : EvtMasks64) (os : List Nat) (ho : Bool)
    (old new : Mask64) :
    Early.remove (es.embed os ho) (embed old) (embed new) = Early64.remove es old new :=
  Early64.remove_embed es os ho old new

theorem observer_early_sim_set (es : EvtMasks64) (os : List Nat) (ho : Bool)
    (mask emask : Mask64) :
    Early.set (es.embed os ho) (embed mask) (embed emask) = Early64.set es mask emask :=
  Early64.set_embed es os ho mask emask

/-! ## 5. Non-vacuity: both builds evaluated on concrete masks -/

/-- the filter `{3, 63}`, tiny build -/
private def f64 : Filter64 := { mask := Mask64.ofList [3, 63] }
/-- the same filter, default build -/
private def f256 : Filter := { mask := Mask.ofList [3, 63] }

example : f64.embed = f256 := by decide

-- exclusive on {3, 63}: matches {3, 63}, not {3, 63, 5}, not {3} — at both widths
example : f64.exclusive.matchesMask (Mask64.ofList [3, 63]) = true := by decide
example : f256.exclusive.matchesMask (Mask.ofList [3, 63]) = true := by decide
example : f64.exclusive.matchesMask (Mask64.ofList [3, 63, 5]) = false := by decide
example : f256.exclusive.matchesMask (Mask.ofList [3, 63, 5]) = false := by decide
example : f64.exclusive.matchesMask (Mask64.ofList [3]) = false := by decide
example : f256.exclusive.matchesMask (Mask.ofList [3]) = false := by decide
-- non-exclusive: {3, 63, 5} matches; with `Without(5)` it does not
example : f64.matchesMask (Mask64.ofList [3, 63, 5]) = true := by decide
example : f256.matchesMask (Mask.ofList [3, 63, 5]) = true := by decide
example : (f64.withoutList [5]).matchesMask (Mask64.ofList [3, 63, 5]) = false := by decide
example : (f256.withoutList [5]).matchesMask (Mask.ofList [3, 63, 5]) = false := by decide
-- the two exclusive filters are different objects: bit 64 of `without`
example : f64.exclusive.embed.without.get 64 = false ∧ f256.exclusive.without.get 64 = true := by
  decide
-- component lists
example : (embed (Mask64.ofList [63, 3])).toList 64 = [3, 63] := by decide
example : (Mask64.ofList [63, 3]).toList 64 = [3, 63] := by decide
-- outside the hypothesis the builds differ: ID 64
example : Mask64.ofList [64] = Mask64.empty ∧ Mask.ofList [64] ≠ Mask.empty := by decide

/-- an exclusive observer `With(3, 63)` in the tiny build … -/
private def d64 : ObsData64 :=
  { withMask := Mask64.ofList [3, 63], hasWith := true,
    withoutMask := (Mask64.ofList [3, 63]).not, hasWithout := true }

example : d64.ExclOK true := fun _ => rfl
-- … fires for {3, 63} and not for {3, 63, 5}, at both widths
example : Pred64.entity d64 (Mask64.ofList [3, 63]) = true := by decide
example : Pred.entity (d64.embed true) (Mask.ofList [3, 63]) = true := by decide
example : Pred64.entity d64 (Mask64.ofList [3, 63, 5]) = false := by decide
example : Pred.entity (d64.embed true) (Mask.ofList [3, 63, 5]) = false := by decide


/-! ## the word-level mask code of both builds (regenerated from mask256.go / mask64.go) computes the
    model's mask operations; `Get` of the 64-bit mask needs `bit < 64` (the tiny registry is full at 64) -/

theorem words_mask256_abs_injective : type_of% @Ark.Props.C20Words.mask256_abs_injective := @Ark.Props.C20Words.mask256_abs_injective

theorem words_mask256_get_inRange : type_of% @Ark.Props.C20Words.mask256_get_inRange := @Ark.Props.C20Words.mask256_get_inRange

theorem words_mask256_set_inRange : type_of% @Ark.Props.C20Words.mask256_set_inRange := @Ark.Props.C20Words.mask256_set_inRange

theorem words_mask256_clear_inRange : type_of% @Ark.Props.C20Words.mask256_clear_inRange := @Ark.Props.C20Words.mask256_clear_inRange

theorem words_mask256_get : type_of% @Ark.Props.C20Words.mask256_get := @Ark.Props.C20Words.mask256_get

theorem words_mask256_set : type_of% @Ark.Props.C20Words.mask256_set := @Ark.Props.C20Words.mask256_set

theorem words_mask256_clear : type_of% @Ark.Props.C20Words.mask256_clear := @Ark.Props.C20Words.mask256_clear

theorem words_mask256_not : type_of% @Ark.Props.C20Words.mask256_not := @Ark.Props.C20Words.mask256_not

theorem words_mask256_orI : type_of% @Ark.Props.C20Words.mask256_orI := @Ark.Props.C20Words.mask256_orI

theorem words_mask256_reset : type_of% @Ark.Props.C20Words.mask256_reset := @Ark.Props.C20Words.mask256_reset

theorem words_mask256_isZero : type_of% @Ark.Props.C20Words.mask256_isZero := @Ark.Props.C20Words.mask256_isZero

theorem words_mask256_contains : type_of% @Ark.Props.C20Words.mask256_contains := @Ark.Props.C20Words.mask256_contains

theorem words_mask256_containsAny : type_of% @Ark.Props.C20Words.mask256_containsAny := @Ark.Props.C20Words.mask256_containsAny

theorem words_mask256_equals : type_of% @Ark.Props.C20Words.mask256_equals := @Ark.Props.C20Words.mask256_equals

theorem words_mask256_totalBitsSet : type_of% @Ark.Props.C20Words.mask256_totalBitsSet := @Ark.Props.C20Words.mask256_totalBitsSet

theorem words_mask256_ofIDs : type_of% @Ark.Props.C20Words.mask256_ofIDs := @Ark.Props.C20Words.mask256_ofIDs

theorem words_mask64_abs_injective : type_of% @Ark.Props.C20Words.mask64_abs_injective := @Ark.Props.C20Words.mask64_abs_injective

theorem words_mask64_get : type_of% @Ark.Props.C20Words.mask64_get := @Ark.Props.C20Words.mask64_get

theorem words_mask64_get_out_of_range : type_of% @Ark.Props.C20Words.mask64_get_out_of_range := @Ark.Props.C20Words.mask64_get_out_of_range

theorem words_mask64_set : type_of% @Ark.Props.C20Words.mask64_set := @Ark.Props.C20Words.mask64_set

theorem words_mask64_clear : type_of% @Ark.Props.C20Words.mask64_clear := @Ark.Props.C20Words.mask64_clear

theorem words_mask64_not : type_of% @Ark.Props.C20Words.mask64_not := @Ark.Props.C20Words.mask64_not

theorem words_mask64_orI : type_of% @Ark.Props.C20Words.mask64_orI := @Ark.Props.C20Words.mask64_orI

theorem words_mask64_reset : type_of% @Ark.Props.C20Words.mask64_reset := @Ark.Props.C20Words.mask64_reset

theorem words_mask64_isZero : type_of% @Ark.Props.C20Words.mask64_isZero := @Ark.Props.C20Words.mask64_isZero

theorem words_mask64_contains : type_of% @Ark.Props.C20Words.mask64_contains := @Ark.Props.C20Words.mask64_contains

theorem words_mask64_containsAny : type_of% @Ark.Props.C20Words.mask64_containsAny := @Ark.Props.C20Words.mask64_containsAny

theorem words_mask64_equals : type_of% @Ark.Props.C20Words.mask64_equals := @Ark.Props.C20Words.mask64_equals

theorem words_mask64_totalBitsSet : type_of% @Ark.Props.C20Words.mask64_totalBitsSet := @Ark.Props.C20Words.mask64_totalBitsSet

theorem words_mask64_ofIDs : type_of% @Ark.Props.C20Words.mask64_ofIDs := @Ark.Props.C20Words.mask64_ofIDs


end Ark.Props.C20
