import Ark.Proofs.Rejects
import Ark.Generated.FactsLock
import Ark.Generated.FactsAlive
import Ark.Props.C10Rel

namespace Ark.Props.C10
open Ark

/-! C10 — precondition violations are rejected, not absorbed. -/

/-- T2 (regenerated from the source): every method that takes an `Entity` checks `Alive`, or
    delegates to a checked core operation, before it first reads the entity index. -/
theorem alive_checked_before_use : Generated.aliveGuards.all (·.2) = true := by decide +kernel

/-- the API surface that was inspected is not empty and covers all generated arities -/
theorem alive_guard_surface : Generated.aliveGuards.length ≥ 150 := by decide +kernel

/-- T2: every structural entry point starts with the lock check. -/
theorem lock_checked_first : (∀ p ∈ Generated.lockFirst, p.2 = true) ∧ (∀ p ∈ Generated.newBatchLockFirst, p.2 = true) ∧
    Generated.lockFirst.length = 15 ∧ Generated.newBatchLockFirst.length = 13 := by decide

/-- add on a dead handle: panic, state unchanged -/
theorem addCore_dead : type_of% @World.addCore_dead := @World.addCore_dead

/-- remove on a dead handle: panic, state unchanged -/
theorem removeCore_dead : type_of% @World.removeCore_dead := @World.removeCore_dead

/-- exchange on a dead handle: panic, state unchanged -/
theorem exchangeCore_dead : type_of% @World.exchangeCore_dead := @World.exchangeCore_dead

/-- set relations on a dead handle: panic, state unchanged -/
theorem setRelationsCore_dead : type_of% @World.setRelationsCore_dead := @World.setRelationsCore_dead

/-- removing a dead handle: panic, state unchanged -/
theorem opRemoveEntity_dead : type_of% @World.opRemoveEntity_dead := @World.opRemoveEntity_dead

/-- copying a dead handle: panic, state unchanged (repaired defect D4) -/
theorem opCopyEntity_dead : type_of% @World.opCopyEntity_dead := @World.opCopyEntity_dead

/-- Set on a dead handle: panic, state unchanged -/
theorem opSet_dead : type_of% @World.opSet_dead := @World.opSet_dead

/-- adding no components: panic, state unchanged -/
theorem addCore_noComponents : type_of% @World.addCore_noComponents := @World.addCore_noComponents

/-- removing no components: panic, state unchanged -/
theorem removeCore_noComponents : type_of% @World.removeCore_noComponents := @World.removeCore_noComponents

/-- exchanging nothing: panic, state unchanged -/
theorem exchangeCore_noComponents : type_of% @World.exchangeCore_noComponents := @World.exchangeCore_noComponents

/-- no relations given: panic, state unchanged -/
theorem setRelationsCore_noRelations : type_of% @World.setRelationsCore_noRelations := @World.setRelationsCore_noRelations

/-- adding a component the entity has: panic, state unchanged -/
theorem graphFindAdd_already : type_of% @World.graphFindAdd_already := @World.graphFindAdd_already

/-- removing a component the entity lacks: panic, state unchanged -/
theorem graphFindRemove_missing : type_of% @World.graphFindRemove_missing := @World.graphFindRemove_missing

/-- changing a locked world: panic, state unchanged -/
theorem addCore_locked : type_of% @World.addCore_locked := @World.addCore_locked

/-- changing a locked world: panic, state unchanged -/
theorem opRemoveEntity_locked : type_of% @World.opRemoveEntity_locked := @World.opRemoveEntity_locked


/-! ### Relation arguments are validated first, on every access path (Props/C10Rel; repairs D24 and D26) -/

/-- the pre-validation of relation arguments returns the unchanged world, and its panic class is that of the first failing relation (order: target, relation component, membership) — typed, Map and ID-based path -/
theorem rel_preCheck_is_verdict : type_of% @Ark.Props.C10Rel.preCheck_is_verdict := @Ark.Props.C10Rel.preCheck_is_verdict

/-- a relation passes iff its target is zero or alive, its component is a relation component and (where asked) it is among the components of the call -/
theorem rel_relation_passes_iff : type_of% @Ark.Props.C10Rel.relation_passes_iff := @Ark.Props.C10Rel.relation_passes_iff

/-- NewEntity with a refused relation list: exactly `panic k`, world unchanged — no hypothesis on the world -/
theorem rel_newEntity_refused : type_of% @Ark.Props.C10Rel.newEntity_refused := @Ark.Props.C10Rel.newEntity_refused

/-- Add with a refused relation list: exactly `panic k`, world unchanged -/
theorem rel_add_refused : type_of% @Ark.Props.C10Rel.add_refused := @Ark.Props.C10Rel.add_refused

/-- Exchange with a refused relation list: exactly `panic k`, world unchanged -/
theorem rel_exchange_refused : type_of% @Ark.Props.C10Rel.exchange_refused := @Ark.Props.C10Rel.exchange_refused

/-- SetRelations with a refused relation list: exactly `panic k`, world unchanged -/
theorem rel_setRelations_refused : type_of% @Ark.Props.C10Rel.setRelations_refused := @Ark.Props.C10Rel.setRelations_refused

/-- **naming a removed entity as target always panics, world unchanged** — NewEntity, every path -/
theorem rel_newEntity_removed_target : type_of% @Ark.Props.C10Rel.newEntity_removed_target := @Ark.Props.C10Rel.newEntity_removed_target

/-- … Add, every path (a dead entity handle is reported first) -/
theorem rel_add_removed_target : type_of% @Ark.Props.C10Rel.add_removed_target := @Ark.Props.C10Rel.add_removed_target

/-- … Exchange, every path -/
theorem rel_exchange_removed_target : type_of% @Ark.Props.C10Rel.exchange_removed_target := @Ark.Props.C10Rel.exchange_removed_target

/-- … SetRelations, every path -/
theorem rel_setRelations_removed_target : type_of% @Ark.Props.C10Rel.setRelations_removed_target := @Ark.Props.C10Rel.setRelations_removed_target

/-- exactly `deadTarget` when the relations before the offending one pass -/
theorem rel_newEntity_removed_target_exact : type_of% @Ark.Props.C10Rel.newEntity_removed_target_exact := @Ark.Props.C10Rel.newEntity_removed_target_exact

/-- … Add -/
theorem rel_add_removed_target_exact : type_of% @Ark.Props.C10Rel.add_removed_target_exact := @Ark.Props.C10Rel.add_removed_target_exact

/-- … Exchange -/
theorem rel_exchange_removed_target_exact : type_of% @Ark.Props.C10Rel.exchange_removed_target_exact := @Ark.Props.C10Rel.exchange_removed_target_exact

/-- … SetRelations -/
theorem rel_setRelations_removed_target_exact : type_of% @Ark.Props.C10Rel.setRelations_removed_target_exact := @Ark.Props.C10Rel.setRelations_removed_target_exact

/-- a relation for a component that is not among the created ones: `relNotInMask`, world unchanged (typed and ID-based path) -/
theorem rel_newEntity_not_added : type_of% @Ark.Props.C10Rel.newEntity_not_added := @Ark.Props.C10Rel.newEntity_not_added

/-- … Add -/
theorem rel_add_not_added : type_of% @Ark.Props.C10Rel.add_not_added := @Ark.Props.C10Rel.add_not_added

/-- … Exchange -/
theorem rel_exchange_not_added : type_of% @Ark.Props.C10Rel.exchange_not_added := @Ark.Props.C10Rel.exchange_not_added

/-- … SetRelations through a typed mapper -/
theorem rel_setRelations_not_in_mapper : type_of% @Ark.Props.C10Rel.setRelations_not_in_mapper := @Ark.Props.C10Rel.setRelations_not_in_mapper

/-- **a relation component named twice is rejected with the world unchanged** when a table of the archetype is active (repair D26) — NewEntity, every path -/
theorem rel_newEntity_relTwice : type_of% @Ark.Props.C10Rel.newEntity_relTwice := @Ark.Props.C10Rel.newEntity_relTwice

/-- … Add -/
theorem rel_add_relTwice : type_of% @Ark.Props.C10Rel.add_relTwice := @Ark.Props.C10Rel.add_relTwice

/-- the table lookup itself refuses such a list -/
theorem rel_getTable_relTwice : type_of% @Ark.Props.C10Rel.getTable_relTwice := @Ark.Props.C10Rel.getTable_relTwice

/-- an accepted lookup into an archetype with relation columns names no component twice, whether the table existed (D26) or was created (D18) -/
theorem rel_lookup_accepted_names_no_component_twice : type_of% @Ark.Props.C10Rel.lookup_accepted_names_no_component_twice := @Ark.Props.C10Rel.lookup_accepted_names_no_component_twice


end Ark.Props.C10
