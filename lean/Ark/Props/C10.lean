import Ark.Proofs.Rejects
import Ark.Generated.FactsLock
import Ark.Generated.FactsAlive

namespace Ark.Props.C10
open Ark

/-! C10 — precondition violations are rejected, not absorbed. -/

/-- T2 (regenerated from the source): every method that takes an `Entity` checks `Alive`, or
    delegates to a checked core operation, before it first reads the entity index. -/
theorem alive_checked_before_use : Generated.aliveGuards.all (·.2) = true := by decide +kernel

/-- the API surface that was inspected is not empty and covers all generated arities -/
theorem alive_guard_surface : Generated.aliveGuards.length ≥ 150 := by decide +kernel

/-- T2: every structural entry point starts with the lock check. -/
theorem lock_checked_first : (∀ p ∈ Generated.lockFirst, p.2 = true) ∧ (∀ p ∈ Generated.newBatchLockFirst, p.2 = true) ∧
    Generated.lockFirst.length = 15 ∧ Generated.newBatchLockFirst.length = 13 := by decide

/-- add on a dead handle: panic, state unchanged -/
theorem addCore_dead : type_of% @World.addCore_dead := @World.addCore_dead

/-- remove on a dead handle: panic, state unchanged -/
theorem removeCore_dead : type_of% @World.removeCore_dead := @World.removeCore_dead

/-- exchange on a dead handle: panic, state unchanged -/
theorem exchangeCore_dead : type_of% @World.exchangeCore_dead := @World.exchangeCore_dead

/-- set relations on a dead handle: panic, state unchanged -/
theorem setRelationsCore_dead : type_of% @World.setRelationsCore_dead := @World.setRelationsCore_dead

/-- removing a dead handle: panic, state unchanged -/
theorem opRemoveEntity_dead : type_of% @World.opRemoveEntity_dead := @World.opRemoveEntity_dead

/-- copying a dead handle: panic, state unchanged (repaired defect D4) -/
theorem opCopyEntity_dead : type_of% @World.opCopyEntity_dead := @World.opCopyEntity_dead

/-- Set on a dead handle: panic, state unchanged -/
theorem opSet_dead : type_of% @World.opSet_dead := @World.opSet_dead

/-- adding no components: panic, state unchanged -/
theorem addCore_noComponents : type_of% @World.addCore_noComponents := @World.addCore_noComponents

/-- removing no components: panic, state unchanged -/
theorem removeCore_noComponents : type_of% @World.removeCore_noComponents := @World.removeCore_noComponents

/-- exchanging nothing: panic, state unchanged -/
theorem exchangeCore_noComponents : type_of% @World.exchangeCore_noComponents := @World.exchangeCore_noComponents

/-- no relations given: panic, state unchanged -/
theorem setRelationsCore_noRelations : type_of% @World.setRelationsCore_noRelations := @World.setRelationsCore_noRelations

/-- adding a component the entity has: panic, state unchanged -/
theorem graphFindAdd_already : type_of% @World.graphFindAdd_already := @World.graphFindAdd_already

/-- removing a component the entity lacks: panic, state unchanged -/
theorem graphFindRemove_missing : type_of% @World.graphFindRemove_missing := @World.graphFindRemove_missing

/-- changing a locked world: panic, state unchanged -/
theorem addCore_locked : type_of% @World.addCore_locked := @World.addCore_locked

/-- changing a locked world: panic, state unchanged -/
theorem opRemoveEntity_locked : type_of% @World.opRemoveEntity_locked := @World.opRemoveEntity_locked

end Ark.Props.C10
