/-
  Ark.Props.C06Rel — C06 + C04 in worlds WITH relations: a batch removal whose selection contains
  relation targets (also targets of each other, also several targets of one table) leaves the
  world that `RemoveEntity` applied to each selected entity leaves, in any order.

  Setting: the joint invariant `TInv w fl` of `Ark.Proofs.TargetsInv` (relations, relation
  targets, per-target tables), `RowsAlive w` (rows hold alive handles; both are part of `QGood`
  of `Ark.Props.C03Rel`), unlocked world, no observers, uncached filter whose relation
  constraints — fixed by `.Relations(…)` and per call — are typed (`RelsTyped`).
  Proofs: `Ark/Proofs/BatchRelClean.lean`, `BatchRelStep.lean`, `BatchRelLoops.lean` (the cleanup
  of a removed target while other removed targets are still pending — the invariants of
  `Ark.Proofs.TargetsCleanup` generalised from one pending dead target to a list),
  `BatchRelRemove.lean` (the batch), `BatchRelSingles.lean` (the singles, the selection, the
  comparison), `BatchRelHist.lean` (chains of `QGood` steps), `BatchRelSet.lean` and
  `BatchRelSetSpec.lean` (`setRelationsBatch`), `BatchRelReach.lean` (histories).

  Vocabulary
  * `rowsOf w t` — the handles in the rows of table `t`; `ts.flatMap (rowsOf w)` — the entities a
    batch over the tables `ts` affects, in the batch's order;
  * `EntMatches w f rels i` — the component set of ID `i` passes the mask test of `f` and, for
    every relation of the query, the target of `i` is the target asked for;
  * `zeroIn es x` — `x`, or the zero entity if `x ∈ es`;
  * `RemovedAllRelPost w fl es w'` — what removing the entities `es` guarantees: `TInv` for the
    free list extended by the removed IDs, the removed handles are dead and un-indexed, every
    other entity keeps liveness, components, values, and its targets up to `zeroIn es`;
  * `removeSeq run es` — `RemoveEntity` applied to the handles `es`, in order;
  * `SetRelAllPost w fl es rels w'` — what assigning the relations `rels` to the entities `es`
    guarantees: `TInv` kept; everybody keeps liveness, components, values; the entities of `es`
    have the targets named and keep their other targets; nobody else's targets change;
  * `setRelSeq run es rels` — `setRelations e rels` applied to the handles `es`, in order;
  * `ReachB run w` — `w` is reached from `NewWorld` by the single operations with relation
    targets, queries, and the two batches.
-/
import Ark.Proofs.BatchRelReach
import Ark.Props.C03Rel

namespace Ark.Props.C06Rel
open Ark Ark.World Ark.Props.C01World Ark.QueryRel

/-! ## 1. the batch removal -/

/-- without observers and callback, `RemoveEntities(batch, nil)` is the un-indexing loop over the
    selected tables followed by `cleanupArchetypes e` + reset of the target flag for every
    selected entity that carried the flag -/
theorem removeEntities_is_unindex_then_cleanups : type_of% @opRemoveEntities_eq_rel :=
  @opRemoveEntities_eq_rel

/-- **the batch never fails and removes exactly the rows of the selected tables**: `TInv` for the
    free list extended by the removed IDs; every selected entity is dead and un-indexed; every
    other entity keeps liveness, components and values; its targets are unchanged except that a
    removed target reads as the zero entity (for ANY duplicate-free list of existing tables the
    selection returns) -/
theorem removeEntities_rel_spec : type_of% @opRemoveEntities_rel_spec := @opRemoveEntities_rel_spec

/-- the selection of an uncached batch with typed relation constraints succeeds, changes nothing,
    and returns a duplicate-free list of existing matching tables containing every non-empty
    matching table -/
theorem batch_selection_rel : type_of% @getBatchTables_rel := @getBatchTables_rel

/-- **the selected entities are exactly the alive entities that match the filter and its
    relation targets** -/
theorem selected_iff_alive_matching : type_of% @mem_rows_iff_matches := @mem_rows_iff_matches

/-- the singles: `RemoveEntity` applied, in any order, to alive handles with distinct IDs -/
theorem removeSeq_rel_spec : type_of% @removeSeq_rel_post := @removeSeq_rel_post

/-- two worlds obtained by removing the same set of entities are observationally equal:
    `Alive`, components, values and relation targets of every ID -/
theorem removed_obs_eq : type_of% @RemovedAllRelPost.obs_eq := @RemovedAllRelPost.obs_eq

/-- **C06 with relation targets among the removed**: batch and singles in the batch's order both
    succeed, both satisfy `RemovedAllRelPost`, and even their entity pools are equal -/
theorem removeEntities_rel_eq_singles : type_of% @opRemoveEntities_rel_eq_singles :=
  @opRemoveEntities_rel_eq_singles

/-- **order independence**: the singles in ANY order give the same `Alive`, components, values
    and relation targets as the batch -/
theorem removeEntities_rel_any_order : type_of% @opRemoveEntities_rel_any_order :=
  @opRemoveEntities_rel_any_order

/-! ## 2. the cleanup with several pending dead targets (C04) -/

/-- one iteration of the inner loop of `cleanupArchetypes g` while the dead targets `D ∋ g` are
    pending: never panics; the rows move to the table with EVERY dead target replaced by the zero
    entity (`zeroDead`), the table is freed, the invariants "up to the pending targets" are kept -/
theorem cleanTable_step_pending : type_of% @cleanTable_stepD := @cleanTable_stepD

/-- `cleanupArchetypes g` while `D ∋ g` is pending: never panics, restores the full relation
    index, afterwards no non-free table targets `g` -/
theorem cleanupArchetypes_pending : type_of% @cleanupArchetypes_specD := @cleanupArchetypes_specD

/-- the world after the un-indexing loop satisfies the cleanup invariants for the pending dead
    targets `cleanupList w ts` -/
theorem unindexed_satisfies_cleanup_invariants : type_of% @unindexed_base := @unindexed_base

/-- the cleanup loop over all pending targets never panics and leaves nothing pending -/
theorem cleanup_loop_spec : type_of% @cleanupAll_spec := @cleanupAll_spec

/-! ## 3. `setRelationsBatch` -/

/-- without observers and callback, `setRelationsBatch` is — in the order in which it runs since
    the repair of defect D27 — the table selection, the loop of `prepareRelationsMove`, `Lock`,
    `moveEntities` for every collected move, `registerTargets`, `Unlock` -/
theorem setRelationsBatch_normal_form_planFirst : type_of% @setRelationsBatch_eq_planFirst :=
  @setRelationsBatch_eq_planFirst

/-- a panic of the lookup loop is the batch's panic, with the same state: the lock has not been
    taken (see Ark/Props/C07Batch.lean for what that state is) -/
theorem setRelationsBatch_lookup_panic : type_of% @setRelationsBatch_prepLoop_panic :=
  @setRelationsBatch_prepLoop_panic

/-- … and hence also `Lock`, the table selection, the loop of `prepareRelationsMove`,
    `moveEntities` for every collected move, `registerTargets`, `Unlock` (the order before the
    repair) whenever the lookup loop succeeds: selection and lookup loop neither read nor write
    the lock -/
theorem setRelationsBatch_normal_form : type_of% @setRelationsBatch_eq := @setRelationsBatch_eq

/-- **a table whose targets the assignment does not change is skipped** (`prepareRelationsMove`
    returns `none`, the world is untouched) … -/
theorem unchanged_table_skipped : type_of% @prepareRelationsMove_skipped :=
  @prepareRelationsMove_skipped

/-- … and only such a table -/
theorem changed_table_moves : type_of% @prepareRelationsMove_moves := @prepareRelationsMove_moves

/-- the lookup loop never fails for a valid call; every collected move goes from a selected table
    whose targets change to another non-free table of the same layout holding the edited targets -/
theorem lookup_loop_spec : type_of% @prepLoop_spec := @prepLoop_spec

/-- the move loop: the entities of a source read the targets of its destination, everybody else
    keeps targets, all keep components and values -/
theorem move_loop_spec : type_of% @moveLoop_spec := @moveLoop_spec

/-- **the batch never fails for a valid call** and assigns exactly the targets named to exactly
    the selected entities; `TInv` is kept -/
theorem setRelationsBatch_spec : type_of% @setRelationsBatch_rel_spec := @setRelationsBatch_rel_spec

/-- the singles: `setRelations` applied, in any order, to alive handles with distinct IDs that
    have the relation components named -/
theorem setRelSeq_spec : type_of% @setRelSeq_post := @setRelSeq_post

/-- **C06, `setRelationsBatch` = the fold of `setRelations`** over the selected entities in ANY
    order: same `Alive`, components, values and relation targets for every ID -/
theorem setRelationsBatch_eq_fold : type_of% @setRelationsBatch_eq_singles :=
  @setRelationsBatch_eq_singles

/-! ## 4. along chains of `QGood` steps, over histories -/

/-- `RemoveEntities(batch, nil)` never panics on a `QGood` world and leaves a `QGood` world (so
    queries, single operations and further batches can follow) -/
theorem qgood_removeEntities : type_of% @QGood.removeEntities := @QGood.removeEntities

/-- so does a valid `setRelationsBatch` -/
theorem qgood_setRelationsBatch : type_of% @QGood.setRelationsBatch := @QGood.setRelationsBatch

/-- a history of single operations and queries is a history -/
theorem reachB_of_reach : type_of% @ReachB.ofReach := @ReachB.ofReach

/-- every world reached by a history with batches is `QGood` and has no registered filter -/
theorem reachB_is_qgood : type_of% @reachB_qgood := @reachB_qgood

/-- **C06 + C04 over histories**: after every history, batch removal = single removals in any
    order (never failing, also when relation targets are removed) -/
theorem removeEntities_after_every_history : type_of% @reachB_removeEntities :=
  @reachB_removeEntities

/-- … and batch assignment = single assignments in any order -/
theorem setRelationsBatch_after_every_history : type_of% @reachB_setRelationsBatch :=
  @reachB_setRelationsBatch

/-- C03 still holds after batches: a query visits exactly the alive matching entities -/
theorem query_after_every_history : type_of% @reachB_query := @reachB_query

/-! ## 5. a concrete world: two parents that are themselves children of a grandparent, removed
together by one batch

Components: 0 = `ChildOf` (relation), 1 = `Pos`, 2 = `Parent` (marker), 3 = `Friend` (relation).
Entities: grandparent `gp = 2.0`; parents `pa = 3.0`, `pb = 4.0` (children of `gp`, marked
`Parent`); children 5, 7 of `pa`, child 6 of `pb`; entity 8 is a child of `pa` AND a friend of
`pb` — one table with two removed targets (the situation of defect D2). -/

open Ark.Props.C04World (noRun summary TabSum)

def g2 : World :=
  let w := World.init 2 2
  let w := (registerComponent { isRel := true } w).state
  let w := (registerComponent {} w).state
  let w := (registerComponent {} w).state
  (registerComponent { isRel := true } w).state

def gp : Ent := ⟨2, 0⟩
def pa : Ent := ⟨3, 0⟩
def pb : Ent := ⟨4, 0⟩

def g3 : World := (opNewEntity noRun .typed [1] [(1, 1)] [] g2).state                   -- gp
def g4 : World := (opNewEntity noRun .typed [0, 1, 2] [(1, 2)] [⟨0, gp⟩] g3).state      -- pa
def g5 : World := (opNewEntity noRun .typed [0, 1, 2] [(1, 3)] [⟨0, gp⟩] g4).state      -- pb
def g6 : World := (opNewEntity noRun .typed [0, 1] [(1, 4)] [⟨0, pa⟩] g5).state         -- 5
def g7 : World := (opNewEntity noRun .typed [0, 1] [(1, 5)] [⟨0, pb⟩] g6).state         -- 6
def g8 : World := (opNewEntity noRun .typed [0, 1] [(1, 6)] [⟨0, pa⟩] g7).state         -- 7
def g9 : World := (opNewEntity noRun .typed [0, 1, 3] [(1, 7)] [⟨0, pa⟩, ⟨3, pb⟩] g8).state  -- 8

/-- `Filter1[Parent]` -/
def foParent : FilterObj := { filter := { mask := Mask.ofList [2] }, ids := [2] }
/-- `Filter1[ChildOf].Relations(RelIdx(0, gp))`: the children of the grandparent -/
def foChildOfGp : FilterObj := { filter := { mask := Mask.ofList [0] }, ids := [0], rels := [⟨0, gp⟩] }

/-- the batch: `RemoveEntities(Filter1[Parent].Batch(), nil)` -/
def g10 : World := (opRemoveEntities noRun foParent [] false g9).state
/-- the same set selected through the relation: `RemoveEntities(…Relations(ChildOf → gp)…)` -/
def g10r : World := (opRemoveEntities noRun foChildOfGp [] false g9).state
/-- the singles, in the batch's order and in the other order -/
def g10s : World := (removeSeq noRun [pa, pb] g9).state
def g10s' : World := (removeSeq noRun [pb, pa] g9).state

theorem reach_g2 : Reach noRun g2 :=
  ((((Reach.init 2 2).reg _ (by decide +kernel)).reg _ (by decide +kernel)).reg _
    (by decide +kernel)).reg _ (by decide +kernel)

theorem reach_g3 : Reach noRun g3 :=
  reach_g2.new .typed [1] [(1, 1)] [] (by decide +kernel) (by decide +kernel) (by decide +kernel)
    (by decide +kernel) (by decide +kernel) (by decide +kernel) (by decide +kernel) (by decide +kernel)

theorem reach_g4 : Reach noRun g4 :=
  reach_g3.new .typed [0, 1, 2] [(1, 2)] [⟨0, gp⟩] (by decide +kernel) (by decide +kernel)
    (by decide +kernel) (by decide +kernel) (by decide +kernel) (by decide +kernel)
    (by decide +kernel) (by decide +kernel)

theorem reach_g5 : Reach noRun g5 :=
  reach_g4.new .typed [0, 1, 2] [(1, 3)] [⟨0, gp⟩] (by decide +kernel) (by decide +kernel)
    (by decide +kernel) (by decide +kernel) (by decide +kernel) (by decide +kernel)
    (by decide +kernel) (by decide +kernel)

theorem reach_g6 : Reach noRun g6 :=
  reach_g5.new .typed [0, 1] [(1, 4)] [⟨0, pa⟩] (by decide +kernel) (by decide +kernel)
    (by decide +kernel) (by decide +kernel) (by decide +kernel) (by decide +kernel)
    (by decide +kernel) (by decide +kernel)

theorem reach_g7 : Reach noRun g7 :=
  reach_g6.new .typed [0, 1] [(1, 5)] [⟨0, pb⟩] (by decide +kernel) (by decide +kernel)
    (by decide +kernel) (by decide +kernel) (by decide +kernel) (by decide +kernel)
    (by decide +kernel) (by decide +kernel)

theorem reach_g8 : Reach noRun g8 :=
  reach_g7.new .typed [0, 1] [(1, 6)] [⟨0, pa⟩] (by decide +kernel) (by decide +kernel)
    (by decide +kernel) (by decide +kernel) (by decide +kernel) (by decide +kernel)
    (by decide +kernel) (by decide +kernel)

theorem reach_g9 : Reach noRun g9 :=
  reach_g8.new .typed [0, 1, 3] [(1, 7)] [⟨0, pa⟩, ⟨3, pb⟩] (by decide +kernel) (by decide +kernel)
    (by decide +kernel) (by decide +kernel) (by decide +kernel) (by decide +kernel)
    (by decide +kernel) (by decide +kernel)

/-- **non-vacuity**: the hypotheses of the theorems of §1 hold in `g9`, for the marker filter and
    for the filter with a relation constraint -/
example : ∃ (fl : List Nat), TInv g9 fl ∧ RowsAlive g9 ∧ g9.isLocked = false ∧
    (∀ (evt : Nat), g9.obs.hasObservers evt = false) ∧
    RelsTyped g9 foParent.filter (foParent.rels ++ []) ∧
    RelsTyped g9 foChildOfGp.filter (foChildOfGp.rels ++ []) ∧
    2 * g9.entities.length < 2 ^ 32 ∧
    g9.tables.length + g9.entities.length * g9.relationArchetypes.length + 1 ≤ maxU32 := by
  have q := (reach_qgood noRun reach_g9).1
  obtain ⟨fl, h, hl, hno⟩ := q.good
  refine ⟨fl, h, q.rows, hl, hno, RelsTyped.nil _ _, ?_, by decide +kernel, by decide +kernel⟩
  intro r hr
  have : r = ⟨0, gp⟩ := by simpa [foChildOfGp] using hr
  subst this
  exact ⟨by decide +kernel, by decide +kernel⟩

/-- **non-vacuity of the multi-target cleanup invariants**: after the un-indexing loop of the
    batch over table 2 (the parents), TWO dead targets are pending, `pa` and `pb`, and the world
    satisfies `CleanBaseD [pa, pb]`, the full relation index `RInv` and `DeadSet` — the
    hypotheses of `cleanupArchetypes_pending` with `g = pa`, `D = [pa, pb]` -/
example : cleanupList g9 [2] = [pa, pb] ∧
    CleanBaseD [pa, pb] (removeTablesW g9 [2]) ∧ RInv (removeTablesW g9 [2]) ∧
    DeadSet (removeTablesW g9 [2]).pool [pa, pb] ∧ pa ∈ [pa, pb] := by
  have q := (reach_qgood noRun reach_g9).1
  obtain ⟨fl, h, _, _⟩ := q.good
  have hl : cleanupList g9 [2] = [pa, pb] := by decide +kernel
  have := unindexed_base h q.rows (ts := [2]) ⟨by decide, fun t ht => by
    have : t = 2 := by simpa using ht
    subst this; decide +kernel⟩
  rw [hl] at this
  exact ⟨hl, this.1, this.2.1, this.2.2, List.mem_cons_self⟩

/-- the theorems applied: the batch never panics and leaves a `QGood` world -/
theorem qgood_g10 : panicOf (opRemoveEntities noRun foParent [] false g9) = none ∧ QGood g10 := by
  have := (reach_qgood noRun reach_g9).1.removeEntities noRun foParent [] rfl
    (RelsTyped.nil _ _) (by decide +kernel) (by decide +kernel)
  exact ⟨this.1, this.2.1⟩

/-- before the batch: `pa`, `pb` are children of `gp` (table 2); 5 and 7 are children of `pa`
    (table 3), 6 of `pb` (table 4), 8 is a child of `pa` and a friend of `pb` (table 5) -/
example :
    summary g9 = [⟨0, 0, 0, false, []⟩, ⟨1, 1, 1, false, [Ent.zero]⟩,
      ⟨2, 2, 2, false, [gp, Ent.zero, Ent.zero]⟩, ⟨3, 3, 2, false, [pa, Ent.zero]⟩,
      ⟨4, 3, 1, false, [pb, Ent.zero]⟩, ⟨5, 4, 1, false, [pa, Ent.zero, pb]⟩] ∧
    (targetOf g9 3 0, targetOf g9 4 0) = (some gp, some gp) ∧
    (targetOf g9 5 0, targetOf g9 6 0, targetOf g9 7 0, targetOf g9 8 0, targetOf g9 8 3) =
      (some pa, some pb, some pa, some pa, some pb) ∧
    g9.isTarget = [false, false, true, true, true, false, false, false, false] := by
  refine ⟨?_, ?_, ?_, ?_⟩ <;> decide +kernel

/-- **after ONE batch removing both parents**: both are dead; the grandparent is alive and keeps
    its flag; the tables of the removed targets (3, 4, 5) are free and empty; the children 5, 6, 7
    sit together in the new table 6 with the zero target, entity 8 in the new table 7 with BOTH
    targets reset; everybody keeps components and values; the flags of `pa`, `pb` are reset -/
example :
    panicOf (opRemoveEntities noRun foParent [] false g9) = none ∧
    (g10.alive pa, g10.alive pb, g10.alive gp) = (false, false, true) ∧
    summary g10 = [⟨0, 0, 0, false, []⟩, ⟨1, 1, 1, false, [Ent.zero]⟩,
      ⟨2, 2, 0, false, [gp, Ent.zero, Ent.zero]⟩, ⟨3, 3, 0, true, [pa, Ent.zero]⟩,
      ⟨4, 3, 0, true, [pb, Ent.zero]⟩, ⟨5, 4, 0, true, [pa, Ent.zero, pb]⟩,
      ⟨6, 3, 3, false, [Ent.zero, Ent.zero]⟩, ⟨7, 4, 1, false, [Ent.zero, Ent.zero, Ent.zero]⟩] ∧
    (targetOf g10 5 0, targetOf g10 6 0, targetOf g10 7 0, targetOf g10 8 0, targetOf g10 8 3) =
      (some Ent.zero, some Ent.zero, some Ent.zero, some Ent.zero, some Ent.zero) ∧
    (valOf g10 5 1, valOf g10 6 1, valOf g10 7 1, valOf g10 8 1, valOf g10 2 1) =
      (some 4, some 5, some 6, some 7, some 1) ∧
    (compsOf g10 3, compsOf g10 4, targetOf g10 3 0, targetOf g10 4 0) = (none, none, none, none) ∧
    g10.isTarget = [false, false, true, false, false, false, false, false, false] := by
  refine ⟨?_, ?_, ?_, ?_, ?_, ?_, ?_⟩ <;> decide +kernel

/-- what the clients see of a world after the removal of both parents -/
def seen (w : World) : List Bool × List (Option Ent) × List (Option Val) × List (Option (List Comp)) :=
  ([w.alive pa, w.alive pb, w.alive gp],
   [targetOf w 5 0, targetOf w 6 0, targetOf w 7 0, targetOf w 8 0, targetOf w 8 3],
   [valOf w 5 1, valOf w 6 1, valOf w 7 1, valOf w 8 1, valOf w 2 1],
   [compsOf w 3, compsOf w 4, compsOf w 8])

/-- the same entities selected through the relation constraint "child of `gp`", and the singles
    in both orders: same liveness, components, values and targets as the batch (the table
    layouts differ); batch and singles in the batch's order have EQUAL pools -/
example : panicOf (opRemoveEntities noRun foChildOfGp [] false g9) = none ∧ seen g10r = seen g10 := by
  constructor <;> decide +kernel

example : panicOf (removeSeq noRun [pa, pb] g9) = none ∧ seen g10s = seen g10 ∧
    g10.pool = g10s.pool := by
  refine ⟨?_, ?_, ?_⟩ <;> decide +kernel

example : panicOf (removeSeq noRun [pb, pa] g9) = none ∧ seen g10s' = seen g10 := by
  constructor <;> decide +kernel

/-! ### `setRelationsBatch` in the same world -/

/-- `Filter2[ChildOf, Pos].Without(Parent)`: the children 5, 6, 7, 8 -/
def foKids : FilterObj :=
  { filter := { mask := Mask.ofList [0, 1], without := Mask.ofList [2], hasWithout := true }
    ids := [0, 1] }

/-- the batch: every child becomes a child of `pb` -/
def s10 : World := (setRelationsBatch noRun foKids [] [⟨0, pb⟩] false g9).state
/-- the singles, in an order that is not the batch's -/
def s10s : World := (setRelSeq noRun [⟨8, 0⟩, ⟨6, 0⟩, ⟨5, 0⟩, ⟨7, 0⟩] [⟨0, pb⟩] g9).state

/-- **non-vacuity**: the additional hypotheses of `setRelationsBatch_eq_fold` hold in `g9` -/
example : RelsTyped g9 foKids.filter (foKids.rels ++ []) ∧ RelsTyped g9 foKids.filter [⟨0, pb⟩] ∧
    (∀ (r : RelID), r ∈ [(⟨0, pb⟩ : RelID)] → r.target.isZero = true ∨ g9.alive r.target = true) ∧
    2 * g9.tables.length ≤ maxU32 ∧
    ∃ (l1 l2 : Lock) (b : Nat), QueryExact.LockCycle g9.locks l1 b l2 ∧ l2.isLocked = false := by
  refine ⟨RelsTyped.nil _ _, ?_, ?_, by decide +kernel, ?_⟩
  · intro r hr
    have : r = ⟨0, pb⟩ := by simpa using hr
    subst this
    exact ⟨by decide +kernel, by decide +kernel⟩
  · intro r hr
    have : r = ⟨0, pb⟩ := by simpa using hr
    subst this
    exact Or.inr (by decide +kernel)
  · obtain ⟨l1, l2, b, hc, q2⟩ := (reach_qgood noRun reach_g9).1.lockCycle
    obtain ⟨_, _, hl, _⟩ := q2.good
    exact ⟨l1, l2, b, hc, hl⟩

/-- the selection is tables 3 (children of `pa`), 4 (child of `pb`) and 5; table 4 is SKIPPED (its
    target is `pb` already); the children of `pa` move into the existing table 4; entity 8 moves
    to a new table with targets `(pb, pb)`; everybody keeps values; the parents are untouched -/
example :
    panicOf (setRelationsBatch noRun foKids [] [⟨0, pb⟩] false g9) = none ∧
    (match getBatchTables foKids [] g9 with | .ok ts _ => ts | .panic _ _ => []) = [3, 4, 5] ∧
    (match prepareRelationsMove 4 1 [⟨0, pb⟩] g9 with
      | .ok o _ => o.isNone | .panic _ _ => false) = true ∧
    summary s10 = [⟨0, 0, 0, false, []⟩, ⟨1, 1, 1, false, [Ent.zero]⟩,
      ⟨2, 2, 2, false, [gp, Ent.zero, Ent.zero]⟩, ⟨3, 3, 0, false, [pa, Ent.zero]⟩,
      ⟨4, 3, 3, false, [pb, Ent.zero]⟩, ⟨5, 4, 0, false, [pa, Ent.zero, pb]⟩,
      ⟨6, 4, 1, false, [pb, Ent.zero, pb]⟩] ∧
    (targetOf s10 5 0, targetOf s10 6 0, targetOf s10 7 0, targetOf s10 8 0, targetOf s10 8 3) =
      (some pb, some pb, some pb, some pb, some pb) ∧
    (targetOf s10 3 0, targetOf s10 4 0) = (some gp, some gp) ∧
    (valOf s10 5 1, valOf s10 6 1, valOf s10 7 1, valOf s10 8 1) =
      (some 4, some 5, some 6, some 7) := by
  refine ⟨?_, ?_, ?_, ?_, ?_, ?_, ?_⟩ <;> decide +kernel

/-- what the clients see after the assignment -/
def seenS (w : World) : List Bool × List (Option Ent) × List (Option Val) × List (Option (List Comp)) :=
  ([w.alive pa, w.alive pb, w.alive gp],
   [targetOf w 3 0, targetOf w 4 0, targetOf w 5 0, targetOf w 6 0, targetOf w 7 0, targetOf w 8 0,
    targetOf w 8 3],
   [valOf w 5 1, valOf w 6 1, valOf w 7 1, valOf w 8 1, valOf w 2 1],
   [compsOf w 3, compsOf w 5, compsOf w 8])

/-- the fold of `setRelations` in another order gives the same observable world -/
example : panicOf (setRelSeq noRun [⟨8, 0⟩, ⟨6, 0⟩, ⟨5, 0⟩, ⟨7, 0⟩] [⟨0, pb⟩] g9) = none ∧
    seenS s10s = seenS s10 := by
  constructor <;> decide +kernel

/-! ### histories with batches -/

/-- the worlds after the batches are reached by histories … -/
theorem reachB_g10 : ReachB noRun g10 :=
  (ReachB.ofReach reach_g9).delBatch foParent [] rfl (RelsTyped.nil _ _) (by decide +kernel)
    (by decide +kernel)

theorem reachB_s10 : ReachB noRun s10 :=
  (ReachB.ofReach reach_g9).setRelBatch foKids [] [⟨0, pb⟩] rfl (RelsTyped.nil _ _) rfl
    (by decide +kernel)
    (by
      intro r hr
      have : r = ⟨0, pb⟩ := by simpa using hr
      subst this
      exact ⟨by decide +kernel, by decide +kernel⟩)
    (by
      intro r hr
      have : r = ⟨0, pb⟩ := by simpa using hr
      subst this
      exact Or.inr (by decide +kernel))
    (by decide +kernel) (by decide +kernel) (by decide +kernel)

/-- … and histories continue after them: after the re-parenting, one batch with the relation
    constraint "child of `pb`" removes the four children, a second batch removes both parents
    (relation targets whose tables are empty by now) … -/
def foChildOfPb : FilterObj :=
  { filter := { mask := Mask.ofList [0, 1] }, ids := [0, 1], rels := [⟨0, pb⟩] }
def s11 : World := (opRemoveEntities noRun foChildOfPb [] false s10).state
def s12 : World := (opRemoveEntities noRun foParent [] false s11).state

theorem reachB_s11 : ReachB noRun s11 :=
  reachB_s10.delBatch foChildOfPb [] rfl
    (by
      intro r hr
      have : r = ⟨0, pb⟩ := by simpa [foChildOfPb] using hr
      subst this
      exact ⟨by decide +kernel, by decide +kernel⟩)
    (by decide +kernel) (by decide +kernel)

theorem reachB_s12 : ReachB noRun s12 :=
  reachB_s11.delBatch foParent [] rfl (RelsTyped.nil _ _) (by decide +kernel) (by decide +kernel)

/-- … leaving the grandparent alone; every table of a removed target is free, the only non-free
    relation table is the (empty) table of the children of the alive `gp`; only `gp` is flagged -/
example :
    ([5, 6, 7, 8].map fun i => compsOf s11 i) = [none, none, none, none] ∧
    (s11.alive pa, s11.alive pb) = (true, true) ∧
    (s12.alive pa, s12.alive pb, s12.alive gp, valOf s12 2 1) = (false, false, true, some 1) ∧
    ((summary s12).filter fun T => T.len != 0) = [⟨1, 1, 1, false, [Ent.zero]⟩] ∧
    ((summary s12).filter fun T => T.arch ≥ 2 && !T.free) =
      [⟨2, 2, 0, false, [gp, Ent.zero, Ent.zero]⟩] ∧
    s12.isTarget = [false, false, true, false, false, false, false, false, false] := by
  refine ⟨?_, ?_, ?_, ?_, ?_, ?_⟩ <;> decide +kernel

end Ark.Props.C06Rel
