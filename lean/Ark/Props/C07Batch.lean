/-
  Ark.Props.C07Batch — C07 ("the world is unlocked again exactly when the last open query has
  finished or been closed") and C10 ("after recovering from such a panic … the lock state is
  exactly as before the call") for the BATCH operations: a rejected batch does not leave the
  world locked.

  Defect D27 (repaired): `World.exchangeBatch` (AddBatch / RemoveBatch / ExchangeBatch and their
  `…Fn` forms) and `World.setRelationsBatch` took the world lock right after the entry checks,
  BEFORE the loop that finds or creates the destination table of every selected table.  That loop
  panics when the operation is invalid for some selected table (a component already present /
  missing, a relation target not specified, a relation component the table lacks or named twice,
  a dead target found late, …); the panic unwound past the `unlock`, which is not deferred, and
  the world stayed LOCKED for ever with no query open.  Since the repair the lock is taken AFTER
  that loop, immediately before the first callback round; the model (`exchangeBatch`,
  `setRelationsBatch` in Ark/Model/World.lean) follows.

  What is proved (Ark/Proofs/BatchPanic.lean, BatchPanicRel.lean, BatchPanicXchg.lean):

  * §1, for ANY unlocked world and ANY arguments (observers, callback, relations allowed; no
    invariant): a panic of the lookup loop is the batch's panic, and the state it leaves has the
    lock, the observers and the log of the world before the call — not locked, no callback ran.
  * §2, from a world satisfying the invariant the batch theorems use, no observers registered
    (so the only panics are those of the argument checks and of the lookup loop: the callback
    `fn` of the `…Fn` forms is modelled by `batchFn`, which never panics), uncached filter:
    IF the call panics THEN the world is unlocked, its lock state is exactly the one before the
    call, and every entity has the components, values and relation targets it had; every handle
    is as alive as it was.
      - `exchangeBatch_panic_unlocked` — `opExchangeBatch` without relations, fragment `CInv`
        (with or without callback): moreover `CInv` still holds, with the same free list;
      - `exchangeBatch_rel_panic_unlocked` — `opExchangeBatch` over relation tables, `TInv`;
      - `setRelationsBatch_panic_unlocked` — `opSetRelationsBatch`, `TInv`: moreover the structural
        invariants still hold (`PrepKeep`).
    Hypothesis the proofs need beyond the invariant: the ADDED components are registered
    (`c < w.kinds.length` — an ID the client obtained from the registry); for the non-relation
    fragment the size bound of the existing batch theorems (tables fit `uint32`).
  * what a rejected batch DOES leave behind (§3, examples): the archetypes and tables the lookup
    loop created before it failed.  **Finding**: after a rejected `SetRelationsBatch` a table
    created for an earlier selected table holds a target that `registerTargets` has not flagged
    (`isTarget` is set after the loop, in the Go code as in the model), so the flag invariant
    `FlagsOK` — a field of `TInv` — does NOT hold in the world the rejected call leaves (only
    `FlagsOKUpTo … rels`); before the repair the same world was reached, but locked for ever.

  The general case WITH observers is not covered by §2 (a panic raised by a callback itself
  leaves the world locked — in the Go code as in the model; the statement above excludes it);
  §1 covers the lock for every panic of the lookup loop, with observers registered.
-/
import Ark.Proofs.BatchPanic
import Ark.Proofs.BatchPanicRel
import Ark.Proofs.BatchPanicXchg
import Ark.Props.C06World
import Ark.Props.C06Rel

namespace Ark.Props.C07Batch
open Ark Ark.World Ark.Props.C01World Ark.QueryRel

/-! ## 1. the lock after a panic of the lookup loop — any world, any arguments -/

/-- `exchangeBatch` (any relations, observers, callback): a panic of the lookup loop is the
    batch's panic; lock, observers and log are those before the call -/
theorem exchangeBatch_lookup_panic_lock : type_of% @World.exchangeBatch_lookup_panic_lock :=
  @World.exchangeBatch_lookup_panic_lock

/-- `setRelationsBatch`: likewise -/
theorem setRelationsBatch_lookup_panic_lock : type_of% @World.setRelationsBatch_lookup_panic_lock :=
  @World.setRelationsBatch_lookup_panic_lock

/-- the operations in the order in which they run since the repair: table selection, lookup loop,
    `Lock`, move loop, (`registerTargets`,) `Unlock` — no observers, no callback -/
theorem exchangeBatch_planFirst : type_of% @World.exchangeBatch_eq_planFirst :=
  @World.exchangeBatch_eq_planFirst
theorem exchangeBatch_rel_planFirst : type_of% @World.exchangeBatch_rel_eq_planFirst :=
  @World.exchangeBatch_rel_eq_planFirst
theorem setRelationsBatch_planFirst : type_of% @World.setRelationsBatch_eq_planFirst :=
  @World.setRelationsBatch_eq_planFirst

/-! ## 2. rejected, lock state as before, no entity changed -/

/-- **`AddBatch` / `RemoveBatch` / `ExchangeBatch` (and `…Fn`), no relations** (`CInv`): if the
    call panics, the world is not locked, the lock state is the one before the call, every entity
    is `SameEnt` (components and values), liveness, pool, entity index, log, observers and every
    old table are unchanged, and `CInv` still holds -/
theorem exchangeBatch_panic_unlocked : type_of% @World.opExchangeBatch_panic_unlocked :=
  @World.opExchangeBatch_panic_unlocked

/-- the world a rejected exchange batch leaves extends the start world (`Ext`) -/
theorem exchangeBatch_panic_ext : type_of% @World.exchangeBatch_panic_frame :=
  @World.exchangeBatch_panic_frame

/-- the lookup loop, whatever its outcome, keeps `CInv` and extends the world -/
theorem lookup_loop_any : type_of% @World.findLoop_any := @World.findLoop_any

/-- **the same over relation tables** (`TInv`, no observers): not locked, lock state as before,
    every entity keeps components, values AND relation targets (`XFrame`) -/
theorem exchangeBatch_rel_panic_unlocked : type_of% @opExchangeBatch_rel_panic_unlocked :=
  @opExchangeBatch_rel_panic_unlocked

/-- **`SetRelationsBatch` / `SetRelationsBatchFn`** (`TInv`, no observers): not locked, lock state
    as before, every entity keeps components, values and relation targets; the structural
    invariants hold (`PrepKeep`) -/
theorem setRelationsBatch_panic_unlocked : type_of% @opSetRelationsBatch_panic_unlocked :=
  @opSetRelationsBatch_panic_unlocked

/-! ## 3. non-vacuity, and what stays behind -/

open Ark.Props.C06World (exW fo0 okVal)

/-- the hypotheses of `exchangeBatch_panic_unlocked` hold in the world `exW` of
    Ark/Props/C06World.lean (entities 2, 3: `{0}`; 4: `{0, 1}`; 5: `{2}`) for "all entities: remove
    0", and the call panics (`missing`, on the table of `{2}`, after the archetype and the table of
    `{1}` were created for the table of `{0, 1}`) -/
theorem exW_rejected : ∃ (fl : List Nat) (k : PanicKind) (w' : World),
    CInv exW fl ∧ exW.isLocked = false ∧ LockFree exW.locks ∧
    (∀ (c : Comp), c ∈ ([] : List Comp) → c < exW.kinds.length) ∧
    exW.tables.length + (selTables exW ({} : Filter)).length < maxU32 ∧
    opExchangeBatch noProbe .unsafe_ { filter := {} } [] [] [0] [] none exW = .panic k w' ∧
    k = .missing := by
  obtain ⟨fl, H⟩ := Refine.reach_hinv noProbe 2 1 Ark.Props.C06World.exOps (by decide)
  refine ⟨fl, .missing, (opExchangeBatch noProbe .unsafe_ { filter := {} } [] [] [0] [] none exW).state,
    H.cinv, H.unlocked, (by rw [show exW.locks = {} by decide +kernel]; exact lockFree_init),
    (fun _ hc => absurd hc List.not_mem_nil), (by decide +kernel), ?_, rfl⟩
  have : ∀ (r : Res World Unit), (match r with | .ok _ _ => none | .panic k _ => some k) = some PanicKind.missing →
      r = .panic .missing r.state := by
    intro r hr
    cases r with
    | ok a s => cases hr
    | panic k s => injection hr with hk; subst hk; rfl
  exact this _ (by decide +kernel)

/-- … so the theorem applies: the world the rejected call leaves is unlocked, reads the same for
    every entity, and still satisfies the invariant; the archetype and table created before the
    panic remain (one more of each) -/
example : ∃ (fl : List Nat) (w' : World),
    (opExchangeBatch noProbe .unsafe_ { filter := {} } [] [] [0] [] none exW).state = w' ∧
    w'.isLocked = false ∧ w'.locks = exW.locks ∧ (∀ (j : Nat), SameEnt exW w' j) ∧
    CInv w' fl ∧ w'.tables.length = exW.tables.length + 1 ∧
    w'.archetypes.length = exW.archetypes.length + 1 := by
  obtain ⟨fl, k, w', h, hl, hL, hreg, hfew, hp, _⟩ := exW_rejected
  obtain ⟨a1, a2, _, a4, _, _, _, _, _, _, a11⟩ :=
    exchangeBatch_panic_unlocked noProbe .unsafe_ h hl hL { filter := {} } [] rfl hreg hfew none hp
  refine ⟨fl, w', by rw [hp]; rfl, a1, a2, a4, a11, ?_, ?_⟩
  · have : w' = (opExchangeBatch noProbe .unsafe_ { filter := {} } [] [] [0] [] none exW).state := by
      rw [hp]; rfl
    rw [this]; decide +kernel
  · have : w' = (opExchangeBatch noProbe .unsafe_ { filter := {} } [] [] [0] [] none exW).state := by
      rw [hp]; rfl
    rw [this]; decide +kernel

/-! ### worlds with relations -/

open Ark.Props.C04World (noRun summary TabSum)

/-- components 0, 1: two relation components -/
def h2 : World :=
  let w := World.init 2 2
  let w := (registerComponent { isRel := true } w).state
  (registerComponent { isRel := true } w).state

/-- two possible targets -/
def tt : Ent := ⟨2, 0⟩
def uu : Ent := ⟨3, 0⟩

def h3 : World := (opNewEntity noRun .typed [] [] [] h2).state                          -- tt
def h4 : World := (opNewEntity noRun .typed [] [] [] h3).state                          -- uu
/-- entity 4: relations 0 → `tt`, 1 → `tt` (table 1) -/
def h5 : World := (opNewEntity noRun .typed [0, 1] [] [⟨0, tt⟩, ⟨1, tt⟩] h4).state
/-- entity 5: relation 0 → `tt` only (table 2) -/
def h6 : World := (opNewEntity noRun .typed [0] [] [⟨0, tt⟩] h5).state

/-- `Filter1[C0]`: selects the tables of entity 4 and of entity 5, in this order -/
def foC0 : FilterObj := { filter := { mask := Mask.ofList [0] }, ids := [0] }

theorem reach_h2 : Reach noRun h2 :=
  ((Reach.init 2 2).reg _ (by decide +kernel)).reg _ (by decide +kernel)

theorem reach_h3 : Reach noRun h3 :=
  reach_h2.new .typed [] [] [] (by decide +kernel) (by decide +kernel) (by decide +kernel)
    (by decide +kernel) (by decide +kernel) (by decide +kernel) (by decide +kernel) (by decide +kernel)

theorem reach_h4 : Reach noRun h4 :=
  reach_h3.new .typed [] [] [] (by decide +kernel) (by decide +kernel) (by decide +kernel)
    (by decide +kernel) (by decide +kernel) (by decide +kernel) (by decide +kernel) (by decide +kernel)

theorem reach_h5 : Reach noRun h5 :=
  reach_h4.new .typed [0, 1] [] [⟨0, tt⟩, ⟨1, tt⟩] (by decide +kernel) (by decide +kernel)
    (by decide +kernel) (by decide +kernel) (by decide +kernel) (by decide +kernel)
    (by decide +kernel) (by decide +kernel)

theorem reach_h6 : Reach noRun h6 :=
  reach_h5.new .typed [0] [] [⟨0, tt⟩] (by decide +kernel) (by decide +kernel)
    (by decide +kernel) (by decide +kernel) (by decide +kernel) (by decide +kernel)
    (by decide +kernel) (by decide +kernel)

/-- the hypotheses of §2 for worlds with relations hold in `h6` -/
theorem h6_hyps : ∃ (fl : List Nat), TInv h6 fl ∧ h6.isLocked = false ∧ LockFree h6.locks ∧
    (∀ (evt : Nat), h6.obs.hasObservers evt = false) := by
  have q := (reach_qgood noRun reach_h6).1
  obtain ⟨fl, h, hl, hno⟩ := q.good
  exact ⟨fl, h, hl, q.lock, hno⟩

/-- the rejected batch: `Map2[C0, C1].SetRelationsBatch(Filter1[C0].Batch(), Rel(1, uu))` — the
    table of entity 4 has the relation component 1 (its destination, targets `(tt, uu)`, is
    created: table 3), the table of entity 5 has not (`noRelComponent`) -/
def rejSet : Res World Unit := opSetRelationsBatch noRun .typed foC0 [] [0, 1] [⟨1, uu⟩] false h6

def panicOf {α : Type} : Res World α → Option PanicKind
  | .ok _ _ => none
  | .panic k _ => some k

theorem res_panic_of {α : Type} {r : Res World α} {k : PanicKind} (h : panicOf r = some k) :
    r = .panic k r.state := by
  cases r with
  | ok a s => cases h
  | panic k' s => injection h with hk; subst hk; rfl

/-- `setRelationsBatch_panic_unlocked` applied: the call panics; the world is unlocked with the
    lock state as before; every entity keeps components, values and targets -/
example : panicOf rejSet = some .noRelComponent ∧
    rejSet.state.isLocked = false ∧ rejSet.state.locks = h6.locks ∧
    (∀ (j : Nat), SameEnt h6 rejSet.state j ∧
      ∀ (c : Comp), targetOf rejSet.state j c = targetOf h6 j c) ∧
    (∀ (x : Ent), rejSet.state.alive x = h6.alive x) := by
  obtain ⟨fl, h, hl, hL, hno⟩ := h6_hyps
  have hk : panicOf rejSet = some .noRelComponent := by decide +kernel
  obtain ⟨a1, a2, a3, a4, _⟩ := setRelationsBatch_panic_unlocked noRun .typed h hl hL hno foC0 []
    rfl [0, 1] [⟨1, uu⟩] false (res_panic_of hk)
  exact ⟨hk, a1, a2, a3, a4⟩

/-- the same facts on the concrete world, and **what stays behind**: table 3 — archetype 1,
    empty, not free, relation targets `(tt, uu)` — while the flag of `uu` is NOT set; the next
    structural operations are accepted (a new entity; `SetRelations` of entity 4 to `uu`, which
    finds table 3 and flags `uu`) -/
example :
    summary h6 = [⟨0, 0, 2, false, []⟩, ⟨1, 1, 1, false, [tt, tt]⟩, ⟨2, 2, 1, false, [tt]⟩] ∧
    summary rejSet.state = [⟨0, 0, 2, false, []⟩, ⟨1, 1, 1, false, [tt, tt]⟩,
      ⟨2, 2, 1, false, [tt]⟩, ⟨3, 1, 0, false, [tt, uu]⟩] ∧
    h6.isTarget = [false, false, true, false, false, false] ∧
    rejSet.state.isTarget = h6.isTarget ∧ rejSet.state.entities = h6.entities ∧
    rejSet.state.isLocked = false ∧
    (targetOf rejSet.state 4 0, targetOf rejSet.state 4 1, targetOf rejSet.state 5 0) =
      (some tt, some tt, some tt) ∧
    panicOf (opNewEntity noRun .typed [0] [] [⟨0, uu⟩] rejSet.state) = none ∧
    panicOf (opSetRelations noRun .typed ⟨4, 0⟩ [0, 1] [⟨1, uu⟩] rejSet.state) = none ∧
    (opSetRelations noRun .typed ⟨4, 0⟩ [0, 1] [⟨1, uu⟩] rejSet.state).state.isTarget =
      [false, false, true, true, false, false] ∧
    targetOf (opSetRelations noRun .typed ⟨4, 0⟩ [0, 1] [⟨1, uu⟩] rejSet.state).state 4 1 =
      some uu := by
  refine ⟨?_, ?_, ?_, ?_, ?_, ?_, ?_, ?_, ?_, ?_, ?_⟩ <;> decide +kernel

/-- **finding**: the flag invariant `FlagsOK` (a field of `TInv`) does not hold in the world a
    rejected `SetRelationsBatch` leaves: table 3 is not free and targets `uu` in its relation
    column 1, and `uu` is not flagged.  (`FlagsOKUpTo … [⟨1, uu⟩]` holds:
    `setRelationsBatch_panic_unlocked`.) -/
example : ¬ FlagsOK rejSet.state := by
  intro hF
  have := hF 3 (rejSet.state.tbl 3) (by decide +kernel) (by decide +kernel) 1 (by decide +kernel)
    (by decide +kernel)
  revert this
  decide +kernel

/-- the rejected exchange batch over relation tables: `Map1[C1].AddBatch(all entities)` without
    naming the target of the relation component 1 — for the first selected table (the targets `tt`,
    `uu`, no component) the archetype `{1}` is created, then `createTable` refuses the missing
    target (`relUnspecified`) -/
def rejAdd : Res World Unit := opExchangeBatch noRun .typed { filter := {} } [] [1] [] [] none h6

/-- `exchangeBatch_rel_panic_unlocked` applied -/
example : panicOf rejAdd = some .relUnspecified ∧
    rejAdd.state.isLocked = false ∧ rejAdd.state.locks = h6.locks ∧
    (∀ (j : Nat), SameEnt h6 rejAdd.state j ∧
      ∀ (c : Comp), targetOf rejAdd.state j c = targetOf h6 j c) ∧
    (∀ (x : Ent), rejAdd.state.alive x = h6.alive x) := by
  obtain ⟨fl, h, hl, hL, hno⟩ := h6_hyps
  have hk : panicOf rejAdd = some .relUnspecified := by decide +kernel
  obtain ⟨a1, a2, a3, a4, _⟩ := exchangeBatch_rel_panic_unlocked noRun .typed h hl hL hno
    { filter := {} } [] rfl (add := [1]) (rem := []) [] (by decide +kernel) none (res_panic_of hk)
  exact ⟨hk, a1, a2, a3, a4⟩

/-- what stays behind: the archetype of `{1}` (archetype 3), WITHOUT a table; tables, entity index
    and flags are untouched; the next structural operation is accepted -/
example :
    h6.archetypes.length = 3 ∧ rejAdd.state.archetypes.length = 4 ∧
    (rejAdd.state.arch 3).tables.tables = [] ∧ (rejAdd.state.arch 3).mask = Mask.ofList [1] ∧
    rejAdd.state.tables = h6.tables ∧ rejAdd.state.entities = h6.entities ∧
    rejAdd.state.isTarget = h6.isTarget ∧ rejAdd.state.isLocked = false ∧
    panicOf (opExchangeBatch noRun .typed { filter := {} } [] [1] [] [⟨1, uu⟩] none rejAdd.state) =
      some .alreadyHas ∧
    panicOf (opNewEntity noRun .typed [1] [] [⟨1, uu⟩] rejAdd.state) = none := by
  refine ⟨?_, ?_, ?_, ?_, ?_, ?_, ?_, ?_, ?_, ?_⟩ <;> decide +kernel

/-- a filter that selects nothing: component 0 required and excluded -/
def foNone : FilterObj :=
  { filter := { mask := Mask.ofList [0], without := Mask.ofList [0], hasWithout := true } }

/-- **an exchange batch whose filter selects nothing still flags its relation targets**, as the Go
    code does (`exchangeBatch` calls `registerTargets(relations)` once, unconditionally, after the
    planning loop): `Map1[C1].AddBatch(<nothing>, Rel(1, uu))` in `h6` selects no table, moves no
    entity, creates nothing — and sets the `isTarget` flag of `uu` (ID 3), which was not set; the
    world is unlocked afterwards.  (So a later `RemoveEntity(uu)` runs the cleanup of the relation
    archetypes, in the model as in Go.) -/
example :
    (match getBatchTables foNone [] h6 with | .ok ts _ => some ts | .panic _ _ => none) = some [] ∧
    panicOf (opExchangeBatch noRun .typed foNone [] [1] [] [⟨1, uu⟩] none h6) = none ∧
    h6.isTarget = [false, false, true, false, false, false] ∧
    (opExchangeBatch noRun .typed foNone [] [1] [] [⟨1, uu⟩] none h6).state.isTarget =
      [false, false, true, true, false, false] ∧
    (opExchangeBatch noRun .typed foNone [] [1] [] [⟨1, uu⟩] none h6).state.tables = h6.tables ∧
    (opExchangeBatch noRun .typed foNone [] [1] [] [⟨1, uu⟩] none h6).state.entities = h6.entities ∧
    (opExchangeBatch noRun .typed foNone [] [1] [] [⟨1, uu⟩] none h6).state.isLocked = false := by
  refine ⟨?_, ?_, ?_, ?_, ?_, ?_, ?_⟩ <;> decide +kernel

end Ark.Props.C07Batch
