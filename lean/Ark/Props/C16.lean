import Ark.Proofs.GenBridge.ObsReset
import Ark.Props.C02
import Ark.Props.C08
import Ark.Proofs.Rejects
import Ark.Props.C16World
import Ark.Proofs.GenBridge.BookPool
import Ark.Proofs.GenBridge.BookArchetype
import Ark.Proofs.GenBridge.BookCache
import Ark.Props.C16Hist
import Ark.Props.C16Register
import Ark.Props.C16Rel

namespace Ark.Props.C16
open Ark

/-! C16 — Reset returns the world to a reusable empty state (pool, observers, lock). -/

/-- the observer-reset loop bound of the model IS the regenerated one -/
theorem observer_reset_loop_as_in_source : type_of% @GenBridge.observerReset_bound_eq := @GenBridge.observerReset_bound_eq

/-- the loop visits every event type up to the highest registered one, for all 256 event types (repaired defect D6) -/
theorem observer_reset_covers_all_events : type_of% @GenBridge.observerReset_covers := @GenBridge.observerReset_covers

/-- no handle of the previous epoch is alive after Reset (repaired defect D14) -/
theorem reset_kills_old_handles : type_of% @Ark.Props.C02.reset_kills := @Ark.Props.C02.reset_kills

/-- Reset on a locked world panics without effect -/
theorem reset_locked : type_of% @World.opReset_locked := @World.opReset_locked

/-- after `Reset` the pool is the initial pool again: same handles will be issued as by a new world -/
theorem pool_reset_core (p : Pool) (h2 : p.ents.take 2 = Pool.init.ents) :
    p.reset.ents = Pool.init.ents ∧ p.reset.next = Pool.init.next ∧ p.reset.available = Pool.init.available := by
  simp [Pool.reset, Pool.reserved, h2, Pool.init]

/-- the lock is clear after `Reset` -/
theorem lock_reset (l : Lock) : l.reset.isLocked = false := by
  simp [Lock.reset, Lock.isLocked]


/-! ## world level (Props/C16World): `Reset` as a pure function, the empty state it establishes, the
    invariants it re-establishes (so that it can be iterated), agreement with a new world on everything
    later operations read first, and three recorded facts about IDs that survive a `Reset` -/

theorem world_reset_succeeds : type_of% @Ark.Props.C16World.reset_succeeds := @Ark.Props.C16World.reset_succeeds

theorem world_reset_archetypes : type_of% @Ark.Props.C16World.reset_archetypes := @Ark.Props.C16World.reset_archetypes

theorem world_reset_tables : type_of% @Ark.Props.C16World.reset_tables := @Ark.Props.C16World.reset_tables

theorem world_reset_establishes : type_of% @Ark.Props.C16World.reset_establishes := @Ark.Props.C16World.reset_establishes

theorem world_reset_emptyState : type_of% @Ark.Props.C16World.reset_emptyState := @Ark.Props.C16World.reset_emptyState

theorem world_reset_sinv : type_of% @Ark.Props.C16World.reset_sinv := @Ark.Props.C16World.reset_sinv

theorem world_reset_idxInv : type_of% @Ark.Props.C16World.reset_idxInv := @Ark.Props.C16World.reset_idxInv

theorem world_reset_rinv : type_of% @Ark.Props.C16World.reset_rinv := @Ark.Props.C16World.reset_rinv

theorem world_reset_kills_old_handles : type_of% @Ark.Props.C16World.reset_kills_old_handles := @Ark.Props.C16World.reset_kills_old_handles

theorem world_reset_hyps_init : type_of% @Ark.Props.C16World.reset_hyps_init := @Ark.Props.C16World.reset_hyps_init

theorem world_reset_twice : type_of% @Ark.Props.C16World.reset_twice := @Ark.Props.C16World.reset_twice

theorem world_observers_reset_clears : type_of% @Ark.Props.C16World.observers_reset_clears := @Ark.Props.C16World.observers_reset_clears

theorem world_obsBound_addObserver : type_of% @Ark.Props.C16World.obsBound_addObserver := @Ark.Props.C16World.obsBound_addObserver

theorem world_obsBound_removeObserver : type_of% @Ark.Props.C16World.obsBound_removeObserver := @Ark.Props.C16World.obsBound_removeObserver

theorem world_emptyState_like_fresh : type_of% @Ark.Props.C16World.emptyState_like_fresh := @Ark.Props.C16World.emptyState_like_fresh

theorem world_reset_like_fresh : type_of% @Ark.Props.C16World.reset_like_fresh := @Ark.Props.C16World.reset_like_fresh

theorem world_empty_world_queries_count_zero : type_of% @Ark.Props.C16World.empty_world_queries_count_zero := @Ark.Props.C16World.empty_world_queries_count_zero

theorem world_empty_world_queries_visit_nothing : type_of% @Ark.Props.C16World.empty_world_queries_visit_nothing := @Ark.Props.C16World.empty_world_queries_visit_nothing

theorem world_reset_winv : type_of% @Ark.Props.C16World.reset_winv := @Ark.Props.C16World.reset_winv

theorem world_reset_keeps_cache_id_pool : type_of% @Ark.Props.C16World.reset_keeps_cache_id_pool := @Ark.Props.C16World.reset_keeps_cache_id_pool

theorem world_reset_keeps_observer_id_pool : type_of% @Ark.Props.C16World.reset_keeps_observer_id_pool := @Ark.Props.C16World.reset_keeps_observer_id_pool

theorem world_failed_register_keeps_no_id : type_of% @Ark.Props.C16World.failed_register_keeps_no_id := @Ark.Props.C16World.failed_register_keeps_no_id



/-! ### The code itself: the relation-index bookkeeping of archetype.go, translated statement by statement on every run -/

/-- `archetype.FreeAllTables` as in the source = the model's `freeAllTables`: every per-column lookup and the per-target lookup are emptied -/
theorem src_freeAllTables : type_of% @Ark.GenBridge.Book.freeAllTables_eq := @Ark.GenBridge.Book.freeAllTables_eq
/-- … and exactly the archetype's active tables are marked free in the table store -/
theorem src_freeAllTables_storage : type_of% @Ark.GenBridge.Book.freeAllTables_storage := @Ark.GenBridge.Book.freeAllTables_storage
/-- what marking a list of tables free does to the table store -/
theorem src_markFree : type_of% @Ark.GenBridge.Book.markFree_fold := @Ark.GenBridge.Book.markFree_fold

/-! ### The code itself: `bitPool` of pool.go (the lock bits), translated statement by statement on every run -/

/-- `bitPool.Get`/`getNew` as in the source = the model's `BitPool.get` (panic at 64 bits) -/
theorem src_bitPool_get' : type_of% @Ark.GenBridge.Book.bitPool_get_eq := @Ark.GenBridge.Book.bitPool_get_eq
/-- `bitPool.Recycle` as in the source = the model's -/
theorem src_bitPool_recycle' : type_of% @Ark.GenBridge.Book.bitPool_recycle_eq := @Ark.GenBridge.Book.bitPool_recycle_eq
/-- `bitPool.Reset` as in the source = the model's (all three counters cleared) -/
theorem src_bitPool_reset : type_of% @Ark.GenBridge.Book.bitPool_reset_eq := @Ark.GenBridge.Book.bitPool_reset_eq
/-- `intPool.Reset` (cache and observer IDs) as in the source = the model's -/
theorem src_intPool_reset : type_of% @Ark.GenBridge.Book.intPool_reset_eq := @Ark.GenBridge.Book.intPool_reset_eq
/-- `entityPool.Reset` as in the source: slice truncated to the reserved entries, free list emptied -/
theorem src_pool_reset' : type_of% @Ark.GenBridge.Book.entityPool_reset_eq := @Ark.GenBridge.Book.entityPool_reset_eq


/-! ### The code itself: the bookkeeping of cache.go, translated statement by statement on every run -/

/-- `cache.Reset` as in the source = the model's: nothing to do when no filter is registered, otherwise entries, index map and ID pool are dropped -/
theorem src_cache_reset : type_of% @Ark.GenBridge.Book.cache_reset_eq := @Ark.GenBridge.Book.cache_reset_eq


/-! ### After Reset every history has the same outcome as on a new world (Props/C16Hist, C16Register) -/

/-- **C16, second sentence**: for every history `pre` and every later history `post` (registrations and further resets anywhere), running `post` after `pre ++ [reset]` and after the registrations of `pre` alone on a NEW world (any capacities) give the same trace: the same expressibility, accept/reject decision, panic class and returned handle for every operation -/
theorem hist_same_trace : type_of% @Ark.Props.C16Hist.same_trace := @Ark.Props.C16Hist.same_trace

/-- … and the two machine states are in simulation after every prefix of `post` (equal specification, issued handles, registry, pool core) -/
theorem hist_same_state_after_every_prefix : type_of% @Ark.Props.C16Hist.same_state_after_every_prefix := @Ark.Props.C16Hist.same_state_after_every_prefix

/-- … hence the two model worlds agree on the free list, the next handle, `compsOf`/`valOf` of every ID and `alive` of every issued handle -/
theorem hist_same_worlds : type_of% @Ark.Props.C16Hist.same_worlds := @Ark.Props.C16Hist.same_worlds

/-- … and queries (uncached or through a cache entry registered on both sides) visit the same set of entities with the same values -/
theorem hist_same_cached_queries : type_of% @Ark.Props.C16Hist.same_cached_queries := @Ark.Props.C16Hist.same_cached_queries

/-- the outcome of a call (returned handle or panic class) is a function of the specification and the next pool handle -/
theorem hist_outcome_from_spec : type_of% @Ark.Props.C16Hist.outcome_from_spec := @Ark.Props.C16Hist.outcome_from_spec

/-- the simulation relation is preserved by every step -/
theorem hist_sim_is_a_simulation : type_of% @Ark.Props.C16Hist.sim_is_a_simulation := @Ark.Props.C16Hist.sim_is_a_simulation

/-- finding: on a forged handle with generation `MaxUint32` the two worlds may answer `Alive` differently (no issued handle has that generation) -/
theorem hist_forged_sentinel_handle_differs : type_of% @Ark.Props.C16Hist.forged_sentinel_handle_differs := @Ark.Props.C16Hist.forged_sentinel_handle_differs

/-- after Reset every filter object is unregistered and can be registered again (full model, with relations) -/
theorem rereg_filters_can_be_registered_again : type_of% @Ark.Props.C16Register.filters_can_be_registered_again := @Ark.Props.C16Register.filters_can_be_registered_again

/-- after Reset every observer object is unregistered and registers again exactly when it passed the checks before -/
theorem rereg_observers_can_be_registered_again : type_of% @Ark.Props.C16Register.observers_can_be_registered_again := @Ark.Props.C16Register.observers_can_be_registered_again

/-- finding (model level): a filter whose first relation names a non-column of a kept relation archetype panics before and after Reset but not on a new world; not constructible through the typed API -/
theorem rereg_bogus_relation_filter : type_of% @Ark.Props.C16Register.bogus_relation_filter := @Ark.Props.C16Register.bogus_relation_filter


/-! ### Reset ≡ new world for the relation machines (Props/C16Rel) -/

/-- **C16, second sentence, with relation components**: for every `pre`, `post` (together < 2^16 operations of the relation machine: new/add/remove/set-relations/set/remove-entity/copy/shrink/reset/filter definition, registration, un-registration/queries with fixed and per-call targets) the trace of `post` after `pre ++ [reset]` and after the registrations of `pre` on a NEW world of any capacities are equal output by output — returned handle or panic class; the visits of a query (entity, every value, every relation target) as a permutation -/
theorem relhist_same_trace : type_of% @Ark.Props.C16Rel.same_trace := @Ark.Props.C16Rel.same_trace

/-- … and after every prefix of `post` the two machine states are in simulation: equal specification, issued handles, registry, pool core, filter objects up to the cache ID; nothing is said about tables, table IDs, capacities or the cache -/
theorem relhist_same_state_after_every_prefix : type_of% @Ark.Props.C16Rel.same_state_after_every_prefix := @Ark.Props.C16Rel.same_state_after_every_prefix

/-- one step keeps the simulation, with equal outputs -/
theorem relhist_same_step : type_of% @Ark.Props.C16Rel.same_step := @Ark.Props.C16Rel.same_step

/-- the simulation holds right after the reset -/
theorem relhist_related_after_reset : type_of% @Ark.Props.C16Rel.related_after_reset := @Ark.Props.C16Rel.related_after_reset

/-- hence the two worlds agree on the components, values and relation targets of every entity ID, on `alive` of every issued handle and on the next handle -/
theorem relhist_same_worlds : type_of% @Ark.Props.C16Rel.same_worlds := @Ark.Props.C16Rel.same_worlds

/-- the same query on two worlds in simulation is rejected with the same class or visits the same records up to order -/
theorem relhist_same_query : type_of% @Ark.Props.C16Rel.same_query := @Ark.Props.C16Rel.same_query

/-- the outcome of a call (returned handle or panic class, in closed form) is a function of the specification and the next pool handle -/
theorem relhist_outcome_from_spec : type_of% @Ark.Props.C16Rel.outcome_from_spec := @Ark.Props.C16Rel.outcome_from_spec

/-- the same with `Exchange` (machine of C01Xchg) -/
theorem relhist_same_trace3 : type_of% @Ark.Props.C16Rel.same_trace3 := @Ark.Props.C16Rel.same_trace3

/-- … simulation after every prefix, with `Exchange` -/
theorem relhist_same_state3 : type_of% @Ark.Props.C16Rel.same_state3 := @Ark.Props.C16Rel.same_state3

/-- … agreement of the worlds, with `Exchange` -/
theorem relhist_same_worlds3 : type_of% @Ark.Props.C16Rel.same_worlds3 := @Ark.Props.C16Rel.same_worlds3

/-- the outcome of `Exchange` from the specification -/
theorem relhist_xchg_outcome_from_spec : type_of% @Ark.Props.C16Rel.xchg_outcome_from_spec := @Ark.Props.C16Rel.xchg_outcome_from_spec

/-- non-vacuity: in the demo the reset world and the new world place the same entities in different tables (LIFO recycling of freed tables) -/
theorem relhist_demo_tables_differ : type_of% @Ark.Props.C16Rel.demo_tables_differ := @Ark.Props.C16Rel.demo_tables_differ

/-- non-vacuity: the two demo traces of 24 operations differ as lists (archetype order of a query) and satisfy the trace equivalence -/
theorem relhist_demo_traces_equiv : type_of% @Ark.Props.C16Rel.demo_traces_equiv := @Ark.Props.C16Rel.demo_traces_equiv

/-- finding: a forged handle with generation `MaxUint32` as relation target of a query is accepted in the reset world and rejected on a new one (no issued handle has that generation) -/
theorem relhist_forged_sentinel_target_differs : type_of% @Ark.Props.C16Rel.forged_sentinel_target_differs := @Ark.Props.C16Rel.forged_sentinel_target_differs

/-- finding: the boolean result of `Shrink` depends on capacities, which persist over `Reset`; it is not part of the trace -/
theorem relhist_shrink_result_differs : type_of% @Ark.Props.C16Rel.shrink_result_differs := @Ark.Props.C16Rel.shrink_result_differs


end Ark.Props.C16
