import Ark.Proofs.GenBridge.ObsReset
import Ark.Props.C02
import Ark.Props.C08
import Ark.Proofs.Rejects

namespace Ark.Props.C16
open Ark

/-! C16 — Reset returns the world to a reusable empty state (pool, observers, lock). -/

/-- the observer-reset loop bound of the model IS the regenerated one -/
theorem observer_reset_loop_as_in_source : type_of% @GenBridge.observerReset_bound_eq := @GenBridge.observerReset_bound_eq

/-- the loop visits every event type up to the highest registered one, for all 256 event types (repaired defect D6) -/
theorem observer_reset_covers_all_events : type_of% @GenBridge.observerReset_covers := @GenBridge.observerReset_covers

/-- no handle of the previous epoch is alive after Reset (repaired defect D14) -/
theorem reset_kills_old_handles : type_of% @Ark.Props.C02.reset_kills := @Ark.Props.C02.reset_kills

/-- Reset on a locked world panics without effect -/
theorem reset_locked : type_of% @World.opReset_locked := @World.opReset_locked

/-- after `Reset` the pool is the initial pool again: same handles will be issued as by a new world -/
theorem pool_reset_core (p : Pool) (h2 : p.ents.take 2 = Pool.init.ents) :
    p.reset.ents = Pool.init.ents ∧ p.reset.next = Pool.init.next ∧ p.reset.available = Pool.init.available := by
  simp [Pool.reset, Pool.reserved, h2, Pool.init]

/-- the lock is clear after `Reset` -/
theorem lock_reset (l : Lock) : l.reset.isLocked = false := by
  simp [Lock.reset, Lock.isLocked]

end Ark.Props.C16
