import Ark.Proofs.QueryRelReach
import Ark.Props.C04World

namespace Ark.Props.C03Rel
open Ark Ark.World Ark.QueryExact Ark.QueryRel Ark.Props.C01World Ark.Props.C04World

/-! C03 with RELATION TARGETS — "A query built from a filter (required components, excluded
    components, exclusive, relation targets given in the filter or per query) visits each alive
    entity that matches exactly once and no other entity.  The component pointers and relation
    targets it yields are that entity's live data (the same storage random access returns), Count
    equals the number of entities visited, and EntityAt(i) is the i-th visited entity."

    Scope: worlds WITH relation components, satisfying the joint invariant `TInv w fl` of
    `Ark.Proofs.TargetsInv` / `Ark.Props.C04World` (`fl` = ghost free list of the entity pool; the
    IDs `≥ 2` outside `fl` are the alive ones).  The proofs are in `Ark/Proofs/QueryRel.lean`
    (selection), `QueryRelDrain.lean` (iteration), `QueryRelHist.lean` (chains of steps).

    Vocabulary.
    * `World.drain fo extra` — `q := fo.Query(extra…); for q.Next() { … }`, returns the list of
      `Visit`s `(e, table, row)`; `fo.rels` are the relations fixed by `.Relations(…)`, `extra` the
      per-call ones; the relations in force are `fo.rels ++ extra`;
    * `RelsTyped w f rels` — every relation names a relation component that the filter's mask
      requires (what `ToRelations` / `preCheckTyped` of the typed API enforce);
    * `ExtraOK w m extra` — what `Query(rel…)` of a typed filter checks: target zero or alive,
      relation component, in the mask (`preCheckTyped_ok_iff`: exactly that);
    * `targetOf w i c` — the relation target of component `c` of the entity with ID `i`, read
      through the index; `valOf`, `compsOf` likewise; `(w.tbl t).targetAt c` — the target the
      cursor yields for relation column `c` of table `t`;
    * `ExactRelVisits w fl f rels visits` — `nodup` (no ID twice), `sound` (every visit is an alive
      ID at the row the index records, reporting the handle stored there, archetype mask matches,
      and `targetOf = some tgt` for every relation `⟨c, tgt⟩`), `complete` (every such alive ID is
      visited), `data` (`valOf` reads the visited cell), `targets` (`targetOf` is the visited
      table's target);
    * `RelQueryExactOn w fl fo extra w1 q visits w2` — `qOpen fo extra w = .ok q w1`,
      `drain fo extra w = .ok visits w2`, `ExactRelVisits w fl fo.filter (fo.rels ++ extra) visits`,
      `qCount w1 q = some visits.length`, `qEntityAt w1 q i = some (some visits[i].e)` below the
      length and `some none` from it on;
    * `EntMatches w f rels i` — the filter's mask test holds of the component set `compsOf w i` of
      the entity AND `targetOf w i c = some tgt` for every relation `⟨c, tgt⟩ ∈ rels`;
    * `LockCycle`, `w.withLocks l`, `FilterOK`, `CIdx`, `RowsAlive`, `CacheInv` as in
      `Ark.Props.C03Exact` / `C05Cache`;
    * `QGood w` — `Good w` (of C04World: `TInv` for some free list, unlocked, no observers) ∧
      `CIdx w` ∧ `RowsAlive w` ∧ the lock invariant with no query open;
    * `Reach run w` — `w` is reached from `NewWorld` by accepted calls of `registerComponent`,
      `NewEntity(ids…, rels…)`, `RemoveEntity` (also of relation targets: `cleanupArchetypes`),
      `SetRelations`, `Add(ids…, rels…)` — each under the hypotheses of its `Good.*` theorem of
      `Ark.Props.C04World` — and by complete iterations of queries (`QueryOK`);
    * `QueryOK w fo extra` — `fo.cache = none`, `FilterOK fo`, `fo.typed → ExtraOK`, `RelsTyped`;
    * `Observed w fo extra w1 q visits` — what the client sees: `opened`, `nodup` (no handle
      twice), `exact` (`e` visited ↔ `w.alive e` ∧ `EntMatches`), `index` (each visit sits at the
      row the index records and reports the handle stored there), `data` (`valOf` = visited
      cell), `targets` (`targetOf` = the visited table's target, zero or alive), `count`,
      `entityAt`, `entityAtOut`. -/

/-! ## 1. any world satisfying the invariant -/

/-- **uncached, every filter object whose mask requires its type parameters** (`UnsafeFilter`,
    `FilterN` with or without `.Relations(…)`), with per-call relations `extra`: the iteration
    succeeds, the world afterwards is the world before up to the lock's bit pool, and the visits
    are exact. -/
theorem drain_rel {w : World} {fl : List Nat} (h : TInv w fl) (hx : CIdx w) (fo : FilterObj)
    (extra : List RelID) (hc : fo.cache = none) (hokf : FilterOK fo)
    (hpre : fo.typed = true → ExtraOK w fo.filter.mask extra)
    (hr : RelsTyped w fo.filter (fo.rels ++ extra))
    {l1 l2 : Lock} {b : Nat} (hL : LockCycle w.locks l1 b l2) :
    ∃ (q : QueryObj) (visits : List Visit),
      RelQueryExactOn w fl fo extra (w.withLocks l1) q visits (w.withLocks l2) :=
  QueryRel.drain_rel h hx fo extra hc hokf hpre hr hL

/-- the untyped walk over all archetypes needs no component index -/
theorem drain_rel_untyped {w : World} {fl : List Nat} (h : TInv w fl) (fo : FilterObj)
    (extra : List RelID) (hc : fo.cache = none) (hu : fo.typed = false ∨ fo.ids = [])
    (hpre : fo.typed = true → ExtraOK w fo.filter.mask extra)
    (hr : RelsTyped w fo.filter (fo.rels ++ extra))
    {l1 l2 : Lock} {b : Nat} (hL : LockCycle w.locks l1 b l2) :
    ∃ (q : QueryObj) (visits : List Visit),
      RelQueryExactOn w fl fo extra (w.withLocks l1) q visits (w.withLocks l2) :=
  QueryRel.drain_rel_untyped h fo extra hc hu hpre hr hL

/-- **the cached variant**: the cache entry lists the tables selected for the filter and the FIXED
    relations; the per-call relations are matched by the cursor. -/
theorem drain_rel_cached {w : World} {fl : List Nat} (h : TInv w fl) (hC : CacheInv w)
    (fo : FilterObj) (extra : List RelID) {id : Nat} {ce : CacheEntry} (hc : fo.cache = some id)
    (he : w.cacheEntry? id = some ce) (hf : ce.filter = fo.filter) (hrl : ce.rels = fo.rels)
    (hpre : fo.typed = true → ExtraOK w fo.filter.mask extra)
    (hr : RelsTyped w fo.filter (fo.rels ++ extra))
    {l1 l2 : Lock} {b : Nat} (hL : LockCycle w.locks l1 b l2) :
    ∃ (q : QueryObj) (visits : List Visit),
      RelQueryExactOn w fl fo extra (w.withLocks l1) q visits (w.withLocks l2) :=
  QueryRel.drain_rel_cached h hC fo extra hc he hf hrl hpre hr hL

/-- **entity-level reading** (with `RowsAlive`): the visited handles are pairwise distinct and are
    exactly the alive entities whose component set passes the filter's mask test and whose
    relation targets are the ones asked for. -/
theorem visited_iff {w : World} {fl : List Nat} {f : Filter} {rels : List RelID}
    {visits : List Visit} (X : ExactRelVisits w fl f rels visits) (h : TInv w fl)
    (hra : RowsAlive w) :
    (visits.map (·.e)).Nodup ∧
    ∀ (e : Ent), e ∈ visits.map (·.e) ↔ w.alive e = true ∧ EntMatches w f rels e.id :=
  X.visited_iff h hra

/-- every reported handle is alive -/
theorem visits_alive {w : World} {fl : List Nat} {f : Filter} {rels : List RelID}
    {visits : List Visit} (X : ExactRelVisits w fl f rels visits) (hra : RowsAlive w) :
    ∀ (v : Visit), v ∈ visits → w.alive v.e = true :=
  X.alive hra

/-- the relation targets the cursor yields are the zero entity or alive -/
theorem yielded_target_ok {w : World} {fl : List Nat} {f : Filter} {rels : List RelID}
    {visits : List Visit} (X : ExactRelVisits w fl f rels visits) (h : TInv w fl)
    {v : Visit} (hv : v ∈ visits) {c : Comp} {g : Ent}
    (hg : (w.tbl v.table).targetAt c = some g) : g.isZero = true ∨ w.alive g = true :=
  X.target_ok h.rel.aux.targets h.freeEmpty hv hg

/-- a query naming a dead (non-zero) target handle visits nothing — also when the ID of the dead
    handle has been recycled (the per-target lookup goes by ID, `Matches` compares handles) -/
theorem dead_target_visits_nothing {w : World} {fl : List Nat} {f : Filter} {rels : List RelID}
    {visits : List Visit} (X : ExactRelVisits w fl f rels visits) (h : TInv w fl)
    {r : RelID} (hr : r ∈ rels) (hz : r.target.isZero = false) (hd : w.alive r.target = false) :
    visits = [] :=
  X.nil_of_dead h.rel.aux.targets h.freeEmpty hr hz hd

/-- `preCheckTyped` accepts exactly the `ExtraOK` relation lists, leaving the world unchanged … -/
theorem preCheckTyped_ok_iff (m : Mask) (w : World) (extra : List RelID) :
    preCheckTyped m extra w = .ok () w ↔ ExtraOK w m extra :=
  QueryRel.preCheckTyped_ok_iff m w extra

/-- … and a typed query whose per-call relations are not `ExtraOK` is rejected before the lock is
    taken: nothing is visited, the world is unchanged -/
theorem drain_rejected (fo : FilterObj) (extra : List RelID) (w : World) (ht : fo.typed = true)
    (hbad : ¬ ExtraOK w fo.filter.mask extra) :
    ∃ (k : PanicKind), qOpen fo extra w = .panic k w ∧ drain fo extra w = .panic k w :=
  QueryRel.drain_rejected fo extra w ht hbad

/-! ### what the selection is, table by table -/

/-- the storage facts of the cache proofs (C05) hold in relation worlds -/
theorem tablesInv_of_rel {w : World} (h : RelInv w) : TablesInv w := QueryRel.tablesInv_of_rel h

/-- typed relations cannot make `GetTables` / `Matches` hit a nil dereference -/
theorem relsOK_of_typed {w : World} (h : SInvMid w) {f : Filter} {rels : List RelID}
    (hr : RelsTyped w f rels) : RelsOK w f rels := QueryRel.relsOK_of_typed h hr

/-- `Selected` (active table of a matching archetype on which `Matches(relations)` answers yes),
    read off the table: it exists, is not free, its archetype's mask matches and its relation
    columns hold the targets asked for -/
theorem selected_iff_match {w : World} (h : RelInv w) {f : Filter} {rels : List RelID}
    (hr : RelsTyped w f rels) (t : Nat) :
    Selected w f rels t ↔
      t < w.tables.length ∧ (w.tbl t).isFree = false ∧ TblMatch w f rels t :=
  QueryRel.selected_iff_match h hr t

/-! ## 2. over histories -/

/-- **C03 with relation targets, end to end — unregistered filters**: after every history of
    registrations, creations with relation targets, removals (of targets too), `SetRelations`,
    `Add` and queries, a query visits exactly the alive entities that match its filter and its
    relation targets, each once; the data and targets yielded are the entities' own; `Count` and
    `EntityAt` agree with the iteration; the world is unchanged up to the lock's bit pool. -/
theorem reach_query (run : ProbeRunner) {w : World} (r : Reach run w) (fo : FilterObj)
    (extra : List RelID) (hq : QueryOK w fo extra) :
    ∃ (l1 l2 : Lock) (q : QueryObj) (visits : List Visit),
      drain fo extra w = .ok visits (w.withLocks l2) ∧
      Observed w fo extra (w.withLocks l1) q visits :=
  QueryRel.reach_query run r fo extra hq

/-- **the same through the filter cache**: in a reached world (no filter is registered there),
    register a filter with fixed relations, then query through the entry with per-call relations -/
theorem reach_query_cached (run : ProbeRunner) {w : World} (r : Reach run w) (f : Filter)
    (rels : List RelID) (hr : RelsTyped w f rels) :
    ∃ (id : Nat) (w' : World), cacheRegister f rels w = .ok id w' ∧
      ∀ (fo : FilterObj) (extra : List RelID), fo.cache = some id → fo.filter = f →
        fo.rels = rels → (fo.typed = true → ExtraOK w' fo.filter.mask extra) →
        RelsTyped w' fo.filter (fo.rels ++ extra) →
        ∃ (l1 l2 : Lock) (q : QueryObj) (visits : List Visit),
          drain fo extra w' = .ok visits (w'.withLocks l2) ∧
          Observed w' fo extra (w'.withLocks l1) q visits :=
  QueryRel.reach_query_cached run r f rels hr

/-- the invariant behind it: every reached world is `QGood` and has no registered filter -/
theorem reach_qgood (run : ProbeRunner) {w : World} (r : Reach run w) : QGood w ∧ CacheEmpty w :=
  QueryRel.reach_qgood run r

/-- `QGood` is kept by every operation (stated for the operations one by one; `Good.*` of
    `Ark.Props.C04World` give the `TInv` part, the lemmas here add `CIdx` and `RowsAlive`) -/
theorem qgood_init (cap rel : Nat) : QGood (World.init cap rel) := QueryRel.qgood_init cap rel
theorem qgood_registerComponent : type_of% @QGood.registerComponent := @QGood.registerComponent
theorem qgood_newEntity : type_of% @QGood.newEntity := @QGood.newEntity
theorem qgood_removeEntity : type_of% @QGood.removeEntity := @QGood.removeEntity
theorem qgood_setRelations : type_of% @QGood.setRelations := @QGood.setRelations
theorem qgood_add : type_of% @QGood.add := @QGood.add

/-- `CIdx` and `RowsAlive` of a concrete world can also be checked directly -/
theorem qgood_of_checks {w : World} (g : Good w) (h1 : cidxB w = true) (h2 : rowsAliveB w = true)
    (h3 : w.locks = {}) : QGood w := QGood.of_checks g h1 h2 h3

/-- **a query on a `QGood` world** (unregistered filter): succeeds, changes nothing but the lock's
    bit pool, leaves a `QGood` world, and what the client sees is `Observed`. -/
theorem qgood_query {w : World} (g : QGood w) (fo : FilterObj) (extra : List RelID)
    (hc : fo.cache = none) (hokf : FilterOK fo)
    (hpre : fo.typed = true → ExtraOK w fo.filter.mask extra)
    (hr : RelsTyped w fo.filter (fo.rels ++ extra)) :
    ∃ (l1 l2 : Lock) (q : QueryObj) (visits : List Visit),
      drain fo extra w = .ok visits (w.withLocks l2) ∧ QGood (w.withLocks l2) ∧
      Observed w fo extra (w.withLocks l1) q visits :=
  g.query fo extra hc hokf hpre hr

/-- the same through the filter cache -/
theorem qgood_query_cached {w : World} (g : QGood w) (hC : CacheInv w) (fo : FilterObj)
    (extra : List RelID) {id : Nat} {ce : CacheEntry} (hc : fo.cache = some id)
    (he : w.cacheEntry? id = some ce) (hf : ce.filter = fo.filter) (hrl : ce.rels = fo.rels)
    (hpre : fo.typed = true → ExtraOK w fo.filter.mask extra)
    (hr : RelsTyped w fo.filter (fo.rels ++ extra)) :
    ∃ (l1 l2 : Lock) (q : QueryObj) (visits : List Visit),
      drain fo extra w = .ok visits (w.withLocks l2) ∧ QGood (w.withLocks l2) ∧
      CacheInv (w.withLocks l2) ∧ Observed w fo extra (w.withLocks l1) q visits :=
  g.query_cached hC fo extra hc he hf hrl hpre hr

/-- registering a filter with relations keeps `QGood` and `CacheInv` -/
theorem qgood_cacheRegister {w : World} (g : QGood w) (hC : CacheInv w) (f : Filter)
    (rels : List RelID) (hr : RelsTyped w f rels)
    (hfresh : AL.find? w.cache.indices (w.cache.pool.get).2 = none) :
    ∃ (w' : World) (ce : CacheEntry),
      cacheRegister f rels w = .ok (w.cache.pool.get).2 w' ∧ QGood w' ∧ CacheInv w' ∧
      w'.cacheEntry? (w.cache.pool.get).2 = some ce ∧ ce.filter = f ∧ ce.rels = rels ∧
      w'.entities = w.entities ∧ w'.tables = w.tables ∧ w'.archetypes = w.archetypes ∧
      w'.kinds = w.kinds ∧ w'.pool = w.pool :=
  g.cacheRegister hC f rels hr hfresh

/-! ## 3. a concrete world (the worlds `d7`, `d10` of `Ark.Props.C04World`)

Component 0 = `ChildOf` (relation), component 1 = `Pos`.
`d7`: parents `p1 = ⟨2,0⟩`, `p2 = ⟨3,0⟩` (no components, table 0); children 4, 5 of `p1` (table 1),
child 6 of `p2` (table 2).
`d10`: `p1` has been removed (children 4, 5 now target the zero entity, table 3; table 1 was freed),
a new parent `p3 = ⟨2,1⟩` RE-USES THE ID of `p1`, and its child 7 sits in the recycled table 1. -/

/-- the visits of a complete iteration, as tuples `(entity, table, row)` -/
def vis (fo : FilterObj) (extra : List RelID) (w : World) : Option (List (Ent × Nat × Nat)) :=
  match drain fo extra w with
  | .ok vs _ => some (vs.map fun v => (v.e, v.table, v.row))
  | .panic _ _ => none

/-- `Filter2[ChildOf, Pos]` -/
def foC : FilterObj := { filter := { mask := Mask.ofList [0, 1] }, ids := [0, 1] }
/-- `Filter2[ChildOf, Pos].Relations(RelIdx(0, p1))` -/
def foP1 : FilterObj := { foC with rels := [⟨0, p1⟩] }
/-- `UnsafeFilter` with components `ChildOf, Pos` -/
def fuC : FilterObj := { foC with ids := [], typed := false }

/-- the worlds of `Ark.Props.C04World` are reached by histories: registrations and creations … -/
theorem reach_d2 : Reach noRun d2 :=
  ((Reach.init 2 2).reg _ (by decide +kernel)).reg _ (by decide +kernel)

theorem reach_d3 : Reach noRun d3 :=
  reach_d2.new .unsafe_ [] [] [] (by decide +kernel) (by decide +kernel) (by decide +kernel)
    (by decide +kernel) (by decide +kernel) (by decide +kernel) (by decide +kernel) (by decide +kernel)

theorem reach_d4 : Reach noRun d4 :=
  reach_d3.new .unsafe_ [] [] [] (by decide +kernel) (by decide +kernel) (by decide +kernel)
    (by decide +kernel) (by decide +kernel) (by decide +kernel) (by decide +kernel) (by decide +kernel)

theorem reach_d5 : Reach noRun d5 :=
  reach_d4.new .typed [0, 1] [(1, 7)] [⟨0, p1⟩] (by decide +kernel) (by decide +kernel)
    (by decide +kernel) (by decide +kernel) (by decide +kernel) (by decide +kernel)
    (by decide +kernel) (by decide +kernel)

theorem reach_d6 : Reach noRun d6 :=
  reach_d5.new .typed [0, 1] [(1, 8)] [⟨0, p1⟩] (by decide +kernel) (by decide +kernel)
    (by decide +kernel) (by decide +kernel) (by decide +kernel) (by decide +kernel)
    (by decide +kernel) (by decide +kernel)

theorem reach_d7 : Reach noRun d7 :=
  reach_d6.new .typed [0, 1] [(1, 9)] [⟨0, p2⟩] (by decide +kernel) (by decide +kernel)
    (by decide +kernel) (by decide +kernel) (by decide +kernel) (by decide +kernel)
    (by decide +kernel) (by decide +kernel)

/-- … the removal of the relation target `p1` (with `cleanupArchetypes`) … -/
theorem reach_d8 : Reach noRun d8 :=
  reach_d7.del p1 (by decide +kernel) (by decide +kernel) (by decide +kernel) (by decide +kernel)
    (by decide +kernel)

/-- … a new parent re-using the ID of `p1`, and a child of it in the recycled table -/
theorem reach_d9 : Reach noRun d9 :=
  reach_d8.new .unsafe_ [] [] [] (by decide +kernel) (by decide +kernel) (by decide +kernel)
    (by decide +kernel) (by decide +kernel) (by decide +kernel) (by decide +kernel) (by decide +kernel)

theorem reach_d10 : Reach noRun d10 :=
  reach_d9.new .typed [0, 1] [(1, 5)] [⟨0, p3⟩] (by decide +kernel) (by decide +kernel)
    (by decide +kernel) (by decide +kernel) (by decide +kernel) (by decide +kernel)
    (by decide +kernel) (by decide +kernel)

/-- `SetRelations` and `Add` with a relation (the worlds `d7s`, `d7a` of `Ark.Props.C04World`),
    and a query as a step of the history -/
theorem reach_d7s : Reach noRun d7s :=
  reach_d7.setRel .typed ⟨6, 0⟩ [0] [⟨0, p1⟩] (by decide +kernel) (by decide +kernel)
    (by decide +kernel) (by decide +kernel) (by decide +kernel) (by decide +kernel)
    (by decide +kernel) (by decide +kernel) (by decide +kernel) (by decide +kernel)

theorem reach_d7a : Reach noRun d7a :=
  reach_d7.add .typed p2 [0] [] [⟨0, p1⟩] (by decide +kernel) (by decide +kernel)
    (by decide +kernel) (by decide +kernel) (by decide +kernel) (by decide +kernel)
    (by decide +kernel) (by decide +kernel) (by decide +kernel) (by decide +kernel) (by decide +kernel)

theorem qgood_d7 : QGood d7 := (QueryRel.reach_qgood noRun reach_d7).1
theorem qgood_d10 : QGood d10 := (QueryRel.reach_qgood noRun reach_d10).1

theorem filterOK_foC : FilterOK foC := by unfold FilterOK; decide +kernel
theorem filterOK_foP1 : FilterOK foP1 := by unfold FilterOK; decide +kernel
theorem filterOK_fuC : FilterOK fuC := by unfold FilterOK; decide +kernel

/-- the hypotheses of the theorems hold for queries per target on `d7` … -/
example : (foC.typed = true → ExtraOK d7 foC.filter.mask [⟨0, p1⟩]) ∧
    RelsTyped d7 foC.filter (foC.rels ++ [⟨0, p1⟩]) ∧
    (foC.typed = true → ExtraOK d7 foC.filter.mask [⟨0, p2⟩]) ∧
    RelsTyped d7 foC.filter (foC.rels ++ [⟨0, p2⟩]) ∧
    (foP1.typed = true → ExtraOK d7 foP1.filter.mask []) ∧
    RelsTyped d7 foP1.filter (foP1.rels ++ []) ∧
    (foC.typed = true → ExtraOK d7 foC.filter.mask [⟨0, Ent.zero⟩]) ∧
    RelsTyped d7 foC.filter (foC.rels ++ [⟨0, Ent.zero⟩]) := by
  unfold ExtraOK RelsTyped
  refine ⟨fun _ => ?_, ?_, fun _ => ?_, ?_, fun _ => ?_, ?_, fun _ => ?_, ?_⟩ <;> decide +kernel

/-- … so the theorem applies: e.g. the children of `p1` -/
example : ∃ (l1 l2 : Lock) (q : QueryObj) (visits : List Visit),
    drain foC [⟨0, p1⟩] d7 = .ok visits (d7.withLocks l2) ∧ QGood (d7.withLocks l2) ∧
    Observed d7 foC [⟨0, p1⟩] (d7.withLocks l1) q visits :=
  qgood_d7.query foC [⟨0, p1⟩] rfl filterOK_foC
    (fun _ => by unfold ExtraOK; decide +kernel) (by unfold RelsTyped; decide +kernel)

/-- what the queries visit on `d7`: all children; the children of `p1` (per-call relation, or
    fixed in the filter); the child of `p2`; nobody has the zero target -/
example :
    vis foC [] d7 = some [(⟨4, 0⟩, 1, 0), (⟨5, 0⟩, 1, 1), (⟨6, 0⟩, 2, 0)] ∧
    vis foC [⟨0, p1⟩] d7 = some [(⟨4, 0⟩, 1, 0), (⟨5, 0⟩, 1, 1)] ∧
    vis foP1 [] d7 = some [(⟨4, 0⟩, 1, 0), (⟨5, 0⟩, 1, 1)] ∧
    vis fuC [⟨0, p1⟩] d7 = some [(⟨4, 0⟩, 1, 0), (⟨5, 0⟩, 1, 1)] ∧
    vis foC [⟨0, p2⟩] d7 = some [(⟨6, 0⟩, 2, 0)] ∧
    vis foP1 [⟨0, p2⟩] d7 = some [] ∧
    vis foC [⟨0, Ent.zero⟩] d7 = some [] := by
  refine ⟨?_, ?_, ?_, ?_, ?_, ?_, ?_⟩ <;> decide +kernel

/-- the data and targets yielded are the entity's: child 5 at `(1, 1)` -/
example : (d7.tbl 1).getComp 1 1 = some 8 ∧ valOf d7 5 1 = some 8 ∧
    (d7.tbl 1).targetAt 0 = some p1 ∧ targetOf d7 5 0 = some p1 ∧
    (d7.tbl 1).targetAt 1 = none ∧ targetOf d7 5 1 = none := by
  refine ⟨?_, ?_, ?_, ?_, ?_, ?_⟩ <;> decide +kernel

/-- `d10`, after the removal of `p1` and the re-use of its ID by `p3`: the zero target selects
    the orphans 4, 5; `p3` selects its child 7 in the recycled table 1; `p2` still selects 6 -/
example :
    d10.alive p1 = false ∧ d10.alive p3 = true ∧ p1.id = p3.id ∧
    vis foC [] d10 = some [(⟨4, 0⟩, 3, 0), (⟨5, 0⟩, 3, 1), (⟨6, 0⟩, 2, 0), (⟨7, 0⟩, 1, 0)] ∧
    vis foC [⟨0, Ent.zero⟩] d10 = some [(⟨4, 0⟩, 3, 0), (⟨5, 0⟩, 3, 1)] ∧
    vis foC [⟨0, p3⟩] d10 = some [(⟨7, 0⟩, 1, 0)] ∧
    vis foC [⟨0, p2⟩] d10 = some [(⟨6, 0⟩, 2, 0)] := by
  refine ⟨?_, ?_, ?_, ?_, ?_, ?_, ?_⟩ <;> decide +kernel

/-- **the dead, recycled handle `p1`** on `d10`: the per-target lookup (keyed by ID) hands out
    table 1 — the table of `p3` — and `Matches` rejects it (handles differ in the generation).
    A filter that fixed `p1` while it was alive (`foP1`) and the unsafe query visit nothing; the
    typed query is rejected with `deadTarget`, the world unchanged. -/
example :
    (d10.arch 1).getTables [⟨0, p1⟩] = some [1] ∧ (d10.tbl 1).matchesRels [⟨0, p1⟩] = some false ∧
    vis foP1 [] d10 = some [] ∧ vis fuC [⟨0, p1⟩] d10 = some [] ∧
    panicOf (drain foC [⟨0, p1⟩] d10) = some .deadTarget ∧
    ∃ (k : PanicKind), drain foC [⟨0, p1⟩] d10 = .panic k d10 := by
  refine ⟨?_, ?_, ?_, ?_, ?_, ?_⟩
  · decide +kernel
  · decide +kernel
  · decide +kernel
  · decide +kernel
  · decide +kernel
  · obtain ⟨k, _, hk⟩ := drain_rejected foC [⟨0, p1⟩] d10 rfl (by unfold ExtraOK; decide +kernel)
    exact ⟨k, hk⟩

/-- the hypotheses hold there too (the fixed relation of `foP1` and the per-call relation of the
    unsafe query name a dead target: `RelsTyped` does not ask for live targets) … -/
example : RelsTyped d10 foP1.filter (foP1.rels ++ []) ∧
    RelsTyped d10 fuC.filter (fuC.rels ++ [⟨0, p1⟩]) ∧ ¬ ExtraOK d10 foC.filter.mask [⟨0, p1⟩] ∧
    (foC.typed = true → ExtraOK d10 foC.filter.mask [⟨0, p3⟩]) ∧
    (foC.typed = true → ExtraOK d10 foC.filter.mask [⟨0, Ent.zero⟩]) := by
  unfold ExtraOK RelsTyped
  refine ⟨?_, ?_, ?_, fun _ => ?_, fun _ => ?_⟩ <;> decide +kernel

/-- … and the theorems give: nothing visited -/
example : ∃ (l1 l2 : Lock) (q : QueryObj) (visits : List Visit),
    drain foP1 [] d10 = .ok visits (d10.withLocks l2) ∧ QGood (d10.withLocks l2) ∧
    Observed d10 foP1 [] (d10.withLocks l1) q visits :=
  qgood_d10.query foP1 [] rfl filterOK_foP1 (fun _ => by unfold ExtraOK; decide +kernel)
    (by unfold RelsTyped; decide +kernel)

/-- queries can be chained: after one query the world is `QGood` again -/
example : ∃ (l2 l2' : Lock) (v1 v2 : List Visit),
    drain foC [⟨0, p3⟩] d10 = .ok v1 (d10.withLocks l2) ∧
    drain foC [⟨0, Ent.zero⟩] (d10.withLocks l2) = .ok v2 ((d10.withLocks l2).withLocks l2') ∧
    QGood ((d10.withLocks l2).withLocks l2') := by
  obtain ⟨_, l2, _, v1, h1, g1, _⟩ := qgood_d10.query foC [⟨0, p3⟩] rfl filterOK_foC
    (fun _ => by unfold ExtraOK; decide +kernel) (by unfold RelsTyped; decide +kernel)
  have hx : ExtraOK d10 foC.filter.mask [⟨0, Ent.zero⟩] := by unfold ExtraOK; decide +kernel
  have hr : RelsTyped d10 foC.filter (foC.rels ++ [⟨0, Ent.zero⟩]) := by
    unfold RelsTyped; decide +kernel
  obtain ⟨_, l2', _, v2, h2, g2, _⟩ := g1.query foC [⟨0, Ent.zero⟩] rfl filterOK_foC
    (fun _ => hx) hr
  exact ⟨l2, l2', v1, v2, h1, h2, g2⟩

/-! ### the history-level theorems applied -/

/-- `Filter1[ChildOf]` -/
def foR : FilterObj := { filter := { mask := Mask.ofList [0] }, ids := [0] }

theorem queryOK_d10_p3 : QueryOK d10 foC [⟨0, p3⟩] :=
  ⟨rfl, filterOK_foC, fun _ => by unfold ExtraOK; decide +kernel,
    by unfold RelsTyped; decide +kernel⟩

/-- `reach_query` on the history of `d10`; the query is itself a step of a history -/
example : (∃ (l1 l2 : Lock) (q : QueryObj) (visits : List Visit),
      drain foC [⟨0, p3⟩] d10 = .ok visits (d10.withLocks l2) ∧
      Observed d10 foC [⟨0, p3⟩] (d10.withLocks l1) q visits) ∧
    Reach noRun (drain foC [⟨0, p3⟩] d10).state :=
  ⟨reach_query noRun reach_d10 foC [⟨0, p3⟩] queryOK_d10_p3,
   reach_d10.query foC [⟨0, p3⟩] queryOK_d10_p3⟩

/-- `reach_query_cached` on the history of `d10`: its hypothesis holds -/
example : RelsTyped d10 foC.filter [⟨0, p2⟩] := by unfold RelsTyped; decide +kernel

/-- after `SetRelations` (child 6 re-targeted to `p1`) and after `Add` (parent `p2` becomes a
    child of `p1`, without `Pos`): the queries per target see the new targets -/
example :
    vis foC [⟨0, p1⟩] d7s = some [(⟨4, 0⟩, 1, 0), (⟨5, 0⟩, 1, 1), (⟨6, 0⟩, 1, 2)] ∧
    vis foC [⟨0, p2⟩] d7s = some [] ∧
    vis foR [⟨0, p1⟩] d7a = some [(⟨4, 0⟩, 1, 0), (⟨5, 0⟩, 1, 1), (⟨3, 0⟩, 3, 0)] ∧
    vis foC [⟨0, p1⟩] d7a = some [(⟨4, 0⟩, 1, 0), (⟨5, 0⟩, 1, 1)] := by
  refine ⟨?_, ?_, ?_, ?_⟩ <;> decide +kernel

example : QueryOK d7s foC [⟨0, p1⟩] ∧ QueryOK d7a foR [⟨0, p1⟩] := by
  refine ⟨⟨rfl, filterOK_foC, fun _ => ?_, ?_⟩, ⟨rfl, ?_, fun _ => ?_, ?_⟩⟩
  · unfold ExtraOK; decide +kernel
  · unfold RelsTyped; decide +kernel
  · unfold FilterOK; decide +kernel
  · unfold ExtraOK; decide +kernel
  · unfold RelsTyped; decide +kernel

/-! ### through the filter cache -/

/-- `Filter2[ChildOf, Pos].Relations(RelIdx(0, p2)).Register()` on `d10` -/
def d10c : World := (cacheRegister foC.filter [⟨0, p2⟩] d10).state
def foP2c : FilterObj := { foC with rels := [⟨0, p2⟩], cache := some 0 }
/-- `Filter2[ChildOf, Pos].Register()` on `d10`, queried with per-call relations -/
def d10d : World := (cacheRegister foC.filter [] d10).state
def foCc : FilterObj := { foC with cache := some 0 }

theorem cacheInv_d10 : CacheInv d10 :=
  cacheInv_of_empty (by decide +kernel) (by decide +kernel)

/-- the hypotheses of the cached variant are satisfiable: registration succeeds and yields a
    `QGood` world with `CacheInv` and the entry -/
theorem qgood_d10c : QGood d10c ∧ CacheInv d10c ∧
    ∃ (ce : CacheEntry), d10c.cacheEntry? 0 = some ce ∧ ce.filter = foC.filter ∧
      ce.rels = [⟨0, p2⟩] := by
  obtain ⟨w', ce, h1, h2, h3, h4, h5, h6, _⟩ := qgood_d10.cacheRegister cacheInv_d10 foC.filter
    [⟨0, p2⟩] (by unfold RelsTyped; decide +kernel) (by decide +kernel)
  have hw : d10c = w' := by unfold d10c; rw [h1]; rfl
  have h0 : (d10.cache.pool.get).2 = 0 := by decide +kernel
  rw [h0] at h4
  rw [hw]
  exact ⟨h2, h3, ce, h4, h5, h6⟩

theorem qgood_d10d : QGood d10d ∧ CacheInv d10d ∧
    ∃ (ce : CacheEntry), d10d.cacheEntry? 0 = some ce ∧ ce.filter = foC.filter ∧ ce.rels = [] := by
  obtain ⟨w', ce, h1, h2, h3, h4, h5, h6, _⟩ := qgood_d10.cacheRegister cacheInv_d10 foC.filter
    [] (RelsTyped.nil _ _) (by decide +kernel)
  have hw : d10d = w' := by unfold d10d; rw [h1]; rfl
  have h0 : (d10.cache.pool.get).2 = 0 := by decide +kernel
  rw [h0] at h4
  rw [hw]
  exact ⟨h2, h3, ce, h4, h5, h6⟩

/-- the cached theorem applies (fixed relation in the entry; per-call relation on the entry of
    the relation-free registration) -/
example : (∃ (l1 l2 : Lock) (q : QueryObj) (visits : List Visit),
      drain foP2c [] d10c = .ok visits (d10c.withLocks l2) ∧ QGood (d10c.withLocks l2) ∧
      CacheInv (d10c.withLocks l2) ∧ Observed d10c foP2c [] (d10c.withLocks l1) q visits) ∧
    (∃ (l1 l2 : Lock) (q : QueryObj) (visits : List Visit),
      drain foCc [⟨0, p3⟩] d10d = .ok visits (d10d.withLocks l2) ∧ QGood (d10d.withLocks l2) ∧
      CacheInv (d10d.withLocks l2) ∧ Observed d10d foCc [⟨0, p3⟩] (d10d.withLocks l1) q visits) := by
  obtain ⟨g1, c1, ce1, e1, f1, r1⟩ := qgood_d10c
  obtain ⟨g2, c2, ce2, e2, f2, r2⟩ := qgood_d10d
  exact ⟨g1.query_cached c1 foP2c [] rfl e1 f1 r1 (fun _ => by unfold ExtraOK; decide +kernel)
      (by unfold RelsTyped; decide +kernel),
    g2.query_cached c2 foCc [⟨0, p3⟩] rfl e2 f2 r2 (fun _ => by unfold ExtraOK; decide +kernel)
      (by unfold RelsTyped; decide +kernel)⟩

/-- the entry for the fixed relation lists table 2 only; the relation-free entry lists the three
    active relation tables and the cursor filters them by the per-call relation -/
example :
    (d10c.cacheEntry? 0).map (·.tables.tables) = some [2] ∧
    vis foP2c [] d10c = some [(⟨6, 0⟩, 2, 0)] ∧
    (d10d.cacheEntry? 0).map (·.tables.tables) = some [3, 2, 1] ∧
    vis foCc [⟨0, p3⟩] d10d = some [(⟨7, 0⟩, 1, 0)] ∧
    vis foCc [⟨0, Ent.zero⟩] d10d = some [(⟨4, 0⟩, 3, 0), (⟨5, 0⟩, 3, 1)] ∧
    vis foCc [] d10d = some [(⟨4, 0⟩, 3, 0), (⟨5, 0⟩, 3, 1), (⟨6, 0⟩, 2, 0), (⟨7, 0⟩, 1, 0)] := by
  refine ⟨?_, ?_, ?_, ?_, ?_, ?_⟩ <;> decide +kernel

/-! ## 4. findings: the hypothesis `RelsTyped` is necessary (unsafe API)

`UnsafeFilter.Query(rel…)` converts its relations with `ToRelationIDsForUnsafe`, which checks
NOTHING (not that the component is a relation, not that the filter requires it, not the target).
`Matches(relations)` answers yes on every table without relation columns, and `GetTables` /
`Matches` index by the relation's component without checking that the archetype has it. -/

/-- `UnsafeFilter` over all entities -/
def fuAll : FilterObj := { filter := {}, typed := false }

/-- (a) a relation component the filter does not require: the query `ChildOf → p1` over all
    entities also yields the parents `p1`, `p2` THEMSELVES, which have no `ChildOf` relation
    (their archetype has no relation column, so `Matches` is vacuous) -/
theorem relsTyped_necessary_sound :
    ¬ RelsTyped d7 fuAll.filter [⟨0, p1⟩] ∧
    vis fuAll [⟨0, p1⟩] d7 =
      some [(⟨2, 0⟩, 0, 0), (⟨3, 0⟩, 0, 1), (⟨4, 0⟩, 1, 0), (⟨5, 0⟩, 1, 1)] ∧
    targetOf d7 2 0 = none ∧ targetOf d7 3 0 = none := by
  refine ⟨?_, ?_, ?_, ?_⟩
  · unfold RelsTyped; decide +kernel
  all_goals decide +kernel

/-- a second relation component `Likes` (2) and an entity `⟨7,0⟩` that likes `p2` -/
def e2 : World :=
  let w := (registerComponent { isRel := true } d7).state
  (opNewEntity noRun .unsafe_ [2] [] [⟨2, p2⟩] w).state

/-- (b) … and when some matching archetype has relation columns but not the component named, the
    query PANICS in the middle of the iteration (Go: `relationTables[-1]`, index out of range),
    while the same query without relations runs -/
theorem relsTyped_necessary_panic :
    ¬ RelsTyped e2 fuAll.filter [⟨0, p1⟩] ∧
    (match drain fuAll [⟨0, p1⟩] e2 with
     | .panic k _ => k == .runtime
     | .ok _ _ => false) = true ∧
    vis fuAll [] e2 = some [(⟨2, 0⟩, 0, 0), (⟨3, 0⟩, 0, 1), (⟨4, 0⟩, 1, 0), (⟨5, 0⟩, 1, 1),
      (⟨6, 0⟩, 2, 0), (⟨7, 0⟩, 3, 0)] := by
  refine ⟨?_, ?_, ?_⟩
  · unfold RelsTyped; decide +kernel
  all_goals decide +kernel

/-- (c) a non-relation component with the zero target, not in first position: `Matches` compares
    the zero target with the (zero) target slot of the non-relation column `Pos` and answers yes,
    although `Pos` has no target -/
theorem relsTyped_necessary_nonrel :
    ¬ RelsTyped d7 fuC.filter [⟨0, p1⟩, ⟨1, Ent.zero⟩] ∧
    vis fuC [⟨0, p1⟩, ⟨1, Ent.zero⟩] d7 = some [(⟨4, 0⟩, 1, 0), (⟨5, 0⟩, 1, 1)] ∧
    targetOf d7 4 1 = none := by
  refine ⟨?_, ?_, ?_⟩
  · unfold RelsTyped; decide +kernel
  all_goals decide +kernel

end Ark.Props.C03Rel
