/-
  Ark.Props.C19Hist — C19 over histories of ANY length, for the non-relation, observer-free
  fragment with components:

    "World statistics always agree with the actual contents: used entities equals the number of
     alive entities and the sum of archetype and table sizes, total equals used plus recycled
     […], no two archetypes have the same component set, every table's size is at most its
     capacity, memory figures are the documented products and sums, and filter, observer and lock
     figures match what is registered.  Statistics that were updated incrementally over a history
     equal those of a world that replays the history and is asked once."

  The machine (`Ark.StatsHist.step3`, Ark/Proofs/StatsHist.lean) interleaves, from
  `World.init cap rel`, in any order:
    * `op (base o)` — the eleven entity operations of `Ark.Refine`: `registerComponent`,
      `NewEntity(ids…)`, `NewEntity()`, `Add`, `Remove`, `Exchange` (each through the `Unsafe`,
      `Map` or `MapN` path), `Set`, `RemoveEntity`, `CopyEntity`, `Shrink`, `Reset`;
    * `op (fdef f fo)`, `op (freg f)`, `op (funreg f)` — the filter operations of `Ark.CacheHist`;
    * `stats` — `World.Stats()` (`World.opStats`): updates the ONE re-used object `w.stats` in
      place (archetype entries by position, new ones appended; `componentIDs`, `numRelations`,
      `memoryPerEntity` of an existing entry are never recomputed) and returns it.

  Vocabulary:
    * `St = ⟨w, issued, ss⟩` — the world, the handles handed out so far (ghost), the
      specification `ss.ents : alive handle ↦ component ↦ value` and `ss.zst` (registry).
    * `statsFresh w` — what a world asked for the first time reports (Ark/Model/Stats.lean).
    * `Compatible st w` — what the in-place update relies on (Ark/Proofs/Stats.lean).
    * `SStep w w'` — archetypes only appended, existing ones keep component list and relation
      count, registered sizes unchanged (`Mono`), `w'.stats = w.stats`, no observer registered.
    * `HInv3 s fl` — the inductive invariant: `HInv2` (⊇ `Refine.HInv` ⊇ `CInv` ⊇ `SInv`, `IdxInv`;
      `FInv`) and `Compatible s.w.stats s.w` and `s.w.obs.totalCount = 0`.
    * `Agree s st` — the figures `st` agree with the contents of state `s` (all clauses of C19).
    * `specComps s x` — the component set the specification records for entry `x`, as the
      ascending list of component IDs.

  Main theorems: `every_operation_is_sstep` (all eleven operations), `compatible_kept`,
  `reach3_invariant`, `stats_incremental_eq_fresh` (incremental = fresh at EVERY `Stats()` call
  of EVERY history), `stats_asked_once` (… = the answer of the same world with an empty object),
  `stats_agree` (the figures agree with the contents), the clauses of `Agree` one by one, and
  **incremental = replay**: `no_operation_reads_stats` (every operation commutes with replacing
  the statistics object), `history_replay` (the history without its `Stats()` calls reaches the
  same world up to `w.stats`), `stats_incremental_eq_replay` (the answer after the history with
  interleaved calls = the answer of the replaying world, whose object is still empty, asked once).

  Bound: `ops.length < 2^32 − 2`, as for `Refine.reach_hinv`.

  Hypotheses recorded once: all figures are naturals (no overflow of Go's `int`); the two
  figures of `stats.World` that depend on Go's slice growth policy (`Entities.Capacity` and the
  pool/index part of `Memory`) are not modelled, hence "total does not exceed capacity" is not
  stated; observers and locks: this machine has no observer operations and is observed between
  operations, so the figures are `0` / `false` (they are `w.obs.totalCount` / `w.isLocked`).
  `cachedFilters` is the number of entries of the cache (`fdef` may overwrite a registered filter
  object, whose entry then stays in the cache — as a dropped `Filter` does in Go).
-/
import Ark.Proofs.StatsCount
import Ark.Proofs.StatsReplay

set_option autoImplicit false

namespace Ark.Props.C19Hist
open Ark Ark.World Ark.Refine Ark.CacheHist Ark.StatsHist

variable (run : ProbeRunner) (cap rel : Nat)

/-! ## 1. every operation keeps what `Stats()` relies on -/

/-- `SStep w w'` spelled out. -/
theorem sstep_iff (w w' : World) :
    SStep w w' ↔ Mono w w' ∧ w'.stats = w.stats ∧ (w.obs.totalCount = 0 → w'.obs.totalCount = 0) :=
  ⟨fun h => ⟨h.mono, h.stats, h.obs0⟩, fun h => ⟨h.1, h.2.1, h.2.2⟩⟩

/-- **Every successful entity operation** (all eleven) only appends archetypes, keeps component
    list, relation count and registered component sizes of the existing ones, and does not touch
    the statistics object. -/
theorem every_operation_is_sstep {s : St} {fl : List Nat} (H : HInv s fl) {op : Refine.Op}
    (hg : guard s op = true) {r : Option Ent} {w' : World}
    (hex : exec run s.w op = .ok r w') : SStep s.w w' :=
  exec_sstep run H hg hex

/-- every step of the entity machine (also a rejected call, which leaves the world alone) -/
theorem every_step_is_sstep {s : St} {fl : List Nat} (H : HInv s fl)
    (hfew : s.w.tables.length < maxU32) (hent : s.w.entities.length + 1 < 2 ^ 32)
    (op : Refine.Op) : SStep s.w (Refine.step run s op).w :=
  step_sstep run H hfew hent op

/-- the three table lookups, `registerComponent`, `Shrink`, `Reset` -/
theorem lookups_sstep :
    (∀ {oldT : Nat} {startMask : Mask} {add : List Comp} {rels : List RelID} {w w' : World}
        {r : Nat × Nat × Mask},
        findOrCreateTableAdd oldT startMask add rels w = .ok r w' → SStep w w') ∧
    (∀ {oldT : Nat} {startMask : Mask} {rem : List Comp} {w w' : World}
        {r : Nat × Nat × Mask × Bool},
        findOrCreateTableRemove oldT startMask rem w = .ok r w' → SStep w w') ∧
    (∀ {oldT : Nat} {startMask : Mask} {add rem : List Comp} {rels : List RelID} {w w' : World}
        {r : Nat × Nat × Mask × Bool},
        findOrCreateTable oldT startMask add rem rels w = .ok r w' → SStep w w') :=
  SStep.lookups

theorem registerComponent_sstep {w w' : World} (hS : SInvMid w) {k : CompKind} {n : Nat}
    (h : registerComponent k w = .ok n w') : SStep w w' := SStep.registerComponent hS h

theorem shrink_sstep (w : World) (bounded : Bool) : SStep w (shrinkPure w bounded).1 :=
  SStep.shrinkPure w bounded

theorem reset_sstep {w : World} (hS : SInv w) : SStep w (resetW w) := SStep.reset hS

/-- **"`w.stats` is compatible with `w`" is kept by every `SStep`** -/
theorem compatible_kept {w w' : World} (h : Compatible w.stats w) (st : SStep w w') :
    Compatible w'.stats w' := h.sstep st

/-! ## 2. the invariant at every reachable state -/

theorem reach3_invariant (ops : List Op3) (hlen : ops.length < 2 ^ 32 - 2) :
    ∃ fl, HInv3 (reach3 run cap rel ops) fl := reach3_inv run cap rel ops hlen

theorem step3_keeps {s : St} {fl : List Nat} (H : HInv3 s fl)
    (hfew : s.w.tables.length < maxU32) (hent : s.w.entities.length + 1 < 2 ^ 32) (op : Op3) :
    ∃ fl', HInv3 (step3 run s op) fl' := (step3_inv run H hfew hent op).1

theorem reach3_compatible (ops : List Op3) (hlen : ops.length < 2 ^ 32 - 2) :
    Compatible (reach3 run cap rel ops).w.stats (reach3 run cap rel ops).w := by
  obtain ⟨fl, H⟩ := reach3_inv run cap rel ops hlen
  exact H.compat

/-! ## 3. incremental = fresh, at every `Stats()` call of every history -/

/-- **incremental = fresh**: after ANY history of entity operations, filter operations and earlier
    `Stats()` calls, `Stats()` returns (and stores) exactly the statistics a world asked for the
    first time would report. -/
theorem stats_incremental_eq_fresh (ops : List Op3) (hlen : ops.length < 2 ^ 32 - 2) :
    opStats (reach3 run cap rel ops).w =
      .ok (statsFresh (reach3 run cap rel ops).w)
        { (reach3 run cap rel ops).w with stats := statsFresh (reach3 run cap rel ops).w } :=
  reach3_opStats run cap rel ops hlen

/-- the statistics object after the history `ops ++ [stats]` is the fresh statistics of the
    world after `ops` -/
theorem stats_object_after (ops : List Op3) (hlen : ops.length < 2 ^ 32 - 2) :
    (reach3 run cap rel (ops ++ [.stats])).w.stats = statsFresh (reach3 run cap rel ops).w := by
  obtain ⟨fl, H⟩ := reach3_inv run cap rel ops hlen
  rw [reach3_snoc, step3_stats_w run H.compat]

/-- **asked once**: the answer equals the answer of the same world whose statistics object is
    empty (a world that was never asked before) -/
theorem stats_asked_once (ops : List Op3) (hlen : ops.length < 2 ^ 32 - 2) :
    ∃ (st : WorldStats) (w1 w2 : World),
      opStats (reach3 run cap rel ops).w = .ok st w1 ∧
      opStats { (reach3 run cap rel ops).w with stats := {} } = .ok st w2 ∧ w1 = w2 := by
  refine ⟨_, _, _, reach3_opStats run cap rel ops hlen,
    opStats_eq' (reach3 run cap rel ops).w {} (compatible_empty _), rfl⟩

/-! ## 3b. incremental = replay -/

/-- **no operation reads the statistics object**: a successful operation of the entity machine
    (all eleven) run on the world with ANOTHER statistics object succeeds too, returns the same
    handle and leaves the same world up to `stats` -/
theorem no_operation_reads_stats {s : St} {fl : List Nat} (H : HInv s fl) {op : Refine.Op}
    (hg : guard s op = true) {r : Option Ent} {w' : World}
    (hex : exec run s.w op = .ok r w') (st : WorldStats) :
    exec run (s.w.setStats st) op = .ok r (w'.setStats st) :=
  exec_setStats run H hg hex st

/-- the three table lookups, `registerComponent` and the filter registration neither read nor
    write the statistics object (`Indep m`: `m (w.setStats st) = liftS st (m w)`) -/
theorem storage_indep :
    (∀ (oldT : Nat) (m : Mask) (add : List Comp) (rels : List RelID),
      Indep (findOrCreateTableAdd oldT m add rels)) ∧
    (∀ (oldT : Nat) (m : Mask) (rem : List Comp), Indep (findOrCreateTableRemove oldT m rem)) ∧
    (∀ (oldT : Nat) (m : Mask) (add rem : List Comp) (rels : List RelID),
      Indep (findOrCreateTable oldT m add rem rels)) ∧
    (∀ (k : CompKind), Indep (registerComponent k)) ∧
    (∀ (f : Nat), Indep (opFilterRegister f)) ∧ (∀ (f : Nat), Indep (opFilterUnregister f)) :=
  ⟨indep_findOrCreateTableAdd, indep_findOrCreateTableRemove, indep_findOrCreateTable,
    indep_registerComponent, indep_opFilterRegister, indep_opFilterUnregister⟩

/-- every step of the machine with filters commutes with replacing the statistics object -/
theorem step_commutes {s : St} {fl : List Nat} (H : HInv2 s fl)
    (hfew : s.w.tables.length < maxU32) (hent : s.w.entities.length + 1 < 2 ^ 32) (op : Op2)
    (st : WorldStats) : step2 run (s.setStats st) op = (step2 run s op).setStats st :=
  step2_setStats run H hfew hent op st

/-- **replay**: the state a history with `Stats()` calls reaches is the state the same history
    WITHOUT those calls (`strip ops`, a history of `Ark.CacheHist`) reaches, with another
    statistics object: same world up to `w.stats`, same handles, same specification -/
theorem history_replay (ops : List Op3) (hlen : ops.length < 2 ^ 32 - 2) :
    ∃ (st : WorldStats),
      reach3 run cap rel ops = (reach2 run cap rel (strip ops)).setStats st :=
  replay run cap rel ops hlen

/-- **incremental = replay.**  `Stats()` after a history with interleaved `Stats()` calls
    returns exactly what `Stats()` returns in a world that replays the history without those
    calls — a world whose statistics object is still the initial, empty one — and is asked
    once. -/
theorem stats_incremental_eq_replay (ops : List Op3) (hlen : ops.length < 2 ^ 32 - 2) :
    opStats (reach3 run cap rel ops).w =
      .ok (statsFresh (reach2 run cap rel (strip ops)).w)
        ((reach2 run cap rel (strip ops)).w.setStats
          (statsFresh (reach2 run cap rel (strip ops)).w)) ∧
    opStats (reach2 run cap rel (strip ops)).w =
      .ok (statsFresh (reach2 run cap rel (strip ops)).w)
        ((reach2 run cap rel (strip ops)).w.setStats
          (statsFresh (reach2 run cap rel (strip ops)).w)) ∧
    (reach2 run cap rel (strip ops)).w.stats = {} :=
  replay_stats run cap rel ops hlen

/-! ## 4. the figures agree with the contents -/

/-- **C19 at every reachable state.** -/
theorem stats_agree (ops : List Op3) (hlen : ops.length < 2 ^ 32 - 2) :
    ∃ (st : WorldStats),
      opStats (reach3 run cap rel ops).w =
        .ok st { (reach3 run cap rel ops).w with stats := st } ∧
      st = statsFresh (reach3 run cap rel ops).w ∧
      Agree (reach3 run cap rel ops) st :=
  reach3_agree run cap rel ops hlen

/-- the same for any state satisfying the invariant -/
theorem agree_of_inv {s : St} {fl : List Nat} (H : HInv3 s fl) : Agree s (statsFresh s.w) :=
  agree_fresh H

section clauses
variable {s : St} {st : WorldStats} (A : Agree s st)
include A

/-- `used` = specification entries = alive issued handles = Σ archetype sizes = Σ table sizes -/
theorem used_four_ways :
    st.used = s.ss.ents.length ∧
    st.used = (s.issued.filter fun e => s.w.alive e).length ∧
    st.used = (st.archetypes.map (·.size)).sum ∧
    st.used = ((st.archetypes.flatMap (·.tables)).map (·.size)).sum :=
  ⟨A.used_spec, A.used_alive, A.used_archs, A.used_tables⟩

theorem total_eq : st.total = st.used + st.recycled := A.total

/-- per archetype: `size` = number of entities with exactly this component set -/
theorem arch_size (a : ArchStats) (ha : a ∈ st.archetypes) :
    a.size = (s.ss.ents.filter fun x => decide (specComps s x = a.componentIDs)).length :=
  A.arch_size a ha

/-- no two archetype entries have the same component list, and every entity's component set is
    one of them -/
theorem arch_unique_complete :
    (∀ (i j : Nat) (a b : ArchStats), st.archetypes[i]? = some a → st.archetypes[j]? = some b →
      a.componentIDs = b.componentIDs → i = j) ∧
    (∀ (x : Ent × Comps), x ∈ s.ss.ents →
      ∃ (a : ArchStats), a ∈ st.archetypes ∧ a.componentIDs = specComps s x) :=
  ⟨A.arch_unique, A.arch_complete⟩

theorem table_size_le (a : ArchStats) (ha : a ∈ st.archetypes) (t : TableStats)
    (ht : t ∈ a.tables) : t.size ≤ t.capacity := A.table_le a ha t ht

/-- one table per archetype for ever, no free table, no relation column -/
theorem arch_one_table (a : ArchStats) (ha : a ∈ st.archetypes) :
    ∃ (t : TableStats), a.tables = [t] ∧ t.size = a.size ∧ t.capacity = a.capacity ∧
      a.freeTables = 0 ∧ a.numRelations = 0 := A.arch_shape a ha

/-- memory figures: the documented products and sums -/
theorem memory_figures :
    (∀ (a : ArchStats), a ∈ st.archetypes →
      a.memoryPerEntity = 8 + (a.componentIDs.map fun c => (s.w.kinds.getD c {}).size).sum ∧
      a.memory = a.memoryPerEntity * a.capacity ∧ a.memoryUsed = a.memoryPerEntity * a.size ∧
      ∀ (t : TableStats), t ∈ a.tables →
        t.memory = t.capacity * a.memoryPerEntity ∧ t.memoryUsed = t.size * a.memoryPerEntity) ∧
    st.memory = (st.archetypes.map (·.memory)).sum ∧
    st.memoryUsed = (st.archetypes.map (·.memoryUsed)).sum ∧ st.memoryUsed ≤ st.memory :=
  ⟨fun a ha => ⟨A.mpe a ha, (A.arch_memory a ha).1, (A.arch_memory a ha).2, A.table_memory a ha⟩,
    A.memory.1, A.memory.2.1, A.memory.2.2⟩

theorem counters :
    st.cachedFilters = s.w.cache.filters.length ∧ st.observers = 0 ∧ st.locked = false ∧
    st.numComponents = s.ss.zst.length :=
  ⟨A.cachedFilters, A.observers, A.locked, A.numComponents⟩

end clauses

/-- the counting lemmas behind `Agree`, for any state satisfying `Refine.HInv` -/
theorem counting {s : St} {fl : List Nat} (H : HInv s fl) :
    s.w.pool.len = s.ss.ents.length ∧
    (s.issued.filter fun e => s.w.alive e).length = s.ss.ents.length ∧
    (∀ (t : Nat), t < s.w.tables.length →
      (s.w.tbl t).len = (s.ss.ents.filter fun x => decide ((s.w.index x.1.id).1 = t)).length) ∧
    (∀ (a : Nat), a < s.w.archetypes.length →
      (s.w.archStatsFresh (s.w.arch a)).size =
        (s.ss.ents.filter fun x => decide (specComps s x = (s.w.arch a).comps)).length) :=
  ⟨H.used_eq, H.alive_count, fun _ ht => H.table_count ht, fun _ ha => H.arch_count ha⟩

/-! ## 5. non-vacuity: a concrete history

`NewWorld(2, 1)`; two component types (ID 0 of 4 bytes, ID 1 zero-sized); `Stats()` (one
archetype); an entity `{0}` (archetype 1 is new) and an entity without components; `Stats()`; a
filter is defined and registered; `Add(e3, 0, 1)` creates archetype 2 AFTER the second call;
`RemoveEntity(e2)` empties archetype 1 and recycles a slot; `Stats()` (the stored object has two
archetype entries, the world three); `Shrink`; `Reset`; `Stats()`; `NewEntity()` (hands out
`⟨2,0⟩` again); `Stats()`. -/

def noProbe : ProbeRunner := fun _ _ _ => pure ()

def demoOps : List Op3 :=
  [.op (.base (.reg 4 false)), .op (.base (.reg 0 true)),
   .stats,
   .op (.base (.new .unsafe_ [0] [(0, 7)])),
   .op (.base .new0),
   .stats,
   .op (.fdef 1 (mkFilterObj [0] none false true [])), .op (.freg 1),
   .op (.base (.add .unsafe_ ⟨3, 0⟩ [0, 1] [])),
   .op (.base (.del ⟨2, 0⟩)),
   .stats,
   .op (.base (.shrink false)),
   .op (.base .reset),
   .stats,
   .op (.base .new0),
   .stats]

/-- the state after the first `k` operations -/
def at_ (k : Nat) : St := reach3 noProbe 2 1 (demoOps.take k)

/-- the hypothesis of the history theorems -/
example : demoOps.length < 2 ^ 32 - 2 := by decide

/-- the hypotheses of `agree_of_inv`, `every_operation_is_sstep`, `no_operation_reads_stats`,
    `step_commutes` are satisfiable: the invariants hold at the states of the demo history -/
example : (∃ fl, HInv3 (at_ 10) fl) ∧ (∃ fl, HInv2 (at_ 8) fl) ∧ (∃ fl, HInv (at_ 8) fl) := by
  obtain ⟨fl, H⟩ := reach3_invariant noProbe 2 1 (demoOps.take 10) (by decide)
  obtain ⟨fl', H'⟩ := reach3_invariant noProbe 2 1 (demoOps.take 8) (by decide)
  exact ⟨⟨fl, H⟩, ⟨fl', H'.base⟩, ⟨fl', H'.base.base⟩⟩

example : Agree (at_ 10) (statsFresh (at_ 10).w) := by
  obtain ⟨fl, H⟩ := reach3_invariant noProbe 2 1 (demoOps.take 10) (by decide)
  exact agree_of_inv H

/-- the operation at step 9 (`Add(e3, 0, 1)`, which creates an archetype) is accepted and
    succeeds: `every_operation_is_sstep` and `no_operation_reads_stats` apply to it -/
def isOk {α : Type} : Res World α → Bool
  | .ok _ _ => true
  | .panic _ _ => false

example :
    guard (at_ 8) (.add .unsafe_ ⟨3, 0⟩ [0, 1] []) = true ∧
    isOk (exec noProbe (at_ 8).w (.add .unsafe_ ⟨3, 0⟩ [0, 1] [])) = true ∧
    (exec noProbe (at_ 8).w (.add .unsafe_ ⟨3, 0⟩ [0, 1] [])).state.archetypes.length = 3 ∧
    (at_ 8).w.archetypes.length = 2 := by
  decide +kernel

/-- all guards of the demo history hold: the operations are steps, none is skipped -/
example :
    guardF (at_ 6).w (mkFilterObj [0] none false true []) = true ∧
    guard (at_ 8) (.add .unsafe_ ⟨3, 0⟩ [0, 1] []) = true ∧
    guard (at_ 9) (.del ⟨2, 0⟩) = true := by
  decide +kernel

/-- before the third call (step 10) the stored object is stale — it has 2 archetype entries, the
    world 3 archetypes, an entity moved and one was removed — and compatible; the call repairs
    it -/
example :
    (at_ 10).w.stats.archetypes.length = 2 ∧ (at_ 10).w.archetypes.length = 3 ∧
    (at_ 10).w.stats ≠ statsFresh (at_ 10).w ∧
    compatibleB (at_ 10).w.stats (at_ 10).w = true ∧
    (at_ 11).w.stats = statsFresh (at_ 10).w ∧
    (at_ 11).w.stats = statsFresh (at_ 11).w := by
  decide +kernel

/-- the figures reported by the third call: 1 alive entity `{0,1}`, 1 recycled slot, 2 slots in
    total; archetype sizes 0, 0, 1; 12 bytes per entity for `{0}` and for `{0,1}` (component 1 is
    zero-sized); one cached filter -/
example :
    let st := statsFresh (at_ 10).w
    (st.used, st.recycled, st.total) = (1, 1, 2) ∧
    (st.archetypes.map fun a => (a.componentIDs, a.size, a.capacity, a.memoryPerEntity, a.memory,
        a.memoryUsed)) = [([], 0, 2, 8, 16, 0), ([0], 0, 2, 12, 24, 0), ([0, 1], 1, 2, 12, 24, 12)] ∧
    (st.memory, st.memoryUsed) = (64, 12) ∧
    (st.cachedFilters, st.observers, st.locked, st.numComponents) = (1, 0, false, 2) ∧
    (at_ 10).ss.ents.map (·.1) = [⟨3, 0⟩] ∧
    (at_ 10).issued = [⟨3, 0⟩, ⟨2, 0⟩] ∧
    (at_ 10).ss.ents.map (specComps (at_ 10)) = [[0, 1]] := by
  decide +kernel

/-- after `Reset` (step 13) the stored object still describes one entity; `Stats()` reports an
    empty world with the three archetypes kept; the next `NewEntity()` is counted again -/
example :
    (at_ 13).w.stats.used = 1 ∧ (statsFresh (at_ 13).w).used = 0 ∧
    (statsFresh (at_ 13).w).cachedFilters = 0 ∧
    (statsFresh (at_ 13).w).archetypes.map (·.size) = [0, 0, 0] ∧
    (at_ 14).w.stats = statsFresh (at_ 13).w ∧
    (at_ 15).issued = [⟨2, 0⟩] ∧
    (statsFresh (at_ 15).w).used = 1 ∧
    (statsFresh (at_ 15).w).archetypes.map (·.size) = [1, 0, 0] ∧
    (at_ 16).w.stats = statsFresh (at_ 15).w := by
  decide +kernel

/-- replay on the demo history: without the five `Stats()` calls the history has eleven steps;
    the replaying world was never asked (empty object) and reports, asked once, what the world
    with the incrementally updated object reports -/
example :
    (strip demoOps).length = 11 ∧
    (reach2 noProbe 2 1 (strip demoOps)).w.stats = {} ∧
    (at_ 16).w.stats ≠ {} ∧
    statsUpdate (at_ 16).w (at_ 16).w.stats =
      statsUpdate (reach2 noProbe 2 1 (strip demoOps)).w {} ∧
    (at_ 16).issued = (reach2 noProbe 2 1 (strip demoOps)).issued ∧
    (at_ 16).w.entities = (reach2 noProbe 2 1 (strip demoOps)).w.entities := by
  decide +kernel

/-- the hypothesis `Compatible` is needed for `incremental = fresh` (see also
    `Ark.Props.C19.Small`): an object whose second entry has a wrong `memoryPerEntity` is not
    repaired by the update -/
example :
    let w := (at_ 10).w
    let bad : WorldStats := { w.stats with
      archetypes := w.stats.archetypes.map fun a => { a with memoryPerEntity := 0 } }
    statsUpdate w bad ≠ statsFresh w := by
  decide +kernel

end Ark.Props.C19Hist
