/-
  C08 / C09 at world level: the events of `Exchange(e, add, rem, rels)` in worlds WITH relation
  components, with ANY set of registered observers, on every access path (`Unsafe.Exchange`,
  `ExchangeN.Exchange`).

  "An observer is notified of an event exactly when the documented conditions on the event type,
  the affected components (For), the entity's composition (With/Without/Exclusive) hold — once per
  affected entity — and whether it fires never depends on which other observers are or were
  registered."  "Removal events see the world before the change, addition events after it; the
  world is locked during [removal] callbacks."

  Setting (`SettingRel run S rec w fl`, Ark/Proofs/CallbacksRelSet.lean, as in Ark/Props/C08Rel.lean):
  a world satisfying `TInvObs w fl` (= the joint invariant `TInv` of the relation fragment + the
  observer setting `ObsOK`), a callback runner that is READ-ONLY on the probes of the observers'
  scripts.  Proofs: Ark/Proofs/CallbacksRelXchg.lean (equations, transfer; no invariant),
  Ark/Proofs/CallbacksRelXchgInv.lean (under the invariant).

  1. as without observers
  * `exchange_rejected_as_without_observers` — every panic of the observer-free call is the same
    panic with observers, on the same world (no invariant needed): the `Alive` check of `Unsafe`,
    the pre-validation of the typed path, every check of `World.exchange` and the table lookup
    precede the first event.
  * `exchange_accepted_as_without_observers` — every accepted observer-free call is accepted with
    observers (no invariant needed; given a lock that hands out a bit); the result is the
    observer-free result up to `obs` / `log` / the lock's bit pool: `xchgResult`.
  * `exchange_equation_core`, `exchange_equation` — the equations behind it.

  2. which callbacks run (`exchange_callbacks`, `exchange_log`, `exchange_sees`, `exchange_accepted`)
  For a live entity and arguments satisfying the documented preconditions `XchgPre`
  (Ark/Props/C01Xchg.lean) the call is accepted, the result is the observer-free result `w0`
  (`XchgRelPost`) with the observers put back (`FrameOf`), and the `cb` records appended are —
  oldest first, each list in registration order, each observer once —
    a. if `rem ≠ []`: the `OnRemoveComponents` observers whose specification fires for
       `.remove old new`;
    b. if `rem ≠ []` and some removed component is a relation component of `e` (`removesRel`): the
       `OnRemoveRelations` observers whose specification fires for `.remove old new`;
       — a. and b. under ONE lock, on ONE world `seenB` in which every entity (`e` included, with the
       components, values and targets about to be removed) is as before the call;
    c. unless the path is `Unsafe` and `add = []`: the `OnAddComponents` observers whose
       specification fires for `.add old new`;
    d. if moreover relation targets are given (`rels ≠ []`): the `OnAddRelations` observers whose
       specification fires for `.add old new`;
       — c. and d. on the world after the change (lock released): the observer-free result of
       `World.exchange`, with the values written on the typed path, not yet on `Unsafe`.
  `exchange_exactly_once`, `exchange_observer_independent`: each selected observer once, every
  other never; the count for observer `l` is the same under any two observer managers that agree
  on `l`.

  3. FINDINGS
  * **mask pairs** (`exchange_masks`, `fires_remove_iff`, `fires_add_iff`): all four rounds are
    evaluated on the SAME pair `old = mask of e before the call`,
    `new = (old ∖ rem) ∪ add = mask after the COMPLETE exchange` — the removal rounds as
    `.remove old new`, the addition rounds as `.add old new`; never on the intermediate mask
    `old ∖ rem`, never on a "change mask" (unlike `SetRelations`, whose rounds get the set of
    changed relation components).  In terms of the call: an observer of a removal round fires iff
    `For ⊆ rem` (or no `For`), of an addition round iff `For ⊆ add` (or no `For`), and — in ALL
    FOUR rounds — its `With` / `Without` / `Exclusive` conditions hold for the mask BEFORE the
    call.  Consequence (`demo_with_on_old_mask`): an `OnAddComponents.For(A).With(B)` callback of
    an exchange that removes `B` runs on an entity that does NOT have `B`; an
    `OnAddComponents.For(A).Without(B)` observer is NOT notified although the entity it would
    see lacks `B`.  The relation rounds use the same COMPONENT masks: `OnRemoveRelations.For(c)`
    fires iff `c ∈ rem` — whether or not `c` is a relation component — provided SOME removed
    component is a relation component; `OnAddRelations.For(c)` iff `c ∈ add`, provided targets are
    given.  Without the invariant (`exchange_accepted_as_without_observers`) the removal rounds use
    the mask `m` the table lookup computes, the addition rounds the mask of the new archetype read
    after the move; under the invariant both are `new`.
  * **path** (`path_matters_only_for_pure_removals`, `pure_removal_*`): `Unsafe` vs typed makes a
    difference for WHICH observers run only when `add = []`: `Unsafe.Exchange` then skips BOTH
    addition rounds, the typed path runs the `OnAddComponents` round (for `.add old new` with
    `new ⊆ old`), which selects exactly the `OnAddComponents` observers WITHOUT `For` components
    whose `With`/`Without` fit `old` — wildcard observers are told of an "addition" that added
    nothing.  Under `XchgPre`, `add = []` forces `rels = []`, so the `OnAddRelations` round is
    never affected (in the demo such a call with `rels ≠ []` is rejected on both paths).  For `add ≠ []` the
    lists are path-independent; the paths then differ only in what the addition callbacks READ
    (`seenAfter`: values written on the typed path, zero on `Unsafe`) and in the order of the
    rejections (C01Xchg).
  * hypotheses beyond the setting and `XchgPre`: the relation targets given lie inside the pool
    slice (`htin`, as for the observer-free specification `opExchange_rel_spec` since `Reset` is a
    step of the relation machines; the handle itself: `Live.inPool`); the lock hands out a bit
    (`LockCycle`), as in C08World / C08Rel;
    `lock_hypothesis_necessary`: with all 64 bits outstanding the call panics "out of locks".
-/
import Ark.Proofs.CallbacksRelXchgInv
import Ark.Props.C08Rel
import Ark.Props.C01Xchg

set_option autoImplicit false

namespace Ark.Props.C08Xchg
open Ark Ark.World Ark.Spec Ark.QueryExact Ark.Props.C01World

variable {run : ProbeRunner} {S : Probe → Prop} {rec : World → Nat → Ent → Probe → List LogEv}
  {w : World} {fl : List Nat}

/-! ### 1. as without observers -/

/-- **rejected exactly as without observers** (any path, no invariant needed) -/
theorem exchange_rejected_as_without_observers (run run0 : ProbeRunner) (p : Path) (e : Ent)
    (add : List Comp) (vals : List (Comp × Val)) (rem : List Comp) (rels : List RelID) (w : World)
    {k : PanicKind} {s : World}
    (h0 : opExchange run0 p e add vals rem rels w.noObs = .panic k s) :
    opExchange run p e add vals rem rels w = .panic k (s.reframe w.obs w.log w.locks) :=
  opExchange_rel_transfer_panic run run0 p e add vals rem rels w h0

/-- … and so is `World.exchange` itself -/
theorem exchange_core_rejected_as_without_observers (run run0 : ProbeRunner) (e : Ent)
    (add rem : List Comp) (rels : List RelID) (w : World) {k : PanicKind} {s : World}
    (h0 : exchangeCore run0 e add rem rels w.noObs = .panic k s) :
    exchangeCore run e add rem rels w = .panic k (s.reframe w.obs w.log w.locks) :=
  exchangeCore_rel_transfer_panic run run0 e add rem rels w h0

/-- **accepted exactly as without observers** (any path, no invariant needed), with the
    observer-free result up to `obs` / `log` / lock pool: `w1` = the observer-free world after the
    table lookup, `w2` = after `World.exchange` (returned masks `old`, `new`; `m` = the mask the
    lookup computes, `rr` its `relationRemoved` flag), `w0 = writeValsW w2 e vals` -/
theorem exchange_accepted_as_without_observers (hro : ReadOnly run S rec) (run0 : ProbeRunner)
    (p : Path) (e : Ent) (add : List Comp) (vals : List (Comp × Val)) (rem : List Comp)
    (rels : List RelID) (w : World) (hs : ScriptsIn w.obs S) (hok : ObsOK w.obs)
    {l1 l2 : Lock} {b : Nat} (hL : LockCycle w.locks l1 b l2) {w0 : World}
    (h0 : opExchange run0 p e add vals rem rels w.noObs = .ok () w0) :
    ∃ (old new m : Mask) (t a : Nat) (rr : Bool) (w1 w2 : World),
      findOrCreateTable (w.index e.id).1 (w.maskOf e) add rem rels w.noObs = .ok (t, a, m, rr) w1 ∧
      exchangeCore run0 e add rem rels w.noObs = .ok (old, new) w2 ∧
      w2 = registerW (addMove w1 e (w.index e.id).1 (w.index e.id).2 t m) rels ∧
      old = w.maskOf e ∧ new = (w2.arch a).mask ∧
      w0 = writeValsW w2 e vals ∧
      opExchange run p e add vals rem rels w = .ok ()
        (xchgResult rec w w1 w2 p e add vals rem rels rr old m new l1 l2) :=
  opExchange_rel_transfer_ok hro run0 p e add vals rem rels w hs hok hL h0

/-- the result, spelled out: the observer-free result with the observers of `w`, the lock state
    `lockAfterX2`, and the log `addition rounds on seenA ++ (removal rounds on w1 LOCKED ++ w.log)` -/
theorem xchgResult_def (w w1 w2 : World) (p : Path) (e : Ent) (add : List Comp)
    (vals : List (Comp × Val)) (rem : List Comp) (rels : List RelID) (rr : Bool) (old m new : Mask)
    (l1 l2 : Lock) :
    xchgResult rec w w1 w2 p e add vals rem rels rr old m new l1 l2 =
      (writeValsW w2 e vals).reframe w.obs
        (xAddRounds rec w.obs p e add rels (.add old new)
            ((seenAfter p w2 e vals).reframe w.obs
              (xRemRounds rec w.obs e rem rr (.remove old m) (w1.reframe w.obs w.log l1) ++ w.log)
              (lockAfterX2 w rem rr l2))
          ++ (xRemRounds rec w.obs e rem rr (.remove old m) (w1.reframe w.obs w.log l1) ++ w.log))
        (lockAfterX2 w rem rr l2) := rfl

/-- what the rounds are (newest first): the component round on `seen`, the relation round on
    `seen` with the records of the component round logged -/
theorem xRemRounds_def (m : ObsMgr) (e : Ent) (rem : List Comp) (rr : Bool) (ev : EvInst)
    (seen : World) :
    xRemRounds rec m e rem rr ev seen =
      notifyAll rec e (firingXRemRel m rem rr ev)
          (seen.addLog (notifyAll rec e (firingXRem m rem ev) seen))
        ++ notifyAll rec e (firingXRem m rem ev) seen := rfl

theorem xAddRounds_def (m : ObsMgr) (p : Path) (e : Ent) (add : List Comp) (rels : List RelID)
    (ev : EvInst) (seen : World) :
    xAddRounds rec m p e add rels ev seen =
      notifyAll rec e (firingXAddRel m p add rels ev)
          (seen.addLog (notifyAll rec e (firingXAdd m p add ev) seen))
        ++ notifyAll rec e (firingXAdd m p add ev) seen := rfl

/-- the lock state afterwards: untouched if nothing is removed; otherwise one `Lock()`/`Unlock()`
    cycle iff there are `OnRemoveComponents` observers, or a relation is removed and there are
    `OnRemoveRelations` observers -/
theorem lockAfterX2_def (w : World) (rem : List Comp) (rr : Bool) (l2 : Lock) :
    lockAfterX2 w rem rr l2 =
      if rem.isEmpty then w.locks
      else if w.obs.hasObservers Ev.onRemoveComponents ||
          (rr && w.obs.hasObservers Ev.onRemoveRelations) then l2 else w.locks := rfl

/-- **the equation for `World.exchange`** (no invariant needed) -/
theorem exchange_equation_core (hro : ReadOnly run S rec) (e : Ent) (add rem : List Comp)
    (rels : List RelID) (w : World) (hs : ScriptsIn w.obs S) (hok : ObsOK w.obs)
    (hl : w.isLocked = false) (ha : w.alive e = true) (hne : ¬ (add = [] ∧ rem = []))
    {oldT row : Nat} (hix : w.index e.id = (oldT, row)) {t a : Nat} {m : Mask} {rr : Bool}
    {w1 : World}
    (hfoc : findOrCreateTable oldT (w.arch (w.tbl oldT).arch).mask add rem rels w
      = .ok (t, a, m, rr) w1)
    {l1 l2 : Lock} {b : Nat} (hL : LockCycle w.locks l1 b l2) :
    exchangeCore run e add rem rels w =
      .ok ((w.arch (w.tbl oldT).arch).mask,
          ((registerW (addMove w1 e oldT row t m) rels).arch a).mask)
        ((registerW (addMove w1 e oldT row t m) rels).reframe w.obs
          (xRemRounds rec w.obs e rem rr (.remove (w.arch (w.tbl oldT).arch).mask m)
            (w1.withLocks l1) ++ w.log)
          (lockAfterX2 w rem rr l2)) :=
  exchangeCore_rel_obs_eq hro e add rem rels w hs hok hl ha hne hix hfoc hL

/-- **the equation for `Exchange`** through any path, given `World.exchange` (no invariant
    needed) -/
theorem exchange_equation (hro : ReadOnly run S rec) (p : Path) (e : Ent) (add : List Comp)
    (vals : List (Comp × Val)) (rem : List Comp) (rels : List RelID) (w : World)
    (hb : p ≠ .unsafe_ ∨ w.alive e = true) (hpre : preCheck p add rels w = .ok () w)
    {old new : Mask} {w2 : World}
    (hcore : exchangeCore run e add rem rels w = .ok (old, new) w2)
    (hs2 : ScriptsIn w2.obs S) (hok2 : ObsOK w2.obs) :
    opExchange run p e add vals rem rels w = .ok () ((writeValsW w2 e vals).addLog
      (xAddRounds rec w2.obs p e add rels (.add old new) (seenAfter p w2 e vals))) := by
  rw [opExchange_eq_body run p e add vals rem rels w hb]
  exact xchgBody_obs_eq hro p e add vals rem rels w hpre hcore hs2 hok2

/-! ### 2. which callbacks run -/

/-- **C08 for `Exchange` with relation components**: accepted; the observer-free result with the
    observers put back; the `cb` records appended — oldest first: `OnRemoveComponents`,
    `OnRemoveRelations`, `OnAddComponents`, `OnAddRelations` -/
theorem exchange_callbacks (st : SettingRel run S rec w fl) (run0 : ProbeRunner) (p : Path)
    (hl : w.isLocked = false) {e : Ent} (he : Live w fl e)
    {add rem : List Comp} {rels : List RelID} (hp : XchgPre w e add rem rels)
    (vals : List (Comp × Val))
    (htin : ∀ (r : RelID), r ∈ rels → r.target.id < w.pool.ents.length)
    (hfew : w.tables.length < maxU32) (hrows : w.entities.length + 1 < 2 ^ 32)
    {l1 l2 : Lock} {b : Nat} (hL : LockCycle w.locks l1 b l2) :
    ∃ (w0 w' : World),
      opExchange run0 p e add vals rem rels w.noObs = .ok () w0 ∧
      XchgRelPost w.noObs fl e add rem vals rels w0 ∧
      opExchange run p e add vals rem rels w = .ok () w' ∧ FrameOf w0 w w' ∧
      w'.locks = lockAfterX2 w rem (removesRel w e rem) l2 ∧
      cbsOf w'.log =
        ((firingXAddRel w.obs p add rels
            (.add (w.maskOf e) (xchgMask w e add rem))).map fun l => (l, e)).reverse ++
        (((firingXAdd w.obs p add
            (.add (w.maskOf e) (xchgMask w e add rem))).map fun l => (l, e)).reverse ++
        (((firingXRemRel w.obs rem (removesRel w e rem)
            (.remove (w.maskOf e) (xchgMask w e add rem))).map fun l => (l, e)).reverse ++
        (((firingXRem w.obs rem
            (.remove (w.maskOf e) (xchgMask w e add rem))).map fun l => (l, e)).reverse ++
          cbsOf w.log))) :=
  exchangeRel_cbs st run0 p hl he hp vals htin hfew hrows hL

/-- **accepted** under the documented preconditions, with any set of registered observers -/
theorem exchange_accepted (st : SettingRel run S rec w fl) (p : Path)
    (hl : w.isLocked = false) {e : Ent} (he : Live w fl e)
    {add rem : List Comp} {rels : List RelID} (hp : XchgPre w e add rem rels)
    (vals : List (Comp × Val))
    (htin : ∀ (r : RelID), r ∈ rels → r.target.id < w.pool.ents.length)
    (hfew : w.tables.length < maxU32) (hrows : w.entities.length + 1 < 2 ^ 32)
    {l1 l2 : Lock} {b : Nat} (hL : LockCycle w.locks l1 b l2) :
    ∃ (w' : World), opExchange run p e add vals rem rels w = .ok () w' :=
  exchangeRel_total st p hl he hp vals htin hfew hrows hL

/-- the selected observers: registered for the event type, specification fires, and the round
    takes place -/
theorem firingXRem_iff {m : ObsMgr} {rem : List Comp} {ev : EvInst} {l : Nat} :
    l ∈ firingXRem m rem ev ↔
      rem ≠ [] ∧ l ∈ (m.evt Ev.onRemoveComponents).observers ∧ Spec.fires (m.obj l).spec ev := by
  unfold firingXRem
  cases rem with
  | nil => simp
  | cons c cs => simp [mem_firing]

theorem firingXRemRel_iff {m : ObsMgr} {rem : List Comp} {rr : Bool} {ev : EvInst} {l : Nat} :
    l ∈ firingXRemRel m rem rr ev ↔
      rem ≠ [] ∧ rr = true ∧ l ∈ (m.evt Ev.onRemoveRelations).observers ∧
        Spec.fires (m.obj l).spec ev := by
  unfold firingXRemRel firingRemRel
  cases rem with
  | nil => simp
  | cons c cs => cases rr <;> simp [mem_firing]

theorem firingXAdd_iff {m : ObsMgr} {p : Path} {add : List Comp} {ev : EvInst} {l : Nat} :
    l ∈ firingXAdd m p add ev ↔
      (p ≠ .unsafe_ ∨ add ≠ []) ∧ l ∈ (m.evt Ev.onAddComponents).observers ∧
        Spec.fires (m.obj l).spec ev := by
  unfold firingXAdd
  by_cases h : p = .unsafe_ ∧ add = []
  · simp [h]
  · have h' : p ≠ .unsafe_ ∨ add ≠ [] := by
      by_cases hp : p = .unsafe_
      · exact Or.inr fun ha => h ⟨hp, ha⟩
      · exact Or.inl hp
    simp [h, h', mem_firing]

theorem firingXAddRel_iff {m : ObsMgr} {p : Path} {add : List Comp} {rels : List RelID}
    {ev : EvInst} {l : Nat} :
    l ∈ firingXAddRel m p add rels ev ↔
      (p ≠ .unsafe_ ∨ add ≠ []) ∧ rels ≠ [] ∧ l ∈ (m.evt Ev.onAddRelations).observers ∧
        Spec.fires (m.obj l).spec ev := by
  unfold firingXAddRel
  by_cases h : p = .unsafe_ ∧ add = []
  · simp [h]
  · have h' : p ≠ .unsafe_ ∨ add ≠ [] := by
      by_cases hp : p = .unsafe_
      · exact Or.inr fun ha => h ⟨hp, ha⟩
      · exact Or.inl hp
    simp [h, h', C08Rel.firingIfRels_iff]

/-- `Exchange` removes a relation iff some removed component is a relation component of `e` -/
theorem removesRel_iff {w : World} {e : Ent} {rem : List Comp} :
    removesRel w e rem = true ↔ ∃ (c : Comp), c ∈ rem ∧ (targetOf w e.id c).isSome = true :=
  C08Rel.removesRel_iff

/-- **the complete log and the worlds involved** (C08 + C09): `w1` = the observer-free world after
    the table lookup, every entity as before the call; `w2` = the observer-free result of
    `World.exchange`; `w0` = the observer-free result of the call -/
theorem exchange_log (hro : ReadOnly run S rec) (run0 : ProbeRunner) (p : Path)
    (hs : ScriptsIn w.obs S) (h : TInvObs w fl) (hl : w.isLocked = false) {e : Ent}
    (he : Live w fl e) {add rem : List Comp} {rels : List RelID} (hp : XchgPre w e add rem rels)
    (vals : List (Comp × Val))
    (htin : ∀ (r : RelID), r ∈ rels → r.target.id < w.pool.ents.length)
    (hfew : w.tables.length < maxU32) (hrows : w.entities.length + 1 < 2 ^ 32)
    {l1 l2 : Lock} {b : Nat} (hL : LockCycle w.locks l1 b l2) :
    ∃ (w1 w2 w0 : World),
      (∀ (j : Nat), SameEnt w.noObs w1 j ∧ ∀ (c : Comp), targetOf w1 j c = targetOf w.noObs j c) ∧
      (∀ (x : Ent), w1.alive x = w.alive x) ∧
      exchangeCore run0 e add rem rels w.noObs = .ok (w.maskOf e, xchgMask w e add rem) w2 ∧
      XchgCorePost w.noObs fl e add rem rels w2 ∧
      opExchange run0 p e add vals rem rels w.noObs = .ok () w0 ∧ w0 = writeValsW w2 e vals ∧
      XchgRelPost w.noObs fl e add rem vals rels w0 ∧
      opExchange run p e add vals rem rels w = .ok ()
        (xchgResult rec w w1 w2 p e add vals rem rels (removesRel w e rem) (w.maskOf e)
          (xchgMask w e add rem) (xchgMask w e add rem) l1 l2) :=
  opExchange_rel_callbacks hro run0 p hs h hl he.ge2 he.notFree he.alive he.inPool hp vals htin hfew hrows hL

/-- **C09**: removal observers see the world before the move, locked; addition observers the
    world after it -/
theorem exchange_sees (st : SettingRel run S rec w fl) (run0 : ProbeRunner) (p : Path)
    (hl : w.isLocked = false) {e : Ent} (he : Live w fl e)
    {add rem : List Comp} {rels : List RelID} (hp : XchgPre w e add rem rels)
    (vals : List (Comp × Val))
    (htin : ∀ (r : RelID), r ∈ rels → r.target.id < w.pool.ents.length)
    (hfew : w.tables.length < maxU32) (hrows : w.entities.length + 1 < 2 ^ 32)
    {l1 l2 : Lock} {b : Nat} (hL : LockCycle w.locks l1 b l2) :
    ∃ (seenB seenA w2 w0 w' : World),
      opExchange run p e add vals rem rels w = .ok () w' ∧
      w'.log =
        xAddRounds rec w.obs p e add rels (.add (w.maskOf e) (xchgMask w e add rem)) seenA ++
        (xRemRounds rec w.obs e rem (removesRel w e rem)
          (.remove (w.maskOf e) (xchgMask w e add rem)) seenB ++ w.log) ∧
      -- before: locked; every entity as in `w`
      seenB.isLocked = true ∧ seenB.obs = w.obs ∧ seenB.log = w.log ∧
      (∀ (j : Nat), SameEnt w seenB j) ∧
      (∀ (j : Nat) (c : Comp), targetOf seenB j c = targetOf w j c) ∧
      (∀ (x : Ent), seenB.alive x = w.alive x) ∧
      -- after: the observer-free result (`w2` on `Unsafe`, `w0` on the typed path) with the
      -- observers of `w`, the final lock state, the log after the removal rounds
      exchangeCore run0 e add rem rels w.noObs = .ok (w.maskOf e, xchgMask w e add rem) w2 ∧
      XchgCorePost w.noObs fl e add rem rels w2 ∧
      opExchange run0 p e add vals rem rels w.noObs = .ok () w0 ∧
      XchgRelPost w.noObs fl e add rem vals rels w0 ∧
      seenA.locks = w'.locks ∧
      seenA.log = xRemRounds rec w.obs e rem (removesRel w e rem)
          (.remove (w.maskOf e) (xchgMask w e add rem)) seenB ++ w.log ∧
      (p = .unsafe_ → FrameOf w2 w seenA) ∧
      (p ≠ .unsafe_ → FrameOf w0 w seenA ∧ seenA = { w' with log := seenA.log }) :=
  exchangeRel_sees st run0 p hl he hp vals htin hfew hrows hL

/-- the final lock state is unlocked again when `Unlock` of the handed-out bit leaves no bit set
    (`l2.isLocked = false`, as for the initial lock state: `lockAfterQuery_unlocked`) -/
theorem exchange_unlocked_after (hl : w.isLocked = false) (rem : List Comp) (rr : Bool) {l2 : Lock}
    (hl2 : l2.isLocked = false) : (lockAfterX2 w rem rr l2).isLocked = false := by
  unfold lockAfterX2 lockAfter2
  split
  · exact hl
  · split
    · exact hl2
    · exact hl

/-- for a log-blind runner every record of a round is a function of the ONE world the round ran
    on -/
theorem round_log_blind (hb : LogBlind rec) (e : Ent) (ls : List Nat) (seen : World) :
    notifyAll rec e ls seen = (ls.reverse.flatMap fun l => notifyFlat rec l e seen) :=
  notifyAll_blind hb e ls seen

/-! ### exactly once, independence -/

/-- **exactly once, and never otherwise**, for each of the four rounds -/
theorem exchange_exactly_once {m : ObsMgr} (h : ObsOK m) (p : Path) (add rem : List Comp)
    (rels : List RelID) (rr : Bool) (ev : EvInst) (e : Ent) (l : Nat) :
    (((firingXRem m rem ev).map fun x => (x, e)).reverse).count (l, e)
      = (if l ∈ firingXRem m rem ev then 1 else 0) ∧
    (((firingXRemRel m rem rr ev).map fun x => (x, e)).reverse).count (l, e)
      = (if l ∈ firingXRemRel m rem rr ev then 1 else 0) ∧
    (((firingXAdd m p add ev).map fun x => (x, e)).reverse).count (l, e)
      = (if l ∈ firingXAdd m p add ev then 1 else 0) ∧
    (((firingXAddRel m p add rels ev).map fun x => (x, e)).reverse).count (l, e)
      = (if l ∈ firingXAddRel m p add rels ev then 1 else 0) := by
  unfold firingXRem firingXRemRel firingXAdd firingXAddRel
  refine ⟨?_, ?_, ?_, ?_⟩
  · split
    · simp
    · exact count_cbs_firing h _ ev e l
  · split
    · simp
    · exact (C08Rel.relRound_exactly_once h [] rr ev e l).2
  · split
    · simp
    · exact count_cbs_firing h _ ev e l
  · split
    · simp
    · exact (C08Rel.relRound_exactly_once h rels false ev e l).1

/-- **independence**: the number of callbacks of observer `l` in each of the four rounds is the
    same under any two observer managers that agree on `l` — whether it is listed for the event
    type, and its specification — whatever else is or was registered (the event instance, `rr`
    and the conditions on `rem`, `add`, `rels`, `p` do not depend on the observers) -/
theorem exchange_observer_independent {m m' : ObsMgr} (h : ObsOK m) (h' : ObsOK m') {l : Nat}
    (hrc : l ∈ (m'.evt Ev.onRemoveComponents).observers ↔ l ∈ (m.evt Ev.onRemoveComponents).observers)
    (hrr : l ∈ (m'.evt Ev.onRemoveRelations).observers ↔ l ∈ (m.evt Ev.onRemoveRelations).observers)
    (hac : l ∈ (m'.evt Ev.onAddComponents).observers ↔ l ∈ (m.evt Ev.onAddComponents).observers)
    (har : l ∈ (m'.evt Ev.onAddRelations).observers ↔ l ∈ (m.evt Ev.onAddRelations).observers)
    (hs : (m'.obj l).spec = (m.obj l).spec) (p : Path) (add rem : List Comp) (rels : List RelID)
    (rr : Bool) (ev : EvInst) (e : Ent) :
    (((firingXRem m' rem ev).map fun x => (x, e)).reverse).count (l, e)
      = (((firingXRem m rem ev).map fun x => (x, e)).reverse).count (l, e) ∧
    (((firingXRemRel m' rem rr ev).map fun x => (x, e)).reverse).count (l, e)
      = (((firingXRemRel m rem rr ev).map fun x => (x, e)).reverse).count (l, e) ∧
    (((firingXAdd m' p add ev).map fun x => (x, e)).reverse).count (l, e)
      = (((firingXAdd m p add ev).map fun x => (x, e)).reverse).count (l, e) ∧
    (((firingXAddRel m' p add rels ev).map fun x => (x, e)).reverse).count (l, e)
      = (((firingXAddRel m p add rels ev).map fun x => (x, e)).reverse).count (l, e) := by
  unfold firingXRem firingXRemRel firingXAdd firingXAddRel
  refine ⟨?_, ?_, ?_, ?_⟩
  · split
    · rfl
    · exact Ark.observer_independent h h' hrc hs _ e
  · split
    · rfl
    · exact (C08Rel.relRound_observer_independent h h' har hrr hs [] rr ev e).2
  · split
    · rfl
    · exact Ark.observer_independent h h' hac hs _ e
  · split
    · rfl
    · exact (C08Rel.relRound_observer_independent h h' har hrr hs rels rr ev e).1

/-! ### 3. findings: the mask pairs, the path -/

/-- the mask after the complete exchange: `(maskOf e ∖ rem) ∪ add` -/
theorem exchange_masks (w : World) (e : Ent) (add rem : List Comp) (c : Comp) :
    xchgMask w e add rem = add.foldl Mask.set (rem.foldl Mask.clear (w.maskOf e)) ∧
    (xchgMask w e add rem).get c =
      (((w.maskOf e).get c && !decide (c ∈ rem)) || (decide (c < 256) && decide (c ∈ add))) :=
  ⟨rfl, xchgMask_get w e add rem c⟩

/-- **the removal rounds in terms of the call**: `For ⊆ rem` (or no `For`); `With` / `Without` /
    `Exclusive` on the mask BEFORE the call -/
theorem fires_remove_iff {w : World} {e : Ent} {add rem : List Comp} {rels : List RelID}
    (hp : XchgPre w e add rem rels) (s : ObsSpec) :
    Spec.fires s (.remove (w.maskOf e) (xchgMask w e add rem)) ↔
      (s.comps = [] ∨ ∀ (c : Comp), c ∈ s.comps → c ∈ rem) ∧
        Spec.allIn s.with_ (w.maskOf e) ∧ Spec.withoutOK s s.with_ (w.maskOf e) :=
  fires_xchg_remove_iff hp s

/-- **the addition rounds in terms of the call**: `For ⊆ add` (or no `For`); `With` / `Without` /
    `Exclusive` on the mask BEFORE the call — not on the mask the callback sees -/
theorem fires_add_iff (h : TInvObs w fl) {e : Ent} {add rem : List Comp} {rels : List RelID}
    (hp : XchgPre w e add rem rels) (s : ObsSpec) :
    Spec.fires s (.add (w.maskOf e) (xchgMask w e add rem)) ↔
      (s.comps = [] ∨ ∀ (c : Comp), c ∈ s.comps → c ∈ add) ∧
        Spec.allIn s.with_ (w.maskOf e) ∧ Spec.withoutOK s s.with_ (w.maskOf e) :=
  fires_xchg_add_iff hp (Nat.le_trans h.toTInv.kindsLe.1 h.toTInv.kindsLe.2) s

/-- **the path matters for which observers run only for pure removals**: for `add ≠ []` the
    addition lists do not depend on the path (the removal lists never mention it) -/
theorem path_matters_only_for_pure_removals (m : ObsMgr) (p p' : Path) {add : List Comp}
    (hne : add ≠ []) (rels : List RelID) (ev : EvInst) :
    firingXAdd m p add ev = firingXAdd m p' add ev ∧
    firingXAddRel m p add rels ev = firingXAddRel m p' add rels ev :=
  firingX_path_indep m p p' hne rels ev

/-- **pure removal through `Unsafe`**: no addition round at all -/
theorem pure_removal_unsafe (m : ObsMgr) (rels : List RelID) (ev : EvInst) :
    firingXAdd m .unsafe_ [] ev = [] ∧ firingXAddRel m .unsafe_ [] rels ev = [] := ⟨rfl, rfl⟩

/-- **pure removal through the typed path**: the `OnAddComponents` round takes place and selects
    exactly the registered observers whose specification fires for `.add old new` — these have no
    `For` components —; under the preconditions no relation is named, so there is no
    `OnAddRelations` round on either path -/
theorem pure_removal_typed {m : ObsMgr} {p : Path} (hpt : p ≠ .unsafe_) {w : World} {e : Ent}
    {rem : List Comp} :
    firingXAdd m p [] (.add (w.maskOf e) (xchgMask w e [] rem)) =
      firing m Ev.onAddComponents (.add (w.maskOf e) (xchgMask w e [] rem)) ∧
    (∀ (l : Nat), l ∈ firingXAdd m p [] (.add (w.maskOf e) (xchgMask w e [] rem)) →
      (m.obj l).spec.comps = []) ∧
    (∀ (rels : List RelID), XchgPre w e [] rem rels →
      rels = [] ∧ ∀ (p' : Path) (ev : EvInst), firingXAddRel m p' [] rels ev = []) := by
  refine ⟨?_, fun l hl => (firingXAdd_nil_add hl).2, fun rels hp => ?_⟩
  · unfold firingXAdd
    rw [if_neg fun h => hpt h.1]
  · have := hp.rels_nil_of_add_nil
    subst this
    refine ⟨rfl, fun p' ev => ?_⟩
    unfold firingXAddRel firingIfRels
    split <;> rfl

/-! ### 4. non-vacuity: a world with two relation components and observers of all four events -/

section Demo
open Ark.Props.C04World (noRun)
open Ark.Props.C01Xchg (x4 q1 q2 c4 c5 good_x4 pre_x4)
open Ark.Props.C08Rel (cbsAfter)

/-- the `Observer` values the client built (label ↦ specification; the scripts are `look` probes).
    Components (Ark/Props/C01Xchg.lean): 0 = `ChildOf` (relation), 1 = `Pos`, 2 = `Vel`,
    3 = `Likes` (relation):
    1 `OnRemoveComponents.For(0)`, 2 `OnRemoveRelations.For(0)`, 3 `OnRemoveRelations.With(1)`
    (wildcard), 4 `OnAddComponents.For(3)`, 5 `OnAddRelations.For(3)`, 6 `OnAddComponents`
    (wildcard), 7 `OnAddComponents.For(3).With(0)`, 8 `OnAddComponents.For(3).Without(0)`,
    9 `OnAddRelations` (wildcard), 10 `OnRemoveComponents.For(1)` -/
def objs : AL ObsObj :=
  [ (1, { spec := { event := Ev.onRemoveComponents, comps := [0], script := [.look] } }),
    (2, { spec := { event := Ev.onRemoveRelations, comps := [0], script := [.look] } }),
    (3, { spec := { event := Ev.onRemoveRelations, with_ := [1], script := [.look] } }),
    (4, { spec := { event := Ev.onAddComponents, comps := [3], script := [.look] } }),
    (5, { spec := { event := Ev.onAddRelations, comps := [3], script := [.look] } }),
    (6, { spec := { event := Ev.onAddComponents, script := [.look] } }),
    (7, { spec := { event := Ev.onAddComponents, comps := [3], with_ := [0], script := [.look] } }),
    (8, { spec := { event := Ev.onAddComponents, comps := [3], without := [0], script := [.look] } }),
    (9, { spec := { event := Ev.onAddRelations, script := [.look] } }),
    (10, { spec := { event := Ev.onRemoveComponents, comps := [1], script := [.look] } }) ]

/-- the world `x4` of Ark/Props/C01Xchg.lean (parents `q1 = ⟨2,0⟩`, `q2 = ⟨3,0⟩`; children
    `c4`, `c5` = `[ChildOf → q1, Pos]`) with the observer objects on the heap … -/
def x4o : World := { x4 with obs := { objs := objs } }

/-- … and all of them registered, in the order of their labels -/
def wX : World := regAll [1, 2, 3, 4, 5, 6, 7, 8, 9, 10] x4o

theorem demo_free_list {fl : List Nat} (H : TInv x4 fl) : fl = [] := by
  have h := H.link.pool.ch
  have h0 : Pool.chain x4.pool.ents x4.pool.next x4.pool.available = some [] := by
    decide +kernel
  rw [h0] at h
  exact (Option.some.inj h).symm

/-- **the hypotheses of all theorems above are satisfiable**: the demo world is in the setting
    (with the runner of the harness), `c4` is a live handle, the world is unlocked and its lock
    is in the initial state -/
theorem demo_setting :
    SettingRel World.probe (· = Probe.look) lookRec wX [] ∧ LogBlind lookRec ∧
    Live wX [] c4 ∧ wX.isLocked = false ∧
    LockCycle wX.locks lockDuringQuery 0 lockAfterQuery ∧
    wX.tables.length < maxU32 ∧ wX.entities.length + 1 < 2 ^ 32 := by
  obtain ⟨fl, H, _, _⟩ := good_x4
  have hfl := demo_free_list H
  subst hfl
  have hreg : RegAllOK [1, 2, 3, 4, 5, 6, 7, 8, 9, 10] x4o := by decide +kernel
  obtain ⟨hok, hw⟩ := regAll_spec [1, 2, 3, 4, 5, 6, 7, 8, 9, 10] x4o (obsOK_of_no_events rfl) hreg
  have hw' : wX = x4.reframe wX.obs x4.log x4.locks := hw
  have hlocks : wX.locks = {} := by decide +kernel
  refine ⟨⟨probe_readOnly, lookRec_noCb, ?_, ?_, hok⟩, lookRec_logBlind, ?_, ?_, ?_, ?_, ?_⟩
  · apply scriptsIn_of_objs
    decide +kernel
  · rw [hw']; exact H.reframe _ _ _
  · exact ⟨by decide, by simp, by decide +kernel, by decide +kernel⟩
  · decide +kernel
  · rw [hlocks]; exact lockCycle_default
  · decide +kernel
  · decide +kernel

/-- the documented preconditions of four calls on `c4 = [ChildOf → q1, Pos]`:
    A `Exchange(add = [Likes → q2], rem = [ChildOf])` — a relation removed, one added;
    B `Exchange(add = [Vel, Likes → q2], rem = [Pos])` — no relation removed (C01Xchg's `pre_x4`);
    C `Exchange(add = [], rem = [ChildOf])` — a pure removal;
    D `Exchange(add = [Vel], rem = [])` — a pure addition -/
theorem demo_pre :
    XchgPre wX c4 [3] [0] [⟨3, q2⟩] ∧ XchgPre wX c4 [2, 3] [1] [⟨3, q2⟩] ∧
    XchgPre wX c4 [] [0] [] ∧ XchgPre wX c4 [2] [] [] := by
  refine ⟨?_, ?_, ?_, ?_⟩ <;>
  exact ⟨by decide +kernel, by decide +kernel, by decide +kernel, by decide +kernel,
    by decide +kernel, by decide +kernel, by decide +kernel, by decide +kernel, by decide +kernel,
    by decide +kernel, by decide +kernel⟩

/-- the targets named by the four calls lie inside the pool slice (`htin`) -/
example : (∀ (r : RelID), r ∈ [(⟨3, q2⟩ : RelID)] → r.target.id < wX.pool.ents.length) ∧
    (∀ (r : RelID), r ∈ ([] : List RelID) → r.target.id < wX.pool.ents.length) := by
  refine ⟨?_, ?_⟩ <;> decide +kernel

/-- the registration lists, the entity's mask, the masks after the four exchanges, and which of
    them remove a relation -/
example :
    (wX.obs.evt Ev.onRemoveComponents).observers = [1, 10] ∧
    (wX.obs.evt Ev.onRemoveRelations).observers = [2, 3] ∧
    (wX.obs.evt Ev.onAddComponents).observers = [4, 6, 7, 8] ∧
    (wX.obs.evt Ev.onAddRelations).observers = [5, 9] ∧
    wX.maskOf c4 = Mask.ofList [0, 1] ∧
    xchgMask wX c4 [3] [0] = Mask.ofList [1, 3] ∧ xchgMask wX c4 [2, 3] [1] = Mask.ofList [0, 2, 3] ∧
    xchgMask wX c4 [] [0] = Mask.ofList [1] ∧ xchgMask wX c4 [2] [] = Mask.ofList [0, 1, 2] ∧
    removesRel wX c4 [0] = true ∧ removesRel wX c4 [1] = false ∧ removesRel wX c4 [] = false := by
  decide +kernel

/-- the documented callback sets of call A (old `{ChildOf, Pos}`, new `{Pos, Likes}`):
    `OnRemoveComponents.For(0)`, not `For(1)`; both `OnRemoveRelations` observers; the
    `OnAddComponents` observers `For(3)`, the wildcard, `For(3).With(0)` — `ChildOf` is in the OLD
    mask — but not `For(3).Without(0)`; both `OnAddRelations` observers -/
example :
    firingXRem wX.obs [0] (.remove (Mask.ofList [0, 1]) (Mask.ofList [1, 3])) = [1] ∧
    firingXRemRel wX.obs [0] true (.remove (Mask.ofList [0, 1]) (Mask.ofList [1, 3])) = [2, 3] ∧
    firingXAdd wX.obs .typed [3] (.add (Mask.ofList [0, 1]) (Mask.ofList [1, 3])) = [4, 6, 7] ∧
    firingXAddRel wX.obs .typed [3] [⟨3, q2⟩] (.add (Mask.ofList [0, 1]) (Mask.ofList [1, 3]))
      = [5, 9] := by
  decide +kernel

/-- … and that is what the model does, on both paths (the log is newest-first).  Call B removes no
    relation: no `OnRemoveRelations` observer — not even the wildcard 3 — is notified.  Call D
    removes nothing, names no relation: only the `OnAddComponents` wildcard. -/
example :
    cbsAfter (opExchange World.probe .typed c4 [3] [] [0] [⟨3, q2⟩] wX)
      = some [(9, c4), (5, c4), (7, c4), (6, c4), (4, c4), (3, c4), (2, c4), (1, c4)] ∧
    cbsAfter (opExchange World.probe .unsafe_ c4 [3] [] [0] [⟨3, q2⟩] wX)
      = some [(9, c4), (5, c4), (7, c4), (6, c4), (4, c4), (3, c4), (2, c4), (1, c4)] ∧
    cbsAfter (opExchange World.probe .typed c4 [2, 3] [(2, 9)] [1] [⟨3, q2⟩] wX)
      = some [(9, c4), (5, c4), (7, c4), (6, c4), (4, c4), (10, c4)] ∧
    cbsAfter (opExchange World.probe .typed c4 [2] [(2, 5)] [] [] wX) = some [(6, c4)] := by
  refine ⟨?_, ?_, ?_, ?_⟩ <;> decide +kernel

/-- **finding, the path**: the pure removal C through the typed path notifies the wildcard
    `OnAddComponents` observer 6 (of an addition that added nothing); through `Unsafe` it does
    not.  With a relation named, a pure removal is rejected on both paths. -/
example :
    cbsAfter (opExchange World.probe .typed c4 [] [] [0] [] wX)
      = some [(6, c4), (3, c4), (2, c4), (1, c4)] ∧
    cbsAfter (opExchange World.probe .unsafe_ c4 [] [] [0] [] wX)
      = some [(3, c4), (2, c4), (1, c4)] ∧
    cbsAfter (opExchange World.probe .unsafe_ c4 [] [] [1] [⟨0, q2⟩] wX) = none ∧
    cbsAfter (opExchange World.probe .typed c4 [] [] [1] [⟨0, q2⟩] wX) = none := by
  refine ⟨?_, ?_, ?_, ?_⟩ <;> decide +kernel

/-- the theorem applied: call A on the demo world -/
example : ∃ w0 w' : World,
    opExchange noRun .typed c4 [3] [] [0] [⟨3, q2⟩] wX.noObs = .ok () w0 ∧
    XchgRelPost wX.noObs [] c4 [3] [0] [] [⟨3, q2⟩] w0 ∧
    opExchange World.probe .typed c4 [3] [] [0] [⟨3, q2⟩] wX = .ok () w' ∧ FrameOf w0 wX w' ∧
    w'.locks = lockAfterQuery ∧
    cbsOf w'.log = [(9, c4), (5, c4), (7, c4), (6, c4), (4, c4), (3, c4), (2, c4), (1, c4)] := by
  obtain ⟨st, _, he, hl, hL, hfew, hrows⟩ := demo_setting
  obtain ⟨w0, w', h1, h2, h3, h4, h5, h6⟩ := exchange_callbacks st noRun .typed hl he demo_pre.1 []
    (by decide +kernel) hfew hrows hL
  refine ⟨w0, w', h1, h2, h3, h4, ?_, ?_⟩
  · rw [h5]; decide +kernel
  · rw [h6]; decide +kernel

/-- the transfer theorems applied (no invariant used): a call that does not fit the entity — adding
    `Pos`, which `c4` has — is rejected with observers exactly as without … -/
example : ∃ s : World,
    opExchange noRun .typed c4 [1] [] [] [] wX.noObs = .panic .alreadyHas s ∧
    opExchange World.probe .typed c4 [1] [] [] [] wX
      = .panic .alreadyHas (s.reframe wX.obs wX.log wX.locks) := by
  have hk : panicOf (opExchange noRun .typed c4 [1] [] [] [] wX.noObs) = some .alreadyHas := by
    decide +kernel
  cases h0 : opExchange noRun .typed c4 [1] [] [] [] wX.noObs with
  | ok u s => rw [h0] at hk; cases hk
  | panic k s =>
    rw [h0] at hk
    obtain rfl : k = .alreadyHas := Option.some.inj hk
    exact ⟨s, rfl, exchange_rejected_as_without_observers World.probe noRun .typed c4 [1] [] [] []
      wX h0⟩

/-- … and call A is accepted with observers as without, the removal rounds on the mask the lookup
    computes, the addition rounds on the mask of the new archetype — both `{Pos, Likes}` -/
example : ∃ (m new : Mask) (rr : Bool) (w1 w2 w' : World),
    opExchange World.probe .unsafe_ c4 [3] [] [0] [⟨3, q2⟩] wX = .ok () w' ∧
    w' = xchgResult lookRec wX w1 w2 .unsafe_ c4 [3] [] [0] [⟨3, q2⟩] rr (wX.maskOf c4) m new
      lockDuringQuery lockAfterQuery ∧
    m = Mask.ofList [1, 3] ∧ new = Mask.ofList [1, 3] ∧ rr = true := by
  obtain ⟨st, _, he, hl, hL, hfew, hrows⟩ := demo_setting
  have hok0 : (opExchange noRun .unsafe_ c4 [3] [] [0] [⟨3, q2⟩] wX.noObs).isOk = true := by
    decide +kernel
  cases h0 : opExchange noRun .unsafe_ c4 [3] [] [0] [⟨3, q2⟩] wX.noObs with
  | panic k s => rw [h0] at hok0; cases hok0
  | ok u w0 =>
    cases u
    obtain ⟨old, new, m, t, a, rr, w1, w2, hf, hc, _, ho, _, _, hop⟩ :=
      exchange_accepted_as_without_observers st.ro noRun .unsafe_ c4 [3] [] [0] [⟨3, q2⟩] wX
        st.scripts st.inv.obs hL h0
    rw [ho] at hop
    have e1 : (match findOrCreateTable (wX.index c4.id).1 (wX.maskOf c4) [3] [0] [⟨3, q2⟩] wX.noObs
        with | .ok r _ => (r.2.2.1 == Mask.ofList [1, 3], r.2.2.2) | .panic _ _ => (false, false))
        = (true, true) := by decide +kernel
    rw [hf] at e1
    obtain ⟨e1a, e1b⟩ := Prod.mk.inj e1
    have e2 : (match exchangeCore noRun c4 [3] [0] [⟨3, q2⟩] wX.noObs
        with | .ok r _ => r.2 == Mask.ofList [1, 3] | .panic _ _ => false) = true := by
      decide +kernel
    rw [hc] at e2
    exact ⟨m, new, rr, w1, w2, _, hop, rfl, by simpa using e1a, by simpa using e2, e1b⟩

/-- the relation rounds use the COMPONENT masks: an `OnRemoveRelations.For(Pos)` specification fires
    for an exchange of `c4` removing `[ChildOf, Pos]`, an `OnAddRelations.For(Vel)` specification
    for one adding `[Vel, Likes → q2]` — `Pos`, `Vel` are not relation components -/
example :
    Spec.fires { event := Ev.onRemoveRelations, comps := [1] }
      (.remove (wX.maskOf c4) (xchgMask wX c4 [2] [0, 1])) ∧
    removesRel wX c4 [0, 1] = true ∧
    Spec.fires { event := Ev.onAddRelations, comps := [2] }
      (.add (wX.maskOf c4) (xchgMask wX c4 [2, 3] [1])) := by
  refine ⟨?_, ?_, ?_⟩ <;> decide +kernel

/-- what a `look` probe records about the reported entity: alive?, locked?, its components with
    their values, its relation targets -/
structure Seen where
  alive : Bool
  locked : Bool
  vals : List (Comp × Val)
  targets : List (Comp × Ent)
  deriving DecidableEq, Repr

/-- the `look` records of a run, newest first -/
def looksAfter {α : Type} (r : Res World α) : List Seen :=
  match r with
  | .ok _ w' => w'.log.filterMap fun ev => match ev with
      | .look a lk vs ts => some ⟨a, lk, vs, ts⟩
      | _ => none
  | .panic _ _ => []

/-- **what the rounds see** (call A): the three removal callbacks see `c4` under the lock, still
    `[ChildOf → q1, Pos = 7]`; the five addition callbacks see it unlocked, as
    `[Pos = 7, Likes → q2]`.  **Finding, `With` on the old mask** (`demo_with_on_old_mask`): one of
    the five is observer 7, `OnAddComponents.For(Likes).With(ChildOf)` — it runs on an entity that
    does not have `ChildOf`. -/
theorem demo_with_on_old_mask :
    looksAfter (opExchange World.probe .typed c4 [3] [] [0] [⟨3, q2⟩] wX) =
      [⟨true, false, [(1, 7), (3, 0)], [(3, q2)]⟩, ⟨true, false, [(1, 7), (3, 0)], [(3, q2)]⟩,
       ⟨true, false, [(1, 7), (3, 0)], [(3, q2)]⟩, ⟨true, false, [(1, 7), (3, 0)], [(3, q2)]⟩,
       ⟨true, false, [(1, 7), (3, 0)], [(3, q2)]⟩,
       ⟨true, true, [(0, 0), (1, 7)], [(0, q1)]⟩, ⟨true, true, [(0, 0), (1, 7)], [(0, q1)]⟩,
       ⟨true, true, [(0, 0), (1, 7)], [(0, q1)]⟩] ∧
    7 ∈ firingXAdd wX.obs .typed [3] (.add (wX.maskOf c4) (xchgMask wX c4 [3] [0])) ∧
    8 ∉ firingXAdd wX.obs .typed [3] (.add (wX.maskOf c4) (xchgMask wX c4 [3] [0])) ∧
    (xchgMask wX c4 [3] [0]).get 0 = false := by
  refine ⟨?_, ?_, ?_, ?_⟩ <;> decide +kernel

/-- **the values the addition callbacks read depend on the path** (call B, writing `Vel := 9`):
    written on the typed path, still zero on `Unsafe` (whose caller writes after the call); the
    removal callback sees the old row under the lock on both -/
example :
    looksAfter (opExchange World.probe .typed c4 [2, 3] [(2, 9)] [1] [⟨3, q2⟩] wX) =
      [⟨true, false, [(0, 0), (2, 9), (3, 0)], [(0, q1), (3, q2)]⟩,
       ⟨true, false, [(0, 0), (2, 9), (3, 0)], [(0, q1), (3, q2)]⟩,
       ⟨true, false, [(0, 0), (2, 9), (3, 0)], [(0, q1), (3, q2)]⟩,
       ⟨true, false, [(0, 0), (2, 9), (3, 0)], [(0, q1), (3, q2)]⟩,
       ⟨true, false, [(0, 0), (2, 9), (3, 0)], [(0, q1), (3, q2)]⟩,
       ⟨true, true, [(0, 0), (1, 7)], [(0, q1)]⟩] ∧
    looksAfter (opExchange World.probe .unsafe_ c4 [2, 3] [(2, 9)] [1] [⟨3, q2⟩] wX) =
      [⟨true, false, [(0, 0), (2, 0), (3, 0)], [(0, q1), (3, q2)]⟩,
       ⟨true, false, [(0, 0), (2, 0), (3, 0)], [(0, q1), (3, q2)]⟩,
       ⟨true, false, [(0, 0), (2, 0), (3, 0)], [(0, q1), (3, q2)]⟩,
       ⟨true, false, [(0, 0), (2, 0), (3, 0)], [(0, q1), (3, q2)]⟩,
       ⟨true, false, [(0, 0), (2, 0), (3, 0)], [(0, q1), (3, q2)]⟩,
       ⟨true, true, [(0, 0), (1, 7)], [(0, q1)]⟩] := by
  refine ⟨?_, ?_⟩ <;> decide +kernel

/-- **the lock hypothesis is necessary**: with all 64 lock bits outstanding an `Exchange` that
    removes something, with a registered `OnRemoveComponents` observer, panics "out of locks";
    a pure addition (no lock taken) is not affected -/
theorem lock_hypothesis_necessary :
    (match opExchange World.probe .typed c4 [3] [] [0] [⟨3, q2⟩]
        (wX.withLocks { pool := { length := 64 }, locks := 0#64 }) with
     | .panic k _ => k == .outOfLocks
     | .ok _ _ => false) = true ∧
    cbsAfter (opExchange World.probe .typed c4 [2] [(2, 5)] [] []
        (wX.withLocks { pool := { length := 64 }, locks := 0#64 })) = some [(6, c4)] := by
  refine ⟨?_, ?_⟩ <;> decide +kernel

end Demo

end Ark.Props.C08Xchg
