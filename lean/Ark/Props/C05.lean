import Ark.Proofs.TableIDs
import Ark.Proofs.ArchIndex
import Ark.Props.C05Cache
import Ark.Proofs.GenBridge.BookArchetype
import Ark.Props.C05Hist
import Ark.Proofs.GenBridge.BookCache
import Ark.Props.C05Rel

namespace Ark.Props.C05
open Ark

/-! C05 — the table lists kept for registered filters (`cacheEntry.tables`) are `tableIDs`; their
    slice and index map stay in step under append and swap-remove. -/

/-- the empty list is well formed -/
theorem tableIDs_empty : type_of% @TableIDs.wf_empty := @TableIDs.wf_empty

/-- a list built from duplicate-free table IDs is well formed -/
theorem tableIDs_ofList : type_of% @TableIDs.wf_ofList := @TableIDs.wf_ofList

/-- appending a new table keeps slice and index map in step -/
theorem tableIDs_append : type_of% @TableIDs.WF.append := @TableIDs.WF.append

/-- swap-remove through the index map keeps them in step -/
theorem tableIDs_remove : type_of% @TableIDs.WF.remove := @TableIDs.WF.remove

/-- swap-remove removes exactly the requested table -/
theorem tableIDs_remove_mem : type_of% @TableIDs.WF.mem_remove := @TableIDs.WF.mem_remove

/-- removing an absent table changes nothing -/
theorem tableIDs_remove_absent : type_of% @TableIDs.WF.remove_of_not_mem := @TableIDs.WF.remove_of_not_mem


/-! ### The cache invariant (I11): every registered entry lists exactly the tables the uncached walk
    selects; established by registration and preserved by unregistration, table creation/
    recycling, table freeing and Reset. -/

/-- the uncached walk returns, without duplicates, exactly the active tables whose archetype matches the filter and whose targets match the relations -/
theorem uncached_walk_selects_exactly : type_of% @Ark.Props.C05Cache.getCacheTables_spec := @Ark.Props.C05Cache.getCacheTables_spec

/-- a registered filter and an identical unregistered one select the same tables (hence the same entities, Count and batch selection) -/
theorem cached_eq_uncached : type_of% @Ark.Props.C05Cache.cached_eq_uncached_nodup := @Ark.Props.C05Cache.cached_eq_uncached_nodup

/-- a new world satisfies the cache invariant -/
theorem cache_inv_init : type_of% @Ark.Props.C05Cache.inv_init := @Ark.Props.C05Cache.inv_init

/-- registration establishes it for the new entry and keeps the others -/
theorem cache_inv_register : type_of% @Ark.Props.C05Cache.inv_register := @Ark.Props.C05Cache.inv_register

/-- unregistration (swap-remove of entries, index fix-up) keeps it -/
theorem cache_inv_unregister : type_of% @Ark.Props.C05Cache.inv_unregister := @Ark.Props.C05Cache.inv_unregister

/-- when a table becomes active (created or recycled) `cache.addTable` re-establishes it -/
theorem cache_inv_table_added : type_of% @Ark.Props.C05Cache.inv_addTable := @Ark.Props.C05Cache.inv_addTable

/-- when a table is freed `cache.removeTable` re-establishes it -/
theorem cache_inv_table_removed : type_of% @Ark.Props.C05Cache.inv_removeTable := @Ark.Props.C05Cache.inv_removeTable

/-- Reset leaves the empty cache -/
theorem cache_inv_reset : type_of% @Ark.Props.C05Cache.inv_reset := @Ark.Props.C05Cache.inv_reset


/-! ### The code itself: `tableIDs` of archetype.go, translated statement by statement on every run -/

/-- `newTableIDs` as in the source = the model's `TableIDs.ofList` -/
theorem src_newTableIDs : type_of% @Ark.GenBridge.Book.newTableIDs_eq := @Ark.GenBridge.Book.newTableIDs_eq
/-- `tableIDs.Append` as in the source = the model's -/
theorem src_tableIDs_append : type_of% @Ark.GenBridge.Book.append_eq := @Ark.GenBridge.Book.append_eq
/-- `tableIDs.Remove` (swap-remove through the index map) as in the source = the model's, for every state -/
theorem src_tableIDs_remove : type_of% @Ark.GenBridge.Book.remove_eq := @Ark.GenBridge.Book.remove_eq
/-- `tableIDs.Clear` as in the source = the model's -/
theorem src_tableIDs_clear : type_of% @Ark.GenBridge.Book.clear_eq := @Ark.GenBridge.Book.clear_eq

/-! ### The code itself: the relation-index bookkeeping of archetype.go, translated statement by statement on every run -/

/-- `archetype.AddTable` as in the source = the model's `Archetype.addTable`, for every archetype and every table with the archetype's layout -/
theorem src_addTable : type_of% @Ark.GenBridge.Book.addTable_eq := @Ark.GenBridge.Book.addTable_eq
/-- `archetype.RemoveTarget` as in the source = the model's -/
theorem src_removeTarget : type_of% @Ark.GenBridge.Book.removeTarget_eq := @Ark.GenBridge.Book.removeTarget_eq
/-- `archetype.GetFreeTable` as in the source = the model's (pop the last free table) -/
theorem src_getFreeTable : type_of% @Ark.GenBridge.Book.getFreeTable_eq := @Ark.GenBridge.Book.getFreeTable_eq
/-- `archetype.HasRelations` as in the source = the model's -/
theorem src_hasRelations : type_of% @Ark.GenBridge.Book.hasRelations_eq := @Ark.GenBridge.Book.hasRelations_eq
/-- `archetype.FreeTable` as in the source = the model's `Archetype.freeTable` (+ the table's free flag) -/
theorem src_freeTable : type_of% @Ark.GenBridge.Book.freeTable_eq := @Ark.GenBridge.Book.freeTable_eq
/-- `archetype.removeTableRelations` as in the source = the model's -/
theorem src_removeTableRelations : type_of% @Ark.GenBridge.Book.removeTableRelations_eq := @Ark.GenBridge.Book.removeTableRelations_eq
/-- `archetype.FreeAllTables` as in the source = the model's `freeAllTables`: every per-column lookup and the per-target lookup are emptied -/
theorem src_freeAllTables : type_of% @Ark.GenBridge.Book.freeAllTables_eq := @Ark.GenBridge.Book.freeAllTables_eq
/-- … and exactly the archetype's active tables are marked free in the table store -/
theorem src_freeAllTables_storage : type_of% @Ark.GenBridge.Book.freeAllTables_storage := @Ark.GenBridge.Book.freeAllTables_storage
/-- what marking a list of tables free does to the table store -/
theorem src_markFree : type_of% @Ark.GenBridge.Book.markFree_fold := @Ark.GenBridge.Book.markFree_fold


/-! ### Over whole histories (Props/C05Hist) -/

/-- the joint invariant (refinement ∧ cache ∧ relation index ∧ filter heap ∧ component index ∧ lock pool ∧ cache ID pool) holds after every history of entity operations interleaved with filter definition, registration and unregistration -/
theorem hist_reach2_invariant : type_of% @Ark.Props.C05Hist.reach2_invariant := @Ark.Props.C05Hist.reach2_invariant

/-- the cache invariant holds after every such history -/
theorem hist_reach2_cacheInv : type_of% @Ark.Props.C05Hist.reach2_cacheInv := @Ark.Props.C05Hist.reach2_cacheInv

/-- the storage facts the cache relies on hold after every such history -/
theorem hist_reach2_tablesInv : type_of% @Ark.Props.C05Hist.reach2_tablesInv := @Ark.Props.C05Hist.reach2_tablesInv

/-- filter objects and cache entries agree after every such history -/
theorem hist_reach2_heapOK : type_of% @Ark.Props.C05Hist.reach2_heapOK := @Ark.Props.C05Hist.reach2_heapOK

/-- **C05 over histories**: at every reachable state every registered filter's cached table list is duplicate-free and has the members of the uncached walk -/
theorem hist_cached_eq_uncached : type_of% @Ark.Props.C05Hist.cached_eq_uncached := @Ark.Props.C05Hist.cached_eq_uncached

/-- Count agrees, the expected rows are permutations, EntityAt enumerates the same entities -/
theorem hist_open_agree : type_of% @Ark.Props.C05Hist.open_agree := @Ark.Props.C05Hist.open_agree

/-- both drains succeed, end in the same world (the original up to the lock pool, unlocked), visit each selected row once, and are permutations of each other -/
theorem hist_drain_agree : type_of% @Ark.Props.C05Hist.drain_agree := @Ark.Props.C05Hist.drain_agree

/-- the same without per-call relations -/
theorem hist_drain_agree_nil : type_of% @Ark.Props.C05Hist.drain_agree_nil := @Ark.Props.C05Hist.drain_agree_nil

/-- the batch selection agrees (restricted to non-empty tables) -/
theorem hist_batch_agree : type_of% @Ark.Props.C05Hist.batch_agree := @Ark.Props.C05Hist.batch_agree

/-- when the typed validation rejects the per-call relations both queries panic alike and nothing changes -/
theorem hist_rejected_extra_agree : type_of% @Ark.Props.C05Hist.rejected_extra_agree := @Ark.Props.C05Hist.rejected_extra_agree

/-- finding: the cached batch selection skips empty tables, the uncached one lists them (no observable difference: batches skip empty tables) -/
theorem hist_batch_differs_on_empty : type_of% @Ark.Props.C05Hist.batch_differs_on_empty := @Ark.Props.C05Hist.batch_differs_on_empty

/-- finding: a typed filter object whose type list is not in its mask diverges (not constructible through the typed API) -/
theorem hist_unguarded_typed_filter_diverges : type_of% @Ark.Props.C05Hist.unguarded_typed_filter_diverges := @Ark.Props.C05Hist.unguarded_typed_filter_diverges


/-! ### The code itself: the bookkeeping of cache.go, translated statement by statement on every run -/

/-- `cache.getEntry` as in the source returns the entry the model's lookup finds -/
theorem src_cache_getEntry : type_of% @Ark.GenBridge.Book.cache_getEntry_eq := @Ark.GenBridge.Book.cache_getEntry_eq

/-- `cache.removeTable` as in the source = the model's: the table leaves every entry's list -/
theorem src_cache_removeTable : type_of% @Ark.GenBridge.Book.cache_removeTable_eq := @Ark.GenBridge.Book.cache_removeTable_eq

/-- `cache.unregister` as in the source = the model's swap-remove of the entry (unknown IDs panic; the filter's `cache` field is reset) -/
theorem src_cache_unregister : type_of% @Ark.GenBridge.Book.cache_unregister_eq := @Ark.GenBridge.Book.cache_unregister_eq

/-- `cache.Reset` as in the source = the model's -/
theorem src_cache_reset : type_of% @Ark.GenBridge.Book.cache_reset_eq := @Ark.GenBridge.Book.cache_reset_eq


/-! ### With relation tables, along histories (Props/C05Rel): the relation machine extended by CopyEntity, Shrink, filter definition / Register / Unregister and queries -/

/-- table creation (fresh or RECYCLED slot) keeps the cache invariant: the new table enters exactly the entries whose filter matches and whose fixed relations it satisfies -/
theorem relhist_createTable_keeps_cache : type_of% @Ark.Props.C05Rel.createTable_keeps_cache := @Ark.Props.C05Rel.createTable_keeps_cache

/-- freeing a table in the target clean-up (FreeTable, isFree, cache.removeTable) keeps it -/
theorem relhist_freeTable_keeps_cache : type_of% @Ark.Props.C05Rel.freeTable_keeps_cache := @Ark.Props.C05Rel.freeTable_keeps_cache

/-- RemoveEntity, also of a relation target (tables freed, zero-target tables found or created, children moved), keeps it -/
theorem relhist_removeEntity_keeps_cache : type_of% @Ark.Props.C05Rel.removeEntity_keeps_cache := @Ark.Props.C05Rel.removeEntity_keeps_cache

/-- NewEntity with relation targets keeps it -/
theorem relhist_newEntity_keeps_cache : type_of% @Ark.Props.C05Rel.newEntity_keeps_cache := @Ark.Props.C05Rel.newEntity_keeps_cache

/-- SetRelations keeps it -/
theorem relhist_setRelations_keeps_cache : type_of% @Ark.Props.C05Rel.setRelations_keeps_cache := @Ark.Props.C05Rel.setRelations_keeps_cache

/-- every accepted operation of the relation machine keeps the cache, the filter heap, the component index and the lock pool -/
theorem relhist_base_keeps : type_of% @Ark.Props.C05Rel.base_keeps := @Ark.Props.C05Rel.base_keeps

/-- FilterN.Register in a world with relation tables -/
theorem relhist_register_keeps : type_of% @Ark.Props.C05Rel.register_keeps := @Ark.Props.C05Rel.register_keeps

/-- FilterN.Unregister -/
theorem relhist_unregister_keeps : type_of% @Ark.Props.C05Rel.unregister_keeps := @Ark.Props.C05Rel.unregister_keeps

/-- one step of the extended machine keeps the joint invariant (every operation, Reset included) -/
theorem relhist_step2_keeps : type_of% @Ark.Props.C05Rel.step2_keeps := @Ark.Props.C05Rel.step2_keeps

/-- the joint invariant holds after every history (Reset anywhere in it) -/
theorem relhist_reach2_invariant : type_of% @Ark.Props.C05Rel.reach2_invariant := @Ark.Props.C05Rel.reach2_invariant

/-- the cache invariant holds after every history with relation tables (Reset anywhere in it) -/
theorem relhist_reach2_cache_invariant : type_of% @Ark.Props.C05Rel.reach2_cache_invariant := @Ark.Props.C05Rel.reach2_cache_invariant

/-- Shrink as a step: empty relation tables are freed and leave the cache -/
theorem relhist_shrink_keeps : type_of% @Ark.Props.C05Rel.shrink_keeps := @Ark.Props.C05Rel.shrink_keeps

/-- **C05 with relations, at every reachable state**: for a filter object registered under fixed relations and any admissible per-call relations, the cache entry is found, lists without duplicates exactly the tables the uncached lookup selects, the cached and the uncached complete iteration both succeed, leave the same world and visit the same entities -/
theorem relhist_cached_agrees : type_of% @Ark.Props.C05Rel.cached_agrees := @Ark.Props.C05Rel.cached_agrees

/-- the same at any state satisfying the invariant -/
theorem relhist_cached_agrees_at : type_of% @Ark.Props.C05Rel.cached_agrees_at := @Ark.Props.C05Rel.cached_agrees_at

/-- Reset as a step of the relation machine: succeeds, empties the specification (new epoch), empties the cache and unregisters every filter object; the joint invariant TInv (empty free list), the whole filter-side invariant and HInv2 hold again; no ID is indexed to a table; handles with an unreserved ID and a generation other than MaxUint32 are dead -/
theorem relhist_reset_step : type_of% @Ark.Props.C05Rel.reset_step := @Ark.Props.C05Rel.reset_step

/-- the former name of relhist_reset_step (no longer partial: the pool link of the relation development only demands that the memory Reset keeps behind the pool slice holds invalidated handles) -/
theorem relhist_reset_step_partial : type_of% @Ark.Props.C05Rel.reset_step_partial := @Ark.Props.C05Rel.reset_step_partial

/-- Reset keeps the invariant of the machine -/
theorem relhist_reset_keeps_invariant : type_of% @Ark.Props.C05Rel.reset_keeps_invariant := @Ark.Props.C05Rel.reset_keeps_invariant

/-- Reset ends the epoch: specification empty, nothing issued, no ID indexed, cache empty, every filter object unregistered, every handle issued before is dead -/
theorem relhist_reset_effect : type_of% @Ark.Props.C05Rel.reset_effect := @Ark.Props.C05Rel.reset_effect

/-- no handle issued along a history of the relation machine carries the sentinel generation MaxUint32 -/
theorem relhist_issued_gen_bound : type_of% @Ark.Props.C05Rel.issued_gen_bound := @Ark.Props.C05Rel.issued_gen_bound

/-- a concrete history with Reset in the middle (replaces the former finding reset_breaks_invariant): relation tables are recycled in the new epoch, invalidated handles are still behind the pool slice, and TInv and HInv2 hold -/
theorem relhist_reset_history_invariant : type_of% @Ark.Props.C05Rel.reset_history_invariant := @Ark.Props.C05Rel.reset_history_invariant

/-- after `new; reset` the model pool keeps the invalidated handle behind the slice -/
theorem relhist_reset_keeps_memory : type_of% @Ark.Props.C05Rel.reset_keeps_memory := @Ark.Props.C05Rel.reset_keeps_memory


end Ark.Props.C05
