import Ark.Proofs.TableIDs
import Ark.Proofs.ArchIndex

namespace Ark.Props.C05
open Ark

/-! C05 — the table lists kept for registered filters (`cacheEntry.tables`) are `tableIDs`; their
    slice and index map stay in step under append and swap-remove. -/

/-- the empty list is well formed -/
theorem tableIDs_empty : type_of% @TableIDs.wf_empty := @TableIDs.wf_empty

/-- a list built from duplicate-free table IDs is well formed -/
theorem tableIDs_ofList : type_of% @TableIDs.wf_ofList := @TableIDs.wf_ofList

/-- appending a new table keeps slice and index map in step -/
theorem tableIDs_append : type_of% @TableIDs.WF.append := @TableIDs.WF.append

/-- swap-remove through the index map keeps them in step -/
theorem tableIDs_remove : type_of% @TableIDs.WF.remove := @TableIDs.WF.remove

/-- swap-remove removes exactly the requested table -/
theorem tableIDs_remove_mem : type_of% @TableIDs.WF.mem_remove := @TableIDs.WF.mem_remove

/-- removing an absent table changes nothing -/
theorem tableIDs_remove_absent : type_of% @TableIDs.WF.remove_of_not_mem := @TableIDs.WF.remove_of_not_mem

end Ark.Props.C05
