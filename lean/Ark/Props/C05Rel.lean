/-
  Ark.Props.C05Rel — C05 over histories of any length, for the observer-free fragment WITH
  relation components:

    "At every point in time a registered filter yields the same entities […] as an identical
     unregistered filter, including relation targets fixed in the filter and extra targets passed
     per query.  Registration, unregistration, Reset, Shrink, and the creation, freeing and
     recycling of tables never make the two diverge."

  The machine (`Ark.RelRefine2.step2`, Ark/Proofs/RelRefine2Machine.lean) interleaves, from
  `World.init cap rel`, in any order:
    * `base op` — the operations of the relation machine `Ark.RelRefine` (C04): `registerComponent`
      (relation components too), `NewEntity(ids…, rels…)`, `Add(ids…, rels…)`, `Remove`,
      `SetRelations`, `Set`, `RemoveEntity` — also of a relation TARGET, whose `cleanupArchetypes`
      frees the tables of that target (`cache.removeTable`) and moves their rows into zero-target
      tables that are found, created or RECYCLED (`cache.addTable`);
    * `copy e` — `World.CopyEntity` (the copy sits in the table of its source);
    * `shrink bounded` — `World.Shrink` (frees empty relation tables: `cache.removeTable`);
    * `fdef f fo` — a filter object (typed or `UnsafeFilter`, fixed relations allowed) is stored
      under label `f`; `freg f` / `funreg f` — `FilterN.Register` / `Unregister`;
    * `query f extra` — a complete iteration of `Query(extra…)` on the object under `f`;
    * `reset` — `World.Reset` (section 4): the cache is emptied, every filter object unregistered,
      every relation table freed; a new epoch of handles begins.

  Vocabulary:
    * `HInv2 s fl` — the inductive invariant: `RelRefine.HInv` (⊇ `TInv` ⊇ `SInv`, `RInv`, `IdxInv`,
      targets zero-or-alive, exact relation lists, flags, free tables empty; the specification is
      realised) and `FInvR`: `CacheInv` (I11: every entry lists exactly the tables `Selected` by
      its filter and FIXED relations), `HeapOK` (a filter object with `cache = some id` has the
      entry `id` made for its filter and fixed relations; IDs are not shared; typed objects
      require their type parameters; fixed relations name relation components the mask requires),
      `CIdx`, `RowsAlive`, the lock's bit pool, the cache's ID pool.
    * `CKeep w w'` — `CacheInv` carries over from `w` to `w'`, the cache keeps its keys
      (ID, filter, fixed relations of every entry), its ID map and ID pool; the heap is untouched.
    * `ExtraAdmissible w fo extra` — the per-call relations pass `preCheckTyped` (typed filter), or
      name relation components the mask requires (`UnsafeFilter`; anything else is a Go nil
      dereference in `Matches`).
    * `Observed w fo extra w1 q visits` (Ark/Proofs/QueryRelHist.lean) — the visits are exactly
      the alive entities matching filter, fixed and per-call relations, each once, with their
      own data and targets; `Count`, `EntityAt` agree.
    * `{ fo with cache := none }` — the identical unregistered filter object.

  Bound: `ops.length < 2^16`, as for `RelRefine.reach_hinv`.

  FINDING (section 6).  The guards `guardF` (on `fdef`) and `guardQ` (on `query`) restrict
  `UnsafeFilter` objects to fixed / per-call relations that name relation components required by
  the mask.  Without them `Register` and `Query` are Go runtime panics (nil dereference in
  `GetTables` / `Matches`), the latter leaving the world locked — shown on a concrete world.  The
  typed API cannot build such objects.

  `Reset` (section 4; `reset_step`, `reset_effect`, `reset_history_invariant`).  `Reset` IS a step
  of the histories: it succeeds, empties the specification (a new epoch of handles: nothing counts
  as issued, every handle issued before is dead, no ID is indexed to a table), re-establishes the
  joint invariant `TInv` with an empty free list and the WHOLE filter-side invariant — the cache
  is empty, every filter object is unregistered, so nothing is left that could diverge — and
  `HInv2` holds again.  `Reset` keeps the invalidated handles (generation `MaxUint32`) in the
  memory behind the pool slice (`Pool.stale`; defect D14 repaired); `TInv` only demands that this
  memory holds invalidated handles.  (An earlier version of `TInv` demanded `pool.stale = []`
  and was false after the history `new; reset`.)  FINDING: because of that memory, a handle
  FORGED with an ID behind the slice and generation `MaxUint32` tests alive after a `Reset`;
  the operation theorems of the relation development therefore speak about handles whose ID lies
  inside the pool slice (`e.id < w.pool.ents.length`) — every handle the world issued does
  (`Ark.RelRefine.HInv.issued_in`), and no issued handle carries that generation
  (`issued_gen_bound`).
-/
import Ark.Proofs.RelRefine2Spec

set_option autoImplicit false

namespace Ark.Props.C05Rel
open Ark Ark.World Ark.RelRefine Ark.RelRefine2 Ark.QueryRel Ark.QueryExact

variable (run : ProbeRunner) (cap rel : Nat)

/-! ## 1. the cache along the storage steps (world level) -/

/-- **table creation** (fresh or RECYCLED slot): `createTable` makes the table active and runs
    `cache.addTable`; the cache invariant carries over -/
theorem createTable_keeps_cache {w w' : World} (h : SInvMid w) {a : Nat} {rels : List RelID}
    {t : Nat} (ha : a < w.archetypes.length)
    (hnr : (w.arch a).hasRelations = false → (w.arch a).tables.tables = [])
    (hok : World.createTable a rels w = .ok t w') : CKeep w w' :=
  createTable_ckeep h ha hnr hok

/-- **freeing a table** in `cleanupArchetypes`: `FreeTable`, `isFree`, `cache.removeTable` -/
theorem freeTable_keeps_cache {w : World} (h : SInvMid w) {a tid : Nat}
    (ha : a < w.archetypes.length) (hact : tid ∈ (w.arch a).tables.tables) :
    CKeep w (freeW w a tid) :=
  freeW_ckeep h ha hact

/-- **`RemoveEntity`, also of a relation target** (tables freed, zero-target tables found,
    created or recycled), never fails and keeps the cache invariant -/
theorem removeEntity_keeps_cache {w : World} {fl : List Nat} (h : TInv w fl)
    (hl : w.isLocked = false) (hno : ∀ (evt : Nat), w.obs.hasObservers evt = false) {g : Ent}
    (h2 : 2 ≤ g.id) (hnf : g.id ∉ fl) (ha : w.alive g = true) (hsl : g.id < w.pool.ents.length)
    (hfew : w.tables.length + w.relationArchetypes.length + 1 ≤ maxU32)
    (hrows : 2 * w.entities.length < 2 ^ 32) :
    ∃ (w3 : World), opRemoveEntity run g w = .ok () w3 ∧ CKeep w w3 :=
  opRemoveEntity_ckeep run h hl hno h2 hnf ha hsl hfew hrows

/-- `NewEntity(ids…, rels…)` -/
theorem newEntity_keeps_cache (p : Path) {w : World} {fl : List Nat}
    (h : TInv w fl) (hl : w.isLocked = false) (hno : ∀ (evt : Nat), w.obs.hasObservers evt = false)
    {ids : List Comp} {vals : List (Comp × Val)} {rels : List RelID}
    (hreg : ∀ (c : Comp), c ∈ ids → c < w.kinds.length)
    {e : Ent} {w' : World} (hok : opNewEntity run p ids vals rels w = .ok e w') : CKeep w w' :=
  opNewEntity_ckeep run p h hl hno hreg hok

/-- `SetRelations(e, rels…)` -/
theorem setRelations_keeps_cache (p : Path) {w : World} {fl : List Nat}
    (h : TInv w fl) (hl : w.isLocked = false) (hno : ∀ (evt : Nat), w.obs.hasObservers evt = false)
    {e : Ent} (h2 : 2 ≤ e.id) (hnf : e.id ∉ fl) (ha : w.alive e = true)
    (hsl : e.id < w.pool.ents.length) {mapperIds : List Comp}
    {rels : List RelID} (hne : rels.isEmpty = false) (hnd : (rels.map (·.comp)).Nodup)
    (hhas : ∀ (r : RelID), r ∈ rels → (targetOf w e.id r.comp).isSome = true)
    {w' : World} (hok : opSetRelations run p e mapperIds rels w = .ok () w') : CKeep w w' :=
  opSetRelations_ckeep run p h hl hno h2 hnf ha hsl hne hnd hhas hok

/-- every accepted operation of the relation machine (`reg`, `new p`, `add p`, `rem p`,
    `setrel p`, `set`, `del`) keeps the filter-side state -/
theorem base_keeps {s : St} {fl : List Nat} (H : HInv s fl)
    (hfew : s.w.tables.length + s.w.relationArchetypes.length + 1 ≤ maxU32)
    (hent : 2 * s.w.entities.length < 2 ^ 32) {op : Op} (hg : RelRefine.guard s op = true)
    (hp : pre s.ss op) {r : Option Ent} {w' : World} (hex : exec run s.w op = .ok r w') :
    Kept s.w w' :=
  exec_kept run H hfew hent hg hp hex

/-- `FilterN.Register` in a world with relation tables -/
theorem register_keeps {w : World} {fl : List Nat} (h : FInvR w) (ht : TInv w fl) (f : Nat) :
    FInvR (opFilterRegister f w).state ∧ SameButCF w (opFilterRegister f w).state ∧
    CacheRelsOK (opFilterRegister f w).state :=
  h.filterRegister ht f

/-- `FilterN.Unregister` -/
theorem unregister_keeps {w : World} {fl : List Nat} (h : FInvR w) (ht : TInv w fl) (f : Nat) :
    FInvR (opFilterUnregister f w).state ∧ SameButCF w (opFilterUnregister f w).state ∧
    CacheRelsOK (opFilterUnregister f w).state :=
  h.filterUnregister ht f

/-! ## 2. the invariant along histories -/

/-- one step keeps the invariant (every operation, `Reset` included) -/
theorem step2_keeps {s : St} {fl : List Nat} (H : HInv2 s fl)
    (hfew : s.w.tables.length + s.w.relationArchetypes.length + 1 ≤ maxU32)
    (hent : 2 * s.w.entities.length < 2 ^ 32) (op : Op2) :
    ∃ fl', HInv2 (step2 run s op) fl' :=
  (step2_inv run H hfew hent op).1

/-- **the invariant holds after every history** (`Reset` anywhere in it) -/
theorem reach2_invariant (ops : List Op2) (hlen : ops.length < 2 ^ 16) :
    ∃ fl, HInv2 (reach2 run cap rel ops) fl :=
  reach2_inv run cap rel ops hlen

/-- the cache invariant (I11) holds after every history -/
theorem reach2_cache_invariant (ops : List Op2) (hlen : ops.length < 2 ^ 16) :
    CacheInv (reach2 run cap rel ops).w :=
  reach2_cacheInv run cap rel ops hlen

/-- `Shrink` as a step keeps the invariant (empty relation tables are freed and leave the cache) -/
theorem shrink_keeps {s : St} {fl : List Nat} (H : HInv2 s fl)
    (hent : 2 * s.w.entities.length < 2 ^ 32) (bounded : Bool) :
    ∃ fl', HInv2 (step2 run s (.shrink bounded)) fl' :=
  (step2_shrink run H hent bounded).1

/-! ## 3. the headline -/

/-- **C05 with relations, at every reachable state.**  For a filter object registered under
    `id` (fixed relations allowed) and any admissible per-call relations: the cache entry is
    found under `id`, its table list is duplicate-free and has exactly the members of the
    uncached walk; the iteration through the cache and the iteration of the identical unregistered
    object both succeed, leave the same world, are exact (`Observed`) and visit the same
    entities. -/
theorem cached_agrees (ops : List Op2) (hlen : ops.length < 2 ^ 16)
    {f : Nat} {fo : FilterObj} {id : Nat}
    (hfind : AL.find? (reach2 run cap rel ops).w.filters f = some fo) (hc : fo.cache = some id)
    {extra : List RelID} (hx : ExtraAdmissible (reach2 run cap rel ops).w fo extra) :
    ∃ (ce : CacheEntry), (reach2 run cap rel ops).w.cacheEntry? id = some ce ∧
      ce.filter = fo.filter ∧ ce.rels = fo.rels ∧
      (∃ (ts : List Nat), (reach2 run cap rel ops).w.getCacheTables fo.filter fo.rels = some ts ∧
        ts.Nodup ∧ ce.tables.tables.Nodup ∧ ∀ (t : Nat), t ∈ ce.tables.tables ↔ t ∈ ts) ∧
      ∃ (l1 l2 : Lock) (q qu : QueryObj) (visits visitsU : List Visit),
        drain fo extra (reach2 run cap rel ops).w =
          .ok visits ((reach2 run cap rel ops).w.withLocks l2) ∧
        drain { fo with cache := none } extra (reach2 run cap rel ops).w =
          .ok visitsU ((reach2 run cap rel ops).w.withLocks l2) ∧
        Observed (reach2 run cap rel ops).w fo extra ((reach2 run cap rel ops).w.withLocks l1) q
          visits ∧
        Observed (reach2 run cap rel ops).w { fo with cache := none } extra
          ((reach2 run cap rel ops).w.withLocks l1) qu visitsU ∧
        (visits.map (·.e)).Perm (visitsU.map (·.e)) :=
  reach2_cached_agrees run cap rel ops hlen hfind hc hx

/-- the same at any state satisfying the invariant -/
theorem cached_agrees_at {s : St} {fl : List Nat} (H : HInv2 s fl) {f : Nat} {fo : FilterObj}
    {id : Nat} (hfind : AL.find? s.w.filters f = some fo) (hc : fo.cache = some id)
    {extra : List RelID} (hx : ExtraAdmissible s.w fo extra) :
    ∃ (ce : CacheEntry), s.w.cacheEntry? id = some ce ∧ ce.filter = fo.filter ∧
      ce.rels = fo.rels ∧
      (∃ (ts : List Nat), s.w.getCacheTables fo.filter fo.rels = some ts ∧ ts.Nodup ∧
        ce.tables.tables.Nodup ∧ ∀ (t : Nat), t ∈ ce.tables.tables ↔ t ∈ ts) ∧
      ∃ (l1 l2 : Lock) (q qu : QueryObj) (visits visitsU : List Visit),
        drain fo extra s.w = .ok visits (s.w.withLocks l2) ∧
        drain { fo with cache := none } extra s.w = .ok visitsU (s.w.withLocks l2) ∧
        Observed s.w fo extra (s.w.withLocks l1) q visits ∧
        Observed s.w { fo with cache := none } extra (s.w.withLocks l1) qu visitsU ∧
        (visits.map (·.e)).Perm (visitsU.map (·.e)) :=
  H.cached_agrees hfind hc hx

/-! ## 4. `Reset` -/

/-- **`Reset` as a step**: from any state of the machine it succeeds; the state afterwards is
    `⟨resetW w, [], ⟨[], zst, isRel⟩⟩` (specification emptied, nothing issued: a new epoch); the
    joint invariant `TInv` holds with an empty free list, the WHOLE filter-side invariant holds
    (cache empty, every filter object unregistered), `HInv2` holds; no ID is indexed to a table;
    no handle with an unreserved ID and a generation other than `MaxUint32` is alive -/
theorem reset_step {s : St} {fl : List Nat} (H : HInv2 s fl) :
    ResetStepPost s (step2 run s .reset) :=
  step2_reset_spec run H

/-- the former name of `reset_step` (it used to be partial: `HInv2` afterwards only under
    `pool.stale = []`) -/
theorem reset_step_partial {s : St} {fl : List Nat} (H : HInv2 s fl) :
    ResetStepPost s (step2 run s .reset) :=
  step2_reset_spec run H

/-- **`Reset` keeps the invariant of the machine** -/
theorem reset_keeps_invariant {s : St} {fl : List Nat} (H : HInv2 s fl) :
    HInv2 (step2 run s .reset) [] :=
  (step2_reset_spec run H).hinv

/-- **no handle that was issued carries the sentinel generation** `MaxUint32` (the generation
    `Reset` writes into the memory it keeps): generations are bounded by the length of the
    history -/
theorem issued_gen_bound (ops : List Op2) (hlen : ops.length < 2 ^ 16) :
    ∀ (h : Ent), h ∈ (reach2 run cap rel ops).issued → h.gen ≤ ops.length ∧ h.gen ≠ maxU32 :=
  reach2_issued_gen run cap rel ops hlen

/-- **`Reset` ends the epoch**: after `ops ++ [reset]` the specification has no entity, the
    registry is kept, nothing counts as issued, no ID is indexed to a table (no component set,
    value or relation target can be read), the cache is empty, every filter object is
    unregistered, and every handle issued before is dead -/
theorem reset_effect (ops : List Op2) (hlen : ops.length + 1 < 2 ^ 16) :
    (reach2 run cap rel (ops ++ [.reset])).ss.ents = [] ∧
    (reach2 run cap rel (ops ++ [.reset])).ss.zst = (reach2 run cap rel ops).ss.zst ∧
    (reach2 run cap rel (ops ++ [.reset])).ss.isRel = (reach2 run cap rel ops).ss.isRel ∧
    (reach2 run cap rel (ops ++ [.reset])).issued = [] ∧
    (reach2 run cap rel (ops ++ [.reset])).w.kinds = (reach2 run cap rel ops).w.kinds ∧
    (∀ (i : Nat), Ark.Props.C01World.compsOf (reach2 run cap rel (ops ++ [.reset])).w i = none ∧
      (∀ (c : Comp), Ark.Props.C01World.valOf (reach2 run cap rel (ops ++ [.reset])).w i c = none) ∧
      ∀ (c : Comp), targetOf (reach2 run cap rel (ops ++ [.reset])).w i c = none) ∧
    ((reach2 run cap rel (ops ++ [.reset])).w.cache.indices = [] ∧
      (reach2 run cap rel (ops ++ [.reset])).w.cache.filters = []) ∧
    (∀ (f : Nat) (fo : FilterObj),
      AL.find? (reach2 run cap rel (ops ++ [.reset])).w.filters f = some fo → fo.cache = none) ∧
    ∀ (h : Ent), h ∈ (reach2 run cap rel ops).issued →
      (reach2 run cap rel (ops ++ [.reset])).w.alive h = false :=
  reset_effect2 run cap rel ops hlen

/-! ## 5. non-vacuity: a concrete history

Component 0 = `ChildOf` (a zero-size relation component), component 1 = `Pos`.  Parents `2.0`,
`3.0`.  Filter 0 = `Filter2[ChildOf, Pos].Relations(ChildOf ↦ 2.0)` (typed, fixed relation),
filter 1 = `Filter1[ChildOf]` (typed), filter 2 = an `UnsafeFilter` on both components with the
fixed relation `ChildOf ↦ zero`; all three are registered BEFORE any relation table exists.
Children `4.0`, `5.0` of `2.0` (table 1) and `6.0` of `3.0` (table 2); a query; `6.0` is removed
(table 2 empty but active); `Shrink` frees table 2 — it leaves entry 1; parent `2.0` is removed:
its children move into the zero-target table, which RECYCLES table 2 — it enters entries 1 and 2
— and table 1 is freed — it leaves entries 0 and 1; a new parent `2.1` and its child, whose
table recycles table 1 — it enters entry 1 only; filter 0 is unregistered (swap-remove in the
entry slice); a query through the cache. -/

def p1 : Ent := ⟨2, 0⟩
def p2 : Ent := ⟨3, 0⟩
def p3 : Ent := ⟨2, 1⟩

def demoOps : List Op2 :=
  [.base (.reg 0 true true), .base (.reg 8 false false),
   .base (.new .unsafe_ [] [] []), .base (.new .unsafe_ [] [] []),
   .fdef 0 (mkFilterObj [0, 1] none false true [⟨0, p1⟩]),
   .fdef 1 (mkFilterObj [0] none false true []),
   .fdef 2 (mkFilterObj [0, 1] none false false [⟨0, Ent.zero⟩]),
   .freg 0, .freg 1, .freg 2,
   .base (.new .typed [0, 1] [(1, 7)] [⟨0, p1⟩]),
   .base (.new .typed [0, 1] [(1, 8)] [⟨0, p1⟩]),
   .base (.new .unsafe_ [0, 1] [(1, 9)] [⟨0, p2⟩]),
   .query 1 [⟨0, p2⟩],
   .base (.del ⟨6, 0⟩),
   .shrink false,
   .base (.del p1),
   .base (.new .unsafe_ [] [] []),
   .base (.new .map1 [0, 1] [(1, 5)] [⟨0, p3⟩]),
   .funreg 0,
   .query 2 []]

/-- table id, archetype, rows, free?, per-column relation targets -/
def summary (w : World) : List (Nat × Nat × Nat × Bool × List Ent) :=
  w.tables.map fun T => (T.id, T.arch, T.len, T.isFree, T.targets)

/-- entry id, fixed relations, cached table list -/
def cacheSummary (w : World) : List (Nat × List RelID × List Nat) :=
  w.cache.filters.map fun e => (e.id, e.rels, e.tables.tables)

/-- the entities a complete iteration visits -/
def visitsOf (fo : FilterObj) (extra : List RelID) (w : World) : Option (List Ent) :=
  match drain fo extra w with
  | .ok vs _ => some (vs.map (·.e))
  | .panic _ _ => none

/-- Boolean form of `ExtraAdmissible` -/
def extraAdmB (w : World) (fo : FilterObj) (extra : List RelID) : Bool :=
  (!fo.typed || extra.all fun r => (r.target.isZero || w.alive r.target) && w.isRelComp r.comp &&
    fo.filter.mask.get r.comp) &&
  (fo.typed || extra.all fun r => w.isRelComp r.comp && fo.filter.mask.get r.comp)

theorem extraAdmissible_of_check {w : World} {fo : FilterObj} {extra : List RelID}
    (h : extraAdmB w fo extra = true) : ExtraAdmissible w fo extra := by
  simp only [extraAdmB, Bool.and_eq_true, Bool.or_eq_true, Bool.not_eq_true', List.all_eq_true] at h
  obtain ⟨h1, h2⟩ := h
  constructor
  · intro ht r hr
    rcases h1 with h1 | h1
    · rw [ht] at h1; cases h1
    · obtain ⟨⟨a, b⟩, c⟩ := h1 r hr
      exact ⟨a, b, c⟩
  · intro ht r hr
    rcases h2 with h2 | h2
    · rw [ht] at h2; cases h2
    · exact h2 r hr

/-- the history is within the bound -/
example : demoOps.length < 2 ^ 16 := by decide +kernel

/-- after the three children were created: both relation tables are cached — table 1 by the entry
    with the fixed relation `ChildOf ↦ 2.0` and by the entry without, table 2 only by the latter;
    the entry with the fixed relation `ChildOf ↦ zero` lists nothing -/
example :
    summary (reach2 noRun 2 2 (demoOps.take 13)).w =
      [(0, 0, 2, false, []), (1, 1, 2, false, [p1, Ent.zero]), (2, 1, 1, false, [p2, Ent.zero])] ∧
    cacheSummary (reach2 noRun 2 2 (demoOps.take 13)).w =
      [(0, [⟨0, p1⟩], [1]), (1, [], [1, 2]), (2, [⟨0, Ent.zero⟩], [])] := by
  decide +kernel

/-- `Shrink` frees the empty table 2: it leaves the entry that listed it -/
example :
    summary (reach2 noRun 2 2 (demoOps.take 16)).w =
      [(0, 0, 2, false, []), (1, 1, 2, false, [p1, Ent.zero]), (2, 1, 0, true, [p2, Ent.zero])] ∧
    cacheSummary (reach2 noRun 2 2 (demoOps.take 16)).w =
      [(0, [⟨0, p1⟩], [1]), (1, [], [1]), (2, [⟨0, Ent.zero⟩], [])] := by
  decide +kernel

/-- the target `2.0` is removed: table 1 is freed and leaves entries 0 and 1; the zero-target
    table RECYCLES table 2 and enters entry 1 and the entry with the fixed relation
    `ChildOf ↦ zero` -/
example :
    summary (reach2 noRun 2 2 (demoOps.take 17)).w =
      [(0, 0, 1, false, []), (1, 1, 0, true, [p1, Ent.zero]),
       (2, 1, 2, false, [Ent.zero, Ent.zero])] ∧
    cacheSummary (reach2 noRun 2 2 (demoOps.take 17)).w =
      [(0, [⟨0, p1⟩], []), (1, [], [2]), (2, [⟨0, Ent.zero⟩], [2])] := by
  decide +kernel

/-- the final state: the child of the new parent `2.1` sits in the recycled table 1, cached by
    entry 1 only; filter 0 is unregistered (the entry slice was swap-removed) -/
example :
    summary (reach2 noRun 2 2 demoOps).w =
      [(0, 0, 2, false, []), (1, 1, 1, false, [p3, Ent.zero]),
       (2, 1, 2, false, [Ent.zero, Ent.zero])] ∧
    cacheSummary (reach2 noRun 2 2 demoOps).w =
      [(2, [⟨0, Ent.zero⟩], [2]), (1, [], [2, 1])] ∧
    ((reach2 noRun 2 2 demoOps).w.filters.map fun p => (p.1, p.2.cache)) =
      [(0, none), (1, some 1), (2, some 2)] ∧
    ((reach2 noRun 2 2 demoOps).w.filters.map fun p => p.2.typed) = [true, true, false] := by
  decide +kernel

/-- the hypotheses of `cached_agrees` are satisfiable in the final state: filter 1 (typed,
    registered) with the per-call relation `ChildOf ↦ 2.1`, filter 2 (`UnsafeFilter` with a fixed
    relation, registered) without per-call relations -/
example :
    (AL.find? (reach2 noRun 2 2 demoOps).w.filters 1).map (·.cache) = some (some 1) ∧
    extraAdmB (reach2 noRun 2 2 demoOps).w (foAt (reach2 noRun 2 2 demoOps).w 1) [⟨0, p3⟩] = true ∧
    (AL.find? (reach2 noRun 2 2 demoOps).w.filters 2).map (·.cache) = some (some 2) ∧
    extraAdmB (reach2 noRun 2 2 demoOps).w (foAt (reach2 noRun 2 2 demoOps).w 2) [] = true := by
  decide +kernel

/-- `cached_agrees` applied to the final state of the history: filter 1 with the per-call relation
    `ChildOf ↦ 2.1`, and the `UnsafeFilter` 2 with its fixed relation `ChildOf ↦ zero` -/
example :
    (∃ (ce : CacheEntry) (l2 : Lock) (visits visitsU : List Visit),
      (reach2 noRun 2 2 demoOps).w.cacheEntry? 1 = some ce ∧
      drain (foAt (reach2 noRun 2 2 demoOps).w 1) [⟨0, p3⟩] (reach2 noRun 2 2 demoOps).w =
        .ok visits ((reach2 noRun 2 2 demoOps).w.withLocks l2) ∧
      drain { foAt (reach2 noRun 2 2 demoOps).w 1 with cache := none } [⟨0, p3⟩]
        (reach2 noRun 2 2 demoOps).w = .ok visitsU ((reach2 noRun 2 2 demoOps).w.withLocks l2) ∧
      (visits.map (·.e)).Perm (visitsU.map (·.e))) ∧
    (∃ (ce : CacheEntry) (l2 : Lock) (visits visitsU : List Visit),
      (reach2 noRun 2 2 demoOps).w.cacheEntry? 2 = some ce ∧
      drain (foAt (reach2 noRun 2 2 demoOps).w 2) [] (reach2 noRun 2 2 demoOps).w =
        .ok visits ((reach2 noRun 2 2 demoOps).w.withLocks l2) ∧
      drain { foAt (reach2 noRun 2 2 demoOps).w 2 with cache := none } []
        (reach2 noRun 2 2 demoOps).w = .ok visitsU ((reach2 noRun 2 2 demoOps).w.withLocks l2) ∧
      (visits.map (·.e)).Perm (visitsU.map (·.e))) := by
  have hlen : demoOps.length < 2 ^ 16 := by decide
  constructor
  · obtain ⟨ce, h1, _, _, _, _, l2, _, _, visits, visitsU, d1, d2, _, _, hp⟩ :=
      cached_agrees noRun 2 2 demoOps hlen (f := 1)
        (fo := foAt (reach2 noRun 2 2 demoOps).w 1) (id := 1) (extra := [⟨0, p3⟩])
        (by decide +kernel) (by decide +kernel) (extraAdmissible_of_check (by decide +kernel))
    exact ⟨ce, l2, visits, visitsU, h1, d1, d2, hp⟩
  · obtain ⟨ce, h1, _, _, _, _, l2, _, _, visits, visitsU, d1, d2, _, _, hp⟩ :=
      cached_agrees noRun 2 2 demoOps hlen (f := 2)
        (fo := foAt (reach2 noRun 2 2 demoOps).w 2) (id := 2) (extra := [])
        (by decide +kernel) (by decide +kernel) (extraAdmissible_of_check (by decide +kernel))
    exact ⟨ce, l2, visits, visitsU, h1, d1, d2, hp⟩

/-- … and what the theorem says there, computed: cached walk = uncached walk (as sets of tables),
    cached iteration = uncached iteration -/
example :
    (reach2 noRun 2 2 demoOps).w.getCacheTables (foAt (reach2 noRun 2 2 demoOps).w 1).filter [] =
      some [2, 1] ∧
    (reach2 noRun 2 2 demoOps).w.getCacheTables (foAt (reach2 noRun 2 2 demoOps).w 2).filter
      [⟨0, Ent.zero⟩] = some [2] ∧
    visitsOf (foAt (reach2 noRun 2 2 demoOps).w 1) [⟨0, p3⟩] (reach2 noRun 2 2 demoOps).w =
      some [⟨6, 1⟩] ∧
    visitsOf { foAt (reach2 noRun 2 2 demoOps).w 1 with cache := none } [⟨0, p3⟩]
      (reach2 noRun 2 2 demoOps).w = some [⟨6, 1⟩] ∧
    visitsOf (foAt (reach2 noRun 2 2 demoOps).w 2) [] (reach2 noRun 2 2 demoOps).w =
      some [⟨4, 0⟩, ⟨5, 0⟩] ∧
    visitsOf { foAt (reach2 noRun 2 2 demoOps).w 2 with cache := none } []
      (reach2 noRun 2 2 demoOps).w = some [⟨4, 0⟩, ⟨5, 0⟩] := by
  decide +kernel

/-- the hypotheses of the world-level theorems are satisfiable: before `del 2.0` the handle is
    alive, flagged as a target, and the size bounds hold -/
example :
    (reach2 noRun 2 2 (demoOps.take 16)).w.alive p1 = true ∧
    (reach2 noRun 2 2 (demoOps.take 16)).w.isTarget.getD 2 false = true ∧
    (reach2 noRun 2 2 (demoOps.take 16)).w.tables.length +
      (reach2 noRun 2 2 (demoOps.take 16)).w.relationArchetypes.length + 1 ≤ maxU32 ∧
    2 * (reach2 noRun 2 2 (demoOps.take 16)).w.entities.length < 2 ^ 32 := by
  decide +kernel

/-! ### a history with `Reset`: relation tables recycled in the new epoch

The history above, then `Reset` — the cache is emptied, the three filter objects are unregistered,
both relation tables are freed, the five handles of the pool stay behind its slice with generation
`MaxUint32` — then: two parents (the pool re-issues `2.0` and `3.0`, the handles of the ended
epoch), filters 1 and 2 registered again (the cache's ID pool starts afresh: IDs 0 and 1), a child
of `2.0` (its table RECYCLES table 1), a child of `3.0` (RECYCLES table 2), a child of the zero
entity (a third relation table), a query through the cache, the removal of the target `2.0`
(table 1 freed again, its child moves to the zero-target table 3), a query. -/

def resetOps : List Op2 := demoOps ++
  [.reset,
   .base (.new .unsafe_ [] [] []), .base (.new .unsafe_ [] [] []),
   .freg 1, .freg 2,
   .base (.new .typed [0, 1] [(1, 7)] [⟨0, p1⟩]),
   .base (.new .unsafe_ [0, 1] [(1, 9)] [⟨0, p2⟩]),
   .base (.new .map1 [0, 1] [(1, 3)] [⟨0, Ent.zero⟩]),
   .query 1 [⟨0, p1⟩],
   .base (.del p1),
   .query 2 []]

/-- `Reset` in the final state of `demoOps` (`reset_step`): every table is empty, both relation
    tables are free; the cache is emptied and every filter object is unregistered; the
    specification is empty and nothing counts as issued; the pool keeps the five invalidated
    handles behind its slice; every handle issued before is dead -/
example :
    summary (reach2 noRun 2 2 (resetOps.take 22)).w =
      [(0, 0, 0, false, []), (1, 1, 0, true, [p3, Ent.zero]),
       (2, 1, 0, true, [Ent.zero, Ent.zero])] ∧
    cacheSummary (reach2 noRun 2 2 (resetOps.take 22)).w = [] ∧
    ((reach2 noRun 2 2 (resetOps.take 22)).w.filters.map fun p => (p.1, p.2.cache)) =
      [(0, none), (1, none), (2, none)] ∧
    (reach2 noRun 2 2 (resetOps.take 22)).ss.ents = [] ∧
    (reach2 noRun 2 2 (resetOps.take 22)).issued = [] ∧
    (reach2 noRun 2 2 (resetOps.take 22)).w.pool.stale =
      [⟨2, maxU32⟩, ⟨3, maxU32⟩, ⟨4, maxU32⟩, ⟨5, maxU32⟩, ⟨6, maxU32⟩] ∧
    (reach2 noRun 2 2 (resetOps.take 21)).issued =
      [⟨6, 1⟩, ⟨2, 1⟩, ⟨6, 0⟩, ⟨5, 0⟩, ⟨4, 0⟩, ⟨3, 0⟩, ⟨2, 0⟩] ∧
    (reach2 noRun 2 2 (resetOps.take 21)).issued.map (reach2 noRun 2 2 (resetOps.take 22)).w.alive =
      [false, false, false, false, false, false, false] := by
  decide +kernel

/-- **`Reset` inside a history** (this replaces the former finding `reset_breaks_invariant`): in
    the new epoch the child of the re-issued parent `2.0` sits in the RECYCLED relation table 1,
    cached by the re-registered filter 1 (cache ID 0 again); two invalidated handles are still
    behind the pool slice — and the joint invariant `TInv` and the invariant `HInv2` of the
    machine hold there, as they do in the final state -/
theorem reset_history_invariant :
    summary (reach2 noRun 2 2 (resetOps.take 27)).w =
      [(0, 0, 2, false, []), (1, 1, 1, false, [p1, Ent.zero]),
       (2, 1, 0, true, [Ent.zero, Ent.zero])] ∧
    cacheSummary (reach2 noRun 2 2 (resetOps.take 27)).w =
      [(0, [], [1]), (1, [⟨0, Ent.zero⟩], [])] ∧
    (reach2 noRun 2 2 (resetOps.take 27)).w.pool.stale = [⟨5, maxU32⟩, ⟨6, maxU32⟩] ∧
    (∃ (fl : List Nat), TInv (reach2 noRun 2 2 (resetOps.take 27)).w fl) ∧
    (∃ (fl : List Nat), HInv2 (reach2 noRun 2 2 (resetOps.take 27)) fl) ∧
    (∃ (fl : List Nat), HInv2 (reach2 noRun 2 2 resetOps) fl) := by
  obtain ⟨fl, H⟩ := reach2_invariant noRun 2 2 (resetOps.take 27) (by decide +kernel)
  exact ⟨by decide +kernel, by decide +kernel, by decide +kernel, ⟨fl, H.base.tinv⟩, ⟨fl, H⟩,
    reach2_invariant noRun 2 2 resetOps (by decide +kernel)⟩

/-- the final state of the history with `Reset`: table 2 recycled for the child of `3.0`, table 1
    freed again by the removal of `2.0` (its child moved to the zero-target table 3); the memory
    behind the pool slice is used up; the specification has the entities of the new epoch only -/
example :
    summary (reach2 noRun 2 2 resetOps).w =
      [(0, 0, 1, false, []), (1, 1, 0, true, [p1, Ent.zero]), (2, 1, 1, false, [p2, Ent.zero]),
       (3, 1, 2, false, [Ent.zero, Ent.zero])] ∧
    cacheSummary (reach2 noRun 2 2 resetOps).w = [(0, [], [3, 2]), (1, [⟨0, Ent.zero⟩], [3])] ∧
    ((reach2 noRun 2 2 resetOps).w.filters.map fun p => (p.1, p.2.cache)) =
      [(0, none), (1, some 0), (2, some 1)] ∧
    (reach2 noRun 2 2 resetOps).w.pool.stale = [] ∧
    (reach2 noRun 2 2 resetOps).issued = [⟨6, 0⟩, ⟨5, 0⟩, ⟨4, 0⟩, ⟨3, 0⟩, ⟨2, 0⟩] ∧
    (reach2 noRun 2 2 resetOps).ss.ents.map (·.1) = [⟨6, 0⟩, ⟨5, 0⟩, ⟨4, 0⟩, ⟨3, 0⟩] := by
  refine ⟨?_, ?_, ?_, ?_, ?_, ?_⟩ <;> decide +kernel

/-- `cached_agrees` applied after the `Reset`: the hypotheses hold for filter 1 (registered again,
    per-call relation `ChildOf ↦ 2.0`) before the removal of `2.0`, and for filter 2 in the final
    state; cached and uncached iteration visit the same entities -/
example :
    (AL.find? (reach2 noRun 2 2 (resetOps.take 29)).w.filters 1).map (·.cache) = some (some 0) ∧
    extraAdmB (reach2 noRun 2 2 (resetOps.take 29)).w (foAt (reach2 noRun 2 2 (resetOps.take 29)).w 1)
      [⟨0, p1⟩] = true ∧
    visitsOf (foAt (reach2 noRun 2 2 (resetOps.take 29)).w 1) [⟨0, p1⟩]
      (reach2 noRun 2 2 (resetOps.take 29)).w = some [⟨4, 0⟩] ∧
    visitsOf { foAt (reach2 noRun 2 2 (resetOps.take 29)).w 1 with cache := none } [⟨0, p1⟩]
      (reach2 noRun 2 2 (resetOps.take 29)).w = some [⟨4, 0⟩] ∧
    (AL.find? (reach2 noRun 2 2 resetOps).w.filters 2).map (·.cache) = some (some 1) ∧
    extraAdmB (reach2 noRun 2 2 resetOps).w (foAt (reach2 noRun 2 2 resetOps).w 2) [] = true ∧
    visitsOf (foAt (reach2 noRun 2 2 resetOps).w 2) [] (reach2 noRun 2 2 resetOps).w =
      some [⟨6, 0⟩, ⟨4, 0⟩] ∧
    visitsOf { foAt (reach2 noRun 2 2 resetOps).w 2 with cache := none } []
      (reach2 noRun 2 2 resetOps).w = some [⟨6, 0⟩, ⟨4, 0⟩] := by
  decide +kernel

/-! ### finding: after a `Reset`, a forged handle behind the pool slice

`Alive` is an unchecked read of the pool's memory, and `Reset` keeps the invalidated handles
(generation `MaxUint32`) behind the re-sliced pool.  So after `reg; new; reset` the handle
`2.MaxUint32` — which the world never issued (`issued_gen_bound`) — tests alive although its ID
lies behind the pool slice (and behind the entity index and the target flags).  This is why the
operation theorems of the relation development (`Ark.Props.C04World`) speak about handles whose
ID lies inside the pool slice, for the entity and for the relation targets named: -/

def forgeOps : List Op2 := [.base (.reg 0 true true), .base (.new .unsafe_ [] [] []), .reset]

/-- the forged handle -/
def forged : Ent := ⟨2, maxU32⟩

/-- **the hypothesis "the targets' IDs lie inside the pool slice" of `C04World.newEntity_assigns_targets`
    is necessary**: in the world after `reg; new; reset` the joint invariant holds, the forged
    handle tests alive, and `NewEntity` with the forged handle as relation target is ACCEPTED (on
    the typed path too: the pre-validation asks `Alive`); the new entity gets the ID of the forged
    handle, whose slot now holds generation 0 — the table of the new entity targets a handle that
    is neither zero nor alive, and the joint invariant is broken -/
theorem forged_target_after_reset :
    (∃ (fl : List Nat), TInv (reach2 noRun 2 2 forgeOps).w fl) ∧
    (reach2 noRun 2 2 forgeOps).w.alive forged = true ∧
    (reach2 noRun 2 2 forgeOps).w.pool.ents.length = 2 ∧
    panicOf (opNewEntity noRun .typed [0] [] [⟨0, forged⟩] (reach2 noRun 2 2 forgeOps).w) = none ∧
    summary (opNewEntity noRun .typed [0] [] [⟨0, forged⟩] (reach2 noRun 2 2 forgeOps).w).state =
      [(0, 0, 0, false, []), (1, 1, 1, false, [forged])] ∧
    (opNewEntity noRun .typed [0] [] [⟨0, forged⟩] (reach2 noRun 2 2 forgeOps).w).state.alive forged
      = false ∧
    ¬ ∃ (fl : List Nat),
      TInv (opNewEntity noRun .typed [0] [] [⟨0, forged⟩] (reach2 noRun 2 2 forgeOps).w).state fl := by
  obtain ⟨fl, H⟩ := reach2_invariant noRun 2 2 forgeOps (by decide +kernel)
  refine ⟨⟨fl, H.base.tinv⟩, by decide +kernel, by decide +kernel, by decide +kernel,
    by decide +kernel, by decide +kernel, ?_⟩
  rintro ⟨fl', h⟩
  have := h.rel.aux.targets 1
    ((opNewEntity noRun .typed [0] [] [⟨0, forged⟩] (reach2 noRun 2 2 forgeOps).w).state.tbl 1)
    (by decide +kernel) (by decide +kernel) 0 (by decide +kernel)
  revert this
  decide +kernel

/-- **the hypothesis "the entity's ID lies inside the pool slice" of `C04World.removeEntity_post` is
    necessary**: `RemoveEntity` of the forged handle is not rejected (`Alive` answers yes; in Go the
    index lookup behind the slice is a runtime panic, the model reads the default entry) and puts
    an ID behind the slice on the free list — the pool invariant is broken -/
theorem forged_entity_after_reset :
    panicOf (opRemoveEntity noRun forged (reach2 noRun 2 2 forgeOps).w) = none ∧
    (opRemoveEntity noRun forged (reach2 noRun 2 2 forgeOps).w).state.pool.available = 1 ∧
    (opRemoveEntity noRun forged (reach2 noRun 2 2 forgeOps).w).state.pool.next = 2 ∧
    (opRemoveEntity noRun forged (reach2 noRun 2 2 forgeOps).w).state.pool.ents.length = 2 ∧
    ¬ ∃ (fl : List Nat), TInv (opRemoveEntity noRun forged (reach2 noRun 2 2 forgeOps).w).state fl := by
  refine ⟨by decide +kernel, by decide +kernel, by decide +kernel, by decide +kernel, ?_⟩
  rintro ⟨fl', h⟩
  have hp := h.link.pool
  have h1 := hp.avail
  have h2 := hp.avail_le
  have e1 : (opRemoveEntity noRun forged (reach2 noRun 2 2 forgeOps).w).state.pool.available = 1 := by
    decide +kernel
  have e2 : (opRemoveEntity noRun forged (reach2 noRun 2 2 forgeOps).w).state.pool.ents.length = 2 := by
    decide +kernel
  rw [e1] at h1
  rw [e2] at h2
  omega

/-- after the history `new; reset` the pool keeps the invalidated handle behind its slice -/
theorem reset_keeps_memory :
    (reach2 Ark.RelRefine2.noRun 4 4 resetDemo).w.pool.stale = [⟨2, maxU32⟩] :=
  reset_keeps_stale

/-! ## 6. the guards `guardF` / `guardQ` are needed

`ChildOf` (0, relation), `Pos` (1), `Likes` (2, relation); one entity with `Pos` and `Likes`.  An
`UnsafeFilter` on `Pos` whose fixed relation names `ChildOf` — a component its mask does not
require — is not accepted by `guardF`: the archetype `{Pos, Likes}` matches the mask, has
relation columns, and lacks the column `ChildOf`, so `GetTables` / `Matches` index with −1.
Put into the heap anyway, `Register` panics (class `runtime`) after taking a cache ID, and
`Query` panics with the world left LOCKED.  The same happens when the relation is passed per
call (`guardQ`).  A typed filter cannot be built this way (`ToRelations` checks the mask). -/

def ops3 : List Op2 :=
  [.base (.reg 0 true true), .base (.reg 8 false false), .base (.reg 0 true true),
   .base (.new .unsafe_ [] [] []),
   .base (.new .unsafe_ [1, 2] [] [⟨2, ⟨2, 0⟩⟩])]

def badFo : FilterObj := mkFilterObj [1] none false false [⟨0, Ent.zero⟩]
def okFo : FilterObj := mkFilterObj [1] none false false []
def w3 : World := (reach2 noRun 2 2 ops3).w
def w3bad : World := { w3 with filters := AL.insert w3.filters 7 badFo }

example :
    guardF w3 badFo = false ∧
    panicOf (opFilterRegister 7 w3bad) = some .runtime ∧
    (opFilterRegister 7 w3bad).state.cache.pool.pool.length = 1 ∧
    (opFilterRegister 7 w3bad).state.cache.filters = [] ∧
    panicOf (drain badFo [] w3) = some .runtime ∧
    (drain badFo [] w3).state.isLocked = true ∧
    guardF w3 okFo = true ∧
    guardQ w3 okFo [⟨0, Ent.zero⟩] = false ∧
    panicOf (drain okFo [⟨0, Ent.zero⟩] w3) = some .runtime ∧
    (drain okFo [⟨0, Ent.zero⟩] w3).state.isLocked = true := by
  decide +kernel

end Ark.Props.C05Rel
