import Ark.Proofs.Table
import Ark.Props.C11
import Ark.Proofs.GenBridge

namespace Ark.Props.C01
open Ark Ark.World

/-! C01 — the component store is faithful to the operation history (table level).
    Statements are spelled out in Ark/Proofs/Table.lean; here they are the obligations of the
    property.  World-level refinement (entity index ↔ rows) is checked by correspondence. -/

/-- a value written through a component pointer is read back; every other cell is unchanged (frame) -/
theorem write_then_read : type_of% @Table.setCell_get := @Table.setCell_get

/-- swap-remove: only the last row moves (into the vacated row); all other rows keep entity and values -/
theorem swap_remove_moves_only_last : type_of% @Table.remove_spec := @Table.remove_spec

/-- re-allocation, extend, alloc and add never change rows in use -/
theorem growth_preserves_rows : type_of% @Table.add_preserves_rows := @Table.add_preserves_rows

/-- shrinking never changes rows in use -/
theorem shrink_preserves_rows : type_of% @Table.shrink_preserves_rows := @Table.shrink_preserves_rows

/-- `AddAll` (batch move): old rows, then the source rows in order, then zeros -/
theorem bulk_move_is_rowwise : type_of% @Table.addAll_cell := @Table.addAll_cell

/-- `CopyToEnd` (batch exchange): the last `count` rows receive the source values, nothing else changes -/
theorem column_copy_is_rowwise : type_of% @Table.copyToEnd_cell := @Table.copyToEnd_cell

/-- the table shape invariant holds after any table history -/
theorem table_shape_reachable : type_of% @Ark.Props.C11.shape_reachable := @Ark.Props.C11.shape_reachable

/-- `Extend` re-allocates exactly when the Go code does (regenerated condition) -/
theorem extend_as_in_source : type_of% @GenBridge.tableExtend_eq := @GenBridge.tableExtend_eq

end Ark.Props.C01
