import Ark.Proofs.Table
import Ark.Props.C11
import Ark.Props.C01World
import Ark.Props.C01Hist
import Ark.Props.C01Struct
import Ark.Proofs.GenBridge.Table
import Ark.Props.C01Refine
import Ark.Props.C04Hist
import Ark.Props.C01Rel
import Ark.Props.C01Xchg
import Ark.Props.C01Batch

namespace Ark.Props.C01
open Ark Ark.World

/-! C01 — the component store is faithful to the operation history (table level).
    Statements are spelled out in Ark/Proofs/Table.lean; here they are the obligations of the
    property.  World-level refinement (entity index ↔ rows) is checked by correspondence. -/

/-- a value written through a component pointer is read back; every other cell is unchanged (frame) -/
theorem write_then_read : type_of% @Table.setCell_get := @Table.setCell_get

/-- swap-remove: only the last row moves (into the vacated row); all other rows keep entity and values -/
theorem swap_remove_moves_only_last : type_of% @Table.remove_spec := @Table.remove_spec

/-- re-allocation, extend, alloc and add never change rows in use -/
theorem growth_preserves_rows : type_of% @Table.add_preserves_rows := @Table.add_preserves_rows

/-- shrinking never changes rows in use -/
theorem shrink_preserves_rows : type_of% @Table.shrink_preserves_rows := @Table.shrink_preserves_rows

/-- `AddAll` (batch move): old rows, then the source rows in order, then zeros -/
theorem bulk_move_is_rowwise : type_of% @Table.addAll_cell := @Table.addAll_cell

/-- `CopyToEnd` (batch exchange): the last `count` rows receive the source values, nothing else changes -/
theorem column_copy_is_rowwise : type_of% @Table.copyToEnd_cell := @Table.copyToEnd_cell

/-- the table shape invariant holds after any table history -/
theorem table_shape_reachable : type_of% @Ark.Props.C11.shape_reachable := @Ark.Props.C11.shape_reachable

/-- `Extend` re-allocates exactly when the Go code does (regenerated condition) -/
theorem extend_as_in_source : type_of% @GenBridge.tableExtend_eq := @GenBridge.tableExtend_eq


/-! ### World level: the entity index ↔ rows invariant and the frame property (an operation on
    one entity never changes the components or values of any other entity). -/

/-- a new world satisfies the index ↔ rows invariant -/
theorem index_inv_init : type_of% @Ark.IdxInv.init := @Ark.IdxInv.init

/-- creating an entity keeps it (the pool hands out an ID that is not indexed) -/
theorem index_inv_create : type_of% @Ark.IdxInv.placeNew := @Ark.IdxInv.placeNew

/-- moving an entity to another table (add/remove/exchange/set relations) keeps it -/
theorem index_inv_move : type_of% @Ark.IdxInv.addMove := @Ark.IdxInv.addMove

/-- removing an entity (swap-remove + index fix-up of the swapped row) keeps it -/
theorem index_inv_remove : type_of% @Ark.IdxInv.removeRowOf := @Ark.IdxInv.removeRowOf

/-- moving all rows of a table (batch relation change, target cleanup) keeps it -/
theorem index_inv_batch_move : type_of% @Ark.IdxInv.moveEntities := @Ark.IdxInv.moveEntities

/-- batch creation keeps it -/
theorem index_inv_batch_create : type_of% @Ark.IdxInv.createEntities := @Ark.IdxInv.createEntities

/-- writing component values keeps it -/
theorem index_inv_write : type_of% @Ark.IdxInv.writeVals := @Ark.IdxInv.writeVals

/-- creating a table keeps it -/
theorem index_inv_new_table : type_of% @Ark.IdxInv.append_new_table := @Ark.IdxInv.append_new_table

/-- FRAME: moving entity e between tables changes no value and no component set of any other entity -/
theorem move_frame : type_of% @Ark.Props.C01World.move_frame := @Ark.Props.C01World.move_frame

/-- the moved entity keeps the values of the components it keeps; newly added components read zero -/
theorem move_keeps_values : type_of% @Ark.Props.C01World.move_keeps_values := @Ark.Props.C01World.move_keeps_values

/-- FRAME: removing an entity changes no other entity -/
theorem remove_frame : type_of% @Ark.Props.C01World.remove_frame := @Ark.Props.C01World.remove_frame

/-- FRAME: writing values of e changes only those components of e -/
theorem write_frame : type_of% @Ark.Props.C01World.write_frame := @Ark.Props.C01World.write_frame


/-! ### Operation level, histories of any length (fragment: creation without components, removal,
    Set; no observers): the joint world invariant holds after every history; each operation changes
    only its own entity. -/

/-- after ANY history of NewEntity/RemoveEntity/Set the joint invariant (index ↔ rows, pool free list, freed IDs unindexed, live IDs indexed) holds -/
theorem hist_world_invariant : type_of% @Ark.Props.C01Hist.reach_winv := @Ark.Props.C01Hist.reach_winv

/-- NewEntity: returns the pool handle, keeps the invariant, the new entity is alive with no components, every other entity is unchanged -/
theorem newEntity_spec : type_of% @Ark.newEntity0_spec_partial := @Ark.newEntity0_spec_partial

/-- RemoveEntity of a live handle: keeps the invariant, the handle is dead and unindexed, every other entity is unchanged -/
theorem removeEntity_spec : type_of% @Ark.removeEntity_spec_partial := @Ark.removeEntity_spec_partial

/-- writing values keeps the invariant and changes only the written components of that entity -/
theorem set_spec : type_of% @Ark.writeVals_winv := @Ark.writeVals_winv

/-! ### Structure: archetypes ↔ tables (I4, I9, I10) preserved by archetype and table creation;
    the table an added component set leads to. -/

/-- a new world satisfies the structural invariant -/
theorem struct_init : type_of% @Ark.Props.C01Struct.sinv_init := @Ark.Props.C01Struct.sinv_init

/-- adding components finds or creates the table of exactly the enlarged component set, in another table than the old one, leaving all existing rows and the entity index untouched -/
theorem struct_findOrCreateTableAdd : type_of% @Ark.SInv.findOrCreateTableAdd_spec := @Ark.SInv.findOrCreateTableAdd_spec

/-- adding a component that is already present is rejected without effect -/
theorem struct_add_rejects_present : type_of% @Ark.Props.C01Struct.findOrCreateTableAdd_rejects := @Ark.Props.C01Struct.findOrCreateTableAdd_rejects


/-! ## refinement to the specification map (Props/C01Refine): every history of register / new / new0 / add /
    remove / exchange / set / copy / remove-entity / shrink / reset operations on non-relation components, through any access path, from the initial world, is
    simulated by the obvious map `handle ↦ component ↦ value`; rejected calls change nothing -/

theorem refine_reach_cinv : type_of% @Ark.Props.C01Refine.reach_cinv := @Ark.Props.C01Refine.reach_cinv

theorem refine_registry_agrees : type_of% @Ark.Props.C01Refine.registry_agrees := @Ark.Props.C01Refine.registry_agrees

theorem refine_refines : type_of% @Ark.Props.C01Refine.refines := @Ark.Props.C01Refine.refines

theorem refine_refines_absent : type_of% @Ark.Props.C01Refine.refines_absent := @Ark.Props.C01Refine.refines_absent

theorem refine_sortedIds_sorted : type_of% @Ark.Props.C01Refine.sortedIds_sorted := @Ark.Props.C01Refine.sortedIds_sorted

theorem refine_alive_iff_specified : type_of% @Ark.Props.C01Refine.alive_iff_specified := @Ark.Props.C01Refine.alive_iff_specified

theorem refine_unspecified_dead : type_of% @Ark.Props.C01Refine.unspecified_dead := @Ark.Props.C01Refine.unspecified_dead

theorem refine_spec_handles_nodup : type_of% @Ark.Props.C01Refine.spec_handles_nodup := @Ark.Props.C01Refine.spec_handles_nodup

theorem refine_rejected : type_of% @Ark.Props.C01Refine.rejected := @Ark.Props.C01Refine.rejected

theorem refine_accepted : type_of% @Ark.Props.C01Refine.accepted := @Ark.Props.C01Refine.accepted

theorem refine_frame : type_of% @Ark.Props.C01Refine.frame := @Ark.Props.C01Refine.frame

theorem refine_frame_world : type_of% @Ark.Props.C01Refine.frame_world := @Ark.Props.C01Refine.frame_world

theorem refine_last_write_wins_set : type_of% @Ark.Props.C01Refine.last_write_wins_set := @Ark.Props.C01Refine.last_write_wins_set

theorem refine_last_write_wins_add : type_of% @Ark.Props.C01Refine.last_write_wins_add := @Ark.Props.C01Refine.last_write_wins_add

theorem refine_lastVal_spec : type_of% @Ark.Props.C01Refine.lastVal_spec := @Ark.Props.C01Refine.lastVal_spec

/-- after a valid exchange every kept component reads its last written value, every added one the last value given (zero if none), removed ones are gone -/
theorem refine_last_write_wins_xchg : type_of% @Ark.Props.C01Refine.last_write_wins_xchg := @Ark.Props.C01Refine.last_write_wins_xchg

/-- `CopyEntity` yields a fresh handle with the same components and values; the source is unchanged -/
theorem refine_copy_effect : type_of% @Ark.Props.C01Refine.copy_effect := @Ark.Props.C01Refine.copy_effect

/-- `NewEntity()` without components yields a fresh alive handle with the empty component set -/
theorem refine_new0_effect : type_of% @Ark.Props.C01Refine.new0_effect := @Ark.Props.C01Refine.new0_effect

/-- `Shrink` (bounded or not) as a step of the machine: the specification is unchanged and still refined -/
theorem refine_shrink_invisible : type_of% @Ark.Props.C01Refine.shrink_invisible := @Ark.Props.C01Refine.shrink_invisible

/-- no handle issued in a history carries a generation above the history's length (in particular never `MaxUint32`) -/
theorem refine_issued_gen_bound : type_of% @Ark.Props.C01Refine.issued_gen_bound := @Ark.Props.C01Refine.issued_gen_bound

/-- `Reset` as a step: the specification is empty, no handle of the previous epoch is alive, the registry is kept -/
theorem refine_reset_effect : type_of% @Ark.Props.C01Refine.reset_effect := @Ark.Props.C01Refine.reset_effect

/-- a history gives the same state whichever access path (Unsafe / Map / typed tuple) each operation uses -/
theorem refine_any_access_path : type_of% @Ark.Props.C01Refine.any_access_path := @Ark.Props.C01Refine.any_access_path



/-! ### … and with relation components (Props/C04Hist: the refinement machine with relation targets) -/

/-- **refinement with relations**: every specification entry is realised — the entity is alive, its component set, every value AND every relation target are the specified ones -/
theorem rel_refines : type_of% @Ark.Props.C04Hist.refines := @Ark.Props.C04Hist.refines

/-- a component that is not specified is absent -/
theorem rel_refines_absent : type_of% @Ark.Props.C04Hist.refines_absent := @Ark.Props.C04Hist.refines_absent

/-- a call whose specification-level precondition fails (dead handle, component present/absent, dead target, …) panics with the world and the machine state unchanged -/
theorem rel_rejected : type_of% @Ark.Props.C04Hist.rejected := @Ark.Props.C04Hist.rejected

/-- every other expressible call succeeds — totality of all seven operations on every access path -/
theorem rel_accepted : type_of% @Ark.Props.C04Hist.accepted := @Ark.Props.C04Hist.accepted

/-- an operation on one entity changes no other entity's components, values or targets -/
theorem rel_frame_world : type_of% @Ark.Props.C04Hist.frame_world := @Ark.Props.C04Hist.frame_world

/-- `RemoveEntity(e)` changes, of the other entities, exactly the targets that were `e` -/
theorem rel_frame_del : type_of% @Ark.Props.C04Hist.frame_del := @Ark.Props.C04Hist.frame_del


/-! ### The relation machine extended by CopyEntity, Shrink, Reset, filters and queries (Props/C01Rel) -/

/-- after every history of the extended relation machine (Reset anywhere in it) every specified entity is alive with exactly the specified components, values and relation targets -/
theorem rel2_refines : type_of% @Ark.Props.C01Rel.refines := @Ark.Props.C01Rel.refines

/-- a handle the client holds is alive iff the specification has an entry for it -/
theorem rel2_alive_iff_specified : type_of% @Ark.Props.C01Rel.alive_iff_specified := @Ark.Props.C01Rel.alive_iff_specified

/-- Shrink, the filter operations and queries leave the specification and the handles alone -/
theorem rel2_quiet_keeps_spec : type_of% @Ark.Props.C01Rel.quiet_keeps_spec := @Ark.Props.C01Rel.quiet_keeps_spec

/-- Shrink, the filter operations and queries change no entity's components, values, relation targets or aliveness -/
theorem rel2_quiet_is_invisible : type_of% @Ark.Props.C01Rel.quiet_is_invisible := @Ark.Props.C01Rel.quiet_is_invisible

/-- Shrink as a step of the relation machine keeps the invariant with the specification unchanged -/
theorem rel2_shrink_step : type_of% @Ark.Props.C01Rel.shrink_step := @Ark.Props.C01Rel.shrink_step

/-- CopyEntity with relations: the copy has exactly the components, values and relation targets of the source; no other entity changes -/
theorem rel2_copy_assigns : type_of% @Ark.Props.C01Rel.copy_assigns := @Ark.Props.C01Rel.copy_assigns

/-- CopyEntity of a handle that is not alive is rejected without effect -/
theorem rel2_copy_rejected : type_of% @Ark.Props.C01Rel.copy_rejected := @Ark.Props.C01Rel.copy_rejected

/-- CopyEntity at world level in a world with relations never fails for a live entity -/
theorem rel2_copyEntity_rel : type_of% @Ark.Props.C01Rel.copyEntity_rel := @Ark.Props.C01Rel.copyEntity_rel

/-- Reset in the relation machine ends the epoch: specification empty, registry kept, nothing issued, no ID indexed to a table, cache empty, every handle issued before is dead -/
theorem rel2_reset_effect : type_of% @Ark.Props.C01Rel.reset_effect := @Ark.Props.C01Rel.reset_effect

/-- no handle issued along a history of the relation machine carries the sentinel generation MaxUint32 -/
theorem rel2_issued_gen_bound : type_of% @Ark.Props.C01Rel.issued_gen_bound := @Ark.Props.C01Rel.issued_gen_bound



/-! ### Exchange with relation components (Props/C01Xchg): world level, machine step, batch -/

/-- **Exchange(e, add, rem, rels) in a world with relations**: for a live entity and the documented preconditions the call never fails on any access path; e then has the components (current \\ rem) ∪ add, added components hold the given values, kept ones keep theirs, added relation components have the targets given, kept ones keep theirs; nobody else changes; the invariant is kept -/
theorem xchg_exchange_accepted : type_of% @Ark.Props.C01Xchg.exchange_accepted := @Ark.Props.C01Xchg.exchange_accepted

/-- a dead handle is rejected with the world unchanged -/
theorem xchg_exchange_rejected_dead : type_of% @Ark.Props.C01Xchg.exchange_rejected_dead := @Ark.Props.C01Xchg.exchange_rejected_dead

/-- empty add and rem lists are rejected with the world unchanged -/
theorem xchg_exchange_rejected_empty : type_of% @Ark.Props.C01Xchg.exchange_rejected_empty := @Ark.Props.C01Xchg.exchange_rejected_empty

/-- adding a present / removing an absent component / naming one twice is rejected with the world unchanged -/
theorem xchg_exchange_rejected_misfit : type_of% @Ark.Props.C01Xchg.exchange_rejected_misfit := @Ark.Props.C01Xchg.exchange_rejected_misfit

/-- unfitting relation arguments (dead target, non-relation component, component not added) are rejected with the world unchanged, on every path (since the repair of the `Unsafe` API) -/
theorem xchg_exchange_rejected_badRel : type_of% @Ark.Props.C01Xchg.exchange_rejected_badRel := @Ark.Props.C01Xchg.exchange_rejected_badRel

/-- an accepted call was on a live entity with non-empty, distinct, fitting component lists -/
theorem xchg_exchange_accepted_only_if : type_of% @Ark.Props.C01Xchg.exchange_accepted_only_if := @Ark.Props.C01Xchg.exchange_accepted_only_if

/-- xchg as a step of the relation machine (on top of copy/shrink/filters/queries) keeps the invariant -/
theorem xchg_xchg_keeps_invariant : type_of% @Ark.Props.C01Xchg.xchg_keeps_invariant := @Ark.Props.C01Xchg.xchg_keeps_invariant

/-- the invariant after every Reset-free history with xchg steps -/
theorem xchg_reach_inv : type_of% @Ark.Props.C01Xchg.reach_inv := @Ark.Props.C01Xchg.reach_inv

/-- refinement after every such history -/
theorem xchg_refines : type_of% @Ark.Props.C01Xchg.refines := @Ark.Props.C01Xchg.refines

/-- a handle is alive iff specified -/
theorem xchg_alive_iff_specified : type_of% @Ark.Props.C01Xchg.alive_iff_specified := @Ark.Props.C01Xchg.alive_iff_specified

/-- a history without xchg is a history of the machine below -/
theorem xchg_conservative : type_of% @Ark.Props.C01Xchg.conservative := @Ark.Props.C01Xchg.conservative

/-- a step whose precondition fails panics with the world and the machine state unchanged -/
theorem xchg_xchg_rejected : type_of% @Ark.Props.C01Xchg.xchg_rejected := @Ark.Props.C01Xchg.xchg_rejected

/-- every other step succeeds -/
theorem xchg_xchg_accepted : type_of% @Ark.Props.C01Xchg.xchg_accepted := @Ark.Props.C01Xchg.xchg_accepted

/-- an xchg step changes no other entity -/
theorem xchg_xchg_others : type_of% @Ark.Props.C01Xchg.xchg_others := @Ark.Props.C01Xchg.xchg_others

/-- what an xchg step does to the entity's entry -/
theorem xchg_xchg_effect : type_of% @Ark.Props.C01Xchg.xchg_effect := @Ark.Props.C01Xchg.xchg_effect



/-! ### The batch forms as steps of the refinement machine (Props/C01Batch) -/

/-- the invariant after every history of single AND batch operations (newb / delb / xchgb, observer-free, within the size budget `Fits`) -/
theorem batch_reach_inv : type_of% @Ark.Props.C01Batch.reach_inv := @Ark.Props.C01Batch.reach_inv

/-- a history of single operations is the same history of the machine below -/
theorem batch_base_histories : type_of% @Ark.Props.C01Batch.base_histories := @Ark.Props.C01Batch.base_histories

/-- **C01 with the batch forms**: after every history of single and batch operations every specified entity is alive with exactly the specified components and the last written values — the specification step of a batch being the single operation applied to every specified entity whose component set the filter matches -/
theorem batch_refines : type_of% @Ark.Props.C01Batch.refines := @Ark.Props.C01Batch.refines

/-- components the specification does not list are absent -/
theorem batch_refines_absent : type_of% @Ark.Props.C01Batch.refines_absent := @Ark.Props.C01Batch.refines_absent

/-- a handle is alive iff specified -/
theorem batch_alive_iff_specified : type_of% @Ark.Props.C01Batch.alive_iff_specified := @Ark.Props.C01Batch.alive_iff_specified

/-- a batch step whose precondition fails panics with the world and the machine state unchanged -/
theorem batch_rejected : type_of% @Ark.Props.C01Batch.rejected := @Ark.Props.C01Batch.rejected

/-- every other batch step succeeds -/
theorem batch_accepted : type_of% @Ark.Props.C01Batch.accepted := @Ark.Props.C01Batch.accepted

/-- the entities a batch selects are exactly the specified entities whose key set matches the filter -/
theorem batch_selection_agrees : type_of% @Ark.Props.C01Batch.selection_agrees := @Ark.Props.C01Batch.selection_agrees

/-- RemoveEntities: the specification keeps exactly the non-matching entries; every matching entity is dead -/
theorem batch_delb_effect : type_of% @Ark.Props.C01Batch.delb_effect := @Ark.Props.C01Batch.delb_effect

/-- the delb step and the run of single removals reach the same specification, handles, pool and observable world -/
theorem batch_delb_is_singles : type_of% @Ark.Props.C01Batch.delb_is_singles := @Ark.Props.C01Batch.delb_is_singles

/-- NewBatch(n > 0): equal, as machine states, to n single creations; n fresh distinct handles -/
theorem batch_newb_effect : type_of% @Ark.Props.C01Batch.newb_effect := @Ark.Props.C01Batch.newb_effect

/-- a batch creation creates at most one table -/
theorem batch_newb_one_table : type_of% @Ark.Props.C01Batch.newb_one_table := @Ark.Props.C01Batch.newb_one_table

/-- batch add/remove/exchange: the specification is mapped on the matching entries; removed components are gone, added ones read the last written value or zero, kept ones keep theirs -/
theorem batch_xchgb_effect : type_of% @Ark.Props.C01Batch.xchgb_effect := @Ark.Props.C01Batch.xchgb_effect

/-- the xchgb step and the run of single exchanges agree on specification, handles, pool and observable world -/
theorem batch_xchgb_is_singles : type_of% @Ark.Props.C01Batch.xchgb_is_singles := @Ark.Props.C01Batch.xchgb_is_singles

/-- **an entity the filter does not match keeps components and values**; NewBatch changes no existing entity -/
theorem batch_frame_world_batch : type_of% @Ark.Props.C01Batch.frame_world_batch := @Ark.Props.C01Batch.frame_world_batch

/-- the size budget: below 2^32 − 2 in total cost (a single operation 1, newb n costs max n 1, delb 0) every history without exchange batches fits -/
theorem batch_fits_without_xchgb : type_of% @Ark.Props.C01Batch.fits_without_xchgb := @Ark.Props.C01Batch.fits_without_xchgb

/-- … and with exchange batches (each may double the number of tables) -/
theorem batch_fits_with_xchgb : type_of% @Ark.Props.C01Batch.fits_with_xchgb := @Ark.Props.C01Batch.fits_with_xchgb


end Ark.Props.C01
