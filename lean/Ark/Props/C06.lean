import Ark.Proofs.Table
import Ark.Proofs.Rejects
import Ark.Generated.FactsEvents
import Ark.Props.C06Hist
import Ark.Props.C06Rel
import Ark.Props.C01Xchg

namespace Ark.Props.C06
open Ark

/-! C06 — batch operations equal the per-entity operations they abbreviate (table level; the
    world-level fold equality is checked by correspondence). -/

/-- moving all rows of a table appends them in order behind the rows already there, values intact -/
theorem bulk_move_rowwise : type_of% @Table.addAll_cell := @Table.addAll_cell

/-- … and the entity column likewise -/
theorem bulk_move_entities : type_of% @Table.addAll_getEntity := @Table.addAll_getEntity

/-- the destination grows by exactly the number of moved rows -/
theorem bulk_move_len : type_of% @Table.addAll_len := @Table.addAll_len

/-- batch exchange copies each kept column to the last rows of the destination, nothing else changes -/
theorem column_copy_rowwise : type_of% @Table.copyToEnd_cell := @Table.copyToEnd_cell

/-- the source table is empty and zeroed afterwards -/
theorem source_emptied : type_of% @Table.reset_zero := @Table.reset_zero

/-- a batch operation on a locked world is rejected without effect -/
theorem batch_locked_rejected : type_of% @World.exchangeBatch_locked := @World.exchangeBatch_locked

/-- T2 (regenerated): `exchangeBatch` and `setRelationsBatch` fire all removal events before the
    first move and all addition events after the last one, under one lock. -/
theorem batch_event_order_in_source :
    (Generated.eventOrder.filter fun p => p.1 == "World.exchangeBatch" || p.1 == "World.setRelationsBatch").map (·.2) =
      [["lock", "fireRemove", "mutate", "fireAdd", "unlock"], ["lock", "fireRemove", "mutate", "fireAdd", "unlock"]] := by decide


/-! ### World level (Props/C06World): a batch equals the fold of the single operation -/

/-- **creation**: `NewBatch(count, ids)` without callback leaves exactly the world that `count` successive `NewEntity(ids)` leave (world equality), same handles in the same order -/
theorem world_newBatch_eq_singles : type_of% @Ark.Props.C06World.newBatch_eq_singles := @Ark.Props.C06World.newBatch_eq_singles

/-- … with callback: the same world up to the lock's bit pool and one callback record per entity, in order, on a locked world -/
theorem world_newBatchFn_eq_singles : type_of% @Ark.Props.C06World.newBatchFn_eq_singles := @Ark.Props.C06World.newBatchFn_eq_singles

/-- `World.NewEntities(count)` = `count` × `World.NewEntity()` -/
theorem world_newEntities_eq_singles : type_of% @Ark.Props.C06World.newEntities_eq_singles := @Ark.Props.C06World.newEntities_eq_singles

/-- … with callback -/
theorem world_newEntitiesFn_eq_singles : type_of% @Ark.Props.C06World.newEntitiesFn_eq_singles := @Ark.Props.C06World.newEntitiesFn_eq_singles

/-- finding: `NewBatch(0, ids)` still creates the archetype and table of `ids` -/
theorem world_newBatch_zero : type_of% @Ark.Props.C06World.newBatch_zero := @Ark.Props.C06World.newBatch_zero

/-- `createEntities t n` = n × take a handle, place it in the next row, index it -/
theorem world_createEntities_is_iterated_placeNew : type_of% @Ark.Props.C06World.createEntities_is_iterated_placeNew := @Ark.Props.C06World.createEntities_is_iterated_placeNew

/-- **selection**: the entities a batch selects are exactly the alive entities whose component mask matches the filter -/
theorem world_batch_selects_matching_alive : type_of% @Ark.Props.C06World.batch_selects_matching_alive := @Ark.Props.C06World.batch_selects_matching_alive

/-- the tables a batch walks are exactly the `Selected` ones -/
theorem world_batch_tables_selected : type_of% @Ark.Props.C06World.batch_tables_selected := @Ark.Props.C06World.batch_tables_selected

/-- **removal**: `RemoveEntities(filter)` and `RemoveEntity` on each selected entity both succeed and leave the same liveness, values, component sets and pool -/
theorem world_removeEntities_eq_singles : type_of% @Ark.Props.C06World.removeEntities_eq_singles := @Ark.Props.C06World.removeEntities_eq_singles

/-- … in any order of the single removals (only the free-list order differs) -/
theorem world_removeEntities_any_order : type_of% @Ark.Props.C06World.removeEntities_any_order := @Ark.Props.C06World.removeEntities_any_order

/-- … with callback: one record per entity, all before the first removal -/
theorem world_removeEntitiesFn_eq : type_of% @Ark.Props.C06World.removeEntitiesFn_eq := @Ark.Props.C06World.removeEntitiesFn_eq

/-- two worlds satisfying the removal post-condition agree on every observation -/
theorem world_removed_obs_eq : type_of% @Ark.Props.C06World.removed_obs_eq := @Ark.Props.C06World.removed_obs_eq

/-- **add / remove / exchange batches**: the batch and the fold of the single operation both succeed and agree on pool, liveness, every value and every component set -/
theorem world_exchangeBatch_eq_singles : type_of% @Ark.Props.C06World.exchangeBatch_eq_singles := @Ark.Props.C06World.exchangeBatch_eq_singles

/-- … with callback; the callback runs once per selected entity, on a locked world, seeing the kept values and zeros for added components -/
theorem world_exchangeBatchFn_eq_singles : type_of% @Ark.Props.C06World.exchangeBatchFn_eq_singles := @Ark.Props.C06World.exchangeBatchFn_eq_singles

/-- the callback log of an exchange batch, explicitly -/
theorem world_callback_records : type_of% @Ark.Props.C06World.callback_records := @Ark.Props.C06World.callback_records

/-- two worlds satisfying the exchange post-condition agree on every observation -/
theorem world_exchanged_obs_eq : type_of% @Ark.Props.C06World.exchanged_obs_eq := @Ark.Props.C06World.exchanged_obs_eq

/-- the side condition `RowsLive` holds initially -/
theorem world_rowsLive_initially : type_of% @Ark.Props.C06World.rowsLive_initially := @Ark.Props.C06World.rowsLive_initially

/-! ### … at every state reached by a history (Props/C06Hist) -/

/-- after every history of the refinement machine the hypotheses of the batch theorems hold -/
theorem hist_reach_batch_hyps : type_of% @Ark.Props.C06Hist.reach_batch_hyps := @Ark.Props.C06Hist.reach_batch_hyps

/-- batch removal = single removals at every reachable state -/
theorem hist_removeEntities_eq_singles : type_of% @Ark.Props.C06Hist.removeEntities_eq_singles := @Ark.Props.C06Hist.removeEntities_eq_singles

/-- the selection of a batch at every reachable state -/
theorem hist_batch_selects_matching_alive : type_of% @Ark.Props.C06Hist.batch_selects_matching_alive := @Ark.Props.C06Hist.batch_selects_matching_alive

/-- batch add/remove/exchange = single exchanges at every reachable state -/
theorem hist_exchangeBatch_eq_singles : type_of% @Ark.Props.C06Hist.exchangeBatch_eq_singles := @Ark.Props.C06Hist.exchangeBatch_eq_singles

/-- batch creation = single creations at every reachable state -/
theorem hist_newBatch_eq_singles : type_of% @Ark.Props.C06Hist.newBatch_eq_singles := @Ark.Props.C06Hist.newBatch_eq_singles


/-! ### With relation targets (Props/C06Rel): batch removal of entities that are relation targets, SetRelationsBatch -/

/-- the batch never fails and removes exactly the rows of the selected tables, also when relation targets are among the removed: every selected entity is dead, every other entity keeps liveness, components and values, and its targets are unchanged except that a removed target reads as the zero entity -/
theorem rel_removeEntities_rel_spec : type_of% @Ark.Props.C06Rel.removeEntities_rel_spec := @Ark.Props.C06Rel.removeEntities_rel_spec

/-- the selected entities are exactly the alive entities that match the filter and its relation targets -/
theorem rel_selected_iff_alive_matching : type_of% @Ark.Props.C06Rel.selected_iff_alive_matching := @Ark.Props.C06Rel.selected_iff_alive_matching

/-- **C06 with relation targets among the removed**: batch and singles in the batch's order both succeed, satisfy the same postcondition, and even their entity pools are equal -/
theorem rel_removeEntities_rel_eq_singles : type_of% @Ark.Props.C06Rel.removeEntities_rel_eq_singles := @Ark.Props.C06Rel.removeEntities_rel_eq_singles

/-- order independence: the singles in ANY order give the same Alive, components, values and relation targets as the batch -/
theorem rel_removeEntities_rel_any_order : type_of% @Ark.Props.C06Rel.removeEntities_rel_any_order := @Ark.Props.C06Rel.removeEntities_rel_any_order

/-- SetRelationsBatch: a table whose targets the assignment does not change is skipped (world untouched) -/
theorem rel_unchanged_table_skipped : type_of% @Ark.Props.C06Rel.unchanged_table_skipped := @Ark.Props.C06Rel.unchanged_table_skipped

/-- … and only such a table -/
theorem rel_changed_table_moves : type_of% @Ark.Props.C06Rel.changed_table_moves := @Ark.Props.C06Rel.changed_table_moves

/-- SetRelationsBatch never fails for a valid call and assigns exactly the targets named to exactly the selected entities -/
theorem rel_setRelationsBatch_spec : type_of% @Ark.Props.C06Rel.setRelationsBatch_spec := @Ark.Props.C06Rel.setRelationsBatch_spec

/-- **SetRelationsBatch = the fold of SetRelations** over the selected entities in ANY order -/
theorem rel_setRelationsBatch_eq_fold : type_of% @Ark.Props.C06Rel.setRelationsBatch_eq_fold := @Ark.Props.C06Rel.setRelationsBatch_eq_fold

/-- after every history (single operations, queries, both batches): batch removal = single removals in any order, never failing, also when relation targets are removed -/
theorem rel_removeEntities_after_every_history : type_of% @Ark.Props.C06Rel.removeEntities_after_every_history := @Ark.Props.C06Rel.removeEntities_after_every_history

/-- … and batch assignment = single assignments in any order -/
theorem rel_setRelationsBatch_after_every_history : type_of% @Ark.Props.C06Rel.setRelationsBatch_after_every_history := @Ark.Props.C06Rel.setRelationsBatch_after_every_history

/-- C03 still holds after batches: a query visits exactly the alive matching entities -/
theorem rel_query_after_every_history : type_of% @Ark.Props.C06Rel.query_after_every_history := @Ark.Props.C06Rel.query_after_every_history



/-! ### Exchange batches over relation tables (Props/C01Xchg) -/

/-- without observers and callback the exchange batch is the lookup loop followed by the move loop -/
theorem xchg_batch_normal_form : type_of% @Ark.Props.C01Xchg.batch_normal_form := @Ark.Props.C01Xchg.batch_normal_form

/-- the batch never fails for a valid call; several source tables may share one destination (when the removed relation components are those in which they differ) -/
theorem xchg_batch_spec : type_of% @Ark.Props.C01Xchg.batch_spec := @Ark.Props.C01Xchg.batch_spec

/-- the single exchanges, in any order, through any path -/
theorem xchg_singles_spec : type_of% @Ark.Props.C01Xchg.singles_spec := @Ark.Props.C01Xchg.singles_spec

/-- **exchange batch over relation tables = the fold of the single Exchange** over the selected entities in any order: same liveness, components, values and targets for every ID -/
theorem xchg_batch_eq_fold : type_of% @Ark.Props.C01Xchg.batch_eq_fold := @Ark.Props.C01Xchg.batch_eq_fold


end Ark.Props.C06
