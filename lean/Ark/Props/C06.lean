import Ark.Proofs.Table
import Ark.Proofs.Rejects
import Ark.Generated.FactsEvents

namespace Ark.Props.C06
open Ark

/-! C06 — batch operations equal the per-entity operations they abbreviate (table level; the
    world-level fold equality is checked by correspondence). -/

/-- moving all rows of a table appends them in order behind the rows already there, values intact -/
theorem bulk_move_rowwise : type_of% @Table.addAll_cell := @Table.addAll_cell

/-- … and the entity column likewise -/
theorem bulk_move_entities : type_of% @Table.addAll_getEntity := @Table.addAll_getEntity

/-- the destination grows by exactly the number of moved rows -/
theorem bulk_move_len : type_of% @Table.addAll_len := @Table.addAll_len

/-- batch exchange copies each kept column to the last rows of the destination, nothing else changes -/
theorem column_copy_rowwise : type_of% @Table.copyToEnd_cell := @Table.copyToEnd_cell

/-- the source table is empty and zeroed afterwards -/
theorem source_emptied : type_of% @Table.reset_zero := @Table.reset_zero

/-- a batch operation on a locked world is rejected without effect -/
theorem batch_locked_rejected : type_of% @World.exchangeBatch_locked := @World.exchangeBatch_locked

/-- T2 (regenerated): `exchangeBatch` and `setRelationsBatch` fire all removal events before the
    first move and all addition events after the last one, under one lock. -/
theorem batch_event_order_in_source :
    (Generated.eventOrder.filter fun p => p.1 == "World.exchangeBatch" || p.1 == "World.setRelationsBatch").map (·.2) =
      [["lock", "fireRemove", "mutate", "fireAdd", "unlock"], ["lock", "fireRemove", "mutate", "fireAdd", "unlock"]] := by decide

end Ark.Props.C06
