import Ark.Proofs.Table
import Ark.Proofs.Rejects
import Ark.Generated.FactsEvents
import Ark.Props.C06Hist

namespace Ark.Props.C06
open Ark

/-! C06 — batch operations equal the per-entity operations they abbreviate (table level; the
    world-level fold equality is checked by correspondence). -/

/-- moving all rows of a table appends them in order behind the rows already there, values intact -/
theorem bulk_move_rowwise : type_of% @Table.addAll_cell := @Table.addAll_cell

/-- … and the entity column likewise -/
theorem bulk_move_entities : type_of% @Table.addAll_getEntity := @Table.addAll_getEntity

/-- the destination grows by exactly the number of moved rows -/
theorem bulk_move_len : type_of% @Table.addAll_len := @Table.addAll_len

/-- batch exchange copies each kept column to the last rows of the destination, nothing else changes -/
theorem column_copy_rowwise : type_of% @Table.copyToEnd_cell := @Table.copyToEnd_cell

/-- the source table is empty and zeroed afterwards -/
theorem source_emptied : type_of% @Table.reset_zero := @Table.reset_zero

/-- a batch operation on a locked world is rejected without effect -/
theorem batch_locked_rejected : type_of% @World.exchangeBatch_locked := @World.exchangeBatch_locked

/-- T2 (regenerated): `exchangeBatch` and `setRelationsBatch` fire all removal events before the
    first move and all addition events after the last one, under one lock. -/
theorem batch_event_order_in_source :
    (Generated.eventOrder.filter fun p => p.1 == "World.exchangeBatch" || p.1 == "World.setRelationsBatch").map (·.2) =
      [["lock", "fireRemove", "mutate", "fireAdd", "unlock"], ["lock", "fireRemove", "mutate", "fireAdd", "unlock"]] := by decide


/-! ### World level (Props/C06World): a batch equals the fold of the single operation -/

/-- **creation**: `NewBatch(count, ids)` without callback leaves exactly the world that `count` successive `NewEntity(ids)` leave (world equality), same handles in the same order -/
theorem world_newBatch_eq_singles : type_of% @Ark.Props.C06World.newBatch_eq_singles := @Ark.Props.C06World.newBatch_eq_singles

/-- … with callback: the same world up to the lock's bit pool and one callback record per entity, in order, on a locked world -/
theorem world_newBatchFn_eq_singles : type_of% @Ark.Props.C06World.newBatchFn_eq_singles := @Ark.Props.C06World.newBatchFn_eq_singles

/-- `World.NewEntities(count)` = `count` × `World.NewEntity()` -/
theorem world_newEntities_eq_singles : type_of% @Ark.Props.C06World.newEntities_eq_singles := @Ark.Props.C06World.newEntities_eq_singles

/-- … with callback -/
theorem world_newEntitiesFn_eq_singles : type_of% @Ark.Props.C06World.newEntitiesFn_eq_singles := @Ark.Props.C06World.newEntitiesFn_eq_singles

/-- finding: `NewBatch(0, ids)` still creates the archetype and table of `ids` -/
theorem world_newBatch_zero : type_of% @Ark.Props.C06World.newBatch_zero := @Ark.Props.C06World.newBatch_zero

/-- `createEntities t n` = n × take a handle, place it in the next row, index it -/
theorem world_createEntities_is_iterated_placeNew : type_of% @Ark.Props.C06World.createEntities_is_iterated_placeNew := @Ark.Props.C06World.createEntities_is_iterated_placeNew

/-- **selection**: the entities a batch selects are exactly the alive entities whose component mask matches the filter -/
theorem world_batch_selects_matching_alive : type_of% @Ark.Props.C06World.batch_selects_matching_alive := @Ark.Props.C06World.batch_selects_matching_alive

/-- the tables a batch walks are exactly the `Selected` ones -/
theorem world_batch_tables_selected : type_of% @Ark.Props.C06World.batch_tables_selected := @Ark.Props.C06World.batch_tables_selected

/-- **removal**: `RemoveEntities(filter)` and `RemoveEntity` on each selected entity both succeed and leave the same liveness, values, component sets and pool -/
theorem world_removeEntities_eq_singles : type_of% @Ark.Props.C06World.removeEntities_eq_singles := @Ark.Props.C06World.removeEntities_eq_singles

/-- … in any order of the single removals (only the free-list order differs) -/
theorem world_removeEntities_any_order : type_of% @Ark.Props.C06World.removeEntities_any_order := @Ark.Props.C06World.removeEntities_any_order

/-- … with callback: one record per entity, all before the first removal -/
theorem world_removeEntitiesFn_eq : type_of% @Ark.Props.C06World.removeEntitiesFn_eq := @Ark.Props.C06World.removeEntitiesFn_eq

/-- two worlds satisfying the removal post-condition agree on every observation -/
theorem world_removed_obs_eq : type_of% @Ark.Props.C06World.removed_obs_eq := @Ark.Props.C06World.removed_obs_eq

/-- **add / remove / exchange batches**: the batch and the fold of the single operation both succeed and agree on pool, liveness, every value and every component set -/
theorem world_exchangeBatch_eq_singles : type_of% @Ark.Props.C06World.exchangeBatch_eq_singles := @Ark.Props.C06World.exchangeBatch_eq_singles

/-- … with callback; the callback runs once per selected entity, on a locked world, seeing the kept values and zeros for added components -/
theorem world_exchangeBatchFn_eq_singles : type_of% @Ark.Props.C06World.exchangeBatchFn_eq_singles := @Ark.Props.C06World.exchangeBatchFn_eq_singles

/-- the callback log of an exchange batch, explicitly -/
theorem world_callback_records : type_of% @Ark.Props.C06World.callback_records := @Ark.Props.C06World.callback_records

/-- two worlds satisfying the exchange post-condition agree on every observation -/
theorem world_exchanged_obs_eq : type_of% @Ark.Props.C06World.exchanged_obs_eq := @Ark.Props.C06World.exchanged_obs_eq

/-- the side condition `RowsLive` holds initially -/
theorem world_rowsLive_initially : type_of% @Ark.Props.C06World.rowsLive_initially := @Ark.Props.C06World.rowsLive_initially

/-! ### … at every state reached by a history (Props/C06Hist) -/

/-- after every history of the refinement machine the hypotheses of the batch theorems hold -/
theorem hist_reach_batch_hyps : type_of% @Ark.Props.C06Hist.reach_batch_hyps := @Ark.Props.C06Hist.reach_batch_hyps

/-- batch removal = single removals at every reachable state -/
theorem hist_removeEntities_eq_singles : type_of% @Ark.Props.C06Hist.removeEntities_eq_singles := @Ark.Props.C06Hist.removeEntities_eq_singles

/-- the selection of a batch at every reachable state -/
theorem hist_batch_selects_matching_alive : type_of% @Ark.Props.C06Hist.batch_selects_matching_alive := @Ark.Props.C06Hist.batch_selects_matching_alive

/-- batch add/remove/exchange = single exchanges at every reachable state -/
theorem hist_exchangeBatch_eq_singles : type_of% @Ark.Props.C06Hist.exchangeBatch_eq_singles := @Ark.Props.C06Hist.exchangeBatch_eq_singles

/-- batch creation = single creations at every reachable state -/
theorem hist_newBatch_eq_singles : type_of% @Ark.Props.C06Hist.newBatch_eq_singles := @Ark.Props.C06Hist.newBatch_eq_singles

end Ark.Props.C06
