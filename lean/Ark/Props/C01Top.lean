/-
  Ark.Props.C01Top — property theorems of C01 whose proofs cannot be imported together with Props/C01.lean
  (a clash of auto-generated equation names between two proof families); the check builds and audits
  this file with Props/C01.lean.  Batches as steps of the RELATION refinement machine (Props/C01RelBatch).
-/
import Ark.Props.C01RelBatch

namespace Ark.Props.C01Top

/-- the invariant of the relation machine with batch steps after every history within the budget -/
theorem relbatch_reach_inv : type_of% @Ark.Props.C01RelBatch.reach_inv := @Ark.Props.C01RelBatch.reach_inv

/-- histories of single operations are those of the relation machine -/
theorem relbatch_base_histories : type_of% @Ark.Props.C01RelBatch.base_histories := @Ark.Props.C01RelBatch.base_histories

/-- the size budget without `setrelb`/`xchgb` -/
theorem relbatch_fits_without_doubling : type_of% @Ark.Props.C01RelBatch.fits_without_doubling := @Ark.Props.C01RelBatch.fits_without_doubling

/-- **C01/C04 with relation components AND batch forms**: after every history of single and batch operations (RemoveEntities, SetRelationsBatch, Exchange, ExchangeBatch) within the budget every specified entity is alive with exactly the specified components, the last written values and the last assigned — or zeroed — relation targets -/
theorem relbatch_refines : type_of% @Ark.Props.C01RelBatch.refines := @Ark.Props.C01RelBatch.refines

/-- components the specification does not list are absent -/
theorem relbatch_refines_absent : type_of% @Ark.Props.C01RelBatch.refines_absent := @Ark.Props.C01RelBatch.refines_absent

/-- a handle is alive iff specified -/
theorem relbatch_alive_iff_specified : type_of% @Ark.Props.C01RelBatch.alive_iff_specified := @Ark.Props.C01RelBatch.alive_iff_specified

/-- every relation target is zero or alive -/
theorem relbatch_targets_zero_or_alive : type_of% @Ark.Props.C01RelBatch.targets_zero_or_alive := @Ark.Props.C01RelBatch.targets_zero_or_alive

/-- a step whose precondition fails panics with world, issued handles and specification unchanged -/
theorem relbatch_rejected : type_of% @Ark.Props.C01RelBatch.rejected := @Ark.Props.C01RelBatch.rejected

/-- every other step succeeds -/
theorem relbatch_accepted : type_of% @Ark.Props.C01RelBatch.accepted := @Ark.Props.C01RelBatch.accepted

/-- the entities a batch selects are the specified entities the filter (with relation constraints) matches -/
theorem relbatch_selection_agrees : type_of% @Ark.Props.C01RelBatch.selection_agrees := @Ark.Props.C01RelBatch.selection_agrees

/-- RemoveEntities on a relation world: matching entries dropped, every target among the removed reads zero, others keep components and values -/
theorem relbatch_delb_effect : type_of% @Ark.Props.C01RelBatch.delb_effect := @Ark.Props.C01RelBatch.delb_effect

/-- … the same specification, handles, pool and observable world as the run of single removals -/
theorem relbatch_delb_is_singles : type_of% @Ark.Props.C01RelBatch.delb_is_singles := @Ark.Props.C01RelBatch.delb_is_singles

/-- … in any order of the singles -/
theorem relbatch_delb_any_order : type_of% @Ark.Props.C01RelBatch.delb_any_order := @Ark.Props.C01RelBatch.delb_any_order

/-- SetRelationsBatch: the specification step of SetRelations on every selected entity -/
theorem relbatch_setrelb_effect : type_of% @Ark.Props.C01RelBatch.setrelb_effect := @Ark.Props.C01RelBatch.setrelb_effect

/-- … equals the run of single SetRelations -/
theorem relbatch_setrelb_is_singles : type_of% @Ark.Props.C01RelBatch.setrelb_is_singles := @Ark.Props.C01RelBatch.setrelb_is_singles

/-- Exchange with relations as a step of this machine -/
theorem relbatch_xchg_effect : type_of% @Ark.Props.C01RelBatch.xchg_effect := @Ark.Props.C01RelBatch.xchg_effect

/-- ExchangeBatch over relation tables -/
theorem relbatch_xchgb_effect : type_of% @Ark.Props.C01RelBatch.xchgb_effect := @Ark.Props.C01RelBatch.xchgb_effect

/-- … equals the run of single Exchanges -/
theorem relbatch_xchgb_is_singles : type_of% @Ark.Props.C01RelBatch.xchgb_is_singles := @Ark.Props.C01RelBatch.xchgb_is_singles

/-- an entity the filter does not match and that is no child of a removed one keeps components, values and targets -/
theorem relbatch_frame_delb : type_of% @Ark.Props.C01RelBatch.frame_delb := @Ark.Props.C01RelBatch.frame_delb

/-- frame of SetRelationsBatch -/
theorem relbatch_frame_setrelb : type_of% @Ark.Props.C01RelBatch.frame_setrelb := @Ark.Props.C01RelBatch.frame_setrelb

/-- frame of ExchangeBatch -/
theorem relbatch_frame_xchgb : type_of% @Ark.Props.C01RelBatch.frame_xchgb := @Ark.Props.C01RelBatch.frame_xchgb

/-- the frame statements at world level -/
theorem relbatch_frame_world_batch : type_of% @Ark.Props.C01RelBatch.frame_world_batch := @Ark.Props.C01RelBatch.frame_world_batch

end Ark.Props.C01Top
