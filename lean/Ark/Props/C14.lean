import Ark.Generated.FactsWiring
import Ark.Generated.FactsTemplates

namespace Ark.Props.C14
open Ark

/-! C14 — the typed generic API and the ID-based API are equivalent at every arity. -/

/-- T2 (regenerated): at each of the 1242 sites of the generated code where a type parameter, a
    component storage/column and an `ids` index meet, the positions agree; the argument tuples of
    `Get` are in parameter order at every arity; relation indices address `ids[index]`. -/
theorem arity_wiring_correct : Generated.arityWiring.all (·.2) = true ∧ Generated.arityWiringSites ≥ 1200 := by decide

/-- T2 (regenerated): every checked-in generated file is exactly the output of the generator on
    the templates: every arity is an instance of one template, so a fact established for the
    template shape holds for all arities. -/
theorem generated_files_are_template_instances : Generated.templateMatches.all (·.2) = true ∧
    Generated.templateMatches.length = 7 := by decide

end Ark.Props.C14
