import Ark.Proofs.QueryHist

namespace Ark.Props.C03Exact
open Ark Ark.World Ark.Refine Ark.QueryExact Ark.Props.C01World

/-! C03, end to end — "A query built from a filter visits each alive entity that matches exactly
    once and no other entity.  The component pointers it yields are that entity's live data (the
    same storage random access returns), Count equals the number of entities visited, and
    EntityAt(i) is the i-th visited entity."

    Scope: the non-relation, observer-free fragment (the joint invariant `CInv w fl` of
    `Ark.Proofs.Refine`; `fl` = ghost free list of the entity pool, the IDs `≥ 2` outside `fl` are
    the alive ones), queries without per-call relations.

    Vocabulary (`Ark.Proofs.QueryExact`, `CompIndex`, `RowsAlive`, `QueryCached`, `QueryOps`,
    `QueryHist`; the history machine `Ark.Refine` has the operations `reg | new p | new0 | add p |
    rem p | xchg p | set | del | copy | shrink | reset`):
    * `World.drain fo []` — `q := fo.Query(); for q.Next() { … }`, returns the list of `Visit`s
      `(e, table, row)`;
    * `LockCycle L l1 b l2` — `Lock()` on `L` hands out bit `b` (state `l1`) and `Unlock(b)`
      then succeeds (state `l2`); `w.withLocks l` — `w` with lock state `l`;
    * `ExactVisits w fl f visits` — `nodup` (no ID twice), `sound` (every visit is an alive ID at
      the row the entity index records, the reported handle is the one stored there, the
      archetype mask matches), `complete` (every alive ID whose archetype mask matches is
      visited), `data` (`valOf`, random access through the index, reads the visited cell);
    * `QueryExactOn w fl fo w1 q visits w2` — `qOpen fo [] w = .ok q w1`,
      `drain fo [] w = .ok visits w2`, `ExactVisits`, `qCount w1 q = some visits.length`,
      `qEntityAt w1 q i = some (some visits[i].e)` below the length and `some none` from it on;
    * `FilterOK fo` — the mask of `fo` requires each of its type parameters `fo.ids`;
    * `CIdx w` — `componentIndex[c]` lists exactly the archetypes having component `c`;
    * `RowsAlive w` — the handle stored in a row in use is alive;
    * `QueryMeetsSpec s fo w1 q visits w2` — the same against the specification `s.ss.ents`
      (alive handle ↦ component ↦ value) of the history machine, see below. -/

/-! ## Layer A — any world satisfying the invariant -/

/-- A.1, the untyped walk (`UnsafeFilter`, or a typed filter without type parameters) -/
theorem drain_exact_untyped {w : World} {fl : List Nat} (h : CInv w fl) (fo : FilterObj)
    (hc : fo.cache = none) (hu : fo.typed = false ∨ fo.ids = [])
    {l1 l2 : Lock} {b : Nat} (hL : LockCycle w.locks l1 b l2) :
    ∃ q visits, QueryExactOn w fl fo (w.withLocks l1) q visits (w.withLocks l2) :=
  QueryExact.drain_exact_untyped h fo hc hu hL

/-- A.2, the typed walk over `componentIndex[rare]` -/
theorem drain_exact_typed {w : World} {fl : List Nat} (h : CInv w fl) (hx : CIdx w)
    (fo : FilterObj) (hc : fo.cache = none) (ht : fo.typed = true) (hne : fo.ids ≠ [])
    (hreq : ∀ c ∈ fo.ids, fo.filter.mask.get c = true)
    {l1 l2 : Lock} {b : Nat} (hL : LockCycle w.locks l1 b l2) :
    ∃ q visits, QueryExactOn w fl fo (w.withLocks l1) q visits (w.withLocks l2) :=
  QueryExact.drain_exact_typed h hx fo hc ht hne hreq hL

/-- A.1 + A.2: every unregistered filter object whose mask requires its type parameters -/
theorem drain_exact {w : World} {fl : List Nat} (h : CInv w fl) (hx : CIdx w) (fo : FilterObj)
    (hc : fo.cache = none) (hok : FilterOK fo) {l1 l2 : Lock} {b : Nat}
    (hL : LockCycle w.locks l1 b l2) :
    ∃ q visits, QueryExactOn w fl fo (w.withLocks l1) q visits (w.withLocks l2) :=
  QueryExact.drain_exact h hx fo hc hok hL

/-- A.3, the cached variant: a registered filter object whose cache entry was made for its
    filter visits the same entity set -/
theorem drain_exact_cached {w : World} {fl : List Nat} (h : CInv w fl) (hC : CacheInv w)
    (fo : FilterObj) {id : Nat} {ce : CacheEntry} (hc : fo.cache = some id)
    (he : w.cacheEntry? id = some ce) (hf : ce.filter = fo.filter)
    {l1 l2 : Lock} {b : Nat} (hL : LockCycle w.locks l1 b l2) :
    ∃ q visits, QueryExactOn w fl fo (w.withLocks l1) q visits (w.withLocks l2) :=
  QueryExact.drain_exact_cached h hC fo hc he hf hL

/-- the lock: under the lock invariant of `Ark.Proofs.Lock` with fewer than 64 bits outstanding
    the lock cycle of a query goes through and the 64-bit mask afterwards is the mask before -/
theorem lock_cycle_of_linv {L : Lock} {out fl : List Nat} (g : Lock.LInv ⟨L, out⟩ fl)
    (h64 : out.length < 64) :
    ∃ l1 b l2 fl2, LockCycle L l1 b l2 ∧ l2.locks = L.locks ∧ Lock.LInv ⟨l2, out⟩ fl2 :=
  LockCycle.of_linv g h64

/-- **finding**: the lock state after a query is not the lock state before — the bit pool of
    `lock.go` remembers the bit it handed out.  So "the world after the drain equals the world
    before" holds for every field but `locks.pool`; the 64-bit mask `locks.locks` is restored. -/
theorem lock_not_restored :
    LockCycle {} lockDuringQuery 0 lockAfterQuery ∧ lockAfterQuery ≠ ({} : Lock) ∧
    lockAfterQuery.locks = ({} : Lock).locks ∧ lockAfterQuery.isLocked = false :=
  ⟨lockCycle_default, lockAfterQuery_ne, rfl, lockAfterQuery_unlocked⟩

/-! ## the invariants along histories -/

/-- the component index is exact after every history -/
theorem reach_cidx (run : ProbeRunner) (cap rel : Nat) (ops : List Op)
    (hlen : ops.length < 2 ^ 32 - 2) : CIdx (reach run cap rel ops).w :=
  Refine.reach_cidx run cap rel ops hlen

/-- Layer B: the handle stored in a row is alive after every history -/
theorem reach_rowsAlive (run : ProbeRunner) (cap rel : Nat) (ops : List Op)
    (hlen : ops.length < 2 ^ 32 - 2) : RowsAlive (reach run cap rel ops).w :=
  Refine.reach_rowsAlive run cap rel ops hlen

/-- all of `XInv` (`CIdx`, `RowsAlive`, initial lock, relation index, empty filter cache) -/
theorem reach_xinv (run : ProbeRunner) (cap rel : Nat) (ops : List Op)
    (hlen : ops.length < 2 ^ 32 - 2) : XInv (reach run cap rel ops).w :=
  Refine.reach_xinv run cap rel ops hlen

/-- under `CInv`, `RowsAlive` says: the handle in a row is the one in the pool slot of its ID -/
theorem rowsAlive_slot {w : World} {fl : List Nat} (h : RowsAlive w) (hc : CInv w fl) {t r : Nat}
    (hr : r < (w.tbl t).len) :
    w.pool.ents[((w.tbl t).getEntity r).id]? = some ((w.tbl t).getEntity r) :=
  h.slot hc hr

/-! ## Layer C — the headline theorem

`QueryMeetsSpec s fo w1 q visits w2` has the fields
* `opened  : qOpen fo [] s.w = .ok q w1`, `drained : drain fo [] s.w = .ok visits w2`,
* `world   : w2 = s.w.withLocks lockAfterQuery`,
* `nodup   : (visits.map (·.e)).Nodup`,
* `exact   : ∀ e, e ∈ visits.map (·.e) ↔
     ∃ cs, (e, cs) ∈ s.ss.ents ∧ fo.filter.matchesMask (Mask.ofList (keys cs)) = true`,
* `count`, `entityAt`, `entityAtOut` (as in `QueryExactOn`),
* `index   : ∀ v ∈ visits, s.w.entities[v.e.id]? = some (v.table, v.row) ∧ v.table ≠ maxU32`,
* `data    : ∀ v ∈ visits, (∀ c, valOf s.w v.e.id c = (s.w.tbl v.table).getComp c v.row) ∧
     ∀ cs, (v.e, cs) ∈ s.ss.ents → ∀ cv ∈ cs, (s.w.tbl v.table).getComp cv.1 v.row = some cv.2`. -/

/-- **C03, end to end**: after any history of the machine, a query built from an unregistered
    filter object whose mask requires its type parameters visits exactly the entities of the
    specification whose component set the filter matches, each once; `Count`, `EntityAt` agree
    with the iteration; every visit points to the entity's live data. -/
theorem query_exact (run : ProbeRunner) (cap rel : Nat) (ops : List Op)
    (hlen : ops.length < 2 ^ 32 - 2) (fo : FilterObj) (hc : fo.cache = none)
    (hok : FilterOK fo) :
    ∃ q visits, QueryMeetsSpec (reach run cap rel ops) fo
      ((reach run cap rel ops).w.withLocks lockDuringQuery) q visits
      ((reach run cap rel ops).w.withLocks lockAfterQuery) :=
  Refine.query_exact run cap rel ops hlen fo hc hok

/-- the same through the filter cache: register the filter, query through the entry -/
theorem query_exact_cached (run : ProbeRunner) (cap rel : Nat) (ops : List Op)
    (hlen : ops.length < 2 ^ 32 - 2) (f : Filter) (rels : List RelID) :
    ∃ (id : Nat) (w' : World),
      cacheRegister f rels (reach run cap rel ops).w = .ok id w' ∧
      ∀ fo : FilterObj, fo.cache = some id → fo.filter = f →
        ∃ q visits, QueryMeetsSpec ⟨w', (reach run cap rel ops).issued, (reach run cap rel ops).ss⟩
          fo (w'.withLocks lockDuringQuery) q visits (w'.withLocks lockAfterQuery) :=
  Refine.query_exact_cached run cap rel ops hlen f rels

/-- `Count` against the specification: the number of visits, and `Count`, is the number of
    entries of the specification whose component set the filter matches -/
theorem count_spec {s : St} {fl : List Nat} (H : HInv s fl) {fo : FilterObj}
    {w1 w2 : World} {q : QueryObj} {visits : List Visit} (M : QueryMeetsSpec s fo w1 q visits w2) :
    visits.length =
      (s.ss.ents.filter fun x => fo.filter.matchesMask (Mask.ofList (keys x.2))).length ∧
    qCount w1 q = some
      (s.ss.ents.filter fun x => fo.filter.matchesMask (Mask.ofList (keys x.2))).length :=
  M.count_spec H

/-- set-level reading of the match condition: all required components are keys of the entry,
    no excluded component is -/
theorem matches_keys_iff (f : Filter) (cs : Comps) (hreg : ∀ c ∈ keys cs, c < 256) :
    f.matchesMask (Mask.ofList (keys cs)) = true ↔
      (∀ c, f.mask.get c = true → c ∈ keys cs) ∧
      (f.hasWithout = true → ∀ c ∈ keys cs, f.without.get c = false) :=
  Refine.matches_keys_iff f cs hreg

/-! ## Non-vacuity: a concrete history -/

def noRun : ProbeRunner := fun _ _ _ => pure ()

/-- two component types; `⟨2,0⟩:[0]`, `⟨3,0⟩:[0,1]`, `⟨4,0⟩:[1]`, `⟨5,0⟩:[]` (created through
    the three access paths and `NewEntity()`); then `⟨4,0⟩` gets
    component 0 (moves to `[0,1]`), `⟨2,0⟩` is removed and its ID recycled as `⟨2,1⟩:[0]`,
    `⟨3,0⟩` loses component 1 (moves to `[0]`, `⟨4,0⟩` is swapped into its row), a value is set -/
def hist : List Op :=
  [.reg 8 false, .reg 8 false, .new .unsafe_ [0] [(0, 10)], .new .typed [0, 1] [(0, 20), (1, 21)],
   .new .map1 [1] [(1, 31)], .new0, .add .typed ⟨4, 0⟩ [0] [(0, 40)], .del ⟨2, 0⟩,
   .new .unsafe_ [0] [(0, 50)], .rem .unsafe_ ⟨3, 0⟩ [1], .set ⟨4, 0⟩ [(1, 41)]]

def sDemo : St := reach noRun 4 4 hist

/-- typed filter "has component 0" (walks `componentIndex[0]`) -/
def foA : FilterObj := { filter := { mask := Mask.ofList [0] }, ids := [0] }
/-- `UnsafeFilter` "has component 0, exclusive" (walks all archetypes) -/
def foX : FilterObj := { filter := Filter.exclusive { mask := Mask.ofList [0] }, typed := false }
/-- typed filter "has component 1" -/
def foB : FilterObj := { filter := { mask := Mask.ofList [1] }, ids := [1] }

/-- the visits of a complete iteration, as tuples -/
def vis (fo : FilterObj) (w : World) : Option (List (Ent × Nat × Nat)) :=
  match drain fo [] w with
  | .ok vs _ => some (vs.map fun v => (v.e, v.table, v.row))
  | .panic _ _ => none

/-- the state reached: four entities in three of four archetypes (one table is empty) -/
example :
    sDemo.ss.ents = [(⟨2, 1⟩, [(0, 50)]), (⟨5, 0⟩, []), (⟨4, 0⟩, [(1, 41), (0, 40)]), (⟨3, 0⟩, [(0, 20)])] ∧
    sDemo.w.archetypes.map (fun a => (a.comps, a.tables.tables)) =
      [([], [0]), ([0], [1]), ([0, 1], [2]), ([1], [3])] ∧
    sDemo.w.tables.map (·.len) = [1, 2, 1, 0] ∧
    sDemo.w.componentIndex = [[1, 2], [2, 3]] := by
  decide +kernel

/-- the hypotheses of Layer A hold of this state (and of every state the machine reaches) -/
example : ∃ fl, CInv sDemo.w fl ∧ CIdx sDemo.w ∧ RowsAlive sDemo.w ∧
    LockCycle sDemo.w.locks lockDuringQuery 0 lockAfterQuery ∧ FilterOK foA ∧ FilterOK foX ∧
    FilterOK foB := by
  obtain ⟨fl, H⟩ := reach_hinv noRun 4 4 hist (by decide)
  have X := Refine.reach_xinv noRun 4 4 hist (by decide)
  have hl : sDemo.w.locks = {} := X.locks
  refine ⟨fl, H.cinv, X.cidx, X.rows, by rw [hl]; exact lockCycle_default, ?_, ?_, ?_⟩
  · intro c hc
    have : c = 0 := by simpa [foA] using hc
    subst this; decide +kernel
  · intro c hc; cases hc
  · intro c hc
    have : c = 1 := by simpa [foB] using hc
    subst this; decide +kernel

/-- "has 0" selects three of the four entities, in two archetypes; the recycled ID 2 is reported
    with its current generation; the exclusive filter selects the two entities of `[0]`;
    "has 1" selects one.  The world after the query differs only in the lock's bit pool. -/
example :
    vis foA sDemo.w = some [(⟨2, 1⟩, 1, 0), (⟨3, 0⟩, 1, 1), (⟨4, 0⟩, 2, 0)] ∧
    vis foX sDemo.w = some [(⟨2, 1⟩, 1, 0), (⟨3, 0⟩, 1, 1)] ∧
    vis foB sDemo.w = some [(⟨4, 0⟩, 2, 0)] := by
  decide +kernel

/-- the data a visit points to is what the specification records: `⟨4,0⟩` at `(2,0)` reads
    `40` for component 0 and `41` for component 1 -/
example : (sDemo.w.tbl 2).getComp 0 0 = some 40 ∧ (sDemo.w.tbl 2).getComp 1 0 = some 41 ∧
    valOf sDemo.w 4 1 = some 41 ∧ (sDemo.w.tbl 1).getComp 0 0 = some 50 := by
  decide +kernel

/-- through the cache: register the filter of `foA`, query with the registered object -/
example :
    (match cacheRegister foA.filter [] sDemo.w with
     | .ok id w' => vis { foA with cache := some id } w'
     | .panic _ _ => none) = some [(⟨2, 1⟩, 1, 0), (⟨3, 0⟩, 1, 1), (⟨4, 0⟩, 2, 0)] := by
  decide +kernel

/-- the hypotheses of the cached variant (Layer A.3) are satisfiable: registering the filter
    of `foA` on the demo state succeeds and yields a world with `CInv`, `CacheInv` and the entry -/
example : ∃ fl id w' ce, cacheRegister foA.filter [] sDemo.w = .ok id w' ∧ CInv w' fl ∧
    CacheInv w' ∧ w'.cacheEntry? id = some ce ∧ ce.filter = foA.filter ∧
    LockCycle w'.locks lockDuringQuery 0 lockAfterQuery := by
  obtain ⟨fl, H⟩ := reach_hinv noRun 4 4 hist (by decide)
  have X := Refine.reach_xinv noRun 4 4 hist (by decide)
  obtain ⟨w', ce, h1, h2, h3, _, h5, h6, _, _, _, _, _, _, h13, _⟩ :=
    cacheRegister_exact H.cinv X.rinv X.cache.cacheInv foA.filter [] (by rw [X.cache.1]; rfl)
  exact ⟨fl, _, w', ce, h1, h2, h3, h5, h6, by rw [h13, X.locks]; exact lockCycle_default⟩

/-! ### a longer history with the further operations of the machine

`Exchange` (`⟨3,0⟩` loses component 0 and gets component 1), `CopyEntity` (`⟨6,0⟩` is a copy of
`⟨4,0⟩`), `Shrink`; then `Reset`, after which the very same handles are issued again:
`⟨2,0⟩:[0]`, `⟨3,0⟩:[0,1]`, `⟨4,0⟩:[]`, `⟨5,0⟩` a copy of `⟨3,0⟩`, and `⟨3,0⟩` loses component 1
by an `Exchange` that only removes. -/

def histMid : List Op :=
  hist ++ [.xchg .typed ⟨3, 0⟩ [1] [0] [(1, 61)], .copy ⟨4, 0⟩, .shrink false]

def hist2 : List Op :=
  histMid ++ [.reset, .new .typed [0] [(0, 70)], .new .unsafe_ [0, 1] [(0, 80), (1, 81)], .new0,
    .copy ⟨3, 0⟩, .xchg .unsafe_ ⟨3, 0⟩ [] [1] []]

def sMid : St := reach noRun 4 4 histMid
def sDemo2 : St := reach noRun 4 4 hist2

/-- before the reset: five entities; "has 0" selects `⟨2,1⟩`, `⟨4,0⟩` and its copy `⟨6,0⟩`,
    "has 1" selects `⟨4,0⟩`, `⟨6,0⟩` and the exchanged `⟨3,0⟩` -/
example :
    sMid.ss.ents = [(⟨6, 0⟩, [(1, 41), (0, 40)]), (⟨2, 1⟩, [(0, 50)]), (⟨5, 0⟩, []),
      (⟨4, 0⟩, [(1, 41), (0, 40)]), (⟨3, 0⟩, [(1, 61)])] ∧
    sMid.w.tables.map (·.len) = [1, 1, 2, 1] ∧
    vis foA sMid.w = some [(⟨2, 1⟩, 1, 0), (⟨4, 0⟩, 2, 0), (⟨6, 0⟩, 2, 1)] ∧
    vis foB sMid.w = some [(⟨4, 0⟩, 2, 0), (⟨6, 0⟩, 2, 1), (⟨3, 0⟩, 3, 0)] := by
  decide +kernel

/-- after `Reset` and re-creation: the handles `⟨2,0⟩ … ⟨5,0⟩` of the new epoch (the stale
    memory behind the pool slice still holds the invalidated `⟨6, maxU32⟩`); four entities in
    three archetypes; "has 0" selects three, the exclusive filter two, "has 1" one; the cells
    visited hold the specified values; the cached query agrees -/
example :
    sDemo2.ss.ents = [(⟨5, 0⟩, [(0, 80), (1, 81)]), (⟨4, 0⟩, []), (⟨3, 0⟩, [(0, 80)]),
      (⟨2, 0⟩, [(0, 70)])] ∧
    sDemo2.w.tables.map (·.len) = [1, 2, 1, 0] ∧
    sDemo2.w.pool.stale = [⟨6, maxU32⟩] ∧
    sDemo2.w.componentIndex = [[1, 2], [2, 3]] ∧
    vis foA sDemo2.w = some [(⟨2, 0⟩, 1, 0), (⟨3, 0⟩, 1, 1), (⟨5, 0⟩, 2, 0)] ∧
    vis foX sDemo2.w = some [(⟨2, 0⟩, 1, 0), (⟨3, 0⟩, 1, 1)] ∧
    vis foB sDemo2.w = some [(⟨5, 0⟩, 2, 0)] ∧
    (sDemo2.w.tbl 2).getComp 1 0 = some 81 ∧ (sDemo2.w.tbl 1).getComp 0 1 = some 80 ∧
    (match cacheRegister foA.filter [] sDemo2.w with
     | .ok id w' => vis { foA with cache := some id } w'
     | .panic _ _ => none) = some [(⟨2, 0⟩, 1, 0), (⟨3, 0⟩, 1, 1), (⟨5, 0⟩, 2, 0)] := by
  decide +kernel

theorem hist2_len : hist2.length < 2 ^ 32 - 2 := by
  have : hist2.length = 20 := by decide +kernel
  rw [this]; decide

/-- the hypotheses of Layer A hold of these states too -/
example : ∃ fl, CInv sDemo2.w fl ∧ CIdx sDemo2.w ∧ RowsAlive sDemo2.w ∧
    LockCycle sDemo2.w.locks lockDuringQuery 0 lockAfterQuery := by
  unfold sDemo2
  obtain ⟨fl, H⟩ := reach_hinv noRun 4 4 hist2 hist2_len
  have X := Refine.reach_xinv noRun 4 4 hist2 hist2_len
  exact ⟨fl, H.cinv, X.cidx, X.rows, by rw [X.locks]; exact lockCycle_default⟩

/-- **the hypothesis `FilterOK` is necessary.**  A filter object whose mask does NOT require its
    type parameter (mask "has 0", type parameter 1 — not constructible through the typed Go API,
    where `ids` and `mask` come from the same type parameters) walks `componentIndex[1]` and
    misses the two matching entities of archetype `[0]`. -/
def foBad : FilterObj := { filter := { mask := Mask.ofList [0] }, ids := [1] }

theorem filterOK_necessary :
    foBad.filter = foA.filter ∧ ¬ FilterOK foBad ∧
    vis foBad sDemo.w = some [(⟨4, 0⟩, 2, 0)] ∧
    vis foA sDemo.w = some [(⟨2, 1⟩, 1, 0), (⟨3, 0⟩, 1, 1), (⟨4, 0⟩, 2, 0)] := by
  refine ⟨rfl, ?_, ?_⟩
  · intro h
    have := h 1 (by simp [foBad])
    revert this
    decide +kernel
  · decide +kernel

/-- **the lock hypothesis is necessary.**  With all 64 lock bits outstanding (64 queries open
    at the same time, possible in Go, not a state of the history machine) `Query()` panics
    ("run out of the maximum of 64 bits") and nothing is visited. -/
def lock64 : Lock :=
  (List.range 64).foldl (fun l _ => match l.lock with | some (l', _) => l' | none => l) {}

theorem lock_necessary :
    lock64.lock = none ∧
    (match drain foA [] (sDemo.w.withLocks lock64) with
     | .panic k _ => k == .outOfLocks
     | .ok _ _ => false) = true := by
  decide +kernel

end Ark.Props.C03Exact
