import Ark.Proofs.GenBridge
import Ark.Proofs.MaskLemmas
import Ark.Proofs.ArchIndex

namespace Ark.Props.C03
open Ark

/-! C03 — queries return exactly the matching entities (selection logic). -/

/-- the filter test of the model IS the regenerated `filter.matches` of the Go source, for all masks -/
theorem filter_matches_as_in_source : type_of% @GenBridge.filter_matches_eq := @GenBridge.filter_matches_eq

/-- set-level meaning of the filter test: every required component present, no excluded component present -/
theorem filter_matches_setlevel : type_of% @Filter.matchesMask_iff := @Filter.matchesMask_iff

/-- an exclusive filter matches exactly the component set of the filter -/
theorem exclusive_matches_exactly : type_of% @Filter.exclusive_matches_iff := @Filter.exclusive_matches_iff

/-- the per-target table lookup returns exactly the active tables with that target, without duplicates -/
theorem relation_lookup_complete : type_of% @Archetype.IndexInv.getTables_complete := @Archetype.IndexInv.getTables_complete

/-- without relation targets (or relations) the lookup returns all active tables, without duplicates -/
theorem relation_lookup_all : type_of% @Archetype.IndexInv.getTables_all := @Archetype.IndexInv.getTables_all

end Ark.Props.C03
