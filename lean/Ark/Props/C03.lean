import Ark.Proofs.GenBridge.Filter
import Ark.Proofs.MaskLemmas
import Ark.Proofs.ArchIndex
import Ark.Props.C03Drain
import Ark.Props.C20Words
import Ark.Proofs.GenBridge.BookArchetype
import Ark.Props.C03Exact
import Ark.Props.C03Rel

namespace Ark.Props.C03
open Ark

/-! C03 — queries return exactly the matching entities (selection logic). -/

/-- the filter test of the model IS the regenerated `filter.matches` of the Go source, for all masks -/
theorem filter_matches_as_in_source : type_of% @GenBridge.filter_matches_eq := @GenBridge.filter_matches_eq

/-- set-level meaning of the filter test: every required component present, no excluded component present -/
theorem filter_matches_setlevel : type_of% @Filter.matchesMask_iff := @Filter.matchesMask_iff

/-- an exclusive filter matches exactly the component set of the filter -/
theorem exclusive_matches_exactly : type_of% @Filter.exclusive_matches_iff := @Filter.exclusive_matches_iff

/-- the per-target table lookup returns exactly the active tables with that target, without duplicates -/
theorem relation_lookup_complete : type_of% @Archetype.IndexInv.getTables_complete := @Archetype.IndexInv.getTables_complete

/-- without relation targets (or relations) the lookup returns all active tables, without duplicates -/
theorem relation_lookup_all : type_of% @Archetype.IndexInv.getTables_all := @Archetype.IndexInv.getTables_all


/-! ### The cursor machine: iterating a freshly opened query visits exactly the rows of the selected
    tables, in order, once; Count and EntityAt agree with the iteration. -/

/-- the cursor visits exactly the rows of the tables the counting walk selects (cached and uncached queries) -/
theorem drain_visits_selected_rows : type_of% @Ark.Props.C03Drain.drain_rows_partial := @Ark.Props.C03Drain.drain_rows_partial

/-- Count equals the number of rows visited -/
theorem count_eq_visits : type_of% @Ark.Props.C03Drain.count_eq_visits := @Ark.Props.C03Drain.count_eq_visits

/-- EntityAt(i) is the i-th visited entity; beyond Count it is the out-of-bounds panic -/
theorem entityAt_eq_visit : type_of% @Ark.Props.C03Drain.entityAt_eq_visit := @Ark.Props.C03Drain.entityAt_eq_visit

/-- every row is visited exactly once when the selected tables are duplicate-free -/
theorem visits_nodup : type_of% @Ark.Props.C03Drain.visits_nodup := @Ark.Props.C03Drain.visits_nodup

/-- a complete iteration returns these visits and only releases its lock bit -/
theorem drain_closes_and_unlocks : type_of% @Ark.Props.C03Drain.drain_rows_monadic := @Ark.Props.C03Drain.drain_rows_monadic


/-! ## the mask tests `filter.matches` relies on, as the word-level Go code computes them -/

theorem words_mask256_contains : type_of% @Ark.Props.C20Words.mask256_contains := @Ark.Props.C20Words.mask256_contains

theorem words_mask256_containsAny : type_of% @Ark.Props.C20Words.mask256_containsAny := @Ark.Props.C20Words.mask256_containsAny

theorem words_mask256_not : type_of% @Ark.Props.C20Words.mask256_not := @Ark.Props.C20Words.mask256_not

theorem words_mask256_get : type_of% @Ark.Props.C20Words.mask256_get := @Ark.Props.C20Words.mask256_get

theorem words_mask256_ofIDs : type_of% @Ark.Props.C20Words.mask256_ofIDs := @Ark.Props.C20Words.mask256_ofIDs

theorem words_mask64_contains : type_of% @Ark.Props.C20Words.mask64_contains := @Ark.Props.C20Words.mask64_contains

theorem words_mask64_containsAny : type_of% @Ark.Props.C20Words.mask64_containsAny := @Ark.Props.C20Words.mask64_containsAny

theorem words_mask64_not : type_of% @Ark.Props.C20Words.mask64_not := @Ark.Props.C20Words.mask64_not



/-! ### The code itself: the relation-index bookkeeping of archetype.go, translated statement by statement on every run -/

/-- `archetype.AddTable` as in the source = the model's `Archetype.addTable`, for every archetype and every table with the archetype's layout -/
theorem src_idx_addTable : type_of% @Ark.GenBridge.Book.addTable_eq := @Ark.GenBridge.Book.addTable_eq
/-- `archetype.RemoveTarget` as in the source = the model's -/
theorem src_idx_removeTarget : type_of% @Ark.GenBridge.Book.removeTarget_eq := @Ark.GenBridge.Book.removeTarget_eq
/-- `archetype.GetFreeTable` as in the source = the model's (pop the last free table) -/
theorem src_idx_getFreeTable : type_of% @Ark.GenBridge.Book.getFreeTable_eq := @Ark.GenBridge.Book.getFreeTable_eq
/-- `archetype.HasRelations` as in the source = the model's -/
theorem src_idx_hasRelations : type_of% @Ark.GenBridge.Book.hasRelations_eq := @Ark.GenBridge.Book.hasRelations_eq
/-- `archetype.FreeAllTables` as in the source = the model's `freeAllTables`: every per-column lookup and the per-target lookup are emptied -/
theorem src_idx_freeAllTables : type_of% @Ark.GenBridge.Book.freeAllTables_eq := @Ark.GenBridge.Book.freeAllTables_eq
/-- … and exactly the archetype's active tables are marked free in the table store -/
theorem src_idx_freeAllTables_storage : type_of% @Ark.GenBridge.Book.freeAllTables_storage := @Ark.GenBridge.Book.freeAllTables_storage
/-- what marking a list of tables free does to the table store -/
theorem src_idx_markFree : type_of% @Ark.GenBridge.Book.markFree_fold := @Ark.GenBridge.Book.markFree_fold
/-- `archetype.GetTables(relations)` — the lookup a query with relation targets reads — as in the source = the model's `getTables`, whenever the first named relation component is a column of the archetype (otherwise Go's index panic, the model's `none`) -/
theorem src_idx_getTables : type_of% @Ark.GenBridge.Book.getTables_eq := @Ark.GenBridge.Book.getTables_eq


/-! ### End to end (Props/C03Exact): entity sets, over whole histories -/

/-- **C03 end to end**: after every history of the refinement machine (eleven operations, any access path) a query on any uncached filter object visits exactly the specified (= alive) entities whose component set matches, each once, at the row the entity index records, and the cell it points to holds the last written value; Count = number of visits; EntityAt(i) = i-th visit; the world is unchanged up to the lock's bit pool -/
theorem hist_query_exact : type_of% @Ark.Props.C03Exact.query_exact := @Ark.Props.C03Exact.query_exact

/-- the same through a registered (cached) filter -/
theorem hist_query_exact_cached : type_of% @Ark.Props.C03Exact.query_exact_cached := @Ark.Props.C03Exact.query_exact_cached

/-- Count equals the number of matching specification entries -/
theorem hist_count_spec : type_of% @Ark.Props.C03Exact.count_spec := @Ark.Props.C03Exact.count_spec

/-- set-level reading of the match condition on the specification's key set -/
theorem hist_matches_keys_iff : type_of% @Ark.Props.C03Exact.matches_keys_iff := @Ark.Props.C03Exact.matches_keys_iff

/-- state level (any world satisfying the joint invariant): the walk over all archetypes -/
theorem hist_drain_exact_untyped : type_of% @Ark.Props.C03Exact.drain_exact_untyped := @Ark.Props.C03Exact.drain_exact_untyped

/-- state level: the walk over `componentIndex[rare]` of typed filters, under the component-index invariant -/
theorem hist_drain_exact_typed : type_of% @Ark.Props.C03Exact.drain_exact_typed := @Ark.Props.C03Exact.drain_exact_typed

/-- state level: any uncached filter object -/
theorem hist_drain_exact : type_of% @Ark.Props.C03Exact.drain_exact := @Ark.Props.C03Exact.drain_exact

/-- state level: through the cache entry, under the cache invariant -/
theorem hist_drain_exact_cached : type_of% @Ark.Props.C03Exact.drain_exact_cached := @Ark.Props.C03Exact.drain_exact_cached

/-- the component-index invariant holds after every history -/
theorem hist_reach_cidx : type_of% @Ark.Props.C03Exact.reach_cidx := @Ark.Props.C03Exact.reach_cidx

/-- the handle stored in every table row is the alive handle of its ID, after every history -/
theorem hist_reach_rowsAlive : type_of% @Ark.Props.C03Exact.reach_rowsAlive := @Ark.Props.C03Exact.reach_rowsAlive

/-- the joint extra invariant (component index, rows alive, lock, relation index, empty cache) holds after every history -/
theorem hist_reach_xinv : type_of% @Ark.Props.C03Exact.reach_xinv := @Ark.Props.C03Exact.reach_xinv

/-- finding: Lock/Unlock restores the lock mask but not the bit pool's free list -/
theorem hist_lock_not_restored : type_of% @Ark.Props.C03Exact.lock_not_restored := @Ark.Props.C03Exact.lock_not_restored

/-- finding: a typed filter object whose type list is not required by its mask misses entities (not constructible through the typed API) -/
theorem hist_filterOK_necessary : type_of% @Ark.Props.C03Exact.filterOK_necessary := @Ark.Props.C03Exact.filterOK_necessary

/-- finding: with all 64 lock bits outstanding the query panics -/
theorem hist_lock_necessary : type_of% @Ark.Props.C03Exact.lock_necessary := @Ark.Props.C03Exact.lock_necessary


/-! ### With relation targets (Props/C03Rel) -/

/-- **C03 with relation targets**, state level under the world invariant `TInv`: a query with relations fixed in the filter and/or given per call succeeds and visits, once each, exactly the alive entities whose component set matches AND whose target for every named relation is the one given; each visit sits at the row the index records; the targets it yields are the entity's; Count and EntityAt agree with the iteration -/
theorem rel_drain_rel : type_of% @Ark.Props.C03Rel.drain_rel := @Ark.Props.C03Rel.drain_rel

/-- the same for the walk over all archetypes (`UnsafeFilter`) -/
theorem rel_drain_rel_untyped : type_of% @Ark.Props.C03Rel.drain_rel_untyped := @Ark.Props.C03Rel.drain_rel_untyped

/-- the same through a registered filter (fixed relations in the cache entry, per-call relations matched by the cursor) -/
theorem rel_drain_rel_cached : type_of% @Ark.Props.C03Rel.drain_rel_cached := @Ark.Props.C03Rel.drain_rel_cached

/-- the visited handles are duplicate-free and are exactly the alive handles that match -/
theorem rel_visited_iff : type_of% @Ark.Props.C03Rel.visited_iff := @Ark.Props.C03Rel.visited_iff

/-- every reported handle is alive -/
theorem rel_visits_alive : type_of% @Ark.Props.C03Rel.visits_alive := @Ark.Props.C03Rel.visits_alive

/-- every yielded target is zero or alive -/
theorem rel_yielded_target_ok : type_of% @Ark.Props.C03Rel.yielded_target_ok := @Ark.Props.C03Rel.yielded_target_ok

/-- a query naming a dead (also a recycled) target visits nothing -/
theorem rel_dead_target_visits_nothing : type_of% @Ark.Props.C03Rel.dead_target_visits_nothing := @Ark.Props.C03Rel.dead_target_visits_nothing

/-- a typed query with a bad per-call relation is rejected before the lock is taken -/
theorem rel_drain_rejected : type_of% @Ark.Props.C03Rel.drain_rejected := @Ark.Props.C03Rel.drain_rejected

/-- after ANY history of register / new / remove-entity / set-relations / add with relations (and queries), an unregistered query is exact -/
theorem rel_reach_query : type_of% @Ark.Props.C03Rel.reach_query := @Ark.Props.C03Rel.reach_query

/-- … and so is a query through a filter registered in the reached world -/
theorem rel_reach_query_cached : type_of% @Ark.Props.C03Rel.reach_query_cached := @Ark.Props.C03Rel.reach_query_cached

/-- the invariants needed (world invariant, component index, rows alive, idle lock) hold after every such history -/
theorem rel_reach_qgood : type_of% @Ark.Props.C03Rel.reach_qgood := @Ark.Props.C03Rel.reach_qgood

/-- finding: `UnsafeFilter.Query(rel…)` validates nothing; naming a relation on a filter that also matches archetypes without that component yields entities that have no such relation -/
theorem rel_relsTyped_necessary_sound : type_of% @Ark.Props.C03Rel.relsTyped_necessary_sound := @Ark.Props.C03Rel.relsTyped_necessary_sound

/-- finding: … or panics (index −1) when a matching archetype has other relation columns but not the named one -/
theorem rel_relsTyped_necessary_panic : type_of% @Ark.Props.C03Rel.relsTyped_necessary_panic := @Ark.Props.C03Rel.relsTyped_necessary_panic

/-- finding: … or matches a non-relation component given with the zero target -/
theorem rel_relsTyped_necessary_nonrel : type_of% @Ark.Props.C03Rel.relsTyped_necessary_nonrel := @Ark.Props.C03Rel.relsTyped_necessary_nonrel

end Ark.Props.C03
