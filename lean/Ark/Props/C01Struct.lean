/-
  Ark.Props.C01Struct — C01 at the storage level: the structural invariant tying archetypes and
  tables together (design invariants I4, I9, I10; `SInv` of Ark/Proofs/SInv.lean), its
  preservation by component registration, archetype creation and table creation / recycling,
  and the specification of `findOrCreateTableAdd` (the table lookup behind `NewEntity`, `Add`).
  Also used by C03/C04 (tables of an archetype) and C19 (`archetype_masks_unique`).

  Theorems only; the proofs are in Ark/Proofs/SInv.lean.  Kernel-only (`decide +kernel` in the
  concrete examples at the end).

  Reading guide.
  * `SInvMid w` holds at every point of `storage.go`; `SInv w` = `SInvMid w` + every archetype
    without relation column has exactly one table ("settled").  `createArchetype` leaves the new
    archetype unsettled, the `createTable` that follows settles it.
  * `RInv w` is the relation-index invariant (`IndexInv` of Ark/Proofs/ArchIndex.lean for every
    archetype, against the targets stored in the world's tables).
  * `CreatedTable`, `FoundOrCreated` are the result records of `createTable` and
    `findOrCreateTableAdd`.
-/
import Ark.Proofs.SInv

namespace Ark.Props.C01Struct
open Ark Ark.World

/-! ## 1. the invariant holds initially -/

theorem sinv_init (cap rel : Nat) (maxComps : Nat := 256) : SInv (World.init cap rel maxComps) :=
  Ark.sinv_init cap rel maxComps

theorem rinv_init (cap rel : Nat) (maxComps : Nat := 256) : RInv (World.init cap rel maxComps) :=
  RInv.init cap rel maxComps

/-! ## 2. preservation -/

/-- (2a) `registerComponent` on success keeps `SInv`, `RInv`, `IdxInv`; it only appends to the
    registry (tables, archetypes, entity index, pool, cache untouched). -/
theorem registerComponent_preserves {w w' : World} {k : CompKind} {n : Nat}
    (hr : registerComponent k w = .ok n w') :
    n = w.kinds.length ∧ w'.kinds = w.kinds ++ [k] ∧ w'.archetypes = w.archetypes ∧
    w'.tables = w.tables ∧ w'.entities = w.entities ∧ w'.pool = w.pool ∧
    (SInv w → SInv w') ∧ (RInv w → RInv w') ∧ (IdxInv w → IdxInv w') := by
  obtain ⟨h1, h2, h3, h4, h5, h6, _⟩ := registerComponent_ok hr
  exact ⟨h1, h2, h3, h4, h5, h6, fun h => h.registerComponent hr, fun h => h.registerComponent hr,
    fun h => h.registerComponent hr⟩

/-- … and when it fails the state is unchanged -/
theorem registerComponent_rejects {w w' : World} {k : CompKind} {p : PanicKind}
    (hr : registerComponent k w = .panic p w') : w' = w := registerComponent_panic hr

/-- (2b) `createArchetype mask` for a new mask of registered components. -/
theorem createArchetype_preserves {w : World} (h : SInv w) (mask : Mask)
    (hnone : w.findArch mask = none) (hreg : ∀ (c : Nat), mask.get c = true → c < w.kinds.length) :
    ∃ (w' : World), createArchetype mask w = .ok w.archetypes.length w' ∧
      SInvMid w' ∧ (∀ (a : Nat), a ≠ w.archetypes.length → SettledAt w' a) ∧
      w'.archetypes = w.archetypes ++ [newArch w mask] ∧
      (w'.arch w.archetypes.length).mask = mask ∧
      (w'.arch w.archetypes.length).tables.tables = [] ∧
      (w'.arch w.archetypes.length).freeTables = [] ∧
      w'.tables = w.tables ∧ w'.kinds = w.kinds ∧ w'.entities = w.entities ∧ w'.pool = w.pool ∧
      w'.cache = w.cache :=
  h.createArchetype mask hnone hreg

/-- (2c) `findOrCreateArch mask`. -/
theorem findOrCreateArch_spec {w : World} (h : SInv w) (mask : Mask)
    (hreg : ∀ (c : Nat), mask.get c = true → c < w.kinds.length) :
    ∃ (a : Nat) (w' : World), findOrCreateArch mask w = .ok a w' ∧
      SInvMid w' ∧ (∀ (b : Nat), b ≠ a → SettledAt w' b) ∧
      a < w'.archetypes.length ∧ (w'.arch a).mask = mask ∧
      (∀ (b : Nat), b < w.archetypes.length → w'.archetypes[b]? = w.archetypes[b]?) ∧
      w.archetypes.length ≤ w'.archetypes.length ∧
      w'.tables = w.tables ∧ w'.kinds = w.kinds ∧ w'.entities = w.entities ∧ w'.pool = w.pool ∧
      w'.cache = w.cache ∧
      ((w.findArch mask = some a ∧ w' = w) ∨
       (w.findArch mask = none ∧ a = w.archetypes.length ∧
          w'.archetypes = w.archetypes ++ [newArch w mask])) :=
  h.findOrCreateArch mask hreg

theorem findOrCreateArch_rinv {w w' : World} (h : RInv w) {mask : Mask} {a : Nat}
    (hr : findOrCreateArch mask w = .ok a w') : RInv w' := h.findOrCreateArch hr

/-- (2d) `createTable a rels` on success, for an existing archetype which — if it has no relation
    column — has no table yet: all facts of `CreatedTable` (the checks passed; the table exists,
    belongs to `a`, is active; fresh and empty, or recycled with its rows untouched; everything
    else unchanged; `SInvMid`, `IdxInv`, `RInv` preserved; `a` settled). -/
theorem createTable_spec {w w' : World} (h : SInvMid w) {a : Nat} {rels : List RelID} {t : Nat}
    (ha : a < w.archetypes.length)
    (hnr : (w.arch a).hasRelations = false → (w.arch a).tables.tables = [])
    (hok : createTable a rels w = .ok t w') : CreatedTable w w' a rels t :=
  h.createTable ha hnr hok

/-- (2d) … which restores `SInv` when every other archetype was settled -/
theorem createTable_settles {w w' : World} {a : Nat} {rels : List RelID} {t : Nat}
    (ct : CreatedTable w w' a rels t) (hs : ∀ (b : Nat), b ≠ a → SettledAt w b) : SInv w' :=
  ct.sinv hs

/-- (2d) `createTable` for an archetype with relation columns on a settled world -/
theorem createTable_rel_spec {w w' : World} (h : SInv w) {a : Nat} {rels : List RelID} {t : Nat}
    (ha : a < w.archetypes.length) (hr : (w.arch a).hasRelations = true)
    (hok : createTable a rels w = .ok t w') : CreatedTable w w' a rels t ∧ SInv w' :=
  h.createTable_rel ha hr hok

/-- (2d) `createTable` is: the argument checks (length; the first loop `checkRelList`: a relation
    component named twice panics `.relTwice` — the repair of defect D18, §7 —, a component that is
    no column is the Go index −1 `.runtime` panic; `RelsValid`), then the storage part
    `createTableS`, then `cache.addTable` (`ctFinish`) -/
theorem createTable_decomposition (a : Nat) (rels : List RelID) (w : World) :
    createTable a rels w =
      if rels.length < (w.arch a).numRel then .panic .relUnspecified w
      else match checkRelList (w.arch a) [] rels with
        | some k => .panic k w
        | none =>
          if RelsValid w rels then ctFinish (createTableS w a rels)
          else .panic (relPanic w rels) w :=
  createTable_eq a rels w

/-- (2d) the first loop of `createTable` (`checkRelList`, with the check added by the repair of
    defect D18, see §7) passes exactly when no relation component is named twice and every named
    component is a column of the archetype -/
theorem checkRelList_passes_iff (A : Archetype) (rels : List RelID) :
    checkRelList A [] rels = none ↔
      (rels.map (·.comp)).Nodup ∧ ∀ (r : RelID), r ∈ rels → (A.colIdx r.comp).isSome = true :=
  checkRelList_nil_eq_none_iff A rels

/-- (2d) a successful `createTable` was given a relation list naming no component twice -/
theorem createTable_rels_nodup {a : Nat} {rels : List RelID} {w w' : World} {t : Nat}
    (h : createTable a rels w = .ok t w') : (rels.map (·.comp)).Nodup :=
  createTable_ok_nodup h

/-- (2d) a relation list naming a component twice is rejected with the state unchanged -/
theorem createTable_rejects_twice {a : Nat} {rels : List RelID} {w : World}
    (h : ¬ (rels.map (·.comp)).Nodup) :
    ∃ (k : PanicKind), createTable a rels w = .panic k w ∧
      (k = .relUnspecified ∨ k = .relTwice ∨ k = .runtime) :=
  createTable_not_nodup h

/-- (2d) totality: when the arguments pass the checks (`hnd`: no relation component named
    twice, forced by the repair of D18) and the cached filters are
    well-formed (`CacheRelsOK`: every relation a cached filter fixes names a component the filter
    requires), `createTable` succeeds. -/
theorem createTable_total {w : World} (h : SInvMid w) (hc : CacheRelsOK w) {a : Nat}
    {rels : List RelID} (ha : a < w.archetypes.length)
    (hnr : (w.arch a).hasRelations = false → (w.arch a).tables.tables = [])
    (h1 : (w.arch a).numRel ≤ rels.length)
    (h2 : ∀ (r : RelID), r ∈ rels → ((w.arch a).colIdx r.comp).isSome = true)
    (hnd : (rels.map (·.comp)).Nodup)
    (h3 : RelsValid w rels) :
    ∃ (t : Nat) (w' : World), createTable a rels w = .ok t w' ∧ CreatedTable w w' a rels t :=
  h.createTable_total hc ha hnr h1 h2 hnd h3

/-- (2e) `getTable` never changes the state … -/
theorem getTable_pure (a : Nat) (rels : List RelID) (w : World) : (getTable a rels w).state = w :=
  getTable_state a rels w

/-- (2e) … and what it finds is an active table of the archetype -/
theorem getTable_found_active {w w' : World} (h : RInv w) {a : Nat} {rels : List RelID} {t : Nat}
    (ha : a < w.archetypes.length) (hg : getTable a rels w = .ok (some t) w') :
    w' = w ∧ t ∈ (w.arch a).tables.tables :=
  ⟨getTable_ok_state hg, h.getTable_some_mem ha hg⟩

/-! ## 3. `findOrCreateTableAdd` -/

/-- total specification, relation-free case (see `SInv.findOrCreateTableAdd_spec`) -/
theorem findOrCreateTableAdd_spec {w : World} (h : SInv w) (hI : IdxInv w) {oldT : Nat}
    (hold : oldT < w.tables.length) {startMask : Mask}
    (hstart : startMask = (w.arch (w.tbl oldT).arch).mask)
    (hnrOld : (w.arch (w.tbl oldT).arch).hasRelations = false)
    {add : List Comp} (hnd : add.Nodup) (hnew : ∀ (c : Comp), c ∈ add → startMask.get c = false)
    (hreg : ∀ (c : Comp), c ∈ add → c < w.kinds.length)
    (hnr : ∀ (c : Comp), c ∈ add → (w.kinds.getD c {}).isRel = false) :
    ∃ (t a : Nat) (w' : World),
      findOrCreateTableAdd oldT startMask add [] w = .ok (t, a, add.foldl Mask.set startMask) w' ∧
      FoundOrCreated w w' (add.foldl Mask.set startMask) t a ∧ IdxInv w' ∧
      (∀ (t' : Nat), t' < w.tables.length → w'.tables[t']? = w.tables[t']?) ∧
      (add ≠ [] → (∀ (c : Comp), c ∈ add → c < 256) → t ≠ oldT) :=
  h.findOrCreateTableAdd_spec hI hold hstart hnrOld hnd hnew hreg hnr

/-- the creation instance (`newEntity`): old table 0, empty start mask -/
theorem findOrCreateTableAdd_spec_new {w : World} (h : SInv w) (hI : IdxInv w)
    {add : List Comp} (hnd : add.Nodup) (hreg : ∀ (c : Comp), c ∈ add → c < w.kinds.length)
    (hnr : ∀ (c : Comp), c ∈ add → (w.kinds.getD c {}).isRel = false) :
    ∃ (t a : Nat) (w' : World),
      findOrCreateTableAdd 0 Mask.empty add [] w = .ok (t, a, Mask.ofList add) w' ∧
      FoundOrCreated w w' (Mask.ofList add) t a ∧ IdxInv w' ∧
      (∀ (t' : Nat), t' < w.tables.length → w'.tables[t']? = w.tables[t']?) ∧
      (add ≠ [] → (∀ (c : Comp), c ∈ add → c < 256) → t ≠ 0) :=
  h.findOrCreateTableAdd_spec_new hI hnd hreg hnr

/-- general form (any `add`, any `rels`, relation components included), on success -/
theorem findOrCreateTableAdd_of_ok {w w' : World} (h : SInv w) (hR : RInv w) {oldT : Nat}
    {startMask mask : Mask} {add : List Comp} {rels : List RelID} {t a : Nat}
    (hstart : ∀ (c : Nat), startMask.get c = true → c < w.kinds.length)
    (hreg : ∀ (c : Comp), c ∈ add → c < w.kinds.length)
    (hok : findOrCreateTableAdd oldT startMask add rels w = .ok (t, a, mask) w') :
    mask = add.foldl Mask.set startMask ∧ FoundOrCreated w w' mask t a ∧ RInv w' :=
  h.findOrCreateTableAdd_of_ok_rinv hR hstart hreg hok

/-- the rejection: a component already in the running mask (present in the start mask, or
    listed twice) is refused with `alreadyHas` and the state unchanged -/
theorem findOrCreateTableAdd_rejects (oldT : Nat) (startMask : Mask) (pre : List Comp) (c : Comp)
    (post : List Comp) (rels : List RelID) (w : World)
    (h : (pre.foldl Mask.set startMask).get c = true) :
    findOrCreateTableAdd oldT startMask (pre ++ c :: post) rels w = .panic .alreadyHas w :=
  findOrCreateTableAdd_reject oldT startMask pre c post rels w h

/-- the mask walk has exactly these two outcomes -/
theorem graphFindAdd_outcomes (m : Mask) (add : List Comp) (w : World) :
    graphFindAdd m add w = .ok (add.foldl Mask.set m) w ∨
    (graphFindAdd m add w = .panic .alreadyHas w ∧
      ∃ (pre : List Comp) (c : Comp) (post : List Comp), add = pre ++ c :: post ∧
        (pre.foldl Mask.set m).get c = true) :=
  graphFindAdd_cases m add w

/-! ## 4. consequences -/

/-- no two archetypes have the same component set (mask) … -/
theorem archetype_masks_unique {w : World} (h : SInv w) {a b : Nat}
    (ha : a < w.archetypes.length) (hb : b < w.archetypes.length)
    (hm : (w.arch a).mask = (w.arch b).mask) : a = b :=
  h.toSInvMid.archetype_masks_unique ha hb hm

/-- … nor the same column list -/
theorem archetype_comps_unique {w : World} (h : SInv w) {a b : Nat}
    (ha : a < w.archetypes.length) (hb : b < w.archetypes.length)
    (hc : (w.arch a).comps = (w.arch b).comps) : a = b :=
  h.toSInvMid.archetype_comps_unique ha hb hc

/-- an archetype without relation column has exactly one table and no free table -/
theorem nonRelation_single_table {w : World} (h : SInv w) {a : Nat} (ha : a < w.archetypes.length)
    (hr : (w.arch a).hasRelations = false) :
    (w.arch a).tables.tables.length = 1 ∧ (w.arch a).freeTables = [] :=
  h.nonRel a _ (aget_of_lt ha) hr

/-- every table is listed by exactly its own archetype: active iff not free -/
theorem table_listed_once {w : World} (h : SInv w) {t : Nat} (ht : t < w.tables.length) :
    ((w.tbl t).isFree = false ↔ t ∈ (w.arch (w.tbl t).arch).tables.tables) ∧
    ((w.tbl t).isFree = true ↔ t ∈ (w.arch (w.tbl t).arch).freeTables) ∧
    ∀ (b : Nat), b < w.archetypes.length →
      (t ∈ (w.arch b).tables.tables ∨ t ∈ (w.arch b).freeTables) → b = (w.tbl t).arch := by
  have hT := get_of_lt ht
  refine ⟨(h.member t _ hT).1, (h.member t _ hT).2, ?_⟩
  intro b hb hm
  obtain ⟨T, hT', hTb⟩ := h.owned b _ t (aget_of_lt hb) hm
  rw [hT] at hT'
  rw [← Option.some.inj hT'] at hTb
  exact hTb.symm

/-! ## 5. a decidable form of the invariant (bounded quantifiers only) -/

/-- `TableIDs.WF`, decidably -/
def WFB (t : TableIDs) : Prop :=
  t.tables.Nodup ∧ (t.indices.map (·.1)).Nodup ∧
  (∀ p, p ∈ t.indices → t.tables[p.2]? = some p.1) ∧
  (∀ i, i < t.tables.length → AL.find? t.indices (t.tables.getD i 0) = some i)

instance (t : TableIDs) : Decidable (WFB t) := by unfold WFB; exact inferInstance

theorem WFB.sound {t : TableIDs} (h : WFB t) : t.WF := by
  obtain ⟨h1, h2, h3, h4⟩ := h
  refine ⟨h1, h2, ?_⟩
  intro id i
  constructor
  · intro hf; exact h3 (id, i) (AL.mem_of_find? _ _ _ hf)
  · intro hg
    obtain ⟨hlt, hv⟩ := List.getElem?_eq_some_iff.1 hg
    have := h4 i hlt
    rw [List.getD_eq_getElem?_getD, hg] at this
    exact this

/-- `Archetype.Struct`, decidably -/
def StructB (A : Archetype) : Prop :=
  WFB A.tables ∧ A.freeTables.Nodup ∧ (∀ t, t ∈ A.tables.tables → t ∉ A.freeTables) ∧
  A.relationTables.length = A.comps.length ∧ A.isRel.length = A.comps.length ∧
  A.numRel = (A.isRel.filter fun b => b).length

instance (A : Archetype) : Decidable (StructB A) := by unfold StructB; exact inferInstance

theorem StructB.sound {A : Archetype} (h : StructB A) : A.Struct :=
  ⟨h.1.sound, h.2.1, h.2.2.1, h.2.2.2.1, h.2.2.2.2.1, h.2.2.2.2.2⟩

/-- the per-archetype part of `SInv` -/
def ArchOK (w : World) (a : Nat) : Prop :=
  (w.arch a).id = a ∧
  (∀ b, b < w.archetypes.length → (w.arch a).mask = (w.arch b).mask → a = b) ∧
  (∀ c, c < 256 → (w.arch a).mask.get c = true → c < w.kinds.length) ∧
  (w.arch a).comps = (w.arch a).mask.toList w.kinds.length ∧
  (w.arch a).isRel.length = (w.arch a).comps.length ∧
  (w.arch a).zst.length = (w.arch a).comps.length ∧
  (∀ i, i < (w.arch a).comps.length →
    (w.arch a).isRel.getD i false = (w.kinds.getD ((w.arch a).comps.getD i 0) {}).isRel ∧
    (w.arch a).zst.getD i false = (w.kinds.getD ((w.arch a).comps.getD i 0) {}).zst) ∧
  (∀ t, t ∈ (w.arch a).tables.tables ++ (w.arch a).freeTables →
    t < w.tables.length ∧ (w.tbl t).arch = a) ∧
  StructB (w.arch a) ∧
  ((w.arch a).hasRelations = false →
    (w.arch a).tables.tables.length = 1 ∧ (w.arch a).freeTables = [])

instance (w : World) (a : Nat) : Decidable (ArchOK w a) := by unfold ArchOK; exact inferInstance

/-- the per-table part of `SInv` -/
def TableOK (w : World) (t : Nat) : Prop :=
  (w.tbl t).arch < w.archetypes.length ∧
  (w.tbl t).ids = (w.arch (w.tbl t).arch).comps ∧
  (w.tbl t).isRel = (w.arch (w.tbl t).arch).isRel ∧
  (w.tbl t).zst = (w.arch (w.tbl t).arch).zst ∧
  (w.tbl t).id = t ∧
  (∀ r, r ∈ (w.tbl t).relIDs → ∃ i, i < (w.tbl t).ids.length ∧
    (w.tbl t).ids[i]? = some r.comp ∧ (w.tbl t).isRel.getD i false = true) ∧
  ((w.tbl t).isFree = false ↔ t ∈ (w.arch (w.tbl t).arch).tables.tables) ∧
  ((w.tbl t).isFree = true ↔ t ∈ (w.arch (w.tbl t).arch).freeTables)

instance (w : World) (t : Nat) : Decidable (TableOK w t) := by unfold TableOK; exact inferInstance

/-- `SInv` with bounded quantifiers only: decidable, so `decide` checks it on concrete worlds -/
def SInvB (w : World) : Prop :=
  (∀ a, a < w.archetypes.length → ArchOK w a) ∧ (∀ t, t < w.tables.length → TableOK w t) ∧
  0 < w.tables.length ∧ (w.tbl 0).arch = 0 ∧ (w.arch 0).mask = Mask.empty

instance (w : World) : Decidable (SInvB w) := by unfold SInvB; exact inferInstance

/-- the Boolean checker -/
def sinvB (w : World) : Bool := decide (SInvB w)

theorem SInvB.sound {w : World} (h : SInvB w) : SInv w := by
  obtain ⟨hA, hT, h0, h1, h2⟩ := h
  have hA' : ∀ {a : Nat} {A : Archetype}, w.archetypes[a]? = some A →
      ArchOK w a ∧ w.arch a = A := fun hg => ⟨hA _ (alt_of_get hg), arch_of_get hg⟩
  have hT' : ∀ {t : Nat} {T : Table}, w.tables[t]? = some T →
      TableOK w t ∧ w.tbl t = T := fun hg => ⟨hT _ (lt_of_get hg), tbl_of_get hg⟩
  refine { archId := ?_, maskUniq := ?_, maskReg := ?_, comps := ?_, kindsOf := ?_, tblArch := ?_,
           relCols := ?_, member := ?_, owned := ?_, astruct := ?_, nonRelLe := ?_,
           root := ⟨h0, h1, h2⟩, settled := ?_ }
  · intro a A hg
    obtain ⟨ok, rfl⟩ := hA' hg; exact ok.1
  · intro a b A B hga hgb hm
    obtain ⟨ok, rfl⟩ := hA' hga
    obtain ⟨_, rfl⟩ := hA' hgb
    exact ok.2.1 b (alt_of_get hgb) hm
  · intro a A hg c hc
    obtain ⟨ok, rfl⟩ := hA' hg
    rcases Nat.lt_or_ge c 256 with hlt | hge
    · exact ok.2.2.1 c hlt hc
    · rw [Mask.get_ge _ _ hge] at hc; cases hc
  · intro a A hg
    obtain ⟨ok, rfl⟩ := hA' hg
    exact ⟨ok.2.2.2.1, ok.2.2.2.2.1, ok.2.2.2.2.2.1⟩
  · intro a A i c hg hc
    obtain ⟨ok, rfl⟩ := hA' hg
    obtain ⟨hlt, hv⟩ := List.getElem?_eq_some_iff.1 hc
    have := ok.2.2.2.2.2.2.1 i hlt
    have hcd : (w.arch a).comps.getD i 0 = c := by rw [List.getD_eq_getElem?_getD, hc]; rfl
    rw [hcd] at this
    exact this
  · intro t T hg
    obtain ⟨ok, rfl⟩ := hT' hg
    exact ⟨_, aget_of_lt ok.1, ok.2.1, ok.2.2.1, ok.2.2.2.1, ok.2.2.2.2.1⟩
  · intro t T hg r hr
    obtain ⟨ok, rfl⟩ := hT' hg
    obtain ⟨i, _, h3, h4⟩ := ok.2.2.2.2.2.1 r hr
    exact ⟨i, h3, h4⟩
  · intro t T hg
    obtain ⟨ok, rfl⟩ := hT' hg
    exact ok.2.2.2.2.2.2
  · intro a A t hg hm
    obtain ⟨ok, rfl⟩ := hA' hg
    obtain ⟨hlt, harch⟩ := ok.2.2.2.2.2.2.2.1 t (by
      rcases hm with hm | hm
      · exact List.mem_append_left _ hm
      · exact List.mem_append_right _ hm)
    exact ⟨_, get_of_lt hlt, harch⟩
  · intro a A hg
    obtain ⟨ok, rfl⟩ := hA' hg
    exact ok.2.2.2.2.2.2.2.2.1.sound
  · intro a A hg hr
    obtain ⟨ok, rfl⟩ := hA' hg
    obtain ⟨h3, h4⟩ := ok.2.2.2.2.2.2.2.2.2 hr
    exact ⟨by omega, h4⟩
  · intro a A hg hr
    obtain ⟨ok, rfl⟩ := hA' hg
    exact (ok.2.2.2.2.2.2.2.2.2 hr).1

theorem sinvB_sound {w : World} (h : sinvB w = true) : SInv w :=
  SInvB.sound (of_decide_eq_true h)

/-! ## 6. a concrete history (non-vacuity)

Three component types (0, 1 plain; 2 a relation), entities in five archetypes, two tables of the
relation archetype `{0, 2}` for two targets; removing target 5 frees table 5 (its entity moves to
a new table 6 with the zero target); the next creation with a new target recycles table 5. -/

/-- a callback runner that does nothing (no observers are registered below) -/
def noProbe : ProbeRunner := fun _ _ _ => pure ()

def demo0 : World :=
  let w := World.init 1 1
  let w := (registerComponent {} w).state
  let w := (registerComponent {} w).state
  (registerComponent { isRel := true } w).state

def demo1 : World :=
  let w := demo0
  let w := (opNewEntity noProbe .unsafe_ [0] [(0, 7)] [] w).state                 -- entity 2
  let w := (opNewEntity noProbe .unsafe_ [0, 1] [(0, 8), (1, 9)] [] w).state      -- entity 3
  let w := (opNewEntity noProbe .unsafe_ [] [] [] w).state                        -- entity 4
  let w := (opNewEntity noProbe .unsafe_ [1] [(1, 3)] [] w).state                 -- entity 5
  let w := (opNewEntity noProbe .unsafe_ [0, 2] [(0, 1)] [⟨2, ⟨4, 0⟩⟩] w).state   -- 6 → target 4
  let w := (opNewEntity noProbe .unsafe_ [0, 2] [(0, 2)] [⟨2, ⟨5, 0⟩⟩] w).state   -- 7 → target 5
  (opNewEntity noProbe .unsafe_ [0, 2] [(0, 3)] [⟨2, ⟨4, 0⟩⟩] w).state            -- 8 → target 4

/-- target 5 dies: table 5 is freed, entity 7 moves to the new table 6 (zero target) -/
def demo2 : World := (opRemoveEntity noProbe ⟨5, 0⟩ demo1).state

/-- a creation with the new target 2 recycles table 5 -/
def demo3 : World := (opNewEntity noProbe .unsafe_ [0, 2] [(0, 4)] [⟨2, ⟨2, 0⟩⟩] demo2).state

/-- what the examples look at, per archetype: columns, active tables, free tables, number of
    relation columns -/
structure ArchRow where
  comps : List Nat
  active : List Nat
  free : List Nat
  numRel : Nat
  deriving DecidableEq, Repr

/-- … and per table: archetype, rows, free?, relation targets (component, target ID) -/
structure TableRow where
  arch : Nat
  len : Nat
  isFree : Bool
  rels : List (Nat × Nat)
  deriving DecidableEq, Repr

structure Summary where
  archs : List ArchRow
  tables : List TableRow
  deriving DecidableEq, Repr

def summary (w : World) : Summary :=
  { archs := w.archetypes.map fun A => ⟨A.comps, A.tables.tables, A.freeTables, A.numRel⟩
    tables := w.tables.map fun T => ⟨T.arch, T.len, T.isFree, T.relIDs.map fun r => (r.comp, r.target.id)⟩ }

/-- the invariant holds in all four concrete worlds (checked by the decidable form) -/
theorem demo_sinv : SInv demo0 ∧ SInv demo1 ∧ SInv demo2 ∧ SInv demo3 :=
  ⟨sinvB_sound (by decide +kernel), sinvB_sound (by decide +kernel),
   sinvB_sound (by decide +kernel), sinvB_sound (by decide +kernel)⟩

example : summary demo1 =
    ⟨[⟨[], [0], [], 0⟩, ⟨[0], [1], [], 0⟩, ⟨[0, 1], [2], [], 0⟩, ⟨[1], [3], [], 0⟩,
      ⟨[0, 2], [4, 5], [], 1⟩],
     [⟨0, 1, false, []⟩, ⟨1, 1, false, []⟩, ⟨2, 1, false, []⟩, ⟨3, 1, false, []⟩,
      ⟨4, 2, false, [(2, 4)]⟩, ⟨4, 1, false, [(2, 5)]⟩]⟩ := by decide +kernel

/-- after the removal of target 5: table 5 is free (and listed as free by archetype 4, not as
    active), table 6 is new -/
example : summary demo2 =
    ⟨[⟨[], [0], [], 0⟩, ⟨[0], [1], [], 0⟩, ⟨[0, 1], [2], [], 0⟩, ⟨[1], [3], [], 0⟩,
      ⟨[0, 2], [4, 6], [5], 1⟩],
     [⟨0, 1, false, []⟩, ⟨1, 1, false, []⟩, ⟨2, 1, false, []⟩, ⟨3, 0, false, []⟩,
      ⟨4, 2, false, [(2, 4)]⟩, ⟨4, 0, true, [(2, 5)]⟩, ⟨4, 1, false, [(2, 0)]⟩]⟩ := by decide +kernel

/-- after the next creation: table 5 is recycled for target 2 and active again; no table added -/
example : summary demo3 =
    ⟨[⟨[], [0], [], 0⟩, ⟨[0], [1], [], 0⟩, ⟨[0, 1], [2], [], 0⟩, ⟨[1], [3], [], 0⟩,
      ⟨[0, 2], [4, 6, 5], [], 1⟩],
     [⟨0, 1, false, []⟩, ⟨1, 1, false, []⟩, ⟨2, 1, false, []⟩, ⟨3, 0, false, []⟩,
      ⟨4, 2, false, [(2, 4)]⟩, ⟨4, 1, false, [(2, 2)]⟩, ⟨4, 1, false, [(2, 0)]⟩]⟩ := by decide +kernel

/-- the membership facts of `SInv`, concretely -/
example :
    5 ∈ (demo2.arch 4).freeTables ∧ 5 ∉ (demo2.arch 4).tables.tables ∧ (demo2.tbl 5).isFree = true ∧
    5 ∈ (demo3.arch 4).tables.tables ∧ 5 ∉ (demo3.arch 4).freeTables ∧ (demo3.tbl 5).isFree = false ∧
    (demo3.tbl 5).arch = 4 ∧ demo3.tables.length = demo2.tables.length ∧
    (demo1.arch 4).mask = Mask.ofList [0, 2] ∧ (demo1.arch 4).hasRelations = true ∧
    (demo1.arch 2).hasRelations = false := by decide +kernel

theorem registerComponent_state {k : CompKind} {w : World} (h1 : w.kinds.length < w.maxComps)
    (h2 : w.isLocked = false) :
    registerComponent k w = .ok w.kinds.length (registerComponent k w).state := by
  unfold registerComponent
  simp only [ge_iff_le, Nat.not_le.2 h1, if_false, h2, Bool.false_eq_true, Res.state]

/-- the index invariant of the entity-free world `demo0`, by the preservation theorems -/
theorem demo0_idx : IdxInv demo0 :=
  ((IdxInv.init 1 1 256).registerComponent
      (registerComponent_state (by decide +kernel) (by decide +kernel))
    |>.registerComponent (registerComponent_state (by decide +kernel) (by decide +kernel))
    |>.registerComponent (registerComponent_state (by decide +kernel) (by decide +kernel)))

/-- the hypotheses of the total specification are satisfiable: `NewEntity` with components
    `[0, 1]` in `demo0` … -/
example : ∃ (t a : Nat) (w' : World),
    findOrCreateTableAdd 0 Mask.empty [0, 1] [] demo0 = .ok (t, a, Mask.ofList [0, 1]) w' ∧
    FoundOrCreated demo0 w' (Mask.ofList [0, 1]) t a ∧ IdxInv w' ∧
    (∀ (t' : Nat), t' < demo0.tables.length → w'.tables[t']? = demo0.tables[t']?) ∧
    (([0, 1] : List Comp) ≠ [] → (∀ (c : Comp), c ∈ [0, 1] → c < 256) → t ≠ 0) :=
  findOrCreateTableAdd_spec_new demo_sinv.1 demo0_idx (by decide) (by decide +kernel)
    (by decide +kernel)

/-- the result of a `findOrCreateTable*` call: table, archetype, "the mask is `m0`", summary of
    the state reached (`none` = panic) -/
def outcome (m0 : Mask) (r : Res World (Nat × Nat × Mask)) : Option (Nat × Nat × Bool × Summary) :=
  match r with
  | .ok (t, a, m) w' => some (t, a, m == m0, summary w')
  | .panic _ _ => none

/-- … and concretely it returns the new table 1 of the new archetype 1 -/
example :
    outcome (Mask.ofList [0, 1]) (findOrCreateTableAdd 0 Mask.empty [0, 1] [] demo0) =
      some (1, 1, true,
        ⟨[⟨[], [0], [], 0⟩, ⟨[0, 1], [1], [], 0⟩], [⟨0, 0, false, []⟩, ⟨1, 0, false, []⟩]⟩) := by
  decide +kernel

/-- `Add` of component 1 to an entity of table 1 (archetype `{0}`) in `demo1` finds the existing
    table 2 of archetype `{0, 1}` and changes nothing -/
example :
    outcome (Mask.ofList [0, 1]) (findOrCreateTableAdd 1 (Mask.ofList [0]) [1] [] demo1) =
      some (2, 2, true, summary demo1) := by
  decide +kernel

/-- the rejection, concretely: component 0 is already in the mask of table 1 -/
example : findOrCreateTableAdd 1 (Mask.ofList [0]) [1, 0] [] demo1 = .panic .alreadyHas demo1 :=
  findOrCreateTableAdd_rejects 1 (Mask.ofList [0]) [1] 0 [] [] demo1 (by decide +kernel)

/-! ## 7. a recorded finding, repaired: the same relation component listed twice (defect D18)

This was defect D18 of the Go library, found by proof.  The unrepaired `createTable` only checked
`len(relations) ≥ numRelations`; it wrote `targets[idx]` per relation (the last one won) but
stored the WHOLE list as the table's `relationIDs`.  So a relation list naming one relation
component twice was accepted, `relIDs.length > numRel`, and once the overwritten target died an
unrelated `Add` on such an entity was rejected with `deadTarget`, because `findOrCreateTableAdd`
handed the stale pair back to `createTable`
(`Unsafe.NewEntityRel(ids, RelID(c, p1), RelID(c, p2)); RemoveEntity(p1); Unsafe.Add(e, pos)`
panicked "can't use a dead entity as relation target").

The repair (`var seen bitMask` in the first loop of `createTable`; `checkRelList` in the model)
REJECTS such a list with "relation component %d specified more than once" (`.relTwice`):
`createTable_rels_nodup`, `createTable_rejects_twice` above.  What the model says about the
history of the finding, exactly: the `NewEntity` panics `.relTwice`; `createTable` itself leaves
the state as it found it, but `findOrCreateTable` has already created the archetype `{0}` (Go:
`createArchetype` runs before `createTable`), which stays behind WITHOUT a table — as after every
other panic of `createTable` (e.g. `deadTarget`).  Tables, entity index, pool, cache and lock are
untouched, `SInv` holds, and a later well-formed creation uses the archetype. -/

/-- two entities (2, 3), relation component 0 and ordinary component 1 registered -/
def dupPre : World :=
  let w := World.init 1 1
  let w := (registerComponent { isRel := true } w).state
  let w := (registerComponent {} w).state
  let w := (opNewEntity0 noProbe w).state                                              -- entity 2
  (opNewEntity0 noProbe w).state                                                       -- entity 3

/-- the history of the finding: `NewEntity` naming relation component 0 twice (targets 2, 3) -/
def dupTry : Res World Ent :=
  opNewEntity noProbe .unsafe_ [0] [] [⟨0, ⟨2, 0⟩⟩, ⟨0, ⟨3, 0⟩⟩] dupPre

/-- the world the rejected call leaves behind -/
def dup0 : World := dupTry.state

/-- a well-formed creation afterwards (entity 4 with relation 0 → 3) -/
def dup1 : World := (opNewEntity noProbe .unsafe_ [0] [] [⟨0, ⟨3, 0⟩⟩] dup0).state

def panicOf {α : Type} (r : Res World α) : Option PanicKind :=
  match r with
  | .ok _ _ => none
  | .panic k _ => some k

/-- **the history of D18 is now rejected**: `relTwice`; no entity, no table was created; the
    archetype `{0}` created on the way stays, without tables -/
example :
    panicOf dupTry = some .relTwice ∧
    summary dupPre = ⟨[⟨[], [0], [], 0⟩], [⟨0, 2, false, []⟩]⟩ ∧
    summary dup0 = ⟨[⟨[], [0], [], 0⟩, ⟨[0], [], [], 1⟩], [⟨0, 2, false, []⟩]⟩ ∧
    dup0.tables = dupPre.tables ∧ dup0.entities = dupPre.entities ∧ dup0.pool = dupPre.pool ∧
    dup0.cache = dupPre.cache ∧ dup0.isLocked = false ∧
    dup0.alive ⟨2, 0⟩ = true ∧ dup0.alive ⟨3, 0⟩ = true ∧ dup0.alive ⟨4, 0⟩ = false := by
  decide +kernel

/-- the rejection at the level of `createTable` (archetype 1 = `{0}` of `dup0`): state unchanged;
    the same for a triple whose repetition is not adjacent; a list naming a non-column FIRST is
    the runtime panic as before; too short a list is `relUnspecified` as before -/
example :
    createTable 1 [⟨0, ⟨2, 0⟩⟩, ⟨0, ⟨3, 0⟩⟩] dup0 = .panic .relTwice dup0 ∧
    createTable 1 [⟨0, ⟨2, 0⟩⟩, ⟨0, ⟨2, 0⟩⟩] dup0 = .panic .relTwice dup0 ∧
    createTable 1 [⟨1, ⟨2, 0⟩⟩, ⟨0, ⟨2, 0⟩⟩, ⟨0, ⟨3, 0⟩⟩] dup0 = .panic .runtime dup0 ∧
    createTable 1 [⟨0, ⟨2, 0⟩⟩, ⟨1, ⟨2, 0⟩⟩, ⟨0, ⟨3, 0⟩⟩] dup0 = .panic .runtime dup0 ∧
    createTable 1 [] dup0 = .panic .relUnspecified dup0 :=
  ⟨createTable_of_check (by decide +kernel) (by decide +kernel),
   createTable_of_check (by decide +kernel) (by decide +kernel),
   createTable_of_check (by decide +kernel) (by decide +kernel),
   createTable_of_check (by decide +kernel) (by decide +kernel),
   createTable_of_short (by decide +kernel)⟩

/-- afterwards a well-formed creation is accepted and settles in the archetype left behind;
    removing the target and an unrelated `Add` then work (the `deadTarget` of D18 is gone) -/
example :
    panicOf (opNewEntity noProbe .unsafe_ [0] [] [⟨0, ⟨3, 0⟩⟩] dup0) = none ∧
    summary dup1 = ⟨[⟨[], [0], [], 0⟩, ⟨[0], [1], [], 1⟩],
      [⟨0, 2, false, []⟩, ⟨1, 1, false, [(0, 3)]⟩]⟩ ∧
    (dup1.arch 1).numRel = 1 ∧ (dup1.tbl 1).getRelation 0 = ⟨3, 0⟩ ∧
    panicOf (opRemoveEntity noProbe ⟨2, 0⟩ dup1) = none ∧
    panicOf (opAdd noProbe .unsafe_ ⟨4, 0⟩ [1] [] []
      (opRemoveEntity noProbe ⟨2, 0⟩ dup1).state) = none := by
  decide +kernel

/-- the structural invariant is not affected -/
example : SInv dup0 ∧ SInv dup1 := ⟨sinvB_sound (by decide +kernel), sinvB_sound (by decide +kernel)⟩

end Ark.Props.C01Struct
