/-
  C20 (word level) — the Go mask code, regenerated statement by statement into
  `Ark/Generated/Words.lean`, computes exactly the mask operations of the model.

  `bitMask256` (`[4]uint64`) is read as one 256-bit vector by `abs` (word 0 = bits 0…63) and
  `bitMask64` (`uint64`) by `abs64`; both are injective.  Every method of the two mask types —
  `Get Set Clear Not OrI Reset IsZero Contains ContainsAny Equals TotalBitsSet` and the
  constructors `newMask256` / `newMask64` — is the corresponding operation of `Ark.Mask` /
  `Ark.Mask64`; the dynamic array indices of `bitMask256` are in range for every `uint8`
  argument (no run-time panic).  A change of the Go mask code that alters its meaning changes the
  regenerated file and breaks one of these theorems.

  One hypothesis: `bitMask64.Get(bit)` with `bit ≥ 64` computes the mask `1 << bit = 0` and
  answers `true` (`mask64_get_out_of_range`), where the model's `Mask64.get` answers `false`;
  `mask64_get` therefore assumes `bit < 64`.  The tiny build never has a component ID ≥ 64 (its
  registry is full at 64 types).  `Set` / `Clear` with `bit ≥ 64` are no-ops in the Go code and
  in the model alike, and need no hypothesis.

  The `example`s at the end evaluate the generated code on masks with bits in every word.
-/
import Ark.Proofs.MaskWords

namespace Ark.Props.C20Words
open Ark Ark.Generated Ark.MaskWords

/-! ## `bitMask256` -/

theorem mask256_abs_injective : type_of% @Ark.MaskWords.abs_injective := @Ark.MaskWords.abs_injective
theorem mask256_get_inRange : type_of% @Ark.MaskWords.get_inRange := @Ark.MaskWords.get_inRange
theorem mask256_set_inRange : type_of% @Ark.MaskWords.set_inRange := @Ark.MaskWords.set_inRange
theorem mask256_clear_inRange : type_of% @Ark.MaskWords.clear_inRange := @Ark.MaskWords.clear_inRange
theorem mask256_get : type_of% @Ark.MaskWords.get_eq := @Ark.MaskWords.get_eq
theorem mask256_set : type_of% @Ark.MaskWords.set_eq := @Ark.MaskWords.set_eq
theorem mask256_clear : type_of% @Ark.MaskWords.clear_eq := @Ark.MaskWords.clear_eq
theorem mask256_not : type_of% @Ark.MaskWords.not_eq := @Ark.MaskWords.not_eq
theorem mask256_orI : type_of% @Ark.MaskWords.orI_eq := @Ark.MaskWords.orI_eq
theorem mask256_reset : type_of% @Ark.MaskWords.reset_eq := @Ark.MaskWords.reset_eq
theorem mask256_isZero : type_of% @Ark.MaskWords.isZero_eq := @Ark.MaskWords.isZero_eq
theorem mask256_contains : type_of% @Ark.MaskWords.contains_eq := @Ark.MaskWords.contains_eq
theorem mask256_containsAny : type_of% @Ark.MaskWords.containsAny_eq := @Ark.MaskWords.containsAny_eq
theorem mask256_equals : type_of% @Ark.MaskWords.equals_eq := @Ark.MaskWords.equals_eq
theorem mask256_totalBitsSet : type_of% @Ark.MaskWords.totalBitsSet_eq := @Ark.MaskWords.totalBitsSet_eq
theorem mask256_ofIDs : type_of% @Ark.MaskWords.ofIDs_eq := @Ark.MaskWords.ofIDs_eq

/-! ## `bitMask64` -/

theorem mask64_abs_injective : type_of% @Ark.MaskWords.abs64_injective := @Ark.MaskWords.abs64_injective
theorem mask64_get : type_of% @Ark.MaskWords.get64_eq := @Ark.MaskWords.get64_eq
theorem mask64_get_out_of_range : type_of% @Ark.MaskWords.get64_out_of_range := @Ark.MaskWords.get64_out_of_range
theorem mask64_set : type_of% @Ark.MaskWords.set64_eq := @Ark.MaskWords.set64_eq
theorem mask64_clear : type_of% @Ark.MaskWords.clear64_eq := @Ark.MaskWords.clear64_eq
theorem mask64_not : type_of% @Ark.MaskWords.not64_eq := @Ark.MaskWords.not64_eq
theorem mask64_orI : type_of% @Ark.MaskWords.orI64_eq := @Ark.MaskWords.orI64_eq
theorem mask64_reset : type_of% @Ark.MaskWords.reset64_eq := @Ark.MaskWords.reset64_eq
theorem mask64_isZero : type_of% @Ark.MaskWords.isZero64_eq := @Ark.MaskWords.isZero64_eq
theorem mask64_contains : type_of% @Ark.MaskWords.contains64_eq := @Ark.MaskWords.contains64_eq
theorem mask64_containsAny : type_of% @Ark.MaskWords.containsAny64_eq := @Ark.MaskWords.containsAny64_eq
theorem mask64_equals : type_of% @Ark.MaskWords.equals64_eq := @Ark.MaskWords.equals64_eq
theorem mask64_totalBitsSet : type_of% @Ark.MaskWords.totalBitsSet64_eq := @Ark.MaskWords.totalBitsSet64_eq
theorem mask64_ofIDs : type_of% @Ark.MaskWords.ofIDs64_eq := @Ark.MaskWords.ofIDs64_eq

/-! ## Non-vacuity: the generated code evaluated on masks with bits in every word -/

/-- IDs 0, 63, 64, 127, 128, 191, 192, 255: the first and last bit of each word. -/
private def m8 : M256 := M256.ofIDs [0#8, 63#8, 64#8, 127#8, 128#8, 191#8, 192#8, 255#8]
private def mLow : M256 := M256.ofIDs [63#8, 192#8]
private def mOther : M256 := M256.ofIDs [1#8, 65#8, 129#8, 193#8]

example : m8.bits = ⟨0x8000000000000001#64, 0x8000000000000001#64, 0x8000000000000001#64,
    0x8000000000000001#64⟩ := by decide
example : ([0#8, 63#8, 64#8, 127#8, 128#8, 191#8, 192#8, 255#8].map m8.Get) =
    [true, true, true, true, true, true, true, true] := by decide
example : ([1#8, 62#8, 65#8, 126#8, 129#8, 190#8, 193#8, 254#8].map m8.Get) =
    [false, false, false, false, false, false, false, false] := by decide
example : m8.Contains mLow = true ∧ mLow.Contains m8 = false := by decide
example : m8.ContainsAny mLow = true ∧ m8.ContainsAny mOther = false := by decide
example : m8.TotalBitsSet = 8 := by decide
example : m8.Not.TotalBitsSet = 248 := by decide
example : m8.Not.Get 255#8 = false ∧ m8.Not.Get 254#8 = true ∧ m8.Not.Get 1#8 = true := by decide
example : m8.Not.ContainsAny m8 = false ∧ (m8.OrI m8.Not).Not.IsZero = true := by decide
example : (m8.Clear 191#8).Get 191#8 = false ∧ (m8.Clear 191#8).Get 128#8 = true ∧
    (m8.Clear 191#8).TotalBitsSet = 7 := by decide
example : (m8.Clear 191#8).Equals m8 = false ∧ ((m8.Clear 191#8).Set 191#8).Equals m8 = true := by
  decide
example : (mLow.OrI mOther).TotalBitsSet = 6 ∧ m8.Reset.IsZero = true ∧ m8.IsZero = false := by
  decide

private def t4 : M64 := M64.ofIDs [0#8, 31#8, 32#8, 63#8]

example : t4.bits = 0x8000000180000001#64 := by decide
example : ([0#8, 31#8, 32#8, 63#8, 1#8, 62#8].map t4.Get) =
    [true, true, true, true, false, false] := by decide
example : t4.TotalBitsSet = 4 ∧ t4.Not.TotalBitsSet = 60 := by decide
example : t4.Contains (M64.ofIDs [31#8, 63#8]) = true ∧ t4.ContainsAny (M64.ofIDs [1#8]) = false ∧
    t4.ContainsAny (M64.ofIDs [1#8, 32#8]) = true := by decide
example : (t4.Clear 63#8).Get 63#8 = false ∧ (t4.Clear 63#8).TotalBitsSet = 3 := by decide
/-- beyond the width: `Set`/`Clear` do nothing, `Get` answers `true` (the caveat above). -/
example : (t4.Set 64#8).Equals t4 = true ∧ (t4.Clear 200#8).Equals t4 = true ∧
    t4.Get 64#8 = true ∧ (M64.ofIDs []).Get 255#8 = true := by decide

end Ark.Props.C20Words
