/-
  Ark.Proofs.RelRefineBatchSet — `SetRelationsBatch` as a step of the relation refinement machine
  (`RelRefineB.OpRB.setrelb`).

  * specification level: `specSetRelAll_ok` (closed form of the fold of the single `setrel` steps:
    the entries of the handles get the relations, whatever the order), `specSetRelAll_rej` (if no
    single step is valid the fold changes nothing), `specSetRelAll_frame`;
  * `HInv.setRelAll` — **any** world satisfying `SetRelAllPost` for a duplicate-free list of
    specified handles that keeps pool and mask width realises that closed form;
  * `step_setrelb` — the step: an expressible call whose precondition fails is rejected with
    nothing changed (the empty list: `noRelations`; a removed entity as target or a non-relation
    component: refused by the pre-validation); one whose precondition holds succeeds, the
    specification step is the fold of the single `SetRelations` steps over the selection, `HInvRB`
    is kept;
  * `runOps_setrels`, `setrelb_eq_singles` — **batch = singles** as steps of the machine.

  Kernel-only proofs, core Lean only.
-/
import Ark.Proofs.RelRefineBatchDel
import Ark.Proofs.RelRefineBatchSetMore

set_option autoImplicit false

namespace Ark

open World Ark.Props.C01World QueryRel

namespace RelRefineB

open RelRefine
open Refine (Comps keys sortedIds writeComps zeros)

/-! ## specification level -/

/-- an entry after `SetRelations(rels…)` -/
def setEntry (rels : Rels) (en : Entry) : Entry := { en with rels := setRels en.rels rels }

/-- the part of the precondition of `SetRelations` that concerns the entry only -/
def LocalOK (en : Entry) (rels : Rels) : Prop :=
  rels ≠ [] ∧ (rels.map (·.comp)).Nodup ∧ ∀ r ∈ rels, r.comp ∈ en.rels.map (·.comp)

theorem targetsValid_of_keys {s s' : Spec} {rels : Rels} (hk : s'.map (·.1) = s.map (·.1))
    (h : TargetsValid s rels) : TargetsValid s' rels := by
  intro r hr
  rcases h r hr with k | k
  · exact Or.inl k
  · right
    rw [find_isSome_iff] at k ⊢
    rw [hk]; exact k

theorem upd_eq_map (s : Spec) (e : Ent) (f : Entry → Entry) :
    upd s e f = s.map fun x => if x.1 = e then (x.1, f x.2) else x := rfl

theorem specSetRelAll_zst (ss : SS) (p : Path) (rels : Rels) (es : List Ent) :
    (specSetRelAll ss p rels es).zst = ss.zst ∧ (specSetRelAll ss p rels es).isRel = ss.isRel := by
  induction es generalizing ss with
  | nil => exact ⟨rfl, rfl⟩
  | cons e es ih =>
    show (specSetRelAll (specStep ss default (.setrel p e rels)) p rels es).zst = ss.zst ∧
      (specSetRelAll (specStep ss default (.setrel p e rels)) p rels es).isRel = ss.isRel
    rw [(ih _).1, (ih _).2]
    simp only [specStep]
    split
    · exact ⟨rfl, rfl⟩
    · split <;> exact ⟨rfl, rfl⟩

/-- **the fold of valid single `SetRelations` steps, in closed form** (independent of the order) -/
theorem specSetRelAll_ok (p : Path) (rels : Rels) : ∀ (es : List Ent) (ss : SS),
    (ss.ents.map (·.1)).Nodup → es.Nodup → TargetsValid ss.ents rels →
    (∀ e ∈ es, ∃ en, find ss.ents e = some en ∧ LocalOK en rels) →
    (specSetRelAll ss p rels es).ents =
      ss.ents.map fun x => if x.1 ∈ es then (x.1, setEntry rels x.2) else x
  | [], ss, _, _, _, _ => by
    show ss.ents = _
    simp only [List.not_mem_nil, if_false, List.map_id']
  | e :: es, ss, hnd, hes, hv, hall => by
    show (specSetRelAll (specStep ss default (.setrel p e rels)) p rels es).ents = _
    obtain ⟨hne, hes'⟩ := List.nodup_cons.mp hes
    obtain ⟨en, hf, hloc⟩ := hall e List.mem_cons_self
    have hok : SetRelOK ss en rels := ⟨hloc.1, hloc.2.1, hloc.2.2, hv⟩
    have h1 : specStep ss default (.setrel p e rels) =
        { ss with ents := upd ss.ents e (setEntry rels) } := by
      simp only [specStep, hf, if_pos hok]; rfl
    rw [h1]
    have hk : (upd ss.ents e (setEntry rels)).map (·.1) = ss.ents.map (·.1) := upd_keys _ _ _
    have ih := specSetRelAll_ok p rels es { ss with ents := upd ss.ents e (setEntry rels) }
      (by show ((upd ss.ents e (setEntry rels)).map (·.1)).Nodup; rw [hk]; exact hnd) hes'
      (targetsValid_of_keys hk hv)
      (by
        intro e' he'
        obtain ⟨en', hf', hloc'⟩ := hall e' (List.mem_cons_of_mem _ he')
        have hne' : e' ≠ e := fun hh => hne (hh ▸ he')
        refine ⟨en', ?_, hloc'⟩
        show find (upd ss.ents e (setEntry rels)) e' = some en'
        rw [find_upd_ne _ _ hne']; exact hf')
    rw [ih]
    show (upd ss.ents e (setEntry rels)).map _ = _
    rw [upd_eq_map, List.map_map]
    apply List.map_congr_left
    intro x _
    simp only [Function.comp]
    by_cases hx : x.1 = e
    · rw [if_pos hx]
      have h2 : x.1 ∉ es := hx ▸ hne
      rw [if_neg h2, if_pos (by rw [hx]; exact List.mem_cons_self)]
    · rw [if_neg hx]
      by_cases h2 : x.1 ∈ es
      · rw [if_pos h2, if_pos (List.mem_cons_of_mem _ h2)]
      · rw [if_neg h2, if_neg (fun hh => by
          rcases List.mem_cons.mp hh with k | k
          · exact hx k
          · exact h2 k)]

/-- if no single step is valid, the fold changes nothing -/
theorem specSetRelAll_rej (p : Path) (rels : Rels) : ∀ (es : List Ent) (ss : SS),
    (∀ e ∈ es, ∀ en, find ss.ents e = some en → ¬ SetRelOK ss en rels) →
    specSetRelAll ss p rels es = ss
  | [], _, _ => rfl
  | e :: es, ss, hall => by
    show specSetRelAll (specStep ss default (.setrel p e rels)) p rels es = ss
    have h1 : specStep ss default (.setrel p e rels) = ss := by
      simp only [specStep]
      cases hf : find ss.ents e with
      | none => rfl
      | some en => simp only [if_neg (hall e List.mem_cons_self en hf)]
    rw [h1]
    exact specSetRelAll_rej p rels es ss (fun e' he' => hall e' (List.mem_cons_of_mem _ he'))

/-- **frame** (specification): the fold changes only the entries of the handles of `es` -/
theorem specSetRelAll_frame (p : Path) (rels : Rels) (x : Ent) : ∀ (es : List Ent) (ss : SS),
    x ∉ es → find (specSetRelAll ss p rels es).ents x = find ss.ents x
  | [], _, _ => rfl
  | e :: es, ss, hx => by
    show find (specSetRelAll (specStep ss default (.setrel p e rels)) p rels es).ents x = _
    simp only [List.mem_cons, not_or] at hx
    rw [specSetRelAll_frame p rels x es _ hx.2]
    simp only [specStep]
    cases hf : find ss.ents e with
    | none => rfl
    | some en =>
      by_cases hok : SetRelOK ss en rels
      · simp only [if_pos hok]; exact find_upd_ne _ _ hx.1
      · simp only [if_neg hok]

/-- the closed form depends on the set of handles only -/
theorem specSetRelAll_perm {ss : SS} (p : Path) (rels : Rels) (hnd : (ss.ents.map (·.1)).Nodup)
    {es es' : List Ent} (hes : es.Nodup) (hes' : es'.Nodup) (hv : TargetsValid ss.ents rels)
    (hall : ∀ e ∈ es, ∃ en, find ss.ents e = some en ∧ LocalOK en rels)
    (hmem : ∀ (e : Ent), e ∈ es ↔ e ∈ es') :
    specSetRelAll ss p rels es = specSetRelAll ss p rels es' := by
  have h1 := specSetRelAll_ok p rels es ss hnd hes hv hall
  have h2 := specSetRelAll_ok p rels es' ss hnd hes' hv (fun e he => hall e ((hmem e).mpr he))
  have h3 : (specSetRelAll ss p rels es).ents = (specSetRelAll ss p rels es').ents := by
    rw [h1, h2]
    apply List.map_congr_left
    intro x _
    simp only [hmem]
  have h4 := specSetRelAll_zst ss p rels es
  have h5 := specSetRelAll_zst ss p rels es'
  cases hA : specSetRelAll ss p rels es
  cases hB : specSetRelAll ss p rels es'
  rw [hA] at h3 h4
  rw [hB] at h3 h5
  simp only at h3 h4 h5
  rw [h3, h4.1, h4.2, h5.1, h5.2]

/-! ## any world that assigned `rels` to `es` realises the fold of the single assignments -/

/-- **the assignment to a duplicate-free list of specified handles keeps the invariant**, whatever
    produced the world (`SetRelAllPost`, pool and mask width kept) -/
theorem HInv.setRelAll {s : St} {fl : List Nat} (H : HInv s fl) {es : List Ent} {rels : Rels}
    {w' : World} (hsub : ∀ e ∈ es, e ∈ s.ss.ents.map (·.1))
    (hv : TargetsValid s.ss.ents rels) (post : SetRelAllPost s.w fl es rels w')
    (hpool : w'.pool = s.w.pool) (hmax : w'.maxComps = s.w.maxComps) :
    HInv ⟨w', s.issued,
      ⟨s.ss.ents.map fun x => if x.1 ∈ es then (x.1, setEntry rels x.2) else x, s.ss.zst,
        s.ss.isRel⟩⟩ fl := by
  have hkeys : (s.ss.ents.map fun x => if x.1 ∈ es then (x.1, setEntry rels x.2) else x).map (·.1) =
      s.ss.ents.map (·.1) := by
    rw [List.map_map]
    apply List.map_congr_left
    intro x _
    simp only [Function.comp]
    split <;> rfl
  have hid : ∀ (x : Ent) (en : Entry), (x, en) ∈ s.ss.ents → x ∉ es → x.id ∉ es.map (·.id) := by
    intro x en hx hne hmm
    obtain ⟨e, he, heq⟩ := List.mem_map.mp hmm
    obtain ⟨y, hy, hy1⟩ := List.mem_map.mp (hsub e he)
    have : e = x := H.id_inj (show (e, y.2) ∈ s.ss.ents from hy1 ▸ hy) hx heq
    exact hne (this ▸ he)
  -- the members of the new specification
  have hmem : ∀ (x : Ent) (en' : Entry),
      (x, en') ∈ (s.ss.ents.map fun x => if x.1 ∈ es then (x.1, setEntry rels x.2) else x) →
      ∃ en, (x, en) ∈ s.ss.ents ∧
        ((x ∈ es ∧ en' = setEntry rels en) ∨ (x ∉ es ∧ en' = en)) := by
    intro x en' hx
    obtain ⟨y, hy, heq⟩ := List.mem_map.mp hx
    by_cases hy1 : y.1 ∈ es
    · rw [if_pos hy1] at heq
      injection heq with h1 h2
      subst h1
      exact ⟨y.2, hy, Or.inl ⟨hy1, h2.symm⟩⟩
    · rw [if_neg hy1] at heq
      subst heq
      exact ⟨_, hy, Or.inr ⟨hy1, rfl⟩⟩
  exact
    { tinv := post.tinv
      ginv := by
        have : (⟨w', s.issued, ⟨s.ss.ents.map fun x =>
            if x.1 ∈ es then (x.1, setEntry rels x.2) else x, s.ss.zst, s.ss.isRel⟩⟩ : St).ps =
            s.ps := by
          simp only [St.ps, hpool, hkeys]
        rw [this]; exact H.ginv
      unlocked := by
        show w'.isLocked = false
        rw [post.unlocked]; exact H.unlocked
      noObs := fun evt => by show w'.obs.hasObservers evt = false; rw [post.obs]; exact H.noObs evt
      nodup := H.nodup
      zstEq := by show s.ss.zst = w'.kinds.map (·.zst); rw [post.kinds]; exact H.zstEq
      relEq := by show s.ss.isRel = w'.kinds.map (·.isRel); rw [post.kinds]; exact H.relEq
      maxc := hmax.trans H.maxc
      ok := by
        intro x en' hx
        show EntOK w' w'.kinds.length s.ss.isRel x en'
        rw [post.kinds]
        obtain ⟨en, hx0, hcase⟩ := hmem x en' hx
        have ok := H.ok x en hx0
        rcases hcase with ⟨hin, h2⟩ | ⟨hnin, h2⟩
        · subst h2
          exact
            { nodup := ok.nodup
              reg := ok.reg
              comps := by rw [(post.same x.id).2]; exact ok.comps
              vals := fun cv hcv => by rw [(post.same x.id).1]; exact ok.vals cv hcv
              relNodup := by
                show ((setRels en.rels rels).map (·.comp)).Nodup
                rw [setRels_comps]; exact ok.relNodup
              relKeys := by
                intro c
                show c ∈ (setRels en.rels rels).map (·.comp) ↔ _
                rw [setRels_comps]; exact ok.relKeys c
              tgts := by
                intro r hr
                rcases mem_setRels (show r ∈ setRels en.rels rels from hr) with ⟨h1, _⟩ | ⟨h1, h3⟩
                · exact post.targets x hin r h1
                · rw [post.otherTargets x hin r.comp h3]; exact ok.tgts r h1 }
        · rw [h2]
          exact ok.frame (post.same x.id) (post.frame x.id (hid x en hx0 hnin))
      tgtsOK := by
        intro x en' hx r hr
        have key : r.target.isZero = true ∨ (find s.ss.ents r.target).isSome = true := by
          obtain ⟨en, hx0, hcase⟩ := hmem x en' hx
          rcases hcase with ⟨_, h2⟩ | ⟨_, h2⟩
          · subst h2
            rcases mem_setRels (show r ∈ setRels en.rels rels from hr) with ⟨h1, _⟩ | ⟨h1, _⟩
            · exact hv r h1
            · exact H.tgtsOK x en hx0 r h1
          · rw [h2] at hr
            exact H.tgtsOK x en hx0 r hr
        rcases key with k | k
        · exact Or.inl k
        · right
          rw [find_isSome_iff] at k ⊢
          rw [hkeys]; exact k }

/-! ## the step -/

theorem stepRB_setrelb_of_ok (run : ProbeRunner) {s : St} {p : Path} {f : Filter}
    {frels rels : Rels} (hg : guardRB s (.setrelb p f frels rels) = true) {w' : World}
    (hop : opSetRelationsBatch run p (foOf f frels) [] (rels.map (·.comp)) rels false s.w =
      .ok () w') :
    stepRB run s (.setrelb p f frels rels) =
      ⟨w', s.issued, specStepRB s.ss [] (.setrelb p f frels rels)⟩ := by
  show stepBatch run s (.setrelb p f frels rels) = _
  simp only [stepBatch, hg, if_true, execRB, hop, Res.state, retRB, List.reverse_nil,
    List.nil_append]

/-- reading the guard of `setrelb` -/
theorem guard_setrelb {s : St} {p : Path} {f : Filter} {frels rels : Rels}
    (hg : guardRB s (.setrelb p f frels rels) = true) :
    frelsExpr s.ss f frels = true ∧ tgtsExpr s rels = true ∧
      (rels = [] ∨ ((rels.map (·.comp)).Nodup ∧ ∀ r ∈ rels, f.mask.get r.comp = true)) := by
  simp only [guardRB, Bool.and_eq_true, Bool.or_eq_true, List.all_eq_true, decide_eq_true_eq,
    List.isEmpty_iff] at hg
  exact ⟨hg.1.1, hg.1.2, hg.2⟩

/-- a registered relation component has an ID below the mask width -/
theorem isRel_lt {s : St} {fl : List Nat} (H : HInv s fl) {c : Comp}
    (h : s.ss.isRel.getD c false = true) : c < 256 := by
  rcases Nat.lt_or_ge c s.ss.isRel.length with h1 | h1
  · have : s.ss.isRel.length = s.w.kinds.length := by rw [H.relEq, List.length_map]
    exact H.reg256 (this ▸ h1)
  · simp [List.getD_eq_getElem?_getD, List.getElem?_eq_none h1] at h

/-- for a valid call every selected entry has the relation components named -/
theorem localOK_of_match {s : St} {fl : List Nat} (H : HInv s fl) {f : Filter} {frels rels : Rels}
    (hne : rels ≠ []) (hnd : (rels.map (·.comp)).Nodup)
    (hmask : ∀ r ∈ rels, f.mask.get r.comp = true)
    (hrel : ∀ r ∈ rels, s.ss.isRel.getD r.comp false = true) {e : Ent} {en : Entry}
    (hm : (e, en) ∈ s.ss.ents) (hmatch : entryMatches f frels en = true) : LocalOK en rels := by
  refine ⟨hne, hnd, fun r hr => ?_⟩
  have ok := H.ok e en hm
  simp only [entryMatches, Bool.and_eq_true] at hmatch
  have h1 := ((Filter.matchesMask_iff f _).mp hmatch.1).1 r.comp (hmask r hr)
  rw [Mask.get_ofList] at h1
  simp only [Bool.and_eq_true, decide_eq_true_eq] at h1
  exact (ok.relKeys r.comp).mpr ⟨h1.2, hrel r hr⟩

/-- **`SetRelationsBatch` as a step of the machine.** -/
theorem step_setrelb (run : ProbeRunner) {s : St} {fl : List Nat} (H : HInvRB s fl) (p : Path)
    (f : Filter) (frels rels : Rels) (hg : guardRB s (.setrelb p f frels rels) = true)
    (hroom : Room s (.setrelb p f frels rels)) :
    (¬ preRB s.ss (.setrelb p f frels rels) →
      (∃ k, opSetRelationsBatch run p (foOf f frels) [] (rels.map (·.comp)) rels false s.w =
        .panic k s.w) ∧ stepRB run s (.setrelb p f frels rels) = s) ∧
    (preRB s.ss (.setrelb p f frels rels) →
      ∃ w' : World,
        opSetRelationsBatch run p (foOf f frels) [] (rels.map (·.comp)) rels false s.w = .ok () w' ∧
        stepRB run s (.setrelb p f frels rels) =
          ⟨w', s.issued, specStepRB s.ss [] (.setrelb p f frels rels)⟩ ∧
        SetRelAllPost s.w fl (selEnts s.w f frels) rels w' ∧ SetRelAllMore s.w w' ∧
        specStepRB s.ss [] (.setrelb p f frels rels) =
          specSetRelAll s.ss p rels (selEnts s.w f frels) ∧
        (specStepRB s.ss [] (.setrelb p f frels rels)).ents = (s.ss.ents.map fun x =>
          if x.1 ∈ matching s.ss f frels then (x.1, setEntry rels x.2) else x) ∧
        HInvRB (stepRB run s (.setrelb p f frels rels)) fl) := by
  have h := H.hinv.tinv
  obtain ⟨hgx, hx, hcase⟩ := guard_setrelb hg
  obtain ⟨hfew, hrows⟩ := hroom
  have hnd := H.hinv.ginv.live_nodup
  obtain ⟨ts, hts, S, hsel, hiff, hids, hlen⟩ := sel_spec H hgx
  constructor
  · -- rejected
    intro hnp
    have hrej : ∀ {k : PanicKind},
        opSetRelationsBatch run p (foOf f frels) [] (rels.map (·.comp)) rels false s.w =
          .panic k s.w →
        (∀ e ∈ matching s.ss f frels, ∀ en, find s.ss.ents e = some en → ¬ SetRelOK s.ss en rels) →
        (∃ k, opSetRelationsBatch run p (foOf f frels) [] (rels.map (·.comp)) rels false s.w =
          .panic k s.w) ∧ stepRB run s (.setrelb p f frels rels) = s := by
      intro k hop hall
      refine ⟨⟨k, hop⟩, ?_⟩
      show stepBatch run s (.setrelb p f frels rels) = s
      simp only [stepBatch, hg, if_true, execRB, hop, Res.state, retRB, List.reverse_nil,
        List.nil_append, specStepRB]
      rw [specSetRelAll_rej p rels _ s.ss hall]
    by_cases hne : rels = []
    · subst hne
      exact hrej (opSetRelationsBatch_noRelations run p (foOf f frels) [] s.w H.hinv.unlocked)
        (fun e _ en _ hok => hok.1 rfl)
    · -- a relation the pre-validation refuses
      have hbad : ∃ r ∈ rels, (relVerdict s.w (checkMask p (rels.map (·.comp))) r).isSome = true := by
        by_cases hv : TargetsValid s.ss.ents rels
        · have hnr : ¬ ∀ r ∈ rels, s.ss.isRel.getD r.comp false = true := fun hh => hnp ⟨hne, hh, hv⟩
          have : ∃ r ∈ rels, ¬ s.ss.isRel.getD r.comp false = true := by
            apply Classical.byContradiction
            intro hh
            apply hnr
            intro r hr
            apply Classical.byContradiction
            intro hr'
            exact hh ⟨r, hr, hr'⟩
          obtain ⟨r, hr, hb⟩ := this
          refine ⟨r, hr, ?_⟩
          cases hvd : relVerdict s.w (checkMask p (rels.map (·.comp))) r with
          | some k => rfl
          | none =>
            have := (relVerdict_none_iff.mp hvd).2.1
            rw [← H.hinv.rget] at this
            exact absurd this hb
        · obtain ⟨r, hr, hz, hd⟩ := dead_of_invalid' H.hinv hx hv
          exact ⟨r, hr, by rw [relVerdict_dead _ hz hd]; rfl⟩
      obtain ⟨r, hr, hb⟩ := hbad
      have hs := relsVerdict_isSome hr hb
      cases hvd : relsVerdict s.w (checkMask p (rels.map (·.comp))) rels with
      | none => rw [hvd] at hs; cases hs
      | some k =>
        refine hrej (opSetRelationsBatch_refused run p (foOf f frels) [] _ rels s.w hvd) ?_
        intro e he en hf hok
        -- a valid single step would make the precondition of the batch hold
        apply hnp
        refine ⟨hne, fun r' hr' => ?_, hok.2.2.2⟩
        have ok := H.hinv.ok e en (find_some_mem hf)
        exact ((ok.relKeys r'.comp).mp (hok.2.2.1 r' hr')).2
  · -- accepted
    rintro ⟨hne, hrel, hv⟩
    obtain ⟨hrnd, hmask⟩ : (rels.map (·.comp)).Nodup ∧ ∀ r ∈ rels, f.mask.get r.comp = true := by
      rcases hcase with k | k
      · exact absurd k hne
      · exact k
    have hemp : rels.isEmpty = false := by
      cases rels with
      | nil => exact absurd rfl hne
      | cons _ _ => rfl
    have hrc : ∀ r ∈ rels, s.w.isRelComp r.comp = true := fun r hr => by
      rw [← H.hinv.rget]; exact hrel r hr
    have hval := H.hinv.targets_alive hv
    -- the pre-validation passes
    have hverd : relsVerdict s.w (checkMask p (rels.map (·.comp))) rels = none := by
      simp only [relsVerdict]
      rw [List.findSome?_eq_none_iff]
      intro r hr
      rw [relVerdict_none_iff]
      refine ⟨hval r hr, hrc r hr, fun mm hmm => ?_⟩
      cases p with
      | map1 => cases hmm
      | unsafe_ =>
        injection hmm with hmm
        rw [← hmm, Mask.get_ofList]
        simp only [Bool.and_eq_true, decide_eq_true_eq]
        exact ⟨isRel_lt H.hinv (hrel r hr), List.mem_map.mpr ⟨r, hr, rfl⟩⟩
      | typed =>
        injection hmm with hmm
        rw [← hmm, Mask.get_ofList]
        simp only [Bool.and_eq_true, decide_eq_true_eq]
        exact ⟨isRel_lt H.hinv (hrel r hr), List.mem_map.mpr ⟨r, hr, rfl⟩⟩
    have heq := opSetRelationsBatch_ok_eq run p (foOf f frels) [] (rels.map (·.comp)) rels s.w hverd
    obtain ⟨lf, hlinv⟩ := H.lock
    obtain ⟨l1, b, l2, lf2, hcyc, heql, hl2inv⟩ := QueryExact.LockCycle.of_linv hlinv (by simp)
    have hl2 : l2.isLocked = false := by
      have : s.w.locks.isLocked = false := H.hinv.unlocked
      simp only [Lock.isLocked] at this ⊢
      rw [heql]; exact this
    have hr := relsTyped_of_expr H.hinv hgx
    have hrt : RelsTyped s.w (foOf f frels).filter rels := fun r hr' => ⟨hrc r hr', hmask r hr'⟩
    have hcols : ∀ (t : Nat), t < s.w.tables.length →
        TblMatch s.w (foOf f frels).filter ((foOf f frels).rels ++ []) t → (s.w.tbl t).len ≠ 0 →
        RelCols (s.w.tbl t) rels :=
      fun t hlt hm _ => relCols_of_typed h.rel.sinv.toSInvMid hrt hlt hm.1
    obtain ⟨ts2, w', hts2, hb, pb, hlk⟩ := setRelationsBatch_rel_spec run h H.hinv.unlocked
      H.hinv.noObs (foOf f frels) [] rfl hr hemp hrnd hcols hval (H.hinv.targets_in hv) hcyc hl2
      hfew hrows
    have more := setRelationsBatch_rel_more run h H.hinv.unlocked H.hinv.noObs (foOf f frels) [] rfl
      hr hemp hrnd hcols hval hcyc hfew hrows hb
    rw [hts] at hts2
    injection hts2 with e1 _
    subst e1
    rw [← hsel] at pb
    have hop : opSetRelationsBatch run p (foOf f frels) [] (rels.map (·.comp)) rels false s.w =
        .ok () w' := by rw [heq]; exact hb
    have hstep := stepRB_setrelb_of_ok run hg hop
    have hloc : ∀ (e : Ent) (en : Entry), (e, en) ∈ s.ss.ents → entryMatches f frels en = true →
        LocalOK en rels := fun e en hm hmm => localOK_of_match H.hinv hne hrnd hmask hrel hm hmm
    have hallM : ∀ e ∈ matching s.ss f frels, ∃ en, find s.ss.ents e = some en ∧ LocalOK en rels := by
      intro e he
      obtain ⟨en, hm, hmm⟩ := mem_matching.mp he
      exact ⟨en, find_of_mem hnd hm, hloc e en hm hmm⟩
    have hspec : specStepRB s.ss [] (.setrelb p f frels rels) =
        specSetRelAll s.ss p rels (selEnts s.w f frels) :=
      specSetRelAll_perm p rels hnd (matching_nodup hnd f frels) (nodup_of_ids hids) hv hallM
        (fun e => (hiff e).symm)
    have hents : (specStepRB s.ss [] (.setrelb p f frels rels)).ents = (s.ss.ents.map fun x =>
        if x.1 ∈ matching s.ss f frels then (x.1, setEntry rels x.2) else x) :=
      specSetRelAll_ok p rels _ s.ss hnd (matching_nodup hnd f frels) hv hallM
    refine ⟨w', hop, hstep, pb, more, hspec, hents, ?_⟩
    rw [hstep]
    have hz := specSetRelAll_zst s.ss p rels (matching s.ss f frels)
    have hsseq : specStepRB s.ss [] (.setrelb p f frels rels) =
        ⟨s.ss.ents.map fun x => if x.1 ∈ matching s.ss f frels then (x.1, setEntry rels x.2) else x,
          s.ss.zst, s.ss.isRel⟩ := by
      cases hA : specStepRB s.ss [] (.setrelb p f frels rels) with
      | mk a b c =>
        rw [hA] at hents
        have hz' : (specStepRB s.ss [] (.setrelb p f frels rels)).zst = s.ss.zst ∧
            (specStepRB s.ss [] (.setrelb p f frels rels)).isRel = s.ss.isRel := hz
        rw [hA] at hz'
        simp only at hents hz'
        rw [hents, hz'.1, hz'.2]
    rw [hsseq]
    have pbM : SetRelAllPost s.w fl (matching s.ss f frels) rels w' :=
      { pb with
        targets := fun e he => pb.targets e ((hiff e).mpr he)
        otherTargets := fun e he => pb.otherTargets e ((hiff e).mpr he)
        frame := fun j hj => pb.frame j (fun hh => hj (by
          obtain ⟨e, he, rfl⟩ := List.mem_map.mp hh
          exact List.mem_map.mpr ⟨e, (hiff e).mp he, rfl⟩)) }
    exact ⟨HInv.setRelAll H.hinv (fun e he => matching_sub he) hv pbM more.pool more.maxComps,
      pb.qk.rows H.rows, lf2, by rw [hlk]; exact hl2inv⟩

/-! ## batch = singles, as steps of the machine -/

/-- the pre-validation of `SetRelations` / `SetRelationsBatch` passes: targets zero or alive,
    relation components (the membership test is against the components named themselves) -/
theorem relsVerdict_none_self {w : World} (q : Path) {rels : Rels}
    (hval : ∀ r ∈ rels, r.target.isZero = true ∨ w.alive r.target = true)
    (hrc : ∀ r ∈ rels, w.isRelComp r.comp = true ∧ r.comp < 256) :
    relsVerdict w (checkMask q (rels.map (·.comp))) rels = none := by
  simp only [relsVerdict]
  rw [List.findSome?_eq_none_iff]
  intro r hr
  rw [relVerdict_none_iff]
  refine ⟨hval r hr, (hrc r hr).1, fun mm hmm => ?_⟩
  cases q with
  | map1 => cases hmm
  | unsafe_ =>
    injection hmm with hmm
    rw [← hmm, Mask.get_ofList]
    simp only [Bool.and_eq_true, decide_eq_true_eq]
    exact ⟨(hrc r hr).2, List.mem_map.mpr ⟨r, hr, rfl⟩⟩
  | typed =>
    injection hmm with hmm
    rw [← hmm, Mask.get_ofList]
    simp only [Bool.and_eq_true, decide_eq_true_eq]
    exact ⟨(hrc r hr).2, List.mem_map.mpr ⟨r, hr, rfl⟩⟩

/-- the run of `setrel p e rels` over issued handles: if the single assignments succeed
    (`setRelSeq`, hypotheses of `setRelSeq_post`), the machine reaches the world they leave, the
    same handles, and the fold of the single specification steps; the pool is untouched -/
theorem runOps_setrels (run : ProbeRunner) (p : Path) {rels : Rels} (hne : rels.isEmpty = false)
    (hnd : (rels.map (·.comp)).Nodup) : ∀ (es : List Ent) (s : St) {fl : List Nat},
    TInv s.w fl → s.w.isLocked = false → (∀ (evt : Nat), s.w.obs.hasObservers evt = false) →
    (∀ (e : Ent), e ∈ es → 2 ≤ e.id ∧ e.id ∉ fl ∧ s.w.alive e = true ∧
      ∀ (r : RelID), r ∈ rels → (targetOf s.w e.id r.comp).isSome = true) →
    (∀ (e : Ent), e ∈ es → e.id < s.w.pool.ents.length) → (es.map (·.id)).Nodup →
    (∀ (r : RelID), r ∈ rels → r.target.isZero = true ∨ s.w.alive r.target = true) →
    (∀ (r : RelID), r ∈ rels → r.target.id < s.w.pool.ents.length) →
    (∀ (r : RelID), r ∈ rels → s.w.isRelComp r.comp = true ∧ r.comp < 256) →
    s.w.tables.length + es.length < maxU32 → s.w.entities.length + 1 < 2 ^ 32 →
    (∀ e ∈ es, e ∈ s.issued) → tgtsExpr s rels = true →
    ∀ (w'' : World), setRelSeq run es rels s.w = .ok () w'' →
    runOps run s (es.map fun e => .setrel p e rels) =
      ⟨w'', s.issued, specSetRelAll s.ss p rels es⟩ ∧ w''.pool = s.w.pool
  | [], s, fl, _, _, _, _, _, _, _, _, _, _, _, _, _, w'', h => by
    simp only [setRelSeq, M.forM', pure, M.pure] at h
    injection h with _ hw
    subst hw
    exact ⟨rfl, rfl⟩
  | e :: es, s, fl, h, hl, hno, hlive, hlin, hndi, hval, htin, hrc, hfew, hrows, hi, hx, w'', hseq => by
    obtain ⟨h2, hnf, ha, hhas⟩ := hlive e List.mem_cons_self
    have hsl := hlin e List.mem_cons_self
    have hnd' : e.id ∉ es.map (·.id) ∧ (es.map (·.id)).Nodup := by
      rw [List.map_cons] at hndi; exact List.nodup_cons.mp hndi
    have hfew1 : s.w.tables.length < maxU32 := by simp only [List.length_cons] at hfew; omega
    simp only [setRelSeq, M.forM', bind, M.bind] at hseq
    cases hcore : setRelationsCore run e rels s.w with
    | panic k w1 => rw [hcore] at hseq; cases hseq
    | ok u w1 =>
      rw [hcore] at hseq
      have sp := setRelationsCore_spec run h hl hno h2 hnf ha hsl hne hnd hhas htin hfew1 hrows hcore
      have more := setRelationsCore_more run h hl hno h2 hnf ha hsl hne hnd hhas hcore
      have hpre : preCheck p.setRelCheck (rels.map (·.comp)) rels s.w = .ok () s.w := by
        rw [preCheck_eq, relsVerdict_none_self p.setRelCheck hval hrc]
      have hop : opSetRelations run p e (rels.map (·.comp)) rels s.w = .ok () w1 := by
        simp only [opSetRelations, bind, M.bind, hpre, hcore]
      have hg : guard s (.setrel p e rels) = true := by
        simp only [RelRefine.guard, Bool.and_eq_true, decide_eq_true_eq]
        exact ⟨hi e List.mem_cons_self, hx⟩
      have hst : step run s (.setrel p e rels) =
          ⟨w1, s.issued, specStep s.ss default (.setrel p e rels)⟩ := by
        rw [step_of_guard hg]
        simp only [exec, hop, Res.state, retOf, issuedAfter, Option.getD_none]
      have hplen : w1.pool.ents.length = s.w.pool.ents.length := by rw [more.pool]
      have hne' : ∀ (e' : Ent), e' ∈ es → e'.id ≠ e.id := by
        intro e' he' heq
        exact hnd'.1 (heq ▸ List.mem_map_of_mem he')
      have hlive1 : ∀ (e' : Ent), e' ∈ es → 2 ≤ e'.id ∧ e'.id ∉ fl ∧ w1.alive e' = true ∧
          ∀ (r : RelID), r ∈ rels → (targetOf w1 e'.id r.comp).isSome = true := by
        intro e' he'
        obtain ⟨a, b, c, d⟩ := hlive e' (List.mem_cons_of_mem _ he')
        refine ⟨a, b, by rw [sp.aliveSame]; exact c, fun r hr => ?_⟩
        rw [(sp.frame e'.id (hne' e' he')).2 r.comp]; exact d r hr
      obtain ⟨ih1, ih2⟩ := runOps_setrels run p hne hnd es
        ⟨w1, s.issued, specStep s.ss default (.setrel p e rels)⟩ (fl := fl) sp.tinv
        (by show w1.locks.isLocked = false; rw [sp.locks]; exact hl)
        (fun evt => by show w1.obs.hasObservers evt = false; rw [sp.obs]; exact hno evt) hlive1
        (fun e' he' => by
          show e'.id < w1.pool.ents.length
          rw [hplen]; exact hlin e' (List.mem_cons_of_mem _ he')) hnd'.2
        (fun r hr => by show _ ∨ w1.alive r.target = true; rw [sp.aliveSame]; exact hval r hr)
        (fun r hr => by show r.target.id < w1.pool.ents.length; rw [hplen]; exact htin r hr)
        (fun r hr => by
          show w1.isRelComp r.comp = true ∧ _
          simp only [World.isRelComp, sp.kinds]
          exact hrc r hr)
        (by
          show w1.tables.length + es.length < maxU32
          have := sp.tablesLen; simp only [List.length_cons] at hfew; omega)
        (by show w1.entities.length + 1 < 2 ^ 32; rw [sp.entitiesLen]; exact hrows)
        (fun e' he' => hi e' (List.mem_cons_of_mem _ he')) hx w'' hseq
      refine ⟨?_, ih2.trans more.pool⟩
      show runOps run (step run s (.setrel p e rels)) (es.map fun e => .setrel p e rels) = _
      rw [hst]
      exact ih1

/-- **`SetRelationsBatch` = the single `SetRelations`** (C06, as steps of the machine): for a
    valid call within the size bound of the singles, the step `setrelb p f frels rels` and the run
    of `setrel p e rels` over the selected entities in the batch's order reach the same
    specification, the same issued handles, the same pool, and worlds that agree on the liveness
    of every handle and on the components, values and relation targets of every ID -/
theorem setrelb_eq_singles (run : ProbeRunner) {s : St} {fl : List Nat} (H : HInvRB s fl)
    (p : Path) (f : Filter) (frels rels : Rels)
    (hg : guardRB s (.setrelb p f frels rels) = true)
    (hp : preRB s.ss (.setrelb p f frels rels)) (hroom : Room s (.setrelb p f frels rels))
    (hfew' : s.w.tables.length + (selEnts s.w f frels).length < maxU32) :
    ∃ w' w'' : World,
      stepRB run s (.setrelb p f frels rels) =
        ⟨w', s.issued, specSetRelAll s.ss p rels (selEnts s.w f frels)⟩ ∧
      runOps run s ((selEnts s.w f frels).map fun e => .setrel p e rels) =
        ⟨w'', s.issued, specSetRelAll s.ss p rels (selEnts s.w f frels)⟩ ∧
      w'.pool = w''.pool ∧
      (∀ x : Ent, w'.alive x = w''.alive x) ∧
      (∀ (i : Nat) (c : Comp), valOf w' i c = valOf w'' i c) ∧
      (∀ i : Nat, compsOf w' i = compsOf w'' i) ∧
      (∀ (i : Nat) (c : Comp), targetOf w' i c = targetOf w'' i c) := by
  have h := H.hinv.tinv
  obtain ⟨hgx, hx, hcase⟩ := guard_setrelb hg
  obtain ⟨hne, hrel, hv⟩ := hp
  obtain ⟨hrnd, hmask⟩ : (rels.map (·.comp)).Nodup ∧ ∀ r ∈ rels, f.mask.get r.comp = true := by
    rcases hcase with k | k
    · exact absurd k hne
    · exact k
  have hemp : rels.isEmpty = false := by
    cases rels with
    | nil => exact absurd rfl hne
    | cons _ _ => rfl
  obtain ⟨_, hstepB⟩ := step_setrelb run H p f frels rels hg hroom
  obtain ⟨w', _, hstep, pb, more, hspec, _, _⟩ := hstepB ⟨hne, hrel, hv⟩
  obtain ⟨ts, hts, S, hsel, hiff, hids, hlen⟩ := sel_spec H hgx
  have u0 := removeTablesW_link h.link H.rows S
  have u : ∀ (e : Ent), e ∈ selEnts s.w f frels → 2 ≤ e.id ∧ e.id ∉ fl ∧ s.w.alive e = true ∧
      ∃ (t r : Nat), t ∈ ts ∧ s.w.entities[e.id]? = some (t, r) := by
    intro e he
    rw [hsel] at he
    exact u0.live e he
  have hrc : ∀ r ∈ rels, s.w.isRelComp r.comp = true ∧ r.comp < 256 := fun r hr =>
    ⟨by rw [← H.hinv.rget]; exact hrel r hr, isRel_lt H.hinv (hrel r hr)⟩
  have hval := H.hinv.targets_alive hv
  have htin := H.hinv.targets_in hv
  have hnd := H.hinv.ginv.live_nodup
  have hlive : ∀ (e : Ent), e ∈ selEnts s.w f frels → 2 ≤ e.id ∧ e.id ∉ fl ∧ s.w.alive e = true ∧
      ∀ (r : RelID), r ∈ rels → (targetOf s.w e.id r.comp).isSome = true := by
    intro e he
    obtain ⟨en, hm, hmm⟩ := mem_matching.mp ((hiff e).mp he)
    have hloc := localOK_of_match H.hinv hne hrnd hmask hrel hm hmm
    exact ⟨(u e he).1, (u e he).2.1, (u e he).2.2.1,
      fun r hr => (H.hinv.target_isSome_iff hm r.comp).mpr (hloc.2.2 r hr)⟩
  have hlin : ∀ (e : Ent), e ∈ selEnts s.w f frels → e.id < s.w.pool.ents.length := by
    intro e he
    obtain ⟨t, r, _, hx'⟩ := (u e he).2.2.2
    rw [← h.link.lenEq]; exact (List.getElem?_eq_some_iff.mp hx').1
  obtain ⟨w'', hs, ps⟩ := setRelSeq_post run hemp hrnd (selEnts s.w f frels) h H.hinv.unlocked
    H.hinv.noObs hlive hlin hids hval htin hfew' (by have := hroom.2; omega)
  have hiss : ∀ e ∈ selEnts s.w f frels, e ∈ s.issued := fun e he =>
    H.hinv.ginv.live_issued e (matching_sub ((hiff e).mp he))
  obtain ⟨hrun, hpool⟩ := runOps_setrels run p hemp hrnd (selEnts s.w f frels) s h H.hinv.unlocked
    H.hinv.noObs hlive hlin hids hval htin hrc hfew' (by have := hroom.2; omega) hiss hx w'' hs
  obtain ⟨o1, o2, o3, o4, _, _⟩ := pb.obs_eq ps (fun _ => Iff.rfl)
  exact ⟨w', w'', by rw [hstep, hspec], hrun, by rw [more.pool, hpool], o1, o2, o3, o4⟩

end RelRefineB

end Ark
