/-
  Ark.Proofs.RelRefineBatch — the refinement machine of `Ark.RelRefine` (worlds WITH relation
  components) WITH the batch operations as steps (properties C01 / C04 / C06: "… create, add,
  remove, exchange, set, copy, remove entity, THEIR BATCH FORMS …").

  * `OpRB` — `base op` (an operation of `Ark.RelRefine`: `reg | new p | add p | rem p | setrel p |
    set | del`, all with relation arguments), `delb f frels` (`World.RemoveEntities(batch, nil)` on
    the uncached filter with mask part `f` and the relation constraints `frels` fixed by
    `.Relations(…)`), `setrelb p f frels rels` (`SetRelationsBatch` on that filter through the
    access path `p`: the relations `rels` are assigned to every selected entity), `xchg p e add vals
    rem rels` (`Exchange` with relation targets: the single operation, taken over from
    `Ark.RelRefine3`), `xchgb p f frels add rem rels` (`AddBatch` / `RemoveBatch` / `ExchangeBatch`
    with relation targets on that filter, callback `nil`).
  * `matching` — the selection of a batch IN THE SPECIFICATION: the specified entities whose key
    set the mask part matches and whose recorded relations contain every relation asked for.
  * `specStepRB` — **the specification step of a batch is the specification step of the single
    operation, folded over the selection** (`specDelAll`: `RelRefine.specStep … (.del e)`, which
    drops `e`'s entry AND zeroes every target equal to `e`; `specSetRelAll`: `… (.setrel p e rels)`;
    `specXchgAll`: `RelRefine3.specXchg … e add [] rem rels`).
  * `execRB`, `guardRB`, `preRB`, `stepRB`, `reachRB` — the machine, as `RelRefine.step`: model
    operation and specification step in lock step; a panic keeps the state the model reached.
  * `HInvRB` — the inductive invariant: `RelRefine.HInv`, rows hold alive handles, the lock's bit
    pool is consistent with no lock outstanding.
  * `Room s op` — the size requirement of one step.
  * generic facts on the ghost pool history of a batch removal (`ginv_recycleAll`, …; copies of
    the lemmas of Ark/Proofs/RefineBatch.lean, which cannot be imported together with the
    callback files this development needs);
  * specification-level lemmas: the closed form of `specDelAll` (`specDelAll_ents`: the entries of
    the removed handles are dropped, every target among them reads zero — independent of the
    order), of `specSetRelAll` (`specSetRelAll_ents`), frames.

  Kernel-only proofs, core Lean only.
-/
import Ark.Proofs.RelRefine2Base
import Ark.Proofs.BatchRelReach
import Ark.Proofs.RelExchangeMachine

set_option autoImplicit false

namespace Ark

open World Ark.Props.C01World

namespace RelRefineB

open RelRefine
open RelRefine3 (XchgOK xchgEntry specXchg preXchg guardXchg)
open Refine (Comps keys sortedIds writeComps zeros)

/-- the filter object of the uncached filter with mask part `f` and fixed relations `frels` -/
def foOf (f : Filter) (frels : Rels) : FilterObj := { filter := f, rels := frels }

/-- the operations: those of `Ark.RelRefine`, and the batch forms -/
inductive OpRB
  /-- an operation of `Ark.RelRefine` -/
  | base (op : RelRefine.Op)
  /-- `World.RemoveEntities(batch, nil)` for the uncached filter `f` with the relations `frels` -/
  | delb (f : Filter) (frels : Rels)
  /-- `SetRelationsBatch(batch, rels…)` for the uncached filter `f` with the relations `frels`,
      through the access path `p` -/
  | setrelb (p : Path) (f : Filter) (frels : Rels) (rels : Rels)
  /-- `Exchange(e, add, rem, rels)` through the access path `p`, writing `vals` (the single
      operation of which `xchgb` is the batch form; `Ark.RelRefine` itself has `add` / `rem` only) -/
  | xchg (p : Path) (e : Ent) (add : List Comp) (vals : Comps) (rem : List Comp) (rels : Rels)
  /-- `AddBatch` (`rem = []`) / `RemoveBatch` (`add = []`) / `ExchangeBatch` with the relation
      targets `rels` for the added relation components, callback `nil`, for the uncached filter
      `f` with the relations `frels`, through the access path `p` -/
  | xchgb (p : Path) (f : Filter) (frels : Rels) (add rem : List Comp) (rels : Rels)
  deriving Repr

/-- the filter matches an entry of the specification: the mask test on its key set, and every
    relation asked for is recorded -/
def entryMatches (f : Filter) (frels : Rels) (en : Entry) : Bool :=
  f.matchesMask (Mask.ofList (keys en.comps)) && frels.all fun r => decide (r ∈ en.rels)

/-- **the selection of a batch, in the specification**: the specified entities the filter
    matches, in the order of the specification -/
def matching (ss : SS) (f : Filter) (frels : Rels) : List Ent :=
  (ss.ents.filter fun x => entryMatches f frels x.2).map (·.1)

/-- `RemoveEntity` for every entity of `es` -/
def specDelAll (ss : SS) (es : List Ent) : SS :=
  es.foldl (fun ss e => specStep ss default (.del e)) ss

/-- `SetRelations(e, rels…)` for every entity of `es` -/
def specSetRelAll (ss : SS) (p : Path) (rels : Rels) (es : List Ent) : SS :=
  es.foldl (fun ss e => specStep ss default (.setrel p e rels)) ss

/-- `Exchange(e, add, rem, rels)` (no values written) for every entity of `es` -/
def specXchgAll (ss : SS) (add rem : List Comp) (rels : Rels) (es : List Ent) : SS :=
  es.foldl (fun ss e => specXchg ss e add [] rem rels) ss

/-- **the specification step.**  `fresh` are the handles a successful creating call returns.  A
    batch is the single operation applied to every selected entity. -/
def specStepRB (ss : SS) (fresh : List Ent) : OpRB → SS
  | .base op => specStep ss (fresh.headD default) op
  | .delb f frels => specDelAll ss (matching ss f frels)
  | .setrelb p f frels rels => specSetRelAll ss p rels (matching ss f frels)
  | .xchg _ e add vals rem rels => specXchg ss e add vals rem rels
  | .xchgb _ f frels add rem rels => specXchgAll ss add rem rels (matching ss f frels)

/-- run one model operation; the result carries the returned handles -/
def execRB (run : ProbeRunner) (w : World) : OpRB → Res World (List Ent)
  | .base op =>
    match exec run w op with
    | .ok r w' => .ok r.toList w'
    | .panic k w' => .panic k w'
  | .delb f frels =>
    match opRemoveEntities run (foOf f frels) [] false w with
    | .ok _ w' => .ok [] w'
    | .panic k w' => .panic k w'
  | .setrelb p f frels rels =>
    match opSetRelationsBatch run p (foOf f frels) [] (rels.map (·.comp)) rels false w with
    | .ok _ w' => .ok [] w'
    | .panic k w' => .panic k w'
  | .xchg p e add vals rem rels =>
    match opExchange run p e add vals rem rels w with
    | .ok _ w' => .ok [] w'
    | .panic k w' => .panic k w'
  | .xchgb p f frels add rem rels =>
    match opExchangeBatch run p (foOf f frels) [] add rem rels none w with
    | .ok _ w' => .ok [] w'
    | .panic k w' => .panic k w'

/-- the part of the precondition of `Exchange(add, rem)` that concerns the component set of the
    entity: `rem` distinct components it has, `add` distinct components it lacks -/
def XchgLocal (en : Entry) (add rem : List Comp) : Prop :=
  rem.Nodup ∧ (∀ c ∈ rem, c ∈ keys en.comps) ∧ add.Nodup ∧ ∀ c ∈ add, c ∉ keys en.comps

instance (en : Entry) (add rem : List Comp) : Decidable (XchgLocal en add rem) :=
  inferInstanceAs (Decidable (rem.Nodup ∧ (∀ c ∈ rem, c ∈ keys en.comps) ∧ add.Nodup ∧
    ∀ c ∈ add, c ∉ keys en.comps))

/-- the relation constraints of a filter a client can express (`.Relations(…)` / `ToRelations`):
    each names a relation component that the mask part requires -/
def frelsExpr (ss : SS) (f : Filter) (frels : Rels) : Bool :=
  frels.all fun r => ss.isRel.getD r.comp false && f.mask.get r.comp

/-- what is a step of the machine.  `delb`: the filter is expressible.  `setrelb`: the filter is
    expressible, the targets are the zero entity or handles the client was given, and — unless the
    list is empty, which is rejected cleanly — no relation component is named twice and every
    component named is one the filter REQUIRES (so every selected entity has it).  A
    `SetRelationsBatch` naming a component that some selected entity lacks panics in the planning
    loop, after destination tables may have been created (since the repair D27 the world lock is
    taken only after the planning, so the world is not left locked any more): it is not rejected
    without effect and is not a step.  (A removed target and a
    non-relation component ARE steps: the pre-validation rejects them before anything is touched.) -/
def guardRB (s : St) : OpRB → Bool
  | .base op => guard s op
  | .delb f frels => frelsExpr s.ss f frels
  | .setrelb _ f frels rels =>
    frelsExpr s.ss f frels && tgtsExpr s rels &&
      (rels.isEmpty || (decide (rels.map (·.comp)).Nodup && rels.all fun r => f.mask.get r.comp))
  | .xchg p e add _ _ rels => guardXchg s p e add rels
  | .xchgb p f frels add rem rels =>
    frelsExpr s.ss f frels && (add.all fun c => decide (c < s.ss.zst.length)) &&
      decide (RelsStep s.ss.isRel p add rels) && tgtsExpr s rels &&
      ((add.isEmpty && rem.isEmpty) ||
        s.ss.ents.all fun x => !entryMatches f frels x.2 || decide (XchgLocal x.2 add rem))

/-- the precondition, in terms of the specification only -/
def preRB (ss : SS) : OpRB → Prop
  | .base op => pre ss op
  | .delb _ _ => True
  | .setrelb _ _ _ rels => rels ≠ [] ∧ (∀ r ∈ rels, ss.isRel.getD r.comp false = true) ∧
      TargetsValid ss.ents rels
  | .xchg _ e add _ rem rels => preXchg ss e add rem rels
  | .xchgb _ _ _ add rem rels => ¬ (add = [] ∧ rem = []) ∧
      (∀ r ∈ rels, r.comp ∈ add ∧ ss.isRel.getD r.comp false = true) ∧ TargetsValid ss.ents rels

/-- the handles returned -/
def retRB : Res World (List Ent) → List Ent
  | .ok r _ => r
  | .panic _ _ => []

/-- a batch step: the model operation and the specification step; the returned handles are
    added to the issued ones (newest first) -/
def stepBatch (run : ProbeRunner) (s : St) (op : OpRB) : St :=
  if guardRB s op = true then
    let r := execRB run s.w op
    ⟨r.state, (retRB r).reverse ++ s.issued, specStepRB s.ss (retRB r) op⟩
  else s

/-- one step of the machine -/
def stepRB (run : ProbeRunner) (s : St) : OpRB → St
  | .base op => step run s op
  | .delb f frels => stepBatch run s (.delb f frels)
  | .setrelb p f frels rels => stepBatch run s (.setrelb p f frels rels)
  | .xchg p e add vals rem rels => stepBatch run s (.xchg p e add vals rem rels)
  | .xchgb p f frels add rem rels => stepBatch run s (.xchgb p f frels add rem rels)

def runOpsRB (run : ProbeRunner) (s : St) (ops : List OpRB) : St := ops.foldl (stepRB run) s

/-- the state reached from `NewWorld(cap, rel)` by the history `ops` -/
def reachRB (run : ProbeRunner) (cap rel : Nat) (ops : List OpRB) : St :=
  runOpsRB run (St.init cap rel) ops

theorem reachRB_snoc (run : ProbeRunner) (cap rel : Nat) (ops : List OpRB) (op : OpRB) :
    reachRB run cap rel (ops ++ [op]) = stepRB run (reachRB run cap rel ops) op := by
  simp only [reachRB, runOpsRB, List.foldl_append, List.foldl_cons, List.foldl_nil]

/-- histories of `Ark.RelRefine` are histories of this machine -/
theorem runOpsRB_base (run : ProbeRunner) (ops : List Op) : ∀ s : St,
    runOpsRB run s (ops.map .base) = runOps run s ops := by
  induction ops with
  | nil => intro s; rfl
  | cons op ops ih => intro s; exact ih (step run s op)

theorem reachRB_base (run : ProbeRunner) (cap rel : Nat) (ops : List Op) :
    reachRB run cap rel (ops.map .base) = reach run cap rel ops :=
  runOpsRB_base run ops _

/-- **the inductive invariant**: that of `Ark.RelRefine`, and what the batches need -/
structure HInvRB (s : St) (fl : List Nat) : Prop where
  hinv : HInv s fl
  rows : RowsAlive s.w
  lock : ∃ (lf : List Nat), Lock.LInv ⟨s.w.locks, []⟩ lf

theorem hinvRB_init (cap rel : Nat) : HInvRB (St.init cap rel) [] :=
  ⟨hinv_init cap rel, RowsAlive.init cap rel, [], Lock.linv_init⟩

/-- the entities a batch on the filter touches in the MODEL: the rows of the selected tables,
    table by table, row by row -/
def selEnts (w : World) (f : Filter) (frels : Rels) : List Ent :=
  match getBatchTables (foOf f frels) [] w with
  | .ok ts _ => ts.flatMap (rowsOf w)
  | .panic _ _ => []

/-- the size requirement of one step: table IDs and row numbers fit `uint32`.  A removal may
    create one table per relation archetype for every removed relation target; `SetRelationsBatch`
    at most one table per selected table. -/
def Room (s : St) : OpRB → Prop
  | .base _ => s.w.tables.length + s.w.relationArchetypes.length + 1 ≤ maxU32 ∧
      2 * s.w.entities.length < 2 ^ 32
  | .delb _ _ =>
      s.w.tables.length + s.w.entities.length * s.w.relationArchetypes.length + 1 ≤ maxU32 ∧
      2 * s.w.entities.length < 2 ^ 32
  | .setrelb _ _ _ _ => 2 * s.w.tables.length ≤ maxU32 ∧ 2 * s.w.entities.length < 2 ^ 32
  | .xchg _ _ _ _ _ _ => s.w.tables.length < maxU32 ∧ s.w.entities.length + 1 < 2 ^ 32
  | .xchgb _ _ _ _ _ _ => 2 * s.w.tables.length < maxU32 ∧ 2 * s.w.entities.length < 2 ^ 32

/-! ## specification-level facts: the selection -/

theorem mem_matching {ss : SS} {f : Filter} {frels : Rels} {e : Ent} :
    e ∈ matching ss f frels ↔ ∃ en, (e, en) ∈ ss.ents ∧ entryMatches f frels en = true := by
  simp only [matching, List.mem_map, List.mem_filter]
  constructor
  · rintro ⟨x, ⟨hx, hm⟩, rfl⟩; exact ⟨x.2, hx, hm⟩
  · rintro ⟨en, hx, hm⟩; exact ⟨(e, en), ⟨hx, hm⟩, rfl⟩

theorem matching_sub {ss : SS} {f : Filter} {frels : Rels} {e : Ent}
    (h : e ∈ matching ss f frels) : e ∈ ss.ents.map (·.1) := by
  obtain ⟨en, hx, _⟩ := mem_matching.mp h
  exact List.mem_map.mpr ⟨(e, en), hx, rfl⟩

theorem matching_nodup {ss : SS} (hnd : (ss.ents.map (·.1)).Nodup) (f : Filter) (frels : Rels) :
    (matching ss f frels).Nodup :=
  (List.Sublist.map _ List.filter_sublist).nodup hnd

/-- for an entry of the specification: selected iff the filter matches the entry -/
theorem mem_matching_of_mem {ss : SS} (hnd : (ss.ents.map (·.1)).Nodup) (f : Filter) (frels : Rels)
    {x : Ent} {en : Entry} (hx : (x, en) ∈ ss.ents) :
    x ∈ matching ss f frels ↔ entryMatches f frels en = true := by
  rw [mem_matching]
  constructor
  · rintro ⟨en', hx', hm⟩
    have h1 := find_of_mem hnd hx
    have h2 := find_of_mem hnd hx'
    rw [h1] at h2
    rw [Option.some.inj h2]; exact hm
  · intro hm; exact ⟨en, hx, hm⟩

/-! ## specification-level facts: the batch removal -/

/-- a relation after the removal of the entities `es`: a target among them reads zero -/
def zeroInRel (es : List Ent) (r : RelID) : RelID := ⟨r.comp, zeroIn es r.target⟩

/-- an entry after the removal of the entities `es` -/
def detachAll (es : List Ent) (en : Entry) : Entry := { en with rels := en.rels.map (zeroInRel es) }

theorem zeroInRel_comp (es : List Ent) (r : RelID) : (zeroInRel es r).comp = r.comp := rfl

theorem zeroIn_nil (x : Ent) : zeroIn [] x = x := by simp [zeroIn]

theorem zeroIn_of_mem {es : List Ent} {x : Ent} (h : x ∈ es) : zeroIn es x = Ent.zero := by
  simp [zeroIn, h]

theorem zeroIn_of_not_mem {es : List Ent} {x : Ent} (h : x ∉ es) : zeroIn es x = x := by
  simp [zeroIn, h]

theorem zeroInRel_nil (r : RelID) : zeroInRel [] r = r := by
  simp only [zeroInRel, zeroIn_nil]

theorem detachAll_nil (en : Entry) : detachAll [] en = en := by
  simp only [detachAll]
  have : en.rels.map (zeroInRel []) = en.rels := by
    rw [List.map_congr_left (fun r _ => zeroInRel_nil r), List.map_id']
  rw [this]

theorem zeroInRel_zeroRel (e : Ent) (es : List Ent) (r : RelID) :
    zeroInRel es (zeroRel e r) = zeroInRel (e :: es) r := by
  unfold zeroRel
  by_cases h : r.target = e
  · rw [if_pos h]
    simp only [zeroInRel, zeroIn_zero]
    rw [zeroIn_of_mem (show r.target ∈ e :: es from h ▸ List.mem_cons_self)]
  · rw [if_neg h]
    simp only [zeroInRel]
    by_cases hm : r.target ∈ es
    · rw [zeroIn_of_mem hm, zeroIn_of_mem (List.mem_cons_of_mem _ hm)]
    · rw [zeroIn_of_not_mem hm, zeroIn_of_not_mem (fun hh => by
        rcases List.mem_cons.mp hh with h1 | h1
        · exact h h1
        · exact hm h1)]

theorem detachAll_detach (e : Ent) (es : List Ent) (en : Entry) :
    detachAll es (en.detach e) = detachAll (e :: es) en := by
  simp only [detachAll, Entry.detach, List.map_map]
  congr 1
  apply List.map_congr_left
  intro r _
  exact zeroInRel_zeroRel e es r

/-- the closed form depends on the SET of removed entities only -/
theorem detachAll_congr {es es' : List Ent} (hmem : ∀ (e : Ent), e ∈ es ↔ e ∈ es') (en : Entry) :
    detachAll es en = detachAll es' en := by
  simp only [detachAll]
  congr 1
  apply List.map_congr_left
  intro r _
  simp only [zeroInRel, zeroIn_congr hmem]

theorem specDelAll_zst (ss : SS) (es : List Ent) : (specDelAll ss es).zst = ss.zst := by
  induction es generalizing ss with
  | nil => rfl
  | cons e es ih =>
    show (specDelAll (specStep ss default (.del e)) es).zst = ss.zst
    rw [ih]
    simp only [specStep]
    split <;> rfl

theorem specDelAll_isRel (ss : SS) (es : List Ent) : (specDelAll ss es).isRel = ss.isRel := by
  induction es generalizing ss with
  | nil => rfl
  | cons e es ih =>
    show (specDelAll (specStep ss default (.del e)) es).isRel = ss.isRel
    rw [ih]
    simp only [specStep]
    split <;> rfl

theorem del_eq_filter : ∀ (s : Spec) (e : Ent), (s.map (·.1)).Nodup →
    del s e = s.filter fun x => decide (x.1 ≠ e)
  | [], _, _ => rfl
  | x :: rest, e, hnd => by
    simp only [List.map_cons, List.nodup_cons] at hnd
    simp only [del, List.filter_cons]
    by_cases hx : x.1 = e
    · rw [if_pos hx]
      have : decide (x.1 ≠ e) = false := by simp [hx]
      rw [this]
      simp only [Bool.false_eq_true, if_false]
      symm
      apply List.filter_eq_self.mpr
      intro y hy
      have : y.1 ≠ e := by
        intro hh
        apply hnd.1
        rw [hx, ← hh]
        exact List.mem_map_of_mem hy
      simpa using this
    · rw [if_neg hx]
      have : decide (x.1 ≠ e) = true := by simp [hx]
      rw [this]
      simp only [if_true]
      rw [del_eq_filter rest e hnd.2]

/-- one removal of a specified entity, in closed form -/
theorem specStep_del_ents {ss : SS} (hnd : (ss.ents.map (·.1)).Nodup) {e : Ent}
    (he : e ∈ ss.ents.map (·.1)) (fresh : Ent) :
    (specStep ss fresh (.del e)).ents =
      (ss.ents.filter fun x => decide (x.1 ≠ e)).map fun x => (x.1, x.2.detach e) := by
  simp only [specStep]
  cases hf : find ss.ents e with
  | none => exact absurd he (find_none_iff.mp hf)
  | some en =>
    show detach e (del ss.ents e) = _
    rw [del_eq_filter _ _ hnd]
    rfl

/-- **the batch removal in the specification, in closed form**: folding `RemoveEntity` over
    distinct specified handles `es` (in ANY order) drops their entries and lets every target
    among them read zero in the entries that stay -/
theorem specDelAll_ents : ∀ (es : List Ent) (ss : SS), (ss.ents.map (·.1)).Nodup →
    (∀ e ∈ es, e ∈ ss.ents.map (·.1)) → es.Nodup →
    (specDelAll ss es).ents =
      (ss.ents.filter fun x => decide (x.1 ∉ es)).map fun x => (x.1, detachAll es x.2)
  | [], ss, _, _, _ => by
    show ss.ents = _
    have h1 : (ss.ents.filter fun x => decide (x.1 ∉ ([] : List Ent))) = ss.ents := by
      apply List.filter_eq_self.mpr
      intro y _; simp
    rw [h1, List.map_congr_left (fun x _ => by rw [detachAll_nil]), List.map_id']
  | e :: es, ss, hnd, hsub, hes => by
    show (specDelAll (specStep ss default (.del e)) es).ents = _
    obtain ⟨hne, hes'⟩ := List.nodup_cons.mp hes
    have h1 := specStep_del_ents hnd (hsub e List.mem_cons_self) default
    have hk1 : (specStep ss default (.del e)).ents.map (·.1) =
        (ss.ents.filter fun x => decide (x.1 ≠ e)).map (·.1) := by
      rw [h1, List.map_map]; rfl
    have hnd1 : ((specStep ss default (.del e)).ents.map (·.1)).Nodup := by
      rw [hk1]
      exact (List.Sublist.map _ List.filter_sublist).nodup hnd
    have hsub1 : ∀ e' ∈ es, e' ∈ (specStep ss default (.del e)).ents.map (·.1) := by
      intro e' he'
      rw [hk1]
      obtain ⟨x, hx, rfl⟩ := List.mem_map.mp (hsub _ (List.mem_cons_of_mem _ he'))
      refine List.mem_map.mpr ⟨x, List.mem_filter.mpr ⟨hx, ?_⟩, rfl⟩
      have : x.1 ≠ e := fun hh => hne (hh ▸ he')
      simpa using this
    rw [specDelAll_ents es _ hnd1 hsub1 hes', h1, List.filter_map, List.map_map, List.filter_filter]
    have hf : (ss.ents.filter fun x =>
          ((fun x => decide (x.1 ∉ es)) ∘ fun (x : Ent × Entry) => (x.1, x.2.detach e)) x &&
            decide (x.1 ≠ e)) =
        ss.ents.filter fun x => decide (x.1 ∉ e :: es) := by
      apply List.filter_congr
      intro x _
      simp only [Function.comp, List.mem_cons, not_or, ne_eq, Bool.decide_and, Bool.and_comm]
    rw [hf]
    apply List.map_congr_left
    intro x _
    simp only [Function.comp, detachAll_detach]

/-- … so two duplicate-free lists of specified handles with the same members give the same
    specification -/
theorem specDelAll_perm {ss : SS} (hnd : (ss.ents.map (·.1)).Nodup) {es es' : List Ent}
    (hsub : ∀ e ∈ es, e ∈ ss.ents.map (·.1)) (hes : es.Nodup) (hes' : es'.Nodup)
    (hmem : ∀ (e : Ent), e ∈ es ↔ e ∈ es') : specDelAll ss es = specDelAll ss es' := by
  have hsub' : ∀ e ∈ es', e ∈ ss.ents.map (·.1) := fun e he => hsub e ((hmem e).mpr he)
  have h1 := specDelAll_ents es ss hnd hsub hes
  have h2 := specDelAll_ents es' ss hnd hsub' hes'
  have h3 : (specDelAll ss es).ents = (specDelAll ss es').ents := by
    rw [h1, h2]
    have hf : (ss.ents.filter fun x => decide (x.1 ∉ es)) =
        ss.ents.filter fun x => decide (x.1 ∉ es') := by
      apply List.filter_congr
      intro x _
      simp only [hmem]
    rw [hf]
    apply List.map_congr_left
    intro x _
    rw [detachAll_congr hmem]
  have h4 : (specDelAll ss es).zst = (specDelAll ss es').zst := by
    rw [specDelAll_zst, specDelAll_zst]
  have h5 : (specDelAll ss es).isRel = (specDelAll ss es').isRel := by
    rw [specDelAll_isRel, specDelAll_isRel]
  cases hA : specDelAll ss es
  cases hB : specDelAll ss es'
  rw [hA] at h3 h4 h5
  rw [hB] at h3 h4 h5
  simp only at h3 h4 h5
  rw [h3, h4, h5]

/-- what a batch removal leaves of an entry, member by member -/
theorem mem_specDelAll {ss : SS} (hnd : (ss.ents.map (·.1)).Nodup) {es : List Ent}
    (hsub : ∀ e ∈ es, e ∈ ss.ents.map (·.1)) (hes : es.Nodup) {x : Ent} {en' : Entry} :
    (x, en') ∈ (specDelAll ss es).ents ↔
      ∃ en, (x, en) ∈ ss.ents ∧ x ∉ es ∧ en' = detachAll es en := by
  rw [specDelAll_ents es ss hnd hsub hes, List.mem_map]
  constructor
  · rintro ⟨y, hy, heq⟩
    obtain ⟨hy1, hy2⟩ := List.mem_filter.mp hy
    injection heq with h1 h2
    subst h1
    exact ⟨y.2, hy1, by simpa using hy2, h2.symm⟩
  · rintro ⟨en, hx, hne, rfl⟩
    exact ⟨(x, en), List.mem_filter.mpr ⟨hx, by simpa using hne⟩, rfl⟩

/-! ## the ghost pool history of a batch removal (generic list / pool facts) -/

theorem nodup_of_map {α β : Type} (f : α → β) {l : List α} (h : (l.map f).Nodup) : l.Nodup := by
  unfold List.Nodup at h ⊢
  rw [List.pairwise_map] at h
  exact h.imp (fun hne heq => hne (congrArg f heq))

theorem mem_foldl_erase {α : Type} [DecidableEq α] : ∀ (l live : List α), live.Nodup → ∀ x : α,
    (x ∈ l.foldl List.erase live ↔ x ∈ live ∧ x ∉ l)
  | [], _, _, x => by simp
  | e :: l, live, hnd, x => by
    rw [List.foldl_cons, mem_foldl_erase l _ (hnd.erase e) x, List.Nodup.mem_erase_iff hnd]
    simp only [List.mem_cons, not_or, ne_eq]
    constructor
    · rintro ⟨⟨a, b⟩, c⟩; exact ⟨b, a, c⟩
    · rintro ⟨a, b, c⟩; exact ⟨⟨b, a⟩, c⟩

/-- recycling a duplicate-free list of live handles, in the ghost history -/
theorem ginv_recycleAll : ∀ (l : List Ent) (s : Pool.PS) (fl : List Nat), Pool.GInv s fl →
    (∀ e ∈ l, e ∈ s.live) → l.Nodup →
    ∃ fl', Pool.GInv ⟨l.foldl Pool.recycle s.p, s.issued, l.foldl List.erase s.live⟩ fl'
  | [], s, fl, g, _, _ => ⟨fl, g⟩
  | e :: l, s, fl, g, hl, hnd => by
    have he := hl e List.mem_cons_self
    have hi := g.live_issued e he
    have ha := (Pool.alive_iff_live s fl g e hi).mpr he
    obtain ⟨fl1, g1⟩ := Pool.step_inv s fl g (.recycle e)
    have hc : e ∈ s.issued ∧ s.p.alive e = true := ⟨hi, ha⟩
    simp only [Pool.PS.step, hc, and_self, if_true] at g1
    obtain ⟨hne, hnd'⟩ := List.nodup_cons.mp hnd
    have hl' : ∀ e' ∈ l, e' ∈ (⟨s.p.recycle e, s.issued, s.live.erase e⟩ : Pool.PS).live := by
      intro e' he'
      have hne' : e' ≠ e := fun hh => hne (hh ▸ he')
      exact (List.mem_erase_of_ne hne').mpr (hl e' (List.mem_cons_of_mem _ he'))
    exact ginv_recycleAll l _ fl1 g1 hl' hnd'

/-- the ghost invariant does not depend on the order of the live list -/
theorem ginv_of_mem {p : Pool} {issued live live' : List Ent} {fl : List Nat}
    (g : Pool.GInv ⟨p, issued, live⟩ fl) (hnd : live'.Nodup) (hm : ∀ x, x ∈ live' ↔ x ∈ live) :
    Pool.GInv ⟨p, issued, live'⟩ fl := by
  have hlen : live'.length = live.length := by
    apply Nat.le_antisymm
    · exact List.Nodup.length_le_of_subset hnd (fun x hx => (hm x).mp hx)
    · exact List.Nodup.length_le_of_subset g.live_nodup (fun x hx => (hm x).mpr hx)
  exact
    { pinv := g.pinv
      live_iff := fun h => (hm h).trans (g.live_iff h)
      live_nodup := hnd
      issued_bound := g.issued_bound
      live_issued := fun h hh => g.live_issued h ((hm h).mp hh)
      count := by show p.ents.length = 2 + live'.length + fl.length; rw [hlen]; exact g.count }

end RelRefineB

end Ark
