/-
  Ark.Proofs.RefineBatchFrame — specification-level facts about the batch steps (frame, the shape
  of the specification after a step) and the batch removal against the run of single removals.

  * `specDelAll_frame`, `specXchgAll_frame`, `specNewAll_frame` — a batch step of the specification
    changes only the entries of the selected (created) handles.
  * `specNews_ents` — the specification after `n` creations.
  * `EntOK.same` — an entry realised by two worlds: the entity reads the same in both.
  * `runOps_dels`, `delb_eq_singles` — **the batch removal step against the run of the single
    `RemoveEntity` steps over the selected entities, in the batch's order**: the same specification,
    the same issued handles, the same pool (so every later creation returns the same handle), and
    observationally equal worlds (liveness of every handle, components and values of every ID).
    The worlds themselves differ in dead memory only (see Ark/Props/C06World.lean).
  * `runOps_xchgs`, `xchgb_eq_singles` — the same for the exchange batches.

  Kernel-only proofs, core Lean only.
-/
import Ark.Proofs.RefineBatchHist

set_option autoImplicit false

namespace Ark

open World Ark.Props.C01World

namespace RefineB

open Refine

theorem writeComps_nil (z : List Bool) (cs : Comps) : writeComps z [] cs = cs := by
  simp only [writeComps]
  have : (fun cv : Comp × Val =>
      (cv.1, if z.getD cv.1 false = true then cv.2 else applyVals cv.2 [] cv.1)) = id := by
    funext cv
    show (cv.1, if z.getD cv.1 false = true then cv.2 else cv.2) = cv
    split <;> rfl
  rw [this, List.map_id]

/-! ## frame, in the specification -/

theorem specDelAll_frame (x : Ent) : ∀ (es : List Ent) (ss : SS), x ∉ es →
    find (specDelAll ss es).ents x = find ss.ents x
  | [], _, _ => rfl
  | e :: es, ss, hx => by
    simp only [List.mem_cons, not_or] at hx
    show find (specDelAll (specStep ss default (.del e)) es).ents x = _
    rw [specDelAll_frame x es _ hx.2]
    exact specStep_frame ss default (.del e) x rfl (fun hh => hx.1 (Option.some.inj hh).symm)

theorem specXchgAll_frame (p : Path) (add rem : List Comp) (vals : Comps) (x : Ent) :
    ∀ (es : List Ent) (ss : SS), x ∉ es →
    find (specXchgAll ss p add rem vals es).ents x = find ss.ents x
  | [], _, _ => rfl
  | e :: es, ss, hx => by
    simp only [List.mem_cons, not_or] at hx
    show find (specXchgAll (specStep ss default (.xchg p e add rem vals)) p add rem vals es).ents x = _
    rw [specXchgAll_frame p add rem vals x es _ hx.2]
    exact specStep_frame ss default (.xchg p e add rem vals) x rfl
      (fun hh => hx.1 (Option.some.inj hh).symm)

/-- the specification after `n` creations: the new entries, newest first, before the old ones -/
theorem specNews_ents (p : Path) (ids : List Comp) : ∀ (es : List Ent) (ss : SS),
    (ids.Nodup ∧ ∀ c ∈ ids, c < ss.zst.length) →
    (es.foldl (fun ss e => specStep ss e (.new p ids [])) ss).ents =
      es.reverse.map (fun e => (e, zeros ids)) ++ ss.ents ∧
    (es.foldl (fun ss e => specStep ss e (.new p ids [])) ss).zst = ss.zst
  | [], _, _ => ⟨rfl, rfl⟩
  | e :: es, ss, hp => by
    have h1 : specStep ss e (.new p ids []) = { ss with ents := (e, zeros ids) :: ss.ents } := by
      simp only [specStep, if_pos hp, writeComps_nil]
    rw [List.foldl_cons, h1]
    obtain ⟨i1, i2⟩ := specNews_ents p ids es { ss with ents := (e, zeros ids) :: ss.ents } hp
    refine ⟨?_, i2⟩
    rw [i1]
    simp only [List.reverse_cons, List.map_append, List.map_cons, List.map_nil, List.append_assoc,
      List.singleton_append]

/-! ## an entry realised by two worlds -/

/-- if two worlds realise the same entry for `e`, the entity reads the same in both -/
theorem EntOK.same {w w' : World} {n n' : Nat} {e : Ent} {cs : Comps} (a : EntOK w n e cs)
    (b : EntOK w' n' e cs) :
    compsOf w' e.id = compsOf w e.id ∧ ∀ c : Comp, valOf w' e.id c = valOf w e.id c := by
  have hs : sortedIds n' (keys cs) = sortedIds n (keys cs) := sortedIds_eq_of_bound a.reg b.reg
  refine ⟨by rw [a.comps, b.comps, hs], fun c => ?_⟩
  by_cases hc : c ∈ keys cs
  · obtain ⟨cv, hcv, rfl⟩ := List.mem_map.mp hc
    rw [a.vals cv hcv, b.vals cv hcv]
  · rw [valOf_none_of_comps a.comps (fun hh => hc (mem_sortedIds.mp hh).2),
      valOf_none_of_comps b.comps (fun hh => hc (mem_sortedIds.mp hh).2)]

/-! ## the batch removal against the run of single removals -/

/-- `RemoveEntity` applied to handles the client holds is a run of `del` steps -/
theorem runOps_dels (run : ProbeRunner) : ∀ (l : List Ent) (s : St) (w' : World),
    (∀ e ∈ l, e ∈ s.issued) → removeSeq run l s.w = .ok () w' →
    runOps run s (l.map .del) = ⟨w', s.issued, specDelAll s.ss l⟩
  | [], s, w', _, h => by
    simp only [removeSeq, M.forM', pure, M.pure] at h
    injection h with _ h2
    subst h2
    rfl
  | e :: l, s, w', hi, h => by
    simp only [removeSeq, M.forM', bind, M.bind] at h
    cases h1 : opRemoveEntity run e s.w with
    | panic k w1 => rw [h1] at h; cases h
    | ok u w1 =>
      rw [h1] at h
      have hg : guard s (.del e) = true := by
        simp only [Refine.guard, decide_eq_true_eq]; exact hi e List.mem_cons_self
      have hex : exec run s.w (.del e) = .ok none w1 := by simp only [exec, h1]
      have hstep : step run s (.del e) = ⟨w1, s.issued, specStep s.ss default (.del e)⟩ := by
        rw [step_of_guard_nr hg rfl, hex]
        simp only [Res.state, retOf, Option.getD_none]
      show runOps run (step run s (.del e)) (l.map .del) = _
      rw [hstep]
      exact runOps_dels run l ⟨w1, s.issued, specStep s.ss default (.del e)⟩ w'
        (fun e' he' => hi e' (List.mem_cons_of_mem _ he')) h

/-- the specification after removing the model's selection is the one after removing the
    specification's selection -/
theorem specDelAll_selEnts {s : St} {fl : List Nat} (H : HInvB s fl) (f : Filter) :
    specDelAll s.ss (selEnts s.w f) = specDelAll s.ss (matching s.ss f) := by
  have hnd := H.hinv.ginv.live_nodup
  have h1 := specDelAll_ents (selEnts s.w f) s.ss hnd
  have h2 := specDelAll_ents (matching s.ss f) s.ss hnd
  have hz1 := specDelAll_zst s.ss (selEnts s.w f)
  have hz2 := specDelAll_zst s.ss (matching s.ss f)
  have he : (specDelAll s.ss (selEnts s.w f)).ents = (specDelAll s.ss (matching s.ss f)).ents := by
    rw [h1, h2]
    apply List.filter_congr
    intro x _
    have := selEnts_iff_matching H f x.1
    by_cases hx : x.1 ∈ selEnts s.w f
    · simp [hx, this.mp hx]
    · have hx' : x.1 ∉ matching s.ss f := fun hh => hx (this.mpr hh)
      simp [hx, hx']
  cases hA : specDelAll s.ss (selEnts s.w f) with
  | mk e1 z1 =>
    cases hB : specDelAll s.ss (matching s.ss f) with
    | mk e2 z2 =>
      rw [hA] at he hz1; rw [hB] at he hz2
      simp only at he hz1 hz2
      rw [he, hz1, hz2]

/-- **batch removal = single removals, as steps of the machine**: the step `delb f` and the run
    of `del e` over the selected entities (in the batch's order) reach states with the same
    specification, the same issued handles, the same pool, and observationally equal worlds -/
theorem delb_eq_singles (run : ProbeRunner) {s : St} {fl : List Nat} (H : HInvB s fl) (f : Filter) :
    ∃ w' w'' : World,
      stepB run s (.delb f) = ⟨w', s.issued, specStepB s.ss [] (.delb f)⟩ ∧
      runOps run s ((selEnts s.w f).map .del) = ⟨w'', s.issued, specStepB s.ss [] (.delb f)⟩ ∧
      w'.pool = w''.pool ∧ (∀ x : Ent, w'.alive x = w''.alive x) ∧
      (∀ (i : Nat) (c : Comp), valOf w' i c = valOf w'' i c) ∧
      (∀ i : Nat, compsOf w' i = compsOf w'' i) := by
  obtain ⟨w', hop, hst, post, _, _⟩ := step_delb run H f
  obtain ⟨w1, w'', h1, h2, p1, p2, hpool⟩ := opRemoveEntities_eq_singles run H.hinv.cinv H.rowsLive
    H.hinv.unlocked (foOf f) [] rfl
  rw [hop] at h1
  injection h1 with _ hw
  subst hw
  have hi : ∀ e ∈ selEnts s.w f, e ∈ s.issued := by
    intro e he
    obtain ⟨cs, hx, _⟩ := mem_matching.mp ((selEnts_iff_matching H f e).mp he)
    exact (H.hinv.live_facts hx).1
  have hrun := runOps_dels run (selEnts s.w f) s w'' hi h2
  rw [specDelAll_selEnts H f] at hrun
  obtain ⟨o1, o2, o3, _, _⟩ := p1.obs_eq p2 (fun _ => Iff.rfl)
  exact ⟨w', w'', hst, hrun, hpool, o1, o2, o3⟩

/-! ## the exchange batches against the run of single exchanges -/

theorem specStep_xchg_zst (ss : SS) (fresh : Ent) (p : Path) (e : Ent) (add rem : List Comp)
    (vals : Comps) : (specStep ss fresh (.xchg p e add rem vals)).zst = ss.zst := by
  simp only [specStep]
  cases find ss.ents e with
  | none => rfl
  | some cs => simp only; split <;> rfl

/-- `Exchange` applied to handles the client holds is a run of `xchg` steps -/
theorem runOps_xchgs (run : ProbeRunner) (p : Path) (add rem : List Comp) (vals : Comps) :
    ∀ (l : List Ent) (s : St) (w' : World), (∀ e ∈ l, e ∈ s.issued) →
    (∀ c ∈ add, c < s.ss.zst.length) → exchangeSeq run p add rem vals l s.w = .ok () w' →
    runOps run s (l.map fun e => .xchg p e add rem vals) =
      ⟨w', s.issued, specXchgAll s.ss p add rem vals l⟩
  | [], s, w', _, _, h => by
    simp only [exchangeSeq, M.forM', pure, M.pure] at h
    injection h with _ h2
    subst h2
    rfl
  | e :: l, s, w', hi, hreg, h => by
    simp only [exchangeSeq, M.forM', bind, M.bind] at h
    cases h1 : opExchange run p e add vals rem [] s.w with
    | panic k w1 => rw [h1] at h; cases h
    | ok u w1 =>
      rw [h1] at h
      have hg : guard s (.xchg p e add rem vals) = true := by
        simp only [Refine.guard, Bool.and_eq_true, decide_eq_true_eq, List.all_eq_true]
        exact ⟨hi e List.mem_cons_self, hreg⟩
      have hex : exec run s.w (.xchg p e add rem vals) = .ok none w1 := by simp only [exec, h1]
      have hstep : step run s (.xchg p e add rem vals) =
          ⟨w1, s.issued, specStep s.ss default (.xchg p e add rem vals)⟩ := by
        rw [step_of_guard_nr hg rfl, hex]
        simp only [Res.state, retOf, Option.getD_none]
      show runOps run (step run s (.xchg p e add rem vals)) (l.map _) = _
      rw [hstep]
      exact runOps_xchgs run p add rem vals l
        ⟨w1, s.issued, specStep s.ss default (.xchg p e add rem vals)⟩ w'
        (fun e' he' => hi e' (List.mem_cons_of_mem _ he'))
        (by show ∀ c ∈ add, c < (specStep s.ss default (.xchg p e add rem vals)).zst.length
            rw [specStep_xchg_zst]; exact hreg) h

/-- **exchange batch = single exchanges, as steps of the machine** (for an accepted batch whose
    precondition holds; the singles may create one table each, hence the larger size bound): the
    step `xchgb p f add vals rem` and the run of `xchg p e add rem vs` over the selected entities
    reach states with the same specification, the same issued handles, the same pool, and
    observationally equal worlds -/
theorem xchgb_eq_singles (run : ProbeRunner) {s : St} {fl : List Nat} (H : HInvB s fl)
    (p : Path) (f : Filter) (add : List Comp) (vals : Option Comps) (rem : List Comp)
    (hg : guardB s (.xchgb p f add vals rem) = true) (hp : preB s.ss (.xchgb p f add vals rem))
    (hfew : s.w.tables.length + (selTables s.w f).length + (selEnts s.w f).length < maxU32)
    (hent : 2 * s.w.entities.length < 2 ^ 32) :
    ∃ w' w'' : World,
      stepB run s (.xchgb p f add vals rem) =
        ⟨w', s.issued, specStepB s.ss [] (.xchgb p f add vals rem)⟩ ∧
      runOps run s ((selEnts s.w f).map fun e => .xchg p e add rem (valsOf vals)) =
        ⟨w'', s.issued, specStepB s.ss [] (.xchgb p f add vals rem)⟩ ∧
      w'.pool = w''.pool ∧ (∀ x : Ent, w'.alive x = w''.alive x) ∧
      (∀ (i : Nat) (c : Comp), valOf w' i c = valOf w'' i c) ∧
      (∀ i : Nat, compsOf w' i = compsOf w'' i) := by
  have hC := H.hinv.cinv
  have hroom : Room s (.xchgb p f add vals rem) := ⟨by omega, hent⟩
  obtain ⟨_, _, _, _, gok⟩ := step_xchgb run H p f add vals rem hroom
  obtain ⟨w', hex, _, hst⟩ := gok hg hp
  have hg' := hg
  simp only [guardB, Bool.and_eq_true, Bool.or_eq_true, List.all_eq_true, decide_eq_true_eq,
    Bool.not_eq_true'] at hg'
  obtain ⟨hreg, hcase⟩ := hg'
  have hne : ¬ (add = [] ∧ rem = []) := hp
  have hall : ∀ x ∈ s.ss.ents, f.matchesMask (Mask.ofList (keys x.2)) = true →
      XchgOK s.ss.zst.length x.2 add rem := by
    rcases hcase with ⟨ha, hr⟩ | hcase
    · exact absurd ⟨List.isEmpty_iff.mp ha, List.isEmpty_iff.mp hr⟩ hne
    · intro x hx hm
      rcases hcase x hx with h1 | h1
      · rw [hm] at h1; cases h1
      · exact h1
  have hok := hok_of_spec H f hall
  obtain ⟨Wb, Ws, h1, h2, _, _, hpool, o1, o2, o3, _⟩ :=
    opExchangeBatchFn_eq_singles run p hC H.rowsLive H.hinv.unlocked H.yinv.lock (foOf f) [] rfl hne
      hok hfew hent vals
  have hwb : Wb = w' := by
    simp only [execB, h1] at hex
    injection hex with _ hw
  subst hwb
  have hi : ∀ e ∈ selEnts s.w f, e ∈ s.issued := by
    intro e he
    obtain ⟨cs, hx, _⟩ := mem_matching.mp ((selEnts_iff_matching H f e).mp he)
    exact (H.hinv.live_facts hx).1
  have hrun := runOps_xchgs run p add rem (valsOf vals) (selEnts s.w f) s Ws hi hreg h2
  -- the two folds of the specification agree
  have hnd := H.hinv.ginv.live_nodup
  have hspec : specXchgAll s.ss p add rem (valsOf vals) (selEnts s.w f) =
      specXchgAll s.ss p add rem (valsOf vals) (matching s.ss f) := by
    have hm1 : ∀ e ∈ selEnts s.w f, ∃ cs, find s.ss.ents e = some cs ∧
        XchgOK s.ss.zst.length cs add rem := by
      intro e he
      obtain ⟨cs, hx, hm⟩ := mem_matching.mp ((selEnts_iff_matching H f e).mp he)
      exact ⟨cs, find_of_mem hnd hx, hall _ hx hm⟩
    have hm2 : ∀ e ∈ matching s.ss f, ∃ cs, find s.ss.ents e = some cs ∧
        XchgOK s.ss.zst.length cs add rem := by
      intro e he
      obtain ⟨cs, hx, hm⟩ := mem_matching.mp he
      exact ⟨cs, find_of_mem hnd hx, hall _ hx hm⟩
    obtain ⟨z1, e1⟩ := specXchgAll_spec p add rem (valsOf vals) _ s.ss hnd (selEnts_nodup H f) hm1
    obtain ⟨z2, e2⟩ := specXchgAll_spec p add rem (valsOf vals) _ s.ss hnd (matching_nodup hnd f) hm2
    have he : (specXchgAll s.ss p add rem (valsOf vals) (selEnts s.w f)).ents =
        (specXchgAll s.ss p add rem (valsOf vals) (matching s.ss f)).ents := by
      rw [e1, e2]
      apply List.map_congr_left
      intro x _
      have := selEnts_iff_matching H f x.1
      by_cases hx : x.1 ∈ selEnts s.w f
      · rw [if_pos hx, if_pos (this.mp hx)]
      · rw [if_neg hx, if_neg (fun hh => hx (this.mpr hh))]
    cases hA : specXchgAll s.ss p add rem (valsOf vals) (selEnts s.w f) with
    | mk a1 b1 =>
      cases hB : specXchgAll s.ss p add rem (valsOf vals) (matching s.ss f) with
      | mk a2 b2 =>
        rw [hA] at he z1; rw [hB] at he z2
        simp only at he z1 z2
        rw [he, z1, z2]
  rw [hspec] at hrun
  exact ⟨Wb, Ws, hst, hrun, hpool, o1, o2, o3⟩

end RefineB

end Ark
