/-
  Ark.Proofs.RelRefine2Ops — the filter cache along the entity operations of the relation
  fragment (property C05 with relations, part 3): one lemma `…_ckeep` per operation of the machine
  of `Ark.Proofs.RelRefine` (`registerComponent`, `NewEntity`, `Add`, `Remove`, `SetRelations`,
  `Set`; `RemoveEntity` is in `RelRefine2Clean`), stated for ANY successful result under the
  hypotheses of the corresponding specification theorem.  For `Remove` and `Set` — which
  `Ark.Proofs.QueryRel*` does not cover — also `QKeep` (`RowsAlive`, `CIdx`): `opRemove_keep`,
  `opSet_keep`.
  Kernel-only proofs, core Lean only.
-/
import Ark.Proofs.RelRefine2Clean

set_option autoImplicit false

namespace Ark
namespace RelRefine2

open World Ark.Props.C01World QueryRel

/-! ### `registerComponent` -/

theorem registerComponent_ckeep {k : CompKind} {w w' : World} {n : Nat}
    (hr : World.registerComponent k w = .ok n w') : CKeep w w' := by
  have e := registerComponent_ok_eq hr
  subst e
  exact CKeep.of_selected rfl rfl (fun f rels t => Selected_congr rfl rfl f rels t)

/-! ### `NewEntity(ids…, rels…)` -/

theorem opNewEntity_ckeep (run : ProbeRunner) (p : Path) {w : World} {fl : List Nat}
    (h : TInv w fl) (hl : w.isLocked = false) (hno : ∀ (evt : Nat), w.obs.hasObservers evt = false)
    {ids : List Comp} {vals : List (Comp × Val)} {rels : List RelID}
    (hreg : ∀ (c : Comp), c ∈ ids → c < w.kinds.length)
    {e : Ent} {w' : World} (hok : opNewEntity run p ids vals rels w = .ok e w') : CKeep w w' := by
  have hpre : preCheck p ids rels w = .ok () w := by
    rcases preCheck_cases p ids rels w with h1 | ⟨k, h1⟩
    · exact h1
    · simp [opNewEntity, bind, M.bind, h1] at hok
  cases hf : findOrCreateTableAdd 0 Mask.empty ids rels w with
  | panic k s =>
    simp [opNewEntity, newEntityCore, bind, M.bind, hpre, checkLocked_unlocked w hl, hf] at hok
  | ok res w1 =>
    obtain ⟨t, a, m⟩ := res
    have hu := findOrCreateTableAdd_untouched hf
    have hno1 : ∀ (evt : Nat), w1.obs.hasObservers evt = false := by
      intro evt; rw [hu.obs]; exact hno evt
    have heq := opNewEntity_rel_eq run p ids vals rels w hl hpre hf hno1
    rw [heq] at hok
    injection hok with _ hw
    subst hw
    have q1 : CKeep w w1 := foc_ckeep h.rel.sinv (fun c hc => by simp at hc) hreg hf
    exact ((q1.trans (placedW_ckeep w1 t false)).trans (registerW_ckeep _ rels)).trans
      (writeValsW_ckeep _ _ vals)

/-! ### `Add(e, ids…, rels…)` -/

theorem opAdd_ckeep (run : ProbeRunner) (p : Path) {w : World} {fl : List Nat} (h : TInv w fl)
    (hl : w.isLocked = false) (hno : ∀ (evt : Nat), w.obs.hasObservers evt = false) {e : Ent}
    (h2 : 2 ≤ e.id) (hnf : e.id ∉ fl) (ha : w.alive e = true)
    (hsl : e.id < w.pool.ents.length) {ids : List Comp}
    {vals : List (Comp × Val)} {rels : List RelID}
    (hreg : ∀ (c : Comp), c ∈ ids → c < w.kinds.length)
    {w' : World} (hok : opAdd run p e ids vals rels w = .ok () w') : CKeep w w' := by
  obtain ⟨oldT, row, he, htm, _⟩ := h.link.live_entry h2 hnf ha hsl
  have hix := index_of_get he
  have hI := h.link.idx
  obtain ⟨hT, hrow, hid⟩ := hI.indexed he htm
  have hlt := lt_of_get hT
  have hS := h.rel.sinv.toSInvMid
  obtain ⟨A, hA, i1, i2, i3, _⟩ := hS.tblArch oldT _ hT
  have hAe := arch_of_get hA
  have hpre : preCheck (p.addCheck ids) ids rels w = .ok () w := by
    rcases preCheck_cases (p.addCheck ids) ids rels w with h1 | ⟨k, h1⟩
    · exact h1
    · cases p <;> simp [opAdd, bind, M.bind, M.get, M.assert, ha, h1] at hok
  have hemp : ids.isEmpty = false := by
    cases hi : ids.isEmpty with
    | false => rfl
    | true =>
      have : addCore e ids rels w = .panic .noComponents w := by
        simp [addCore, bind, M.bind, checkLocked_unlocked w hl, M.get, M.assert, ha, hi]
      cases p <;> simp [opAdd, hpre, bind, M.bind, M.get, M.assert, ha, this] at hok
  cases hf : findOrCreateTableAdd oldT (w.arch (w.tbl oldT).arch).mask ids rels w with
  | panic k s =>
    have : addCore e ids rels w = .panic k s := by
      simp [addCore, bind, M.bind, checkLocked_unlocked w hl, M.get, M.assert, ha, hemp, hix, hf]
    cases p <;> simp [opAdd, hpre, bind, M.bind, M.get, M.assert, ha, this] at hok
  | ok res w1 =>
    obtain ⟨newT, newA, mask⟩ := res
    have hstart : ∀ (c : Nat), (w.arch (w.tbl oldT).arch).mask.get c = true → c < w.kinds.length := by
      intro c hc; rw [hAe] at hc; exact hS.maskReg _ A hA c hc
    obtain ⟨hmask, foc, _⟩ := h.rel.sinv.findOrCreateTableAdd_of_ok_rinv h.rel.rinv hstart hreg hf
    have hu := findOrCreateTableAdd_untouched hf
    have hnew := graphFindAdd_new (m' := mask) (w' := w) (by
      rcases graphFindAdd_cases (w.arch (w.tbl oldT).arch).mask ids w with hg | ⟨hg, _⟩
      · rw [hmask]; exact hg
      · simp only [World.findOrCreateTableAdd, bind, M.bind, hg] at hf; cases hf)
    have hne' : oldT ≠ newT := by
      refine Ne.symm (foc.ne_old h.rel.sinv hlt ?_)
      cases hids : ids with
      | nil => rw [hids] at hemp; cases hemp
      | cons c rest =>
        intro heq
        have hc : c ∈ ids := by rw [hids]; exact List.mem_cons_self
        have h1 := hnew c hc
        have h256 : c < 256 := Nat.lt_of_lt_of_le (hreg c hc) (Nat.le_trans h.kindsLe.1 h.kindsLe.2)
        rw [← heq, hmask, Mask.get_ofList_foldl] at h1
        simp [h256, hc] at h1
    have hcore := addCore_rel_eq e ids rels w hl ha hemp hix hf
    have hno3 : ∀ (evt : Nat), (registerW (addMove w1 e oldT row newT mask) rels).obs.hasObservers evt
        = false := by
      intro evt
      show (addMove w1 e oldT row newT mask).obs.hasObservers evt = false
      rw [(addMove_fields w1 e oldT row newT mask).2.2.2.obs, hu.obs]; exact hno evt
    rw [opAdd_rel_eq run p e ids vals rels w ha hpre hcore hno3] at hok
    injection hok with _ hw
    subst hw
    have q1 : CKeep w w1 := foc_ckeep h.rel.sinv hstart hreg hf
    have hel1 : e.id < w1.entities.length := by
      rw [foc.entities]; exact (List.getElem?_eq_some_iff.1 he).1
    exact ((q1.trans (addMove_ckeep w1 e mask hne' foc.tblLt
      (Nat.lt_of_lt_of_le hlt foc.tablesLen) hel1)).trans
      (registerW_ckeep _ rels)).trans (writeValsW_ckeep _ e vals)

/-! ### `SetRelations(e, rels…)` -/

theorem setRelationsCore_ckeep (run : ProbeRunner) {w : World} {fl : List Nat} (h : TInv w fl)
    (hl : w.isLocked = false) (hno : ∀ (evt : Nat), w.obs.hasObservers evt = false) {e : Ent}
    (h2 : 2 ≤ e.id) (hnf : e.id ∉ fl) (ha : w.alive e = true)
    (hsl : e.id < w.pool.ents.length) {rels : List RelID}
    (hne : rels.isEmpty = false) (hnd : (rels.map (·.comp)).Nodup)
    (hhas : ∀ (r : RelID), r ∈ rels → (targetOf w e.id r.comp).isSome = true)
    {w' : World} (hok : setRelationsCore run e rels w = .ok () w') : CKeep w w' := by
  obtain ⟨oldT, row, he, htm, _⟩ := h.link.live_entry h2 hnf ha hsl
  have hix := index_of_get he
  have hI := h.link.idx
  obtain ⟨hT, hrow, hid⟩ := hI.indexed he htm
  have hlt := lt_of_get hT
  have hS := h.rel.sinv.toSInvMid
  have hTf : (w.tbl oldT).isFree = false := by
    cases hf : (w.tbl oldT).isFree with
    | false => rfl
    | true => have := h.freeEmpty oldT _ hT hf; omega
  have hTex := h.rel.aux.rels oldT _ hT hTf
  have hcols : ∀ (r : RelID), r ∈ rels → ∃ (i : Nat), (w.tbl oldT).colIdx r.comp = some i ∧
      (w.tbl oldT).isRel.getD i false = true := by
    intro r hr
    obtain ⟨t, r', k, T, h1, _, h3, h4, h5⟩ := targetOf_isSome (hhas r hr)
    rw [he] at h1
    obtain ⟨rfl, rfl⟩ := Prod.mk.inj (Option.some.inj h1)
    rw [hT] at h3
    obtain rfl := Option.some.inj h3
    exact ⟨k, h4, h5⟩
  have hts : ∀ (r : RelID), r ∈ rels → ∀ (i : Nat), (w.tbl oldT).colIdx r.comp = some i →
      (setTargets (w.tbl oldT).colIdx rels (w.tbl oldT).targets).getD i Ent.zero = r.target := by
    intro r hr i hi
    apply setTargets_getD_eq
    · rw [hTex.tlen]; exact Table.colIdx_lt hi
    · intro r' hr' hc'
      have : r'.comp = r.comp := colIdx_inj hc' hi
      rw [eq_of_nodup_map (·.comp) rels hnd r' r hr' hr this]
    · exact Or.inl ⟨r, hr, hi⟩
  have hlen' : (setTargets (w.tbl oldT).colIdx rels (w.tbl oldT).targets).length =
      (w.tbl oldT).ids.length := by rw [setTargets_length, hTex.tlen]
  obtain ⟨ch, cm, hx, hfalse, htrue⟩ := getExchangeTargets_spec (w.tbl oldT) rels w hcols hnd
  cases ch with
  | false =>
    rw [setRelationsCore_unchanged run e rels w hl ha hne hix hx] at hok
    injection hok with _ hw
    subst hw
    exact CKeep.refl _
  | true =>
    simp only [if_true] at hx
    obtain ⟨r1, hr1, i1, hi1, hne1⟩ := htrue rfl
    have hi1r : (w.tbl oldT).isRel.getD i1 false = true := by
      obtain ⟨i, hi, hir⟩ := hcols r1 hr1
      rw [hi1] at hi
      obtain rfl := Option.some.inj hi
      exact hir
    obtain ⟨A, hA, _, e2, _⟩ := hS.tblArch oldT _ hT
    have hrelA : (w.arch (w.tbl oldT).arch).hasRelations = true := by
      rw [arch_of_get hA]
      exact (hS.astruct _ A hA).hasRelations_of_rel (by rw [← e2]; exact hi1r)
    cases hgo : getOrCreate (w.tbl oldT).arch
        (colRels (w.tbl oldT).ids (setTargets (w.tbl oldT).colIdx rels (w.tbl oldT).targets)
          (w.tbl oldT).isRel) w with
    | panic k s =>
      rw [setRelationsCore_panic_get run e rels w hl ha hne hix hx hgo] at hok
      cases hok
    | ok nt w1 =>
      obtain ⟨_, hI1, _, _, cg, _⟩ := relGet_of_ok (rels0 := rels) h.rel hI
        (h.flags.upTo rels) h.freeEmpty hlt rfl hTf hrelA hlen'
        ⟨i1, hi1r, by rw [hts r1 hr1 i1 hi1]; exact hne1⟩
        (by
          intro i hi hz
          rcases setTargets_getD_cases (w.tbl oldT).colIdx i Ent.zero rels (w.tbl oldT).targets with k | ⟨r, hr, k⟩
          · rw [k] at hz ⊢
            exact Or.inl (h.flags oldT _ hT hTf i hi hz)
          · exact Or.inr ⟨r, hr, k.symm⟩) hgo
      have hno1 : ∀ (evt : Nat), w1.obs.hasObservers evt = false := by
        intro evt; rw [cg.obs]; exact hno evt
      rw [setRelationsCore_changed run e rels w hl ha hne hix hx hgo hno1] at hok
      injection hok with _ hw
      subst hw
      have hne' : oldT ≠ nt := Ne.symm cg.ntNe
      have hel1 : e.id < w1.entities.length := by
        rw [cg.entities]; exact (List.getElem?_eq_some_iff.1 he).1
      exact ((getOrCreate_ckeep hS (alt_of_get hA) hrelA hgo).trans
        (addMove_ckeep w1 e _ hne' cg.ntLt (Nat.lt_of_lt_of_le hlt cg.tablesLe) hel1)).trans
        (registerW_ckeep _ rels)

theorem opSetRelations_ckeep (run : ProbeRunner) (p : Path) {w : World} {fl : List Nat}
    (h : TInv w fl) (hl : w.isLocked = false) (hno : ∀ (evt : Nat), w.obs.hasObservers evt = false)
    {e : Ent} (h2 : 2 ≤ e.id) (hnf : e.id ∉ fl) (ha : w.alive e = true)
    (hsl : e.id < w.pool.ents.length) {mapperIds : List Comp}
    {rels : List RelID} (hne : rels.isEmpty = false) (hnd : (rels.map (·.comp)).Nodup)
    (hhas : ∀ (r : RelID), r ∈ rels → (targetOf w e.id r.comp).isSome = true)
    {w' : World} (hok : opSetRelations run p e mapperIds rels w = .ok () w') : CKeep w w' := by
  have hpre : preCheck p.setRelCheck mapperIds rels w = .ok () w := by
    rcases preCheck_cases p.setRelCheck mapperIds rels w with h1 | ⟨k, h1⟩
    · exact h1
    · simp [opSetRelations, bind, M.bind, h1] at hok
  simp only [opSetRelations, bind, M.bind, hpre] at hok
  exact setRelationsCore_ckeep run h hl hno h2 hnf ha hsl hne hnd hhas hok

/-! ### `Set` -/

theorem opSet_keep (run : ProbeRunner) {w : World} {e : Ent} {ids : List Comp}
    {vals : List (Comp × Val)} (hno : ∀ (evt : Nat), w.obs.hasObservers evt = false)
    {w' : World} (hok : opSet run e ids vals w = .ok () w') :
    QKeep w w' ∧ CKeep w w' ∧ w'.locks = w.locks ∧ w'.kinds = w.kinds := by
  cases ha : w.alive e with
  | false => rw [World.opSet_dead run w e ha ids vals] at hok; cases hok
  | true =>
    cases hhas : (ids.all fun c => (w.tbl (w.index e.id).1).has c) with
    | false => rw [opSet_missing run w e ids vals ha hhas] at hok; cases hok
    | true =>
      rw [opSet_eq run w e ids vals ha hhas (hno _)] at hok
      injection hok with _ hw
      subst hw
      exact ⟨writeValsW_qkeep w e vals, writeValsW_ckeep w e vals, rfl, rfl⟩

/-! ### `Remove(e, ids…)` -/

/-- `Remove(e, ids…)` of a live entity, relation components or not, on success: the lookup from
    the root table with the relations that stay (`findOrCreateTableRemove_eq_add_rel`), then the
    row moves -/
theorem opRemove_keep (run : ProbeRunner) (p : Path) {w : World} {fl : List Nat} (h : TInv w fl)
    (hl : w.isLocked = false) (hno : ∀ (evt : Nat), w.obs.hasObservers evt = false) {e : Ent}
    (h2 : 2 ≤ e.id) (hnf : e.id ∉ fl) (ha : w.alive e = true)
    (hsl : e.id < w.pool.ents.length) {ids : List Comp}
    (hne : ids ≠ []) (hnd : ids.Nodup)
    (hpres : ∀ (c : Comp), c ∈ ids → (w.maskOf e).get c = true)
    (hrows : w.entities.length + 1 < 2 ^ 32)
    {w' : World} (hok : opRemove run p e ids w = .ok () w') :
    QKeep w w' ∧ CKeep w w' ∧ w'.locks = w.locks ∧ w'.kinds = w.kinds := by
  obtain ⟨oldT, row, he, htm, _⟩ := h.link.live_entry h2 hnf ha hsl
  have hix := index_of_get he
  have hI := h.link.idx
  obtain ⟨hT, hrow, hid⟩ := hI.indexed he htm
  have hlt := lt_of_get hT
  have hSS := h.rel.sinv
  have hS := hSS.toSInvMid
  obtain ⟨A, hA, i1, i2, i3, _⟩ := hS.tblArch oldT _ hT
  have hAe := arch_of_get hA
  have hmo : w.maskOf e = (w.arch (w.tbl oldT).arch).mask := by simp only [maskOf, hix]
  have hpres' : ∀ (c : Comp), c ∈ ids → (w.arch (w.tbl oldT).arch).mask.get c = true :=
    fun c hc => by rw [← hmo]; exact hpres c hc
  have hg := graphFindRemove_ok (w.arch (w.tbl oldT).arch).mask ids w hpres' hnd
  have hroot : (w.tbl 0).relIDs = [] :=
    hS.relIDs_nil (get_of_lt hSS.root.1) (by rw [hSS.root.2.1]; exact hS.root_noRel)
  have hmreg : ∀ (c : Nat), (ids.foldl Mask.clear (w.arch (w.tbl oldT).arch).mask).get c = true →
      c < w.kinds.length := by
    intro c hc
    rw [Mask.get_foldl_clear, hAe] at hc
    simp only [Bool.and_eq_true] at hc
    exact hS.maskReg _ A hA c hc.1
  rw [opRemove_eq run p e ids w ha] at hok
  have hfr := findOrCreateTableRemove_eq_add_rel oldT _ _ ids w hg hroot
  cases hadd : findOrCreateTableAdd 0 (ids.foldl Mask.clear (w.arch (w.tbl oldT).arch).mask) []
      ((w.tbl oldT).relIDs.filter fun r =>
        (ids.foldl Mask.clear (w.arch (w.tbl oldT).arch).mask).get r.comp) w with
  | panic k s =>
    rw [hadd] at hfr
    have hemp : ids.isEmpty = false := by
      cases ids with
      | nil => exact absurd rfl hne
      | cons _ _ => rfl
    simp only [removeCore, bind, M.bind, checkLocked_unlocked w hl, M.get, M.assert, ha, if_true, hemp,
      Bool.not_false, hix, hfr] at hok
    cases hok
  | ok res w1 =>
    obtain ⟨t, a, m⟩ := res
    rw [hadd] at hfr
    have hu := findOrCreateTableAdd_untouched hadd
    have hno1 : ∀ (evt : Nat), w1.obs.hasObservers evt = false := by
      intro evt; rw [hu.obs]; exact hno evt
    rw [removeCore_eq run e ids w hl ha hne hix hfr hno1] at hok
    injection hok with _ hw
    subst hw
    obtain ⟨hmask, foc, _⟩ := hSS.findOrCreateTableAdd_of_ok_rinv h.rel.rinv hmreg
      (fun c hc => by cases hc) hadd
    have hne' : oldT ≠ t := by
      refine Ne.symm (foc.ne_old hSS hlt ?_)
      obtain ⟨c, hc⟩ := List.exists_mem_of_ne_nil ids hne
      intro heq
      have h1 := hpres' c hc
      rw [← heq, hmask] at h1
      simp only [List.foldl_nil] at h1
      rw [Mask.get_foldl_clear] at h1
      simp [hc] at h1
    have hI1 : IdxInv w1 := foc.idx hI
    have he1 : w1.entities[e.id]? = some (oldT, row) := by rw [foc.entities]; exact he
    have hb1 : (w1.tbl t).len + 1 < 2 ^ 32 := by
      have := hI1.rows_le t
      rw [foc.entities] at this; omega
    have ha1 : w1.alive e = true := by simp only [World.alive, foc.pool]; exact ha
    have hel1 : e.id < w1.entities.length := (List.getElem?_eq_some_iff.1 he1).1
    have q1 : QKeep w w1 :=
      ⟨fun hr => hr.lookup (findOrCreateTableAdd_keeps hadd), fun hc => hc.findOrCreateTableAdd hadd,
       fun hce => findOrCreateTable_cacheEmpty.1 hadd hce⟩
    have c1 : CKeep w w1 := foc_ckeep hSS hmreg (fun c hc => by cases hc) hadd
    exact ⟨q1.trans (addMove_qkeep hI1 _ ha1 he1 htm hne' foc.tblLt hb1),
      c1.trans (addMove_ckeep w1 e _ hne' foc.tblLt (Nat.lt_of_lt_of_le hlt foc.tablesLen) hel1),
      by rw [(addMove_fields w1 e oldT row t _).2.2.2.locks, hu.locks],
      by rw [(addMove_fields w1 e oldT row t _).2.1, foc.kinds]⟩

end RelRefine2
end Ark
