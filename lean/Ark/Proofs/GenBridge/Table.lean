/-
  Ark.Proofs.GenBridge.Table — capacity decisions of table.go.
  `table.Extend`, `table.Shrink` and `table.CanShrink` are translated statement by statement from the Go
  source on every run (tools/extract/book.go → Ark/Generated/BookTableCaps.lean; `adjustCapacity(c)` is
  modelled as the assignment `cap := c`, `capPow2` as the model's function of that name) and proved to
  decide and to set the capacity exactly as the model's `Table.extend` / `shrink` / `canShrink` do, for
  all tables.  A changed condition or target changes the generated definition and breaks these
  theorems; a harmless rewrite (an inverted condition, `Shrink` calling `CanShrink`) still passes: the
  proofs are case analyses, not syntactic equalities, and helpers that are not translation targets are
  inlined.
-/
import Ark.Generated.BookTableCaps
import Ark.Model.Table

namespace Ark.GenBridge
open Ark Ark.Generated.Book

/-- the bookkeeping fields of the model's table as the structure generated from the Go struct -/
def capsOf (t : Table) (g : G_table) : Prop := g.len = t.len ∧ g.cap = t.cap

/-- `table.Extend` as in the source: same capacity as the model's `extend`, `len` untouched -/
theorem tableExtend_eq (t : Table) (g : G_table) (h : capsOf t g) (n : Nat) :
    capsOf (t.extend n) (table_Extend g n) := by
  obtain ⟨hl, hc⟩ := h
  unfold table_Extend Table.extend capsOf
  by_cases hge : t.cap ≥ t.len + n
  · have h1 : ¬ (t.len + n > t.cap) := by omega
    have h2 : ¬ (t.cap < t.len + n) := by omega
    have h3 : t.len + n ≤ t.cap := by omega
    simp [hl, hc, hge, h1, h2, h3]
  · have h1 : t.len + n > t.cap := by omega
    have h2 : t.cap < t.len + n := by omega
    have h3 : ¬ (t.len + n ≤ t.cap) := by omega
    simp [hl, hc, hge, h1, h2, h3, Table.adjustCapacity]

/-- `table.Shrink` as in the source: same result flag and same capacity as the model's `shrink` -/
theorem tableShrink_eq (t : Table) (g : G_table) (h : capsOf t g) (m : Nat) :
    capsOf (t.shrink m).1 (table_Shrink g m).1 ∧ (table_Shrink g m).2 = (t.shrink m).2 := by
  obtain ⟨hl, hc⟩ := h
  unfold table_Shrink Table.shrink capsOf
  have hmax : Nat.max (capPow2 t.len) m = max (capPow2 t.len) m := rfl
  by_cases hle : t.cap ≤ max (capPow2 t.len) m
  · have h1 : ¬ (t.cap > max (capPow2 t.len) m) := by omega
    have h2 : ¬ (max (capPow2 t.len) m < t.cap) := by omega
    have h3 : max (capPow2 t.len) m ≥ t.cap := by omega
    simp [table_CanShrink, hl, hc, hmax, hle, h1, h2, h3]
  · have h1 : t.cap > max (capPow2 t.len) m := by omega
    have h2 : max (capPow2 t.len) m < t.cap := by omega
    have h3 : ¬ (max (capPow2 t.len) m ≥ t.cap) := by omega
    simp [table_CanShrink, hl, hc, hmax, hle, h1, h2, h3, Table.adjustCapacity]

/-- `table.CanShrink` as in the source decides as the model's `canShrink` -/
theorem tableCanShrink_eq (t : Table) (g : G_table) (h : capsOf t g) (m : Nat) :
    table_CanShrink g m = t.canShrink m := by
  obtain ⟨hl, hc⟩ := h
  have hs := (tableShrink_eq t g ⟨hl, hc⟩ m).2
  unfold table_CanShrink Table.canShrink
  have hmax : Nat.max (capPow2 t.len) m = max (capPow2 t.len) m := rfl
  by_cases hle : t.cap ≤ max (capPow2 t.len) m
  · have h1 : ¬ (t.cap > max (capPow2 t.len) m) := by omega
    have h2 : ¬ (max (capPow2 t.len) m < t.cap) := by omega
    simp [hl, hc, hmax, hle, h1, h2]
  · have h1 : t.cap > max (capPow2 t.len) m := by omega
    have h2 : max (capPow2 t.len) m < t.cap := by omega
    simp [hl, hc, hmax, hle, h1, h2]

/-- `CanShrink` is true exactly when `Shrink` would do something (source level) -/
theorem tableCanShrink_iff_shrinks (t : Table) (g : G_table) (h : capsOf t g) (m : Nat) :
    table_CanShrink g m = (table_Shrink g m).2 := by
  rw [tableCanShrink_eq t g h m, (tableShrink_eq t g h m).2]
  unfold Table.canShrink Table.shrink
  by_cases hle : t.cap ≤ max (capPow2 t.len) m
  · have h1 : ¬ (t.cap > max (capPow2 t.len) m) := by omega
    simp [hle, h1]
  · have h1 : t.cap > max (capPow2 t.len) m := by omega
    simp [hle, h1]

end Ark.GenBridge
