/-
  Ark.Proofs.GenBridge.Table — capacity decisions of table.go.
  Ties definitions REGENERATED from the Go source (tools/extract, on every run) to the
  hand-written model: the model's definition is proved equal to what the code says now, for all
  inputs. A change of the Go logic changes the generated definition and breaks these theorems (a
  harmless rewrite, e.g. commuted conjuncts, still passes: the proofs are case analyses, not
  syntactic equalities). One file per source fragment group, so that an untranslatable fragment
  affects only the properties that depend on it.
-/
import Ark.Generated.TableCaps
import Ark.Model.Table

namespace Ark.GenBridge
open Ark

/-- `table.Extend` re-allocates exactly when the model does -/
theorem tableExtend_eq (t : Table) (n : Nat) :
    t.extend n = if Generated.tableExtend_noop t.len t.cap n then t else t.adjustCapacity (capPow2 (t.len + n)) := by
  unfold Table.extend Generated.tableExtend_noop
  rfl

/-- `table.Shrink` / `table.CanShrink` decide as the model does -/
theorem tableShrink_eq (t : Table) (m : Nat) :
    t.shrink m = if Generated.tableShrink_noop t.cap (max (capPow2 t.len) m) then (t, false)
                 else (t.adjustCapacity (max (capPow2 t.len) m), true) := by
  unfold Table.shrink Generated.tableShrink_noop
  rfl

theorem tableCanShrink_eq (t : Table) (m : Nat) :
    t.canShrink m = decide (Generated.tableCanShrink t.cap (max (capPow2 t.len) m)) := by
  unfold Table.canShrink Generated.tableCanShrink
  rfl

end Ark.GenBridge
