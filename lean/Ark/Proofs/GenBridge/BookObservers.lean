/-
  Ark.Proofs.GenBridge.BookObservers — the tail of `observerManager.RemoveObserver` (events.go) that
  recomputes the per-event aggregates (`allWith`/`anyNoWith`, `allComps`/`anyNoComps`) from the
  observers that remain, translated statement by statement from the Go source on every run
  (tools/extract/book.go → Ark/Generated/BookObservers.lean; the `bitMask` method `OrI` is the
  word-level translation of mask256.go), proved equal to the model's recomputation
  (`ObsMgr.recomputeWith` / `recomputeComps`, used by `ObsMgr.removeAt`) for ALL manager states.

  These aggregates feed the early-outs of every `Fire*` function: C08 ("whether an observer fires does
  not depend on which other observers are or were registered") needs them to be a function of the
  CURRENT observer list, whatever the registration history — which is what the recomputation provides.
-/
import Ark.Generated.BookObservers
import Ark.Model.Observers
import Ark.Proofs.MaskWords

namespace Ark.GenBridge.Book
open Ark Ark.Generated Ark.Generated.Book Ark.MaskWords

/-- the source's `observerData` as the model's (the fields the recomputation reads) -/
def toData (g : G_observerData) : ObsData :=
  { compsMask := abs g.compsMask, withMask := abs g.withMask, hasComps := g.hasComps, hasWith := g.hasWith }

/-- The recomputation loop (with its early `break` at the first wildcard observer) over a list of
    observer data: union of the masks before the first wildcard, and whether there is a wildcard. -/
def recLoop (has : ObsData → Bool) (msk : ObsData → Mask) : Mask → List ObsData → Mask × Bool
  | acc, [] => (acc, false)
  | acc, d :: rest => if !has d then (acc, true) else recLoop has msk (acc.or (msk d)) rest

theorem recomputeWith_go_eq (m : ObsMgr) : ∀ (obs : List Nat) (acc : Mask),
    ObsMgr.recomputeWith.go m acc obs =
      recLoop (·.hasWith) (·.withMask) acc (obs.map fun l => (m.obj l).data) := by
  intro obs
  induction obs with
  | nil => intro acc; rfl
  | cons l rest ih =>
    intro acc
    simp only [ObsMgr.recomputeWith.go, List.map_cons, recLoop]
    split <;> simp_all

theorem recomputeComps_go_eq (m : ObsMgr) : ∀ (obs : List Nat) (acc : Mask),
    ObsMgr.recomputeComps.go m acc obs =
      recLoop (·.hasComps) (·.compsMask) acc (obs.map fun l => (m.obj l).data) := by
  intro obs
  induction obs with
  | nil => intro acc; rfl
  | cons l rest ih =>
    intro acc
    simp only [ObsMgr.recomputeComps.go, List.map_cons, recLoop]
    split <;> simp_all

/-- the model's `recomputeWith` is `recLoop` over the data of the listed observers -/
theorem recomputeWith_eq (m : ObsMgr) (obs : List Nat) :
    m.recomputeWith obs = recLoop (·.hasWith) (·.withMask) Mask.empty (obs.map fun l => (m.obj l).data) :=
  recomputeWith_go_eq m obs _

theorem recomputeComps_eq (m : ObsMgr) (obs : List Nat) :
    m.recomputeComps obs = recLoop (·.hasComps) (·.compsMask) Mask.empty (obs.map fun l => (m.obj l).data) :=
  recomputeComps_go_eq m obs _


/-! ### the translated loops -/

/-- one iteration of a translated recomputation loop, on (union so far, flag list, break flag) -/
def pStep (has : G_observerData → Bool) (msk : G_observerData → M256) (e : Nat)
    (s : M256 × List Bool × Bool) (d : G_observerData) : M256 × List Bool × Bool :=
  if s.2.2 then s else if !has d then (s.1, s.2.1.set e true, true) else (M256.OrI s.1 (msk d), s.2.1, false)

theorem pFold_brk (has : G_observerData → Bool) (msk : G_observerData → M256) (e : Nat) :
    ∀ (L : List G_observerData) (aw : M256) (fl : List Bool),
      L.foldl (pStep has msk e) (aw, fl, true) = (aw, fl, true) := by
  intro L
  induction L with
  | nil => intro aw fl; rfl
  | cons d rest ih => intro aw fl; simp only [List.foldl_cons, pStep, if_true]; exact ih aw fl

/-- the translated loop computes `recLoop` (under `abs`), sets the flag iff there is a wildcard, and
    leaves the loop by `break` iff there is one -/
theorem pFold_eq (has : G_observerData → Bool) (msk : G_observerData → M256) (e : Nat)
    (hasM : ObsData → Bool) (mskM : ObsData → Mask)
    (hhas : ∀ d, has d = hasM (toData d)) (hmsk : ∀ d, abs (msk d) = mskM (toData d)) :
    ∀ (L : List G_observerData) (aw : M256) (fl : List Bool),
      abs (L.foldl (pStep has msk e) (aw, fl, false)).1 = (recLoop hasM mskM (abs aw) (L.map toData)).1 ∧
      (L.foldl (pStep has msk e) (aw, fl, false)).2.1 =
        (if (recLoop hasM mskM (abs aw) (L.map toData)).2 then fl.set e true else fl) ∧
      (L.foldl (pStep has msk e) (aw, fl, false)).2.2 = (recLoop hasM mskM (abs aw) (L.map toData)).2 := by
  intro L
  induction L with
  | nil => intro aw fl; simp [recLoop]
  | cons d rest ih =>
    intro aw fl
    simp only [List.foldl_cons, List.map_cons, recLoop, pStep, Bool.false_eq_true, if_false]
    rw [← hhas d]
    cases hd : has d with
    | false => simp [pFold_brk]
    | true =>
      simp only [Bool.not_true, Bool.false_eq_true, if_false]
      have := ih (M256.OrI aw (msk d)) fl
      rw [orI_eq, hmsk d] at this
      exact this

/-- the step of a translated loop as the generated code spells it: state = (union, manager, break
    flag); the data is read from the manager's own list, the flag list is one of its fields -/
def gStep (has : G_observerData → Bool) (msk : G_observerData → M256) (e : Nat)
    (get : G_observerManager → List Bool) (put : G_observerManager → List Bool → G_observerManager)
    (s : M256 × G_observerManager × Bool) (i : Nat) : M256 × G_observerManager × Bool :=
  let r := pStep has msk e (s.1, get s.2.1, s.2.2) ((s.2.1.observers.getD e []).getD i default)
  (r.1, put s.2.1 r.2.1, r.2.2)

theorem gFold_eq (has : G_observerData → Bool) (msk : G_observerData → M256) (e : Nat)
    (get : G_observerManager → List Bool) (put : G_observerManager → List Bool → G_observerManager)
    (hobs : ∀ m fl, (put m fl).observers = m.observers) (hgp : ∀ m fl, get (put m fl) = fl)
    (hpp : ∀ m a b, put (put m a) b = put m b) (hpg : ∀ m, put m (get m) = m)
    (L : List G_observerData) :
    ∀ (idxs : List Nat) (aw : M256) (m : G_observerManager) (brk : Bool), m.observers.getD e [] = L →
      idxs.foldl (gStep has msk e get put) (aw, m, brk) =
        (((idxs.map (L.getD · default)).foldl (pStep has msk e) (aw, get m, brk)).1,
         put m ((idxs.map (L.getD · default)).foldl (pStep has msk e) (aw, get m, brk)).2.1,
         ((idxs.map (L.getD · default)).foldl (pStep has msk e) (aw, get m, brk)).2.2) := by
  intro idxs
  induction idxs with
  | nil => intro aw m brk _; simp [hpg]
  | cons i rest ih =>
    intro aw m brk hL
    simp only [List.foldl_cons, List.map_cons]
    have hstep : gStep has msk e get put (aw, m, brk) i =
        ((pStep has msk e (aw, get m, brk) (L.getD i default)).1,
         put m (pStep has msk e (aw, get m, brk) (L.getD i default)).2.1,
         (pStep has msk e (aw, get m, brk) (L.getD i default)).2.2) := by
      simp only [gStep, hL]
    rw [hstep, ih _ _ _ (by rw [hobs]; exact hL)]
    simp only [hgp, hpp]

theorem foldl_congr_step {σ ι : Type} (F G : σ → ι → σ) (h : ∀ a i, F a i = G a i) (xs : List ι) (a : σ) :
    xs.foldl F a = xs.foldl G a := by
  have : F = G := funext fun a => funext fun i => h a i
  rw [this]

theorem map_getD_range {α : Type} (L : List α) (d : α) : (List.range L.length).map (L.getD · d) = L := by
  apply List.ext_getElem
  · simp
  · intro i h1 h2
    simp [List.getD_eq_getElem?_getD, h2]


theorem abs_zero256 : abs (⟨⟨0#64, 0#64, 0#64, 0#64⟩⟩ : M256) = Mask.empty := by
  simp [abs, abs_zero, Mask.empty]

theorem set_set_same {α : Type} (l : List α) (i : Nat) (a b : α) : (l.set i a).set i b = l.set i b := by
  simp

/-- what the translated tail computes, written with the loops as list folds -/
def aggSpec (g : G_observerManager) (o : G_Observer) : G_observerManager :=
  let L := g.observers.getD o.event []
  let w := L.foldl (pStep (·.hasWith) (·.withMask) o.event)
    ((⟨⟨0#64, 0#64, 0#64, 0#64⟩⟩ : M256), g.anyNoWith.set o.event false, false)
  let g1 : G_observerManager := { g with anyNoWith := w.2.1, allWith := g.allWith.set o.event w.1 }
  if o.event == 249 || o.event == 250 then g1 else
  let c := L.foldl (pStep (·.hasComps) (·.compsMask) o.event)
    ((⟨⟨0#64, 0#64, 0#64, 0#64⟩⟩ : M256), g.anyNoComps.set o.event false, false)
  { g1 with anyNoComps := c.2.1, allComps := g.allComps.set o.event c.1 }

theorem aggregates_eq_spec (g : G_observerManager) (o : G_Observer) :
    observerManager_RemoveObserver_aggregates g o = aggSpec g o := by
  unfold observerManager_RemoveObserver_aggregates
  extract_lets z m1 m2 b0 b1
  rw [foldl_congr_step _ (gStep (·.hasWith) (·.withMask) o.event (·.anyNoWith)
        (fun m fl => ({ m with anyNoWith := fl } : G_observerManager)))
      (by
        rintro ⟨aw, m, brk⟩ i
        simp only [gStep, pStep]
        cases brk <;> simp [b1]
        split <;> simp_all)]
  rw [gFold_eq (·.hasWith) (·.withMask) o.event (·.anyNoWith)
        (fun m fl => ({ m with anyNoWith := fl } : G_observerManager))
        (fun _ _ => rfl) (fun _ _ => rfl) (fun _ _ _ => rfl) (fun _ => rfl)
        (g.observers.getD o.event []) _ _ _ _ (by simp [m2, m1])]
  have hr : (m2.observers.getD o.event []).length = (g.observers.getD o.event []).length := by simp [m2, m1]
  rw [hr, map_getD_range]
  have hw0 : List.foldl (pStep (·.hasWith) (·.withMask) o.event) (z, m2.anyNoWith, b0) (g.observers.getD o.event []) =
      List.foldl (pStep (·.hasWith) (·.withMask) o.event)
        ((⟨⟨0#64, 0#64, 0#64, 0#64⟩⟩ : M256), g.anyNoWith.set o.event false, false) (g.observers.getD o.event []) := rfl
  rw [hw0]
  unfold aggSpec
  extract_lets L w g1
  show (match (w.1, ({ m2 with anyNoWith := w.2.1 } : G_observerManager), w.2.2) with | (allWith, m, brk_2) => _) = _
  dsimp only
  by_cases hev : (o.event == 249 || o.event == 250) = true
  · rw [if_pos hev, if_pos hev]
  · rw [if_neg hev, if_neg hev]
    rw [foldl_congr_step _ (gStep (·.hasComps) (·.compsMask) o.event (·.anyNoComps)
          (fun m fl => ({ m with anyNoComps := fl } : G_observerManager)))
        (by
          rintro ⟨aw, m, brk⟩ i
          simp only [gStep, pStep]
          cases brk <;> simp [b1]
          split <;> simp_all)]
    rw [gFold_eq (·.hasComps) (·.compsMask) o.event (·.anyNoComps)
          (fun m fl => ({ m with anyNoComps := fl } : G_observerManager))
          (fun _ _ => rfl) (fun _ _ => rfl) (fun _ _ _ => rfl) (fun _ => rfl)
          (g.observers.getD o.event []) _ _ _ _ (by simp [m2, m1])]
    rw [hr, map_getD_range]


/-- **The tail of `RemoveObserver` as in the source**: for the event type of the removed observer, the
    union masks and wildcard flags become the recomputation over the observers that remain — the
    model's `recomputeWith` / `recomputeComps` (`recomputeWith_eq`) —, for `OnCreateEntity`/`OnRemoveEntity`
    only the `With` pair; the observer lists and every other event type's entries are untouched. -/
theorem removeObserver_aggregates_eq (g : G_observerManager) (o : G_Observer) :
    (observerManager_RemoveObserver_aggregates g o).observers = g.observers ∧
    (observerManager_RemoveObserver_aggregates g o).allWith.map abs =
      (g.allWith.map abs).set o.event
        (recLoop (·.hasWith) (·.withMask) Mask.empty ((g.observers.getD o.event []).map toData)).1 ∧
    (observerManager_RemoveObserver_aggregates g o).anyNoWith =
      g.anyNoWith.set o.event
        (recLoop (·.hasWith) (·.withMask) Mask.empty ((g.observers.getD o.event []).map toData)).2 ∧
    (if o.event = 249 ∨ o.event = 250 then
      (observerManager_RemoveObserver_aggregates g o).allComps = g.allComps ∧
      (observerManager_RemoveObserver_aggregates g o).anyNoComps = g.anyNoComps
    else
      (observerManager_RemoveObserver_aggregates g o).allComps.map abs =
        (g.allComps.map abs).set o.event
          (recLoop (·.hasComps) (·.compsMask) Mask.empty ((g.observers.getD o.event []).map toData)).1 ∧
      (observerManager_RemoveObserver_aggregates g o).anyNoComps =
        g.anyNoComps.set o.event
          (recLoop (·.hasComps) (·.compsMask) Mask.empty ((g.observers.getD o.event []).map toData)).2) := by
  rw [aggregates_eq_spec]
  have hW := pFold_eq (·.hasWith) (·.withMask) o.event (·.hasWith) (·.withMask) (fun _ => rfl) (fun _ => rfl)
    (g.observers.getD o.event []) (⟨⟨0#64, 0#64, 0#64, 0#64⟩⟩ : M256) (g.anyNoWith.set o.event false)
  have hC := pFold_eq (·.hasComps) (·.compsMask) o.event (·.hasComps) (·.compsMask) (fun _ => rfl) (fun _ => rfl)
    (g.observers.getD o.event []) (⟨⟨0#64, 0#64, 0#64, 0#64⟩⟩ : M256) (g.anyNoComps.set o.event false)
  rw [abs_zero256] at hW hC
  obtain ⟨hW1, hW2, _⟩ := hW
  obtain ⟨hC1, hC2, _⟩ := hC
  have hflag : ∀ (fl : List Bool) (b : Bool), (if b then (fl.set o.event false).set o.event true else fl.set o.event false) = fl.set o.event b := by
    intro fl b; cases b <;> simp
  unfold aggSpec
  by_cases hev : o.event = 249 ∨ o.event = 250
  · have hev' : (o.event == 249 || o.event == 250) = true := by
      rcases hev with h | h <;> simp [h]
    simp only [hev', if_true, hev]
    refine ⟨?_, ?_, ?_, ?_⟩
    all_goals first
      | trivial
      | (simp only [List.map_set, hW1]; done)
      | (rw [hW2, hflag]; done)
      | (exact ⟨rfl, rfl⟩)
  · have hev' : (o.event == 249 || o.event == 250) = false := by
      cases h : (o.event == 249 || o.event == 250)
      · rfl
      · exfalso; apply hev
        simp only [Bool.or_eq_true, beq_iff_eq] at h; exact h
    simp only [hev', Bool.false_eq_true, if_false, hev]
    refine ⟨?_, ?_, ?_, ?_, ?_⟩
    all_goals first
      | trivial
      | (simp only [List.map_set, hW1]; done)
      | (rw [hW2, hflag]; done)
      | (simp only [List.map_set, hC1]; done)
      | (rw [hC2, hflag]; done)


/-! ### the tail of `AddObserver`: the aggregates absorb the new observer -/

theorem map_abs_getD (l : List M256) (i : Nat) :
    (l.map abs).getD i Mask.empty = abs (l.getD i (⟨⟨0#64, 0#64, 0#64, 0#64⟩⟩ : M256)) := by
  simp only [List.getD_eq_getElem?_getD, List.getElem?_map]
  cases l[i]? <;> simp [abs_zero256]

theorem opt_abs_getD (x : Option M256) :
    (Option.map abs x).getD Mask.empty = abs (x.getD (⟨⟨0#64, 0#64, 0#64, 0#64⟩⟩ : M256)) := by
  cases x <;> simp [abs_zero256]

/-- **The tail of `AddObserver` as in the source** — what the model's `ObsMgr.addComputed` does to the
    event type's state: an observer with `With` components is OR-ed into the union, one without sets the
    wildcard flag; the same for `For` components unless the event is an entity event; nothing else
    changes. -/
theorem addObserver_aggregates_eq (g : G_observerManager) (o : G_Observer) (w : G_World) :
    (observerManager_AddObserver_aggregates g o w).observers = g.observers ∧
    (if o.hasWith = true then
      (observerManager_AddObserver_aggregates g o w).allWith.map abs =
        (g.allWith.map abs).set o.event (((g.allWith.map abs).getD o.event Mask.empty).or (abs o.withMask)) ∧
      (observerManager_AddObserver_aggregates g o w).anyNoWith = g.anyNoWith
    else
      (observerManager_AddObserver_aggregates g o w).allWith = g.allWith ∧
      (observerManager_AddObserver_aggregates g o w).anyNoWith = g.anyNoWith.set o.event true) ∧
    (if o.event = 249 ∨ o.event = 250 then
      (observerManager_AddObserver_aggregates g o w).allComps = g.allComps ∧
      (observerManager_AddObserver_aggregates g o w).anyNoComps = g.anyNoComps
    else if o.hasComps = true then
      (observerManager_AddObserver_aggregates g o w).allComps.map abs =
        (g.allComps.map abs).set o.event (((g.allComps.map abs).getD o.event Mask.empty).or (abs o.compsMask)) ∧
      (observerManager_AddObserver_aggregates g o w).anyNoComps = g.anyNoComps
    else
      (observerManager_AddObserver_aggregates g o w).allComps = g.allComps ∧
      (observerManager_AddObserver_aggregates g o w).anyNoComps = g.anyNoComps.set o.event true) := by
  unfold observerManager_AddObserver_aggregates
  by_cases hev : o.event = 249 ∨ o.event = 250
  · have hev' : (o.event == 249 || o.event == 250) = true := by
      rcases hev with h | h <;> simp [h]
    cases hw : o.hasWith <;> simp [hev', hev, hw, List.map_set, orI_eq, opt_abs_getD]
  · have hev' : (o.event == 249 || o.event == 250) = false := by
      cases h : (o.event == 249 || o.event == 250)
      · rfl
      · exfalso; apply hev
        simp only [Bool.or_eq_true, beq_iff_eq] at h; exact h
    cases hw : o.hasWith <;> cases hc : o.hasComps <;>
      simp [hev', hev, hw, hc, List.map_set, orI_eq, opt_abs_getD]

end Ark.GenBridge.Book
