/-
  Ark.Proofs.GenBridge.BookCache — the filter-cache bookkeeping of cache.go (`getEntry`,
  `unregister`, `removeTable`, `Reset`), translated statement by statement from the Go source on
  every run (tools/extract/book.go → Ark/Generated/BookCache.lean), proved equal to the model's
  cache operations for ALL cache states.

  `ofCache` projects the model's cache onto the structures generated from the Go structs.  In Go a
  cache entry points to the filter it was registered for and that filter's `cache` field holds the
  entry's ID; the model keeps this back reference in the filter heap (`HeapOK` of
  `Ark.Proofs.CacheHistOps`), so the projection writes the entry's own ID there.  `register` and
  `addTable` call into the mask and table matching code and stay with the correspondence check.
-/
import Ark.Generated.BookCache
import Ark.Proofs.GenBridge.BookArchetype
import Ark.Proofs.GenBridge.BookPool
import Ark.Model.World

namespace Ark.GenBridge.Book
open Ark Ark.World Ark.Generated.Book

def ofEntry (e : CacheEntry) : G_cacheEntry :=
  { filter := { cache := e.id }, tables := e.tables, id := e.id }

def ofCache (C : Cache) : G_cache :=
  { indices := C.indices, filters := C.filters.map ofEntry, intPool := C.pool }

theorem ofEntry_default : ofEntry default = default := rfl

theorem getD_map_ofEntry (F : List CacheEntry) (k : Nat) :
    (F.map ofEntry).getD k default = ofEntry (F.getD k default) := by
  rw [List.getD_eq_getElem?_getD, List.getD_eq_getElem?_getD, List.getElem?_map]
  cases F[k]? <;> rfl

/-- `getEntry` returns the entry the model's lookup finds -/
theorem cache_getEntry_eq (w : World) (id : Nat) (e : CacheEntry) (h : w.cacheEntry? id = some e) :
    cache_getEntry (ofCache w.cache) id = ofEntry e := by
  unfold cacheEntry? at h
  unfold cache_getEntry ofCache
  cases hf : AL.find? w.cache.indices id with
  | none => rw [hf] at h; cases h
  | some idx =>
    rw [hf] at h
    simp only at h
    simp only [Option.getD_some, getD_map_ofEntry]
    rw [List.getD_eq_getElem?_getD, h]
    rfl

/-- `removeTable`: the table is removed from every entry's list -/
theorem cache_removeTable_eq (w : World) (T : Table) :
    cache_removeTable (ofCache w.cache) (ofTable T) = ofCache (w.cacheRemoveTable T.id).cache := by
  unfold cache_removeTable cacheRemoveTable
  simp only [remove_eq, ofTable_id]
  have hfold := foldl_field (σ := G_cache) (fun c => c.filters)
    (fun c v => ({ c with filters := v } : G_cache))
    (fun l i => l.set i ({ (l.getD i default) with tables := ((l.getD i default).tables.remove T.id).1 } : G_cacheEntry))
    (fun _ _ => rfl) (fun _ _ _ => rfl) (fun _ => rfl)
  have := hfold (List.range (ofCache w.cache).filters.length) (ofCache w.cache)
  simp only at this
  rw [this]
  rw [foldl_set_map (fun (e : G_cacheEntry) => ({ e with tables := (e.tables.remove T.id).1 } : G_cacheEntry)) default]
  simp only [ofCache, List.map_map]
  congr 1

theorem take_set_last {α : Type} (l : List α) (n : Nat) (d : α) : (l.set n d).take n = l.take n := by
  apply List.ext_getElem?
  intro i
  grind

-- the simp set below covers both statement orders of the swap (which lemmas fire depends on the shape)
set_option linter.unusedSimpArgs false in
/-- `unregister`: unknown IDs panic; otherwise the model's swap-remove of the entry (for an index
    map whose entries are positions of the entry slice, which `CacheInv.index` guarantees), and the
    filter's `cache` field is reset to "not registered" -/
theorem cache_unregister_eq (w : World) (id : Nat)
    (hidx : ∀ idx, AL.find? w.cache.indices id = some idx → idx < w.cache.filters.length) :
    cache_unregister (ofCache w.cache) { cache := id } =
      match cacheUnregister id w with
      | .panic _ _ => none
      | .ok _ w' => some (ofCache w'.cache, { cache := maxU32 }) := by
  cases hf : AL.find? w.cache.indices id with
  | none =>
    unfold cache_unregister cacheUnregister
    simp [ofCache, hf]
  | some idx =>
    have hlt := hidx idx hf
    unfold cache_unregister cacheUnregister
    simp only [ofCache, hf, Option.getD_some, Option.isSome_some, Bool.not_true, Bool.false_eq_true, if_false,
      List.length_map]
    by_cases hne : idx = w.cache.filters.length - 1
    · subst hne
      simp [take_set_last, List.map_take]
    · have hne' : (idx != w.cache.filters.length - 1) = true := by simpa using hne
      have hne2 : ¬ w.cache.filters.length - 1 = idx := fun h => hne h.symm
      have hlast : w.cache.filters.length - 1 < w.cache.filters.length := by omega
      simp only [hne', if_true, take_set_last, getD_map_ofEntry, ← List.map_set, List.map_take]
      simp [List.getD_eq_getElem?_getD, hne, hne2, hlt, hlast, take_set_last, ofEntry]

/-- `Reset`: nothing to do when no filter is registered; otherwise everything is dropped and the
    ID pool reset -/
theorem cache_reset_eq (w : World) :
    cache_Reset (ofCache w.cache) = ofCache w.cacheReset.cache := by
  unfold cache_Reset cacheReset
  by_cases he : w.cache.indices.isEmpty = true
  · have : w.cache.indices = [] := List.isEmpty_iff.mp he
    simp [ofCache, this]
  · have hne : (w.cache.indices.length == 0) = false := by
      cases hh : w.cache.indices with
      | nil => simp [hh] at he
      | cons _ _ => simp
    have hpool : ∀ (xs : List Nat) (c : G_cache),
        (xs.foldl (fun (c : G_cache) i =>
          ({ c with filters := c.filters.set i ({ (c.filters.getD i default) with filter := ({ (c.filters.getD i default).filter with cache := maxU32 } : G_filter) } : G_cacheEntry) } : G_cache)) c).intPool = c.intPool := by
      intro xs
      induction xs with
      | nil => intro c; rfl
      | cons x xs ih => intro c; rw [List.foldl_cons, ih]
    simp only [ofCache, hne, he, intPool_reset_eq, Bool.false_eq_true, if_false, List.take_zero, hpool]
    rfl

end Ark.GenBridge.Book
