/-
  Ark.Proofs.GenBridge.ObsReset — loop bound of `observerManager.Reset` (events.go).
  Ties definitions REGENERATED from the Go source (tools/extract, on every run) to the
  hand-written model: the model's definition is proved equal to what the code says now, for all
  inputs. A change of the Go logic changes the generated definition and breaks these theorems (a
  harmless rewrite, e.g. commuted conjuncts, still passes: the proofs are case analyses, not
  syntactic equalities). One file per source fragment group, so that an untranslatable fragment
  affects only the properties that depend on it.
-/
import Ark.Generated.ObsReset
import Ark.Model.Observers

namespace Ark.GenBridge
open Ark

/-- the loop of `observerManager.Reset` visits the event types the model visits -/
theorem observerReset_bound_eq (n : Nat) : Generated.observerReset_bound n = ObsMgr.resetBound n := by
  unfold Generated.observerReset_bound ObsMgr.resetBound
  omega

/-- the loop of `observerManager.Reset` visits every event type up to the highest registered one
    (for all 256 values of the `uint8` event type) -/
theorem observerReset_covers : ∀ maxEvt : Nat, maxEvt < 256 → ∀ e, e ≤ maxEvt → e < Generated.observerReset_bound maxEvt := by
  intro m _ e he
  unfold Generated.observerReset_bound
  omega

end Ark.GenBridge
