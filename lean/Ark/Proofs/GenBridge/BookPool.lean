/-
  Ark.Proofs.GenBridge.BookPool — `entityPool`, `bitPool`, `intPool` of pool.go, translated
  statement by statement from the Go source on every run (tools/extract/book.go →
  Ark/Generated/BookPool.lean), proved equal to the model's `Pool` / `BitPool` / `IntPool`
  operations for ALL pool states.

  `ofPool` projects the model's pool onto the structure generated from the Go struct: the model
  additionally keeps `stale`, the memory behind the slice (read by the unchecked `Alive`), which a
  translation of slices as values cannot see; the theorems state what the translated functions do
  to `entities`, `next`, `available` — for `Reset` that the slice is truncated to the reserved
  entries and the free list emptied (that the truncated entries' generations are invalidated in
  the memory behind is part of the model only and is covered by the correspondence check).
-/
import Ark.Generated.BookPool
import Ark.Model.Pool

namespace Ark.GenBridge.Book
open Ark Ark.Generated.Book

/-- the pool as the translated functions see it (`reserved` = 2: zero and wildcard entity) -/
def ofPool (P : Pool) : G_entityPool :=
  { entities := P.ents, next := P.next, available := P.available, reserved := Pool.reserved }

theorem entityPool_getNew_eq (P : Pool) :
    entityPool_getNew (ofPool P) = (ofPool P.getNew.1, P.getNew.2) := by
  simp [entityPool_getNew, ofPool, Pool.getNew]

theorem entityPool_get_eq (P : Pool) :
    entityPool_Get (ofPool P) = (ofPool P.get.1, P.get.2) := by
  unfold entityPool_Get Pool.get
  by_cases h : P.available = 0
  · simp [h, ofPool, entityPool_getNew, Pool.getNew]
  · have h' : (P.available == 0) = false := by simpa using h
    simp [ofPool, h, h', Pool.getRecycled]

/-- `Recycle`: the reserved IDs panic; otherwise the model's `recycle` (generation + 1, the slot
    joins the free list) -/
theorem entityPool_recycle_eq (P : Pool) (e : Ent) :
    entityPool_Recycle (ofPool P) e =
      if e.id < Pool.reserved then none else some (ofPool (P.recycle e)) := by
  unfold entityPool_Recycle Pool.recycle
  by_cases h : e.id < Pool.reserved
  · simp [ofPool, h]
  · simp only [ofPool, h, decide_false, Bool.false_eq_true, if_false, Option.some.injEq]
    by_cases hl : e.id < P.ents.length
    · simp [List.getD_eq_getElem?_getD, hl]
    · have : P.ents.length ≤ e.id := by omega
      simp [List.set_eq_of_length_le this]

/-- `Reset`: what is visible in the slice and the counters -/
theorem entityPool_reset_eq (P : Pool) :
    (entityPool_Reset (ofPool P)).entities = P.reset.ents ∧
    (entityPool_Reset (ofPool P)).next = P.reset.next ∧
    (entityPool_Reset (ofPool P)).available = P.reset.available ∧
    (entityPool_Reset (ofPool P)).reserved = Pool.reserved := by
  unfold entityPool_Reset Pool.reset
  simp only [ofPool]
  -- the loop only touches positions ≥ reserved
  have key : ∀ (xs : List Nat) (p : G_entityPool), (∀ i ∈ xs, Pool.reserved ≤ i) →
      let p' := xs.foldl (fun (p : G_entityPool) i =>
        ({ p with entities := p.entities.set i ({ (p.entities.getD i default) with gen := maxU32 } : Ent) } : G_entityPool)) p
      p'.entities.take Pool.reserved = p.entities.take Pool.reserved ∧ p'.next = p.next ∧
        p'.available = p.available ∧ p'.reserved = p.reserved := by
    intro xs
    induction xs with
    | nil => intro p _; simp
    | cons x xs ih =>
      intro p hx
      have hx1 := hx x (List.mem_cons_self)
      have := ih ({ p with entities := p.entities.set x ({ (p.entities.getD x default) with gen := maxU32 } : Ent) } : G_entityPool)
        (fun i hi => hx i (List.mem_cons_of_mem _ hi))
      simp only [List.foldl_cons] at this ⊢
      refine ⟨?_, this.2.1, this.2.2.1, this.2.2.2⟩
      rw [this.1]
      rw [List.take_set_of_le hx1]
  have := key (List.range' Pool.reserved (P.ents.length - Pool.reserved))
    ({ entities := P.ents, next := P.next, available := P.available, reserved := Pool.reserved } : G_entityPool)
    (by intro i hi; exact (List.mem_range'_1.1 hi).1)
  simp only at this
  obtain ⟨h1, _, _, h4⟩ := this
  refine ⟨?_, trivial, trivial, ?_⟩
  · simp only [h4]; exact h1
  · exact h4

theorem entityPool_len_eq (P : Pool) : entityPool_Len (ofPool P) = P.len := by
  simp [entityPool_Len, ofPool, Pool.len]

theorem entityPool_cap_eq (P : Pool) : entityPool_Cap (ofPool P) = P.cap := by
  simp [entityPool_Cap, ofPool, Pool.cap]

/-! ### `bitPool` (the lock bits): the model's `BitPool` has the Go field names -/

/-- `Get`: a fresh bit (panic at 64), or the head of the free chain.  The hypothesis — the head of a
    non-empty free chain is a position of the array, part of `Lock.LInv` — is not needed for the
    source as it is; it makes the equality independent of whether the code returns `p.bits[curr]`
    (after `p.bits[curr] = curr`) or `curr` itself, which differ only where Go panics. -/
theorem bitPool_get_eq (p : BitPool) (hn : p.available ≠ 0 → p.next < p.bits.length) :
    bitPool_Get p = p.get := by
  unfold bitPool_Get bitPool_getNew BitPool.get
  by_cases h : p.available = 0
  · have h' : (p.available == 0) = true := by simpa using h
    by_cases h2 : p.length ≥ 64 <;> simp [h, h2]
  · have h' : (p.available == 0) = false := by simpa using h
    have hlt := hn h
    simp [h, h', List.getD_eq_getElem?_getD, List.getElem?_set_self hlt]

theorem bitPool_recycle_eq (p : BitPool) (b : Nat) : bitPool_Recycle p b = p.recycle b := by
  simp [bitPool_Recycle, BitPool.recycle]

theorem bitPool_reset_eq (p : BitPool) : bitPool_Reset p = p.reset := by
  simp [bitPool_Reset, BitPool.reset]

/-! ### `intPool` (cache and observer IDs) -/

theorem intPool_recycle_eq (p : IntPool) (e : Nat) : intPool_Recycle p e = p.recycle e := by
  simp [intPool_Recycle, IntPool.recycle]

theorem intPool_reset_eq (p : IntPool) : intPool_Reset p = p.reset := by
  simp [intPool_Reset, IntPool.reset]

end Ark.GenBridge.Book
