/-
  Ark.Proofs.GenBridge.Obs — observer firing conditions (events.go).
  Ties definitions REGENERATED from the Go source (tools/extract, on every run) to the
  hand-written model: the model's definition is proved equal to what the code says now, for all
  inputs. A change of the Go logic changes the generated definition and breaks these theorems (a
  harmless rewrite, e.g. commuted conjuncts, still passes: the proofs are case analyses, not
  syntactic equalities). One file per source fragment group, so that an untranslatable fragment
  affects only the properties that depend on it.
-/
import Ark.Generated.Obs
import Ark.Model.Observers

namespace Ark.GenBridge
open Ark

/-- `fireCreateEntity`: the callback runs (no `continue`) exactly when the model's predicate holds. -/
theorem fireCreateEntity_skip_eq (d : ObsData) (mask : Mask) :
    Generated.fireCreateEntity_skip d.hasComps d.hasWith d.hasWithout d.compsMask d.withMask d.withoutMask mask
      = !Pred.entity d mask := by
  unfold Generated.fireCreateEntity_skip Pred.entity
  generalize d.hasComps = b1; generalize d.hasWith = b2; generalize d.hasWithout = b3
  cases b1 <;> cases b2 <;> cases b3 <;> simp <;>
    (first | rfl | (repeat (first | (cases Mask.contains _ _) | (cases Mask.containsAny _ _)) <;> simp))

/-- `fireCreateEntity`: the early-out taken by the code is the model's early-out. -/
theorem fireCreateEntity_early_eq (es : EvtState) (mask : Mask) :
    Generated.fireCreateEntity_early es.anyNoComps es.anyNoWith es.allComps es.allWith mask
      = Early.entity es mask := by
  unfold Generated.fireCreateEntity_early Early.entity
  generalize es.anyNoComps = b1; generalize es.anyNoWith = b2
  cases b1 <;> cases b2 <;> simp

/-- `fireCreateEntityRel`: the callback runs (no `continue`) exactly when the model's predicate holds. -/
theorem fireCreateEntityRel_skip_eq (d : ObsData) (mask : Mask) :
    Generated.fireCreateEntityRel_skip d.hasComps d.hasWith d.hasWithout d.compsMask d.withMask d.withoutMask mask
      = !Pred.entityRel d mask := by
  unfold Generated.fireCreateEntityRel_skip Pred.entityRel
  generalize d.hasComps = b1; generalize d.hasWith = b2; generalize d.hasWithout = b3
  cases b1 <;> cases b2 <;> cases b3 <;> simp <;>
    (first | rfl | (repeat (first | (cases Mask.contains _ _) | (cases Mask.containsAny _ _)) <;> simp))

/-- `fireCreateEntityRel`: the early-out taken by the code is the model's early-out. -/
theorem fireCreateEntityRel_early_eq (es : EvtState) (mask : Mask) :
    Generated.fireCreateEntityRel_early es.anyNoComps es.anyNoWith es.allComps es.allWith mask
      = Early.entityRel es mask := by
  unfold Generated.fireCreateEntityRel_early Early.entityRel
  generalize es.anyNoComps = b1; generalize es.anyNoWith = b2
  cases b1 <;> cases b2 <;> simp

/-- `fireRemoveEntity`: the callback runs (no `continue`) exactly when the model's predicate holds. -/
theorem fireRemoveEntity_skip_eq (d : ObsData) (mask : Mask) :
    Generated.fireRemoveEntity_skip d.hasComps d.hasWith d.hasWithout d.compsMask d.withMask d.withoutMask mask
      = !Pred.entity d mask := by
  unfold Generated.fireRemoveEntity_skip Pred.entity
  generalize d.hasComps = b1; generalize d.hasWith = b2; generalize d.hasWithout = b3
  cases b1 <;> cases b2 <;> cases b3 <;> simp <;>
    (first | rfl | (repeat (first | (cases Mask.contains _ _) | (cases Mask.containsAny _ _)) <;> simp))

/-- `fireRemoveEntity`: the early-out taken by the code is the model's early-out. -/
theorem fireRemoveEntity_early_eq (es : EvtState) (mask : Mask) :
    Generated.fireRemoveEntity_early es.anyNoComps es.anyNoWith es.allComps es.allWith mask
      = Early.entity es mask := by
  unfold Generated.fireRemoveEntity_early Early.entity
  generalize es.anyNoComps = b1; generalize es.anyNoWith = b2
  cases b1 <;> cases b2 <;> simp

/-- `fireRemoveEntityRel`: the callback runs (no `continue`) exactly when the model's predicate holds. -/
theorem fireRemoveEntityRel_skip_eq (d : ObsData) (mask : Mask) :
    Generated.fireRemoveEntityRel_skip d.hasComps d.hasWith d.hasWithout d.compsMask d.withMask d.withoutMask mask
      = !Pred.entityRel d mask := by
  unfold Generated.fireRemoveEntityRel_skip Pred.entityRel
  generalize d.hasComps = b1; generalize d.hasWith = b2; generalize d.hasWithout = b3
  cases b1 <;> cases b2 <;> cases b3 <;> simp <;>
    (first | rfl | (repeat (first | (cases Mask.contains _ _) | (cases Mask.containsAny _ _)) <;> simp))

/-- `fireRemoveEntityRel`: the early-out taken by the code is the model's early-out. -/
theorem fireRemoveEntityRel_early_eq (es : EvtState) (mask : Mask) :
    Generated.fireRemoveEntityRel_early es.anyNoComps es.anyNoWith es.allComps es.allWith mask
      = Early.entityRel es mask := by
  unfold Generated.fireRemoveEntityRel_early Early.entityRel
  generalize es.anyNoComps = b1; generalize es.anyNoWith = b2
  cases b1 <;> cases b2 <;> simp

/-- `fireAdd`: the callback runs (no `continue`) exactly when the model's predicate holds. -/
theorem fireAdd_skip_eq (d : ObsData) (oldMask : Mask) (newMask : Mask) :
    Generated.fireAdd_skip d.hasComps d.hasWith d.hasWithout d.compsMask d.withMask d.withoutMask oldMask newMask
      = !Pred.add d oldMask newMask := by
  unfold Generated.fireAdd_skip Pred.add
  generalize d.hasComps = b1; generalize d.hasWith = b2; generalize d.hasWithout = b3
  cases b1 <;> cases b2 <;> cases b3 <;> simp <;>
    (first | rfl | (repeat (first | (cases Mask.contains _ _) | (cases Mask.containsAny _ _)) <;> simp))

/-- `fireAdd`: the early-out taken by the code is the model's early-out. -/
theorem fireAdd_early_eq (es : EvtState) (oldMask : Mask) (newMask : Mask) :
    Generated.fireAdd_early es.anyNoComps es.anyNoWith es.allComps es.allWith oldMask newMask
      = Early.add es oldMask newMask := by
  unfold Generated.fireAdd_early Early.add
  generalize es.anyNoComps = b1; generalize es.anyNoWith = b2
  cases b1 <;> cases b2 <;> simp

/-- `fireRemove`: the callback runs (no `continue`) exactly when the model's predicate holds. -/
theorem fireRemove_skip_eq (d : ObsData) (oldMask : Mask) (newMask : Mask) :
    Generated.fireRemove_skip d.hasComps d.hasWith d.hasWithout d.compsMask d.withMask d.withoutMask oldMask newMask
      = !Pred.remove d oldMask newMask := by
  unfold Generated.fireRemove_skip Pred.remove
  generalize d.hasComps = b1; generalize d.hasWith = b2; generalize d.hasWithout = b3
  cases b1 <;> cases b2 <;> cases b3 <;> simp <;>
    (first | rfl | (repeat (first | (cases Mask.contains _ _) | (cases Mask.containsAny _ _)) <;> simp))

/-- `fireRemove`: the early-out taken by the code is the model's early-out. -/
theorem fireRemove_early_eq (es : EvtState) (oldMask : Mask) (newMask : Mask) :
    Generated.fireRemove_early es.anyNoComps es.anyNoWith es.allComps es.allWith oldMask newMask
      = Early.remove es oldMask newMask := by
  unfold Generated.fireRemove_early Early.remove
  generalize es.anyNoComps = b1; generalize es.anyNoWith = b2
  cases b1 <;> cases b2 <;> simp

/-- `fireSet`: the callback runs (no `continue`) exactly when the model's predicate holds. -/
theorem fireSet_skip_eq (d : ObsData) (mask : Mask) (newMask : Mask) :
    Generated.fireSet_skip d.hasComps d.hasWith d.hasWithout d.compsMask d.withMask d.withoutMask mask newMask
      = !Pred.set d mask newMask := by
  unfold Generated.fireSet_skip Pred.set
  generalize d.hasComps = b1; generalize d.hasWith = b2; generalize d.hasWithout = b3
  cases b1 <;> cases b2 <;> cases b3 <;> simp <;>
    (first | rfl | (repeat (first | (cases Mask.contains _ _) | (cases Mask.containsAny _ _)) <;> simp))

/-- `fireSet`: the early-out taken by the code is the model's early-out. -/
theorem fireSet_early_eq (es : EvtState) (mask : Mask) (newMask : Mask) :
    Generated.fireSet_early es.anyNoComps es.anyNoWith es.allComps es.allWith mask newMask
      = Early.set es mask newMask := by
  unfold Generated.fireSet_early Early.set
  generalize es.anyNoComps = b1; generalize es.anyNoWith = b2
  cases b1 <;> cases b2 <;> simp

/-- `fireSetRelations`: the callback runs (no `continue`) exactly when the model's predicate holds. -/
theorem fireSetRelations_skip_eq (d : ObsData) (mask : Mask) (newMask : Mask) :
    Generated.fireSetRelations_skip d.hasComps d.hasWith d.hasWithout d.compsMask d.withMask d.withoutMask mask newMask
      = !Pred.set d mask newMask := by
  unfold Generated.fireSetRelations_skip Pred.set
  generalize d.hasComps = b1; generalize d.hasWith = b2; generalize d.hasWithout = b3
  cases b1 <;> cases b2 <;> cases b3 <;> simp <;>
    (first | rfl | (repeat (first | (cases Mask.contains _ _) | (cases Mask.containsAny _ _)) <;> simp))

/-- `fireSetRelations`: the early-out taken by the code is the model's early-out. -/
theorem fireSetRelations_early_eq (es : EvtState) (mask : Mask) (newMask : Mask) :
    Generated.fireSetRelations_early es.anyNoComps es.anyNoWith es.allComps es.allWith mask newMask
      = Early.set es mask newMask := by
  unfold Generated.fireSetRelations_early Early.set
  generalize es.anyNoComps = b1; generalize es.anyNoWith = b2
  cases b1 <;> cases b2 <;> simp

/-- `fireCustom`: the callback runs (no `continue`) exactly when the model's predicate holds. -/
theorem fireCustom_skip_eq (d : ObsData) (mask : Mask) (entityMask : Mask) :
    Generated.fireCustom_skip d.hasComps d.hasWith d.hasWithout d.compsMask d.withMask d.withoutMask mask entityMask
      = !Pred.set d mask entityMask := by
  unfold Generated.fireCustom_skip Pred.set
  generalize d.hasComps = b1; generalize d.hasWith = b2; generalize d.hasWithout = b3
  cases b1 <;> cases b2 <;> cases b3 <;> simp <;>
    (first | rfl | (repeat (first | (cases Mask.contains _ _) | (cases Mask.containsAny _ _)) <;> simp))

/-- `fireCustom`: the early-out taken by the code is the model's early-out. -/
theorem fireCustom_early_eq (es : EvtState) (mask : Mask) (entityMask : Mask) :
    Generated.fireCustom_early es.anyNoComps es.anyNoWith es.allComps es.allWith mask entityMask
      = Early.set es mask entityMask := by
  unfold Generated.fireCustom_early Early.set
  generalize es.anyNoComps = b1; generalize es.anyNoWith = b2
  cases b1 <;> cases b2 <;> simp

/-- the `Fire…IfHas` wrappers test `hasObservers` and delegate with the early-out enabled (shape
    checked by the extractor; the definitions exist only when the check passed) -/
theorem ifHas_wrappers :
    (Generated.fireCreateEntityIfHas_wrapper, Generated.fireCreateEntityRelIfHas_wrapper,
      Generated.fireAddIfHas_wrapper) = ((), (), ()) := rfl

end Ark.GenBridge
