/-
  Ark.Proofs.GenBridge.BookLock — `lock.go`, translated statement by statement from the Go source
  on every run (tools/extract/book.go → Ark/Generated/BookLock.lean), proved equal to the model's
  `Lock` operations for ALL lock states.

  This is where two translators compose: the lock's `bitPool` methods are the bookkeeping-level
  translation of pool.go (Generated/BookPool.lean, related to `BitPool` in GenBridge/BookPool.lean),
  its `bitMask64` methods are the word-level translation of mask64.go (Generated/Words.lean, related
  to `Mask64` in Proofs/MaskWords.lean).  `sync.Mutex` calls are erased by the translator (sequential
  semantics); the mutex discipline is the business of Generated/FactsMutex.lean and the race runs.
-/
import Ark.Generated.BookLock
import Ark.Proofs.GenBridge.BookPool
import Ark.Proofs.MaskWords
import Ark.Proofs.Lock

namespace Ark.GenBridge.Book
open Ark Ark.Generated Ark.Generated.Book Ark.MaskWords

/-- The model's lock as the structure generated from the Go struct. -/
def ofLock (l : Lock) : G_lock := { bitPool := l.pool, locks := ⟨l.locks⟩ }

/-- … and back (`abs64` reads the word). -/
def toLock (g : G_lock) : Lock := { pool := g.bitPool, locks := abs64 g.locks }

@[simp] theorem toLock_ofLock (l : Lock) : toLock (ofLock l) = l := rfl
@[simp] theorem ofLock_toLock (g : G_lock) : ofLock (toLock g) = g := by
  cases g with | mk p l => cases l; rfl

/-- `newLock()` is the model's initial lock. -/
theorem newLock_eq : toLock newLock = ({} : Lock) := by
  simp [toLock, newLock, newBitPool, abs64]

/-- A bit index that fits a byte is passed to the word-level methods unchanged. -/
theorem ofNat8_toNat {b : Nat} (h : b < 256) : (BitVec.ofNat 8 b).toNat = b := by
  simp [BitVec.toNat_ofNat, Nat.mod_eq_of_lt h]

/-- `Lock()`: a bit from the pool (panic when all 64 are out), set in the mask.  Hypotheses: the head
    of a non-empty free chain is a position of the array (as for `bitPool_get_eq`), and the bit the
    pool hands out fits the `uint8` the source carries it in — both parts of `Lock.LInv`. -/
theorem lock_eq (l : Lock) (hn : l.pool.available ≠ 0 → l.pool.next < l.pool.bits.length)
    (hb : ∀ p b, l.pool.get = some (p, b) → b < 256) :
    (lock_Lock (ofLock l)).map (fun r => (toLock r.1, r.2)) = l.lock := by
  unfold lock_Lock Lock.lock
  simp only [ofLock, bitPool_get_eq l.pool hn]
  cases h : l.pool.get with
  | none => rfl
  | some r =>
    obtain ⟨p, b⟩ := r
    have hb' := ofNat8_toNat (hb p b h)
    simp [toLock, abs64, M64.Set, BitVec.shiftLeft_eq', hb']

/-- `LockSafe()` is `Lock()` between the mutex calls. -/
theorem lockSafe_eq (g : G_lock) : lock_LockSafe g = lock_Lock g := rfl

/-- `Unlock(b)`: "unbalanced unlock" panic unless the bit is set; otherwise cleared and recycled.
    For `b < 64` — the bits `Lock()` hands out.  For `64 ≤ b` the source's `Get` is true (the shift
    yields a zero mask, `get64_ge`) and `Recycle` then fails with Go's index-out-of-range panic, which
    the translation of slices as lists does not exhibit; the model panics there too (`getLsbD`). -/
theorem unlock_eq (l : Lock) (b : Nat) (hb : b < 64) :
    (lock_Unlock (ofLock l) b).map toLock = l.unlock b := by
  unfold lock_Unlock Lock.unlock
  have hg : M64.Get (ofLock l).locks (BitVec.ofNat 8 b) = l.locks.getLsbD b := by
    rw [get64_eq _ _ (by rw [ofNat8_toNat (by omega)]; exact hb)]; simp [ofLock, abs64, Mask64.get, ofNat8_toNat (show b < 256 by omega)]
  simp only [hg]
  cases h : l.locks.getLsbD b
  · simp
  · simp [toLock, ofLock, abs64, M64.Clear, BitVec.shiftLeft_eq',
      ofNat8_toNat (show b < 256 by omega), bitPool_recycle_eq]

/-- `UnlockSafe(b)` is `Unlock(b)` between the mutex calls. -/
theorem unlockSafe_eq (g : G_lock) (b : Nat) : lock_UnlockSafe g b = lock_Unlock g b := rfl

theorem isLocked_eq (l : Lock) : lock_IsLocked (ofLock l) = l.isLocked := by
  simp [lock_IsLocked, Lock.isLocked, ofLock, M64.IsZero, bne]

theorem reset_eq (l : Lock) : toLock (lock_Reset (ofLock l)) = l.reset := by
  simp [lock_Reset, Lock.reset, toLock, ofLock, abs64, bitPool_reset_eq]


/-! ### Every history: the source's lock, run from `newLock()`, is the model's lock

  The hypotheses of `lock_eq` are consequences of `Lock.LInv`, which holds after every history
  (`Lock.run_inv`); so on the states that lock/unlock/reset histories reach the translated functions
  and the model agree outright. -/

open Ark.Lock in
theorem linv_hn {s : LS} {fl : List Nat} (g : LInv s fl) :
    s.l.pool.available ≠ 0 → s.l.pool.next < s.l.pool.bits.length := by
  intro h0
  have hav := g.avail
  cases fl with
  | nil => simp at hav; omega
  | cons x fl' =>
    obtain ⟨n, hn⟩ : ∃ n, s.l.pool.available = n + 1 := ⟨s.l.pool.available - 1, by omega⟩
    have hch := g.ch
    rw [hn] at hch
    obtain ⟨hx, _⟩ := chain_succ _ _ _ _ _ hch
    have := g.fl_lt x (by simp)
    have := g.len64
    have := g.bits_len
    omega

open Ark.Lock in
theorem linv_hb {s : LS} {fl : List Nat} (g : LInv s fl) :
    ∀ p b, s.l.pool.get = some (p, b) → b < 256 := by
  intro p b h
  rcases lock_spec s fl g with ⟨hn, _⟩ | ⟨l', b', hl, hb', _⟩
  · simp [Lock.lock, h] at hn
  · simp only [Lock.lock, h, Option.some.injEq, Prod.mk.injEq] at hl
    omega

/-- One step of the source's lock (translated functions); a panic leaves the lock unchanged, as in
    `Lock.LS.step`. -/
def gstep (g : G_lock) : Lock.Op → G_lock
  | .lock => match lock_Lock g with | some (g', _) => g' | none => g
  | .unlock b => match lock_Unlock g b with | some g' => g' | none => g
  | .reset => lock_Reset g

/-- the bits a history passes to `Unlock` are bits `Lock()` can hand out -/
def opOK : Lock.Op → Prop
  | .unlock b => b < 64
  | _ => True

open Ark.Lock in
theorem gstep_eq (s : LS) (fl : List Nat) (g : LInv s fl) (op : Op) (hop : opOK op) :
    toLock (gstep (ofLock s.l) op) = (s.step op).l := by
  cases op with
  | lock =>
    have h := lock_eq s.l (linv_hn g) (linv_hb g)
    simp only [gstep, LS.step]
    cases hm : s.l.lock with
    | none =>
      rw [hm] at h
      cases hg : lock_Lock (ofLock s.l) with
      | none => simp
      | some r => rw [hg] at h; simp at h
    | some r =>
      rw [hm] at h
      cases hg : lock_Lock (ofLock s.l) with
      | none => rw [hg] at h; simp at h
      | some r' =>
        rw [hg] at h
        simp only [Option.map_some, Option.some.injEq] at h
        obtain ⟨l', b⟩ := r
        obtain ⟨g', b'⟩ := r'
        simp only [Prod.mk.injEq] at h
        simp [h.1]
  | unlock b =>
    have h := unlock_eq s.l b hop
    simp only [gstep, LS.step]
    cases hm : s.l.unlock b with
    | none =>
      rw [hm] at h
      cases hg : lock_Unlock (ofLock s.l) b with
      | none => simp
      | some r => rw [hg] at h; simp at h
    | some l' =>
      rw [hm] at h
      cases hg : lock_Unlock (ofLock s.l) b with
      | none => rw [hg] at h; simp at h
      | some g' =>
        rw [hg] at h
        simp only [Option.map_some, Option.some.injEq] at h
        simp [h]
  | reset => simpa [gstep, LS.step] using reset_eq s.l

open Ark.Lock in
/-- **Every lock history.**  Running the functions translated from lock.go (with pool.go and
    mask64.go below them) from `newLock()` gives, after any sequence of `Lock()`, `Unlock(b)` (b < 64)
    and `Reset()`, exactly the model's lock — on which C07's theorems are proved. -/
theorem run_eq (ops : List Op) (hops : ∀ op ∈ ops, opOK op) :
    toLock (ops.foldl gstep newLock) = (LS.init.run ops).l := by
  suffices H : ∀ (s : LS) (fl : List Nat), LInv s fl → ∀ (gl : G_lock), toLock gl = s.l →
      (∀ op ∈ ops, opOK op) → toLock (ops.foldl gstep gl) = (s.run ops).l from
    H LS.init [] linv_init newLock newLock_eq hops
  induction ops with
  | nil => intro s fl _ gl h _; simpa [LS.run] using h
  | cons op ops ih =>
    intro s fl g gl h hall
    obtain ⟨fl', g'⟩ := step_inv s fl g op
    have hgl : gl = ofLock s.l := by rw [← h, ofLock_toLock]
    have hstep := gstep_eq s fl g op (hall op (by simp))
    simp only [List.foldl_cons, LS.run]
    have := ih (fun op' h' => hops op' (by simp [h'])) (s.step op) fl' g' (gstep gl op) (by rw [hgl]; exact hstep)
      (fun op' h' => hall op' (by simp [h']))
    simpa [LS.run] using this

end Ark.GenBridge.Book
