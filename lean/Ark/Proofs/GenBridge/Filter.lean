/-
  Ark.Proofs.GenBridge.Filter — `filter.matches` (filter.go).
  Ties definitions REGENERATED from the Go source (tools/extract, on every run) to the
  hand-written model: the model's definition is proved equal to what the code says now, for all
  inputs. A change of the Go logic changes the generated definition and breaks these theorems (a
  harmless rewrite, e.g. commuted conjuncts, still passes: the proofs are case analyses, not
  syntactic equalities). One file per source fragment group, so that an untranslatable fragment
  affects only the properties that depend on it.
-/
import Ark.Generated.Filter
import Ark.Model.Mask

namespace Ark.GenBridge
open Ark

/-- `filter.matches` is the model's `Filter.matchesMask`. -/
theorem filter_matches_eq (f : Filter) (m : Mask) :
    Generated.filter_matches f.mask f.without f.hasWithout m = f.matchesMask m := by
  unfold Generated.filter_matches Filter.matchesMask
  cases f.hasWithout <;> simp

end Ark.GenBridge
