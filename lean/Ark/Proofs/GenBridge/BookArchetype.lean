/-
  Ark.Proofs.GenBridge.BookArchetype — the relation-index bookkeeping of archetype.go
  (`HasRelations`, `GetFreeTable`, `FreeTable`, `removeTableRelations`, `FreeAllTables`,
  `AddTable`, `RemoveTarget`), translated statement by statement from the Go source on every run
  (tools/extract/book.go → Ark/Generated/BookArchetype.lean), proved equal to the model's
  `Archetype` operations for ALL archetypes and tables.

  `ofArch` / `ofTable` project the model's structures onto the structures generated from the Go
  struct declarations (Go splits a table into `columns[i].{isRelation,target}`, the model keeps
  the parallel lists `isRel`/`targets`).  Hypotheses that appear are layout facts of `SInv`
  (`tblArch`: a table copies its archetype's layout; `comps`/`astruct`: metadata lengths):
  Go reads the relation flag from the table's column, the model from the archetype.
-/
import Ark.Generated.BookArchetype
import Ark.Proofs.GenBridge.BookTableIDs

namespace Ark.GenBridge.Book
open Ark Ark.Generated.Book

def ofArch (A : Archetype) : G_archetype :=
  { isRelation := A.isRel, freeTables := A.freeTables, targetTables := A.targetTables,
    relationTables := A.relationTables, tables := A.tables, numRelations := A.numRel }

def ofTable (T : Table) : G_table :=
  { ids := T.ids.map fun _ => {}
    columns := (List.range T.ids.length).map fun i =>
      { target := T.targets.getD i Ent.zero, isRelation := T.isRel.getD i false }
    id := T.id, isFree := T.isFree }

theorem ofTable_col (T : Table) (hlen : T.isRel.length ≤ T.ids.length) (i : Nat) :
    ((ofTable T).columns.getD i default).isRelation = T.isRel.getD i false ∧
    (T.isRel.getD i false = true → ((ofTable T).columns.getD i default).target = T.targets.getD i Ent.zero) := by
  unfold ofTable
  by_cases hi : i < T.ids.length
  · simp [List.getD_eq_getElem?_getD, hi]
  · have h1 : T.isRel.getD i false = false := by
      simp [List.getD_eq_getElem?_getD, List.getElem?_eq_none (show T.isRel.length ≤ i by omega)]
    have hcol : ((List.range T.ids.length).map fun i =>
        ({ target := T.targets.getD i Ent.zero, isRelation := T.isRel.getD i false } : G_column)).getD i default = default := by
      simp [List.getD_eq_getElem?_getD, hi]
    simp only [hcol, h1]
    exact ⟨rfl, fun h => by cases h⟩

theorem foldl_set_prefix {α : Type} (f : α → α) (d : α) (l : List α) (k : Nat) (hk : k ≤ l.length) :
    (List.range k).foldl (fun l i => l.set i (f (l.getD i d))) l = (l.take k).map f ++ l.drop k := by
  induction k with
  | zero => simp
  | succ k ih =>
    rw [List.range_succ, List.foldl_append, ih (by omega)]
    simp only [List.foldl_cons, List.foldl_nil]
    apply List.ext_getElem?
    intro i
    grind

theorem foldl_set_map {α : Type} (f : α → α) (d : α) (l : List α) :
    (List.range l.length).foldl (fun l i => l.set i (f (l.getD i d))) l = l.map f := by
  rw [foldl_set_prefix f d l l.length (Nat.le_refl _)]
  simp

theorem foldl_field {σ α ι : Type} (get : σ → α) (put : σ → α → σ) (g : α → ι → α)
    (hget : ∀ s v, get (put s v) = v) (hput : ∀ s v w, put (put s v) w = put s w)
    (hid : ∀ s, put s (get s) = s) (xs : List ι) (s : σ) :
    xs.foldl (fun s i => put s (g (get s) i)) s = put s (xs.foldl g (get s)) := by
  induction xs generalizing s with
  | nil => simp [hid]
  | cons x xs ih => rw [List.foldl_cons, ih, hget, hput, List.foldl_cons]

theorem hasRelations_eq (A : Archetype) : archetype_HasRelations (ofArch A) = A.hasRelations := by
  simp [archetype_HasRelations, ofArch, Archetype.hasRelations]

theorem getFreeTable_eq (A : Archetype) :
    archetype_GetFreeTable (ofArch A) =
      match A.getFreeTable with
      | some (A', t) => (ofArch A', t, true)
      | none => (ofArch A, 0, false) := by
  unfold archetype_GetFreeTable Archetype.getFreeTable
  cases hfl : A.freeTables.getLast? with
  | none =>
    have : A.freeTables = [] := List.getLast?_eq_none_iff.1 hfl
    simp [ofArch, this]
  | some t =>
    have hne : A.freeTables ≠ [] := by intro h; rw [h] at hfl; cases hfl
    have hlen : 0 < A.freeTables.length := List.length_pos_iff.2 hne
    have ht : A.freeTables.getD (A.freeTables.length - 1) 0 = t := by
      rw [List.getLast?_eq_getElem?] at hfl
      rw [List.getD_eq_getElem?_getD, hfl]; rfl
    -- the emptiness test, however the source spells it (`len == 0`, `len < 1`)
    have hz : (A.freeTables.length == 0) = false := by
      simp; omega
    have hz' : ¬ A.freeTables.length < 1 := by omega
    simp only [ofArch, hz, hz', decide_false, Bool.false_eq_true, if_false, ht, List.dropLast_eq_take]

theorem freeTable_eq (A : Archetype) (T : Table) :
    archetype_FreeTable (ofArch A) (ofTable T) =
      (ofArch (A.freeTable T.id), ofTable { T with isFree := true }) := by
  unfold archetype_FreeTable Archetype.freeTable
  simp only [remove_eq]
  by_cases h1 : A.numRel ≤ 1
  · simp [ofArch, ofTable, h1]
  · have hfold := foldl_field (σ := G_archetype) (fun a => a.relationTables)
      (fun a v => ({ a with relationTables := v } : G_archetype))
      (fun l i => l.set i (AL.mapVals (l.getD i []) fun v => (v.remove T.id).1))
      (fun _ _ => rfl) (fun _ _ _ => rfl) (fun _ => rfl)
    simp only [ofArch, ofTable, h1, decide_false, Bool.false_eq_true, if_false, Prod.mk.injEq, and_true]
    have := hfold (List.range A.relationTables.length)
      ({ isRelation := A.isRel, freeTables := A.freeTables ++ [T.id], targetTables := A.targetTables,
         relationTables := A.relationTables, tables := (A.tables.remove T.id).1,
         numRelations := A.numRel } : G_archetype)
    simp only at this
    rw [this, foldl_set_map (fun m => AL.mapVals m fun v => (v.remove T.id).1) [] A.relationTables]

theorem freeAllTables_eq (A : Archetype) (S : G_storage) :
    (archetype_FreeAllTables (ofArch A) S).1 = ofArch A.freeAllTables := by
  unfold archetype_FreeAllTables Archetype.freeAllTables
  simp only [clear_eq]
  have hfold := foldl_field (σ := G_archetype) (fun a => a.relationTables)
    (fun a v => ({ a with relationTables := v } : G_archetype))
    (fun l i => l.set i ([] : AL TableIDs))
    (fun _ _ => rfl) (fun _ _ _ => rfl) (fun _ => rfl)
  have := hfold (List.range A.relationTables.length)
    ({ isRelation := A.isRel, freeTables := A.freeTables ++ A.tables.tables, targetTables := A.targetTables,
       relationTables := A.relationTables, tables := A.tables.clear, numRelations := A.numRel } : G_archetype)
  simp only [ofArch] at this ⊢
  rw [this]
  have hm := foldl_set_map (fun _ : AL TableIDs => ([] : AL TableIDs)) [] A.relationTables
  rw [hm]
  simp [TableIDs.clear]


/-- folding over positions with `getD` is folding over the list -/
theorem foldl_range_getD' {β : Type} (f : β → Nat → β) (l : List Nat) (pre : List Nat) (init : β) :
    (List.range l.length).foldl (fun acc i => f acc ((pre ++ l).getD (pre.length + i) 0)) init =
      l.foldl f init := by
  have := foldl_range_getD (fun acc x _ => f acc x) l 0 pre init
  rw [this]
  clear this
  generalize (0 : Nat) = off
  induction l generalizing off init with
  | nil => rfl
  | cons x xs ih => simp only [List.zipIdx_cons, List.foldl_cons]; exact ih _ _

/-- `storage.tables[t].isFree = true` -/
def markFree (S : G_storage) (t : Nat) : G_storage :=
  { S with tables := S.tables.set t ({ (S.tables.getD t default) with isFree := true } : G_table) }

theorem markFree_fold (ts : List Nat) (S : G_storage) :
    (ts.foldl markFree S).tables.length = S.tables.length ∧
    ∀ t, (ts.foldl markFree S).tables.getD t default =
      if t ∈ ts ∧ t < S.tables.length
      then ({ (S.tables.getD t default) with isFree := true } : G_table) else S.tables.getD t default := by
  induction ts generalizing S with
  | nil => simp
  | cons x xs ih =>
    rw [List.foldl_cons]
    obtain ⟨h1, h2⟩ := ih (markFree S x)
    have hl : (markFree S x).tables.length = S.tables.length := by simp [markFree]
    refine ⟨h1.trans hl, fun t => ?_⟩
    rw [h2 t, hl]
    by_cases htx : t = x
    · subst htx
      by_cases hlt : t < S.tables.length
      · simp [markFree, hlt, List.getD_eq_getElem?_getD]
      · simp [markFree, hlt]
    · simp only [markFree, List.getD_eq_getElem?_getD, List.getElem?_set_ne (Ne.symm htx), List.mem_cons, htx,
        false_or]

/-- the storage side of `FreeAllTables`: exactly the archetype's active tables are marked free,
    nothing else of the table store changes -/
theorem freeAllTables_storage (A : Archetype) (S : G_storage) :
    (archetype_FreeAllTables (ofArch A) S).2 = A.tables.tables.foldl markFree S := by
  unfold archetype_FreeAllTables
  simp only [ofArch]
  have := foldl_range_getD' markFree A.tables.tables [] S
  simp only [List.nil_append, List.length_nil, Nat.zero_add] at this
  rw [← this]
  rfl


/-! ### `RemoveTarget` -/

theorem foldl_set_idx_get {α : Type} (f : Nat → α → α) (d : α) (l : List α) (k : Nat) (hk : k ≤ l.length) :
    ((List.range k).foldl (fun l i => l.set i (f i (l.getD i d))) l).length = l.length ∧
    ∀ j, ((List.range k).foldl (fun l i => l.set i (f i (l.getD i d))) l)[j]? =
      if j < k then (l[j]?).map (f j) else l[j]? := by
  induction k with
  | zero => simp
  | succ k ih =>
    obtain ⟨hl, hg⟩ := ih (by omega)
    rw [List.range_succ, List.foldl_append]
    simp only [List.foldl_cons, List.foldl_nil, List.length_set]
    refine ⟨hl, fun j => ?_⟩
    by_cases hjk : j = k
    · subst hjk
      rw [List.getElem?_set_self (by omega), List.getD_eq_getElem?_getD, hg j]
      simp [List.getElem?_eq_getElem (show j < l.length by omega)]
    · rw [List.getElem?_set_ne (Ne.symm hjk), hg j]
      by_cases h1 : j < k
      · simp [h1, show j < k + 1 by omega]
      · simp [h1, show ¬ j < k + 1 by omega]

theorem foldl_set_idx {α : Type} (f : Nat → α → α) (d : α) (l : List α) :
    (List.range l.length).foldl (fun l i => l.set i (f i (l.getD i d))) l =
      (List.range l.length).map (fun i => f i (l.getD i d)) := by
  obtain ⟨hl, hg⟩ := foldl_set_idx_get f d l l.length (Nat.le_refl _)
  apply List.ext_getElem?
  intro j
  rw [hg j]
  by_cases hj : j < l.length
  · simp [hj, List.getD_eq_getElem?_getD]
  · simp [hj]

theorem set_getD_self {α : Type} (l : List α) (i : Nat) (d : α) : l.set i (l.getD i d) = l := by
  apply List.ext_getElem?
  intro j
  grind

theorem set_getD_self' {α : Type} (l : List α) (i : Nat) (d : α) : l.set i (l[i]?.getD d) = l := by
  rw [← List.getD_eq_getElem?_getD]; exact set_getD_self l i d

/-- replace the step function of a fold by an extensionally equal one (the generated step is
    matched by unification, so the proof does not depend on how the Go code spells it) -/
theorem foldl_step_congr {σ ι : Type} (F G : σ → ι → σ) (h : ∀ a i, F a i = G a i) (xs : List ι) (a : σ) :
    xs.foldl F a = xs.foldl G a := by
  have : F = G := funext fun a => funext fun i => h a i
  rw [this]

theorem removeTarget_eq (A : Archetype) (e : Ent) (hlen : A.isRel.length = A.relationTables.length) :
    archetype_RemoveTarget (ofArch A) e = ofArch (A.removeTarget e) := by
  unfold archetype_RemoveTarget Archetype.removeTarget
  simp only [ofArch]
  rw [foldl_step_congr _ (fun (a : G_archetype) i =>
        ({ a with relationTables := a.relationTables.set i (if a.isRelation.getD i false = true then AL.erase (a.relationTables.getD i []) e.id else a.relationTables.getD i []) } : G_archetype))
      (by
        intro a i
        cases hr : a.isRelation.getD i false <;> simp [hr, set_getD_self'])]
  have hfold : ∀ (xs : List Nat) (a : G_archetype),
      xs.foldl (fun (a : G_archetype) i =>
        ({ a with relationTables := a.relationTables.set i (if a.isRelation.getD i false = true then AL.erase (a.relationTables.getD i []) e.id else a.relationTables.getD i []) } : G_archetype)) a =
      ({ a with relationTables := xs.foldl (fun l i => l.set i (if a.isRelation.getD i false = true then AL.erase (l.getD i []) e.id else l.getD i [])) a.relationTables } : G_archetype) := by
    intro xs
    induction xs with
    | nil => intro a; rfl
    | cons x xs ih => intro a; rw [List.foldl_cons, ih, List.foldl_cons]
  rw [hfold]
  simp only
  rw [foldl_set_idx (fun i m => if A.isRel.getD i false = true then AL.erase m e.id else m) [] A.relationTables]
  congr 1
  apply List.ext_getElem?
  intro i
  by_cases hi : i < A.relationTables.length
  · have hi' : i < A.isRel.length := by omega
    have hz : (A.relationTables.zip A.isRel)[i]? = some (A.relationTables[i], A.isRel[i]) := by
      rw [List.getElem?_eq_some_iff]
      exact ⟨by simp [List.length_zip]; omega, by simp⟩
    simp [hi, hi', List.getD_eq_getElem?_getD, hz]
  · simp [hi, hlen]


/-! ### `removeTableRelations`, `AddTable` -/

@[simp] theorem ofTable_id (T : Table) : (ofTable T).id = T.id := rfl

theorem foldl_hom {σ τ ι : Type} (h : σ → τ) (P : σ → Prop) (f : σ → ι → σ) (g : τ → ι → τ)
    (hstep : ∀ a i, P a → g (h a) i = h (f a i) ∧ P (f a i)) (xs : List ι) (a : σ) (ha : P a) :
    xs.foldl g (h a) = h (xs.foldl f a) := by
  induction xs generalizing a with
  | nil => rfl
  | cons x xs ih =>
    rw [List.foldl_cons, List.foldl_cons, (hstep a x ha).1]
    exact ih _ (hstep a x ha).2

/-- `removeTableRelations`, for a table that has the layout of the archetype (`SInv.tblArch`) -/
theorem removeTableRelations_eq (A : Archetype) (T : Table) (hrel : T.isRel = A.isRel)
    (hlen : T.isRel.length ≤ T.ids.length) (hcomps : T.ids.length = A.comps.length) :
    archetype_removeTableRelations (ofArch A) (ofTable T) =
      ofArch (A.removeTableRelations T.id T.targets) := by
  unfold archetype_removeTableRelations Archetype.removeTableRelations
  simp only [remove_eq]
  have hcl : (ofTable T).columns.length = A.comps.length := by simp [ofTable, hcomps]
  rw [hcl]
  apply foldl_hom ofArch (fun a => a.isRel = A.isRel)
  · intro a i ha
    obtain ⟨c1, c2⟩ := ofTable_col T hlen i
    refine ⟨?_, ?_⟩
    · simp only [c1]
      cases hr : T.isRel.getD i false with
      | false =>
        have : a.isRel.getD i false = false := by rw [ha, ← hrel]; exact hr
        simp only [List.getD_eq_getElem?_getD] at this
        simp [this]
      | true =>
        have hr' : a.isRel.getD i false = true := by rw [ha, ← hrel]; exact hr
        have ct := c2 hr
        simp only [Bool.not_true, Bool.false_eq_true, if_false, hr', ct]
        simp only [ofArch]
        cases h1 : AL.find? (a.relationTables.getD i []) (T.targets.getD i Ent.zero).id <;>
          cases h2 : AL.find? a.targetTables (T.targets.getD i Ent.zero).id <;>
          simp [set_getD_self']
    · show (if !(a.isRel.getD i false) then a else _).isRel = A.isRel
      split <;> simp [ha]
  · rfl


/-- `AddTable`, for a table that has the layout of the archetype (`SInv.tblArch`) -/
theorem addTable_eq (A : Archetype) (T : Table) (hrel : T.isRel = A.isRel)
    (hlen : T.isRel.length ≤ T.ids.length) (hcomps : T.ids.length = A.comps.length) :
    archetype_AddTable (ofArch A) (ofTable T) = ofArch (A.addTable T.id T.targets) := by
  unfold archetype_AddTable Archetype.addTable
  simp only [append_eq, newTableIDs_eq]
  have hil : (ofTable T).ids.length = A.comps.length := by simp [ofTable, hcomps]
  rw [hil]
  change (if (!archetype_HasRelations (ofArch { A with tables := A.tables.append T.id })) = true
      then ofArch { A with tables := A.tables.append T.id }
      else List.foldl _ (ofArch { A with tables := A.tables.append T.id }) _) = _
  rw [hasRelations_eq]
  cases hr0 : ({ A with tables := A.tables.append T.id } : Archetype).hasRelations with
  | false => simp
  | true =>
    simp only [Bool.not_true, Bool.false_eq_true, if_false]
    apply foldl_hom ofArch (fun a => a.isRel = A.isRel)
    · intro a i ha
      obtain ⟨c1, c2⟩ := ofTable_col T hlen i
      refine ⟨?_, ?_⟩
      · simp only [c1]
        cases hr : T.isRel.getD i false with
        | false =>
          have : a.isRel.getD i false = false := by rw [ha, ← hrel]; exact hr
          simp only [List.getD_eq_getElem?_getD] at this
          simp [this]
        | true =>
          have hr' : a.isRel.getD i false = true := by rw [ha, ← hrel]; exact hr
          have ct := c2 hr
          simp only [Bool.not_true, Bool.false_eq_true, if_false, hr', ct]
          simp only [ofArch]
          simp only [List.getD_eq_getElem?_getD]
          rcases Option.eq_none_or_eq_some (AL.find? (a.relationTables[i]?.getD []) (T.targets[i]?.getD Ent.zero).id) with h1 | ⟨ts1, h1⟩ <;>
            rcases Option.eq_none_or_eq_some (AL.find? a.targetTables (T.targets[i]?.getD Ent.zero).id) with h2 | ⟨ts2, h2⟩
          · simp [h1, h2, newTableIDs_eq]
          · rcases Option.eq_none_or_eq_some (AL.find? ts2.indices T.id) with h3 | ⟨x3, h3⟩ <;>
              simp [h1, h2, h3, TableIDs.hasIndex, AL.contains, newTableIDs_eq]
          · simp [h1, h2, newTableIDs_eq]
          · rcases Option.eq_none_or_eq_some (AL.find? ts2.indices T.id) with h3 | ⟨x3, h3⟩ <;>
              simp [h1, h2, h3, TableIDs.hasIndex, AL.contains, newTableIDs_eq]
      · show (if !(a.isRel.getD i false) then a else _).isRel = A.isRel
        split <;> simp [ha]
    · rfl

/-! ### `GetTables`: the relation lookup a query with relation targets reads -/

/-- `ofArch` with the `componentsMap` array of the source: the column index of every component that
    is a column (the source stores -1 for the others and, for those, indexes out of range — the model's
    `none`; the theorem below is about components that are columns). -/
def ofArchM (A : Archetype) : G_archetype :=
  { ofArch A with componentsMap := (List.range 256).map fun c => (A.colIdx c).getD 0 }

/-- the model's relation pair as the Go `relationID` -/
def ofRel (r : RelID) : G_relationID := { target := r.target, component := { id := r.comp } }

/-- `GetTables(relations)` as in the source = the model's `getTables`, whenever the first named
    relation component is a column of the archetype (otherwise the model yields the Go panic). -/
theorem getTables_eq (A : Archetype) (rels : List RelID)
    (hcol : ∀ r, rels.head? = some r → A.hasRelations = true → r.comp < 256 ∧ (A.colIdx r.comp).isSome) :
    some (archetype_GetTables (ofArchM A) (rels.map ofRel)) = A.getTables rels := by
  unfold archetype_GetTables Archetype.getTables
  have hh : archetype_HasRelations (ofArchM A) = A.hasRelations := by
    simp [archetype_HasRelations, ofArchM, ofArch, Archetype.hasRelations]
  rw [hh]
  cases hr : A.hasRelations with
  | false => simp [ofArchM, ofArch]
  | true =>
    cases rels with
    | nil => simp [ofArchM, ofArch]
    | cons r rest =>
      obtain ⟨hlt, hsome⟩ := hcol r rfl hr
      obtain ⟨i, hi⟩ := Option.isSome_iff_exists.mp hsome
      have hidx : ((ofArchM A).componentsMap.getD r.comp 0) = i := by
        simp [ofArchM, List.getD_eq_getElem?_getD, hlt, hi]
      have hidx' : (ofArchM A).componentsMap[r.comp]?.getD 0 = i := by
        simpa [List.getD_eq_getElem?_getD] using hidx
      have hrt : (ofArchM A).relationTables = A.relationTables := by simp [ofArchM, ofArch]
      -- shape-robust: whatever order of tests and whichever lets the source uses
      simp only [Bool.not_true, Bool.false_or, Bool.or_false, List.length_map, List.length_cons,
        Nat.add_eq_zero_iff, Nat.succ_ne_zero, and_false, beq_iff_eq, ↓reduceIte, hi, List.map_cons,
        List.getD_cons_zero, ofRel, hidx, hidx', hrt, Bool.false_eq_true, List.getD_eq_getElem?_getD,
        List.getElem?_cons_zero, Option.getD_some]
      generalize AL.find? (A.relationTables[i]?.getD []) r.target.id = o
      cases o <;> simp

end Ark.GenBridge.Book
