/-
  Ark.Proofs.GenBridge.BookTableIDs — `tableIDs` of archetype.go (`newTableIDs`, `Append`,
  `Remove`, `Clear`), translated statement by statement from the Go source on every run
  (tools/extract/book.go → Ark/Generated/BookTableIDs.lean), proved equal to the model's
  `TableIDs` operations for ALL inputs.  A change of the Go code changes the generated definition
  and breaks the corresponding theorem; a harmless rewrite that yields the same function does not.

-/
import Ark.Generated.BookTableIDs
import Ark.Proofs.TableIDs

namespace Ark.GenBridge.Book
open Ark Ark.Generated.Book

/-- folding over positions with `getD` is folding over the list with its positions -/
theorem foldl_range_getD {β : Type} (f : β → Nat → Nat → β) (l : List Nat) (off : Nat) (pre : List Nat)
    (init : β) :
    (List.range l.length).foldl (fun acc i => f acc ((pre ++ l).getD (pre.length + i) 0) (off + i)) init =
      (l.zipIdx off).foldl (fun acc p => f acc p.1 p.2) init := by
  induction l generalizing off pre init with
  | nil => simp
  | cons x xs ih =>
    rw [List.length_cons, List.range_succ_eq_map, List.foldl_cons, List.foldl_map, List.zipIdx_cons,
      List.foldl_cons]
    have hx : (pre ++ x :: xs).getD (pre.length + 0) 0 = x := by simp
    rw [hx]
    have := ih (off + 1) (pre ++ [x]) (f init x off)
    simp only [List.append_assoc, List.singleton_append, List.length_append, List.length_singleton] at this
    simp only [Nat.add_zero]
    rw [← this]
    apply congrArg (fun g => List.foldl g _ _)
    funext acc i
    have e1 : pre.length + i.succ = pre.length + 1 + i := by omega
    have e2 : off + i.succ = off + 1 + i := by omega
    rw [e1, e2]

/-- `newTableIDs(tables...)` is the model's `TableIDs.ofList` -/
theorem newTableIDs_eq (ts : List Nat) : newTableIDs ts = TableIDs.ofList ts := by
  unfold newTableIDs TableIDs.ofList
  have := foldl_range_getD (fun (m : AL Nat) t i => AL.insert m t i) ts 0 [] []
  simp only [List.nil_append, List.length_nil, Nat.zero_add] at this
  simp only [this]

/-- `Append` -/
theorem append_eq (t : TableIDs) (id : Nat) : tableIDs_Append t id = t.append id := by
  unfold tableIDs_Append TableIDs.append
  simp

/-- `Clear` -/
theorem clear_eq (t : TableIDs) : tableIDs_Clear t = t.clear := by
  unfold tableIDs_Clear TableIDs.clear
  simp

/-- `Remove` (the model re-reads the slice after the swap exactly as the Go code does, so the
    equality needs no well-formedness hypothesis) -/
theorem remove_eq (t : TableIDs) (id : Nat) : tableIDs_Remove t id = t.remove id := by
  unfold tableIDs_Remove TableIDs.remove
  cases hf : AL.find? t.indices id with
  | none => simp
  | some index =>
    simp only [Option.getD_some, Option.isSome_some, Bool.not_true, Bool.false_eq_true, if_false]
    by_cases hne : index = t.tables.length - 1
    · simp [hne]
    · -- both orientations of the comparison (`index != last` / `last != index`)
      have hne1 : (index != t.tables.length - 1) = true := by simpa using hne
      have hne2 : (t.tables.length - 1 != index) = true := by simpa using Ne.symm hne
      simp only [hne1, hne2, if_true]

end Ark.GenBridge.Book
