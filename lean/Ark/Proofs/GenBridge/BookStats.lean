/-
  Ark.Proofs.GenBridge.BookStats — the incremental statistics of archetype.go / table.go
  (`table.Stats`, `table.UpdateStats`, `archetype.UpdateStats` over the RE-USED `stats.Archetype`),
  translated statement by statement from the Go source on every run (tools/extract/book.go →
  Ark/Generated/BookStats.lean), proved equal to the model's `tableStats` / `archStatsUpdate`
  for ALL worlds, ALL archetypes and EVERY stored object.

  * projections `gTable` (`ofTable` + `len`, `cap`), `gStorage`, `gTableStats`, `gArchStats`;
  * `tableStats_eq`, `tableUpdateStats_eq` — `table.Stats` / `table.UpdateStats` (which overwrites
    all four fields of the re-used entry) = the model's `tableStats`;
  * `loop1_eq`, `loop2_eq`, `loop3_eq` — the three loops of `archetype.UpdateStats`: the in-place
    loop over the first `cntOld` entries of the re-used slice (what lies behind them STAYS), the
    appending loop, the free-table loop, each with the sums it accumulates;
  * **`updateStats_eq`** — `archetype_UpdateStats (ofArch A) (gArchStats st) (gStorage w) =
    gArchStats (w.archStatsUpdate A st)`, WITHOUT hypothesis: a table ID that is not an index
    of `w.tables` reads the zero table on both sides (`gTable default = default`).

  The model is blind to the truncation of the re-used slice (`modelTablesNoTrunc_eq`); the
  translated source is not: with the truncation dropped from the Go function the generated
  definition keeps the stale tail of `stats.Tables` and `updateStats_eq` is false (and no longer
  type-checks: its proof goes through the case `cntNew < cntOld`).

  Core Lean only.
-/
import Ark.Generated.BookStats
import Ark.Proofs.GenBridge.BookArchetype
import Ark.Proofs.Stats

set_option autoImplicit false

namespace Ark.GenBridge.Book
open Ark Ark.World Ark.Generated.Book

/-! ## 1. projections -/

/-- the model's table as the structure generated from the Go struct, WITH `len` and `cap` -/
def gTable (T : Table) : G_table := { ofTable T with len := T.len, cap := T.cap }

/-- the table store -/
def gStorage (w : World) : G_storage := { tables := w.tables.map gTable }

def gTableStats (t : TableStats) : G_stats_Table :=
  { Size := t.size, Capacity := t.capacity, Memory := t.memory, MemoryUsed := t.memoryUsed }

/-- `stats.Archetype` (the fields `archetype.UpdateStats` reads or writes; `componentIDs` and
    `numRelations` are neither) -/
def gArchStats (s : ArchStats) : G_stats_Archetype :=
  { Tables := s.tables.map gTableStats, Size := s.size, Capacity := s.capacity, Memory := s.memory,
    MemoryUsed := s.memoryUsed, MemoryPerEntity := s.memoryPerEntity, FreeTables := s.freeTables }

theorem gTable_default : gTable default = default := rfl

/-- `storage.tables[id]` on the projected store is the projection of the model's `w.tbl id`,
    for EVERY `id` (out of range: the zero table on both sides) -/
theorem gStorage_getD (w : World) (id : Nat) :
    (gStorage w).tables.getD id default = gTable (w.tbl id) := by
  simp only [gStorage, World.tbl, List.getD_eq_getElem?_getD, List.getElem?_map]
  cases w.tables[id]? <;> rfl

/-! ## 2. `table.Stats`, `table.UpdateStats` -/

/-- `table.Stats` = the model's `tableStats` -/
theorem tableStats_eq (T : Table) (mpe : Nat) :
    table_Stats (gTable T) mpe = gTableStats (tableStats T mpe) := rfl

/-- `table.UpdateStats` overwrites all four fields of the re-used entry: = `tableStats`, whatever
    the entry was -/
theorem tableUpdateStats_eq (T : Table) (mpe : Nat) (old : G_stats_Table) :
    table_UpdateStats (gTable T) mpe old = gTableStats (tableStats T mpe) := rfl

theorem tableUpdateStats_eq_stats (t : G_table) (mpe : Nat) (old : G_stats_Table) :
    table_UpdateStats t mpe old = table_Stats t mpe := rfl

/-! ## 3. the loops of `archetype.UpdateStats` -/

/-- the state of the loops: `cap`, `count`, `memory`, `memoryUsed`, `stats` -/
abbrev Acc := Nat × Nat × Nat × Nat × G_stats_Archetype

/-- the entry of the `i`-th active table -/
def entry (S : G_storage) (tbls : List Nat) (mpe : Nat) (i : Nat) : G_stats_Table :=
  table_Stats (S.tables.getD (tbls.getD i 0) default) mpe

/-- the body of the in-place loop (copied from the generated definition; `decompose` below checks
    by `rfl` that it IS the generated body) -/
def step1 (S : G_storage) (tables : TableIDs) : Acc → Nat → Acc :=
  fun (cap, count, memory, memoryUsed, stats) i =>
    let out_1 := (table_UpdateStats ((((S).tables).getD ((((tables).tables).getD (i) 0)) default)) ((stats).MemoryPerEntity) ((((stats).Tables).getD (i) default)))
    let stats := ({ (stats) with Tables := (((stats).Tables).set (i) (out_1)) } : G_stats_Archetype)
    let cap := (cap + ((((stats).Tables).getD (i) default)).Capacity)
    let count := (count + ((((stats).Tables).getD (i) default)).Size)
    let memory := (memory + ((((stats).Tables).getD (i) default)).Memory)
    let memoryUsed := (memoryUsed + ((((stats).Tables).getD (i) default)).MemoryUsed)
    (cap, count, memory, memoryUsed, stats)

/-- the body of the appending loop -/
def step2 (S : G_storage) (tables : TableIDs) : Acc → Nat → Acc :=
  fun (cap, count, memory, memoryUsed, stats) i =>
    let tableStats := (table_Stats ((((S).tables).getD ((((tables).tables).getD (i) 0)) default)) ((stats).MemoryPerEntity))
    let stats := ({ (stats) with Tables := ((stats).Tables ++ [tableStats]) } : G_stats_Archetype)
    let cap := (cap + (tableStats).Capacity)
    let count := (count + (tableStats).Size)
    let memory := (memory + (tableStats).Memory)
    let memoryUsed := (memoryUsed + (tableStats).MemoryUsed)
    (cap, count, memory, memoryUsed, stats)

/-- the body of the free-table loop -/
def step3 (S : G_storage) (free : List Nat) (mpe : Nat) : Nat × Nat → Nat → Nat × Nat :=
  fun (cap, memory) i_2 =>
    let id := ((free).getD (i_2) 0)
    let cap := (cap + ((((S).tables).getD (id) default)).cap)
    let memory := (memory + (mpe * ((((S).tables).getD (id) default)).cap))
    (cap, memory)

/-- **the generated function is these three loops** (by `rfl`: any change of the generated
    definition breaks this) -/
theorem decompose (a : G_archetype) (stats : G_stats_Archetype) (S : G_storage) :
    archetype_UpdateStats a stats S =
      let cntNew := a.tables.tables.length
      let p : Nat × G_stats_Archetype :=
        if decide (cntNew < stats.Tables.length) then
          (cntNew, { stats with Tables := stats.Tables.take cntNew })
        else (stats.Tables.length, stats)
      let r1 := (List.range p.1).foldl (step1 S a.tables) (0, 0, 0, 0, p.2)
      let r2 := (List.range' p.1 (cntNew - p.1)).foldl (step2 S a.tables) r1
      let r3 := (List.range a.freeTables.length).foldl
        (step3 S a.freeTables r2.2.2.2.2.MemoryPerEntity) (r2.1, r2.2.2.1)
      { r2.2.2.2.2 with FreeTables := a.freeTables.length, Capacity := r3.1, Size := r2.2.1,
                        Memory := r3.2, MemoryUsed := r2.2.2.2.1 } := by
  rfl

/-- the four figures of the entries `g i`, `i ∈ l`, summed -/
def sumOf (f : G_stats_Table → Nat) (g : Nat → G_stats_Table) (l : List Nat) : Nat :=
  (l.map fun i => f (g i)).sum

theorem sumOf_append (f : G_stats_Table → Nat) (g : Nat → G_stats_Table) (l₁ l₂ : List Nat) :
    sumOf f g (l₁ ++ l₂) = sumOf f g l₁ + sumOf f g l₂ := by
  simp [sumOf]

theorem sumOf_cons (f : G_stats_Table → Nat) (g : Nat → G_stats_Table) (x : Nat) (l : List Nat) :
    sumOf f g (x :: l) = f (g x) + sumOf f g l := by
  simp [sumOf]

/-- one round of the in-place loop, at an index inside the re-used slice -/
theorem step1_eq (S : G_storage) (tables : TableIDs) (c n m u : Nat) (st : G_stats_Archetype)
    (i : Nat) (hi : i < st.Tables.length) :
    step1 S tables (c, n, m, u, st) i =
      (c + (entry S tables.tables st.MemoryPerEntity i).Capacity,
       n + (entry S tables.tables st.MemoryPerEntity i).Size,
       m + (entry S tables.tables st.MemoryPerEntity i).Memory,
       u + (entry S tables.tables st.MemoryPerEntity i).MemoryUsed,
       { st with Tables := st.Tables.set i (entry S tables.tables st.MemoryPerEntity i) }) := by
  have hget : ∀ (x : G_stats_Table), (st.Tables.set i x).getD i default = x := by
    intro x
    rw [List.getD_eq_getElem?_getD, List.getElem?_set_self hi]; rfl
  simp only [step1, tableUpdateStats_eq_stats, hget, entry]

/-- **the in-place loop**: the first `k` entries of the re-used slice are overwritten, what lies
    behind them stays; the four sums of the new entries are accumulated -/
theorem loop1_eq (S : G_storage) (tables : TableIDs) : ∀ (k c n m u : Nat) (st : G_stats_Archetype),
    k ≤ st.Tables.length →
    (List.range k).foldl (step1 S tables) (c, n, m, u, st) =
      (c + sumOf (·.Capacity) (entry S tables.tables st.MemoryPerEntity) (List.range k),
       n + sumOf (·.Size) (entry S tables.tables st.MemoryPerEntity) (List.range k),
       m + sumOf (·.Memory) (entry S tables.tables st.MemoryPerEntity) (List.range k),
       u + sumOf (·.MemoryUsed) (entry S tables.tables st.MemoryPerEntity) (List.range k),
       { st with Tables := (List.range k).map (entry S tables.tables st.MemoryPerEntity) ++
                   st.Tables.drop k }) := by
  intro k
  induction k with
  | zero => intro c n m u st _; simp [sumOf]
  | succ k ih =>
    intro c n m u st hk
    rw [List.range_succ, List.foldl_append, ih c n m u st (by omega), List.foldl_cons,
      List.foldl_nil]
    have hlen : ((List.range k).map (entry S tables.tables st.MemoryPerEntity)).length = k := by
      simp
    rw [step1_eq _ _ _ _ _ _ _ _ (by
      show k < ((List.range k).map (entry S tables.tables st.MemoryPerEntity) ++
        st.Tables.drop k).length
      rw [List.length_append, hlen, List.length_drop]; omega)]
    have hd : st.Tables.drop k = st.Tables[k] :: st.Tables.drop (k + 1) := by
      rw [List.drop_eq_getElem_cons (by omega)]
    rw [List.set_append_right _ _ (by rw [hlen]; exact Nat.le_refl _), hlen, Nat.sub_self, hd,
      List.set_cons_zero]
    simp [sumOf, Nat.add_assoc]

/-- **the appending loop** -/
theorem loop2_eq (S : G_storage) (tables : TableIDs) : ∀ (len lo c n m u : Nat)
    (st : G_stats_Archetype),
    (List.range' lo len).foldl (step2 S tables) (c, n, m, u, st) =
      (c + sumOf (·.Capacity) (entry S tables.tables st.MemoryPerEntity) (List.range' lo len),
       n + sumOf (·.Size) (entry S tables.tables st.MemoryPerEntity) (List.range' lo len),
       m + sumOf (·.Memory) (entry S tables.tables st.MemoryPerEntity) (List.range' lo len),
       u + sumOf (·.MemoryUsed) (entry S tables.tables st.MemoryPerEntity) (List.range' lo len),
       { st with Tables := st.Tables ++
                   (List.range' lo len).map (entry S tables.tables st.MemoryPerEntity) }) := by
  intro len
  induction len with
  | zero => intro lo c n m u st; simp [sumOf]
  | succ len ih =>
    intro lo c n m u st
    rw [List.range'_succ, List.foldl_cons]
    have hs : step2 S tables (c, n, m, u, st) lo =
        (c + (entry S tables.tables st.MemoryPerEntity lo).Capacity,
         n + (entry S tables.tables st.MemoryPerEntity lo).Size,
         m + (entry S tables.tables st.MemoryPerEntity lo).Memory,
         u + (entry S tables.tables st.MemoryPerEntity lo).MemoryUsed,
         { st with Tables := st.Tables ++ [entry S tables.tables st.MemoryPerEntity lo] }) := rfl
    rw [hs, ih]
    simp only [sumOf_cons, Nat.add_assoc, List.map_cons, List.append_assoc, List.singleton_append]

/-- **the free-table loop** -/
theorem loop3_eq (S : G_storage) (free : List Nat) (mpe : Nat) : ∀ (k c m : Nat),
    (List.range k).foldl (step3 S free mpe) (c, m) =
      (c + ((List.range k).map fun i => (S.tables.getD (free.getD i 0) default).cap).sum,
       m + mpe * ((List.range k).map fun i => (S.tables.getD (free.getD i 0) default).cap).sum) := by
  intro k
  induction k with
  | zero => intro c m; simp
  | succ k ih =>
    intro c m
    rw [List.range_succ, List.foldl_append, ih, List.foldl_cons, List.foldl_nil]
    simp only [step3, List.map_append, List.map_cons, List.map_nil, List.sum_append, List.sum_cons,
      List.sum_nil, Nat.add_zero, Nat.mul_add, Nat.add_assoc]

/-! ## 4. `archetype.UpdateStats` = `archStatsUpdate` -/

theorem range_map_getD' {β : Type} (f : Nat → β) (l : List Nat) :
    ((List.range l.length).map fun i => f (l.getD i 0)) = l.map f := by
  apply List.ext_getElem
  · simp
  · intro i h1 h2
    have hi : i < l.length := by simpa using h1
    simp [List.getD_eq_getElem?_getD, List.getElem?_eq_getElem hi]

/-- the entry of the `i`-th active table on the projected store is the projection of the model's
    `tableStats` -/
theorem entry_eq (w : World) (tbls : List Nat) (mpe i : Nat) :
    entry (gStorage w) tbls mpe i = gTableStats (tableStats (w.tbl (tbls.getD i 0)) mpe) := by
  rw [entry, gStorage_getD]; rfl

theorem entries_eq (w : World) (tbls : List Nat) (mpe : Nat) :
    (List.range tbls.length).map (entry (gStorage w) tbls mpe) =
      (tbls.map fun t => tableStats (w.tbl t) mpe).map gTableStats :=
  calc (List.range tbls.length).map (entry (gStorage w) tbls mpe)
      = (List.range tbls.length).map
          (fun i => gTableStats (tableStats (w.tbl (tbls.getD i 0)) mpe)) :=
        List.map_congr_left fun i _ => entry_eq w tbls mpe i
    _ = tbls.map (fun t => gTableStats (tableStats (w.tbl t) mpe)) :=
        range_map_getD' (fun t => gTableStats (tableStats (w.tbl t) mpe)) tbls
    _ = _ := by rw [List.map_map]; rfl

theorem sumOf_entries (w : World) (tbls : List Nat) (mpe : Nat) (f : G_stats_Table → Nat)
    (f' : TableStats → Nat) (hf : ∀ (t : TableStats), f (gTableStats t) = f' t) :
    sumOf f (entry (gStorage w) tbls mpe) (List.range tbls.length) =
      ((tbls.map fun t => tableStats (w.tbl t) mpe).map f').sum := by
  have h : (List.range tbls.length).map (fun i => f (entry (gStorage w) tbls mpe i)) =
      (tbls.map fun t => tableStats (w.tbl t) mpe).map f' :=
    calc (List.range tbls.length).map (fun i => f (entry (gStorage w) tbls mpe i))
        = (List.range tbls.length).map
            (fun i => f' (tableStats (w.tbl (tbls.getD i 0)) mpe)) :=
          List.map_congr_left fun i _ => by rw [entry_eq, hf]
      _ = tbls.map (fun t => f' (tableStats (w.tbl t) mpe)) :=
          range_map_getD' (fun t => f' (tableStats (w.tbl t) mpe)) tbls
      _ = _ := by rw [List.map_map]; rfl
  rw [sumOf, h]

theorem range_split' (k n : Nat) (hkn : k ≤ n) :
    List.range k ++ List.range' k (n - k) = List.range n := by
  rw [List.range_eq_range', List.range_eq_range']
  have := List.range'_append (s := 0) (m := k) (n := n - k) (step := 1)
  rw [Nat.one_mul, Nat.zero_add] at this
  rw [this]
  congr 1
  omega

/-- what the first two loops compute, started on the (possibly truncated) stored list `old` with
    `k = min (stored length) cntNew` entries to overwrite: when `old` has exactly `k` entries the
    result lists the `cntNew` active tables -/
theorem loops12_eq (S : G_storage) (tables : TableIDs) (st : G_stats_Archetype) (k : Nat)
    (hk : k = st.Tables.length) (hkn : k ≤ tables.tables.length) :
    (List.range' k (tables.tables.length - k)).foldl (step2 S tables)
        ((List.range k).foldl (step1 S tables) (0, 0, 0, 0, st)) =
      (sumOf (·.Capacity) (entry S tables.tables st.MemoryPerEntity) (List.range tables.tables.length),
       sumOf (·.Size) (entry S tables.tables st.MemoryPerEntity) (List.range tables.tables.length),
       sumOf (·.Memory) (entry S tables.tables st.MemoryPerEntity) (List.range tables.tables.length),
       sumOf (·.MemoryUsed) (entry S tables.tables st.MemoryPerEntity)
         (List.range tables.tables.length),
       { st with Tables := (List.range tables.tables.length).map
                   (entry S tables.tables st.MemoryPerEntity) }) := by
  rw [loop1_eq S tables k 0 0 0 0 st (by omega), loop2_eq]
  have hdrop : st.Tables.drop k = [] := by rw [hk]; exact List.drop_length
  simp only [hdrop, List.append_nil, Nat.zero_add, ← sumOf_append, ← List.map_append,
    range_split' k _ hkn]

/-- **`archetype.UpdateStats`, as translated from the source, is the model's `archStatsUpdate`** —
    for every world, every archetype and EVERY stored object (more, fewer or as many table
    entries as the archetype has active tables; any figures).  No hypothesis: table IDs outside
    `w.tables` read the zero table on both sides. -/
theorem updateStats_eq (w : World) (A : Archetype) (st : ArchStats) :
    archetype_UpdateStats (ofArch A) (gArchStats st) (gStorage w) =
      gArchStats (w.archStatsUpdate A st) := by
  rw [decompose]
  -- the model side
  have hmodel : gArchStats (w.archStatsUpdate A st) =
      { Tables := (A.tables.tables.map fun t => tableStats (w.tbl t) st.memoryPerEntity).map
          gTableStats
        Size := ((A.tables.tables.map fun t => tableStats (w.tbl t) st.memoryPerEntity).map
          (·.size)).sum
        Capacity := ((A.tables.tables.map fun t => tableStats (w.tbl t) st.memoryPerEntity).map
          (·.capacity)).sum + (A.freeTables.map fun t => (w.tbl t).cap).sum
        Memory := ((A.tables.tables.map fun t => tableStats (w.tbl t) st.memoryPerEntity).map
          (·.memory)).sum + st.memoryPerEntity * (A.freeTables.map fun t => (w.tbl t).cap).sum
        MemoryUsed := ((A.tables.tables.map fun t => tableStats (w.tbl t) st.memoryPerEntity).map
          (·.memoryUsed)).sum
        MemoryPerEntity := st.memoryPerEntity
        FreeTables := A.freeTables.length } := by
    simp only [gArchStats, archStatsUpdate, map_take_append_map_drop, foldl_add_zero]
  rw [hmodel]
  -- the free-table loop
  have hfree : ((List.range A.freeTables.length).map fun i =>
      ((gStorage w).tables.getD (A.freeTables.getD i 0) default).cap) =
      A.freeTables.map fun t => (w.tbl t).cap := by
    have h : (fun i => ((gStorage w).tables.getD (A.freeTables.getD i 0) default).cap) =
        fun i => (w.tbl (A.freeTables.getD i 0)).cap := by
      funext i; rw [gStorage_getD]; rfl
    rw [h]
    exact range_map_getD' (fun t => (w.tbl t).cap) A.freeTables
  -- the first two loops, after the truncation
  have h12 : ∀ (old : G_stats_Archetype) (k : Nat), k = old.Tables.length →
      k ≤ A.tables.tables.length → old.MemoryPerEntity = st.memoryPerEntity →
      (List.range' k (A.tables.tables.length - k)).foldl (step2 (gStorage w) A.tables)
          ((List.range k).foldl (step1 (gStorage w) A.tables) (0, 0, 0, 0, old)) =
        (((A.tables.tables.map fun t => tableStats (w.tbl t) st.memoryPerEntity).map
            (·.capacity)).sum,
         ((A.tables.tables.map fun t => tableStats (w.tbl t) st.memoryPerEntity).map (·.size)).sum,
         ((A.tables.tables.map fun t => tableStats (w.tbl t) st.memoryPerEntity).map
            (·.memory)).sum,
         ((A.tables.tables.map fun t => tableStats (w.tbl t) st.memoryPerEntity).map
            (·.memoryUsed)).sum,
         { old with Tables := (A.tables.tables.map fun t =>
             tableStats (w.tbl t) st.memoryPerEntity).map gTableStats }) := by
    intro old k hk hkn hmpe
    rw [loops12_eq _ _ _ _ hk hkn, hmpe, entries_eq,
      sumOf_entries w _ _ (·.Capacity) (·.capacity) (fun _ => rfl),
      sumOf_entries w _ _ (·.Size) (·.size) (fun _ => rfl),
      sumOf_entries w _ _ (·.Memory) (·.memory) (fun _ => rfl),
      sumOf_entries w _ _ (·.MemoryUsed) (·.memoryUsed) (fun _ => rfl)]
  show (let cntNew := A.tables.tables.length
    let p : Nat × G_stats_Archetype :=
      if decide (cntNew < (gArchStats st).Tables.length) then
        (cntNew, { gArchStats st with Tables := (gArchStats st).Tables.take cntNew })
      else ((gArchStats st).Tables.length, gArchStats st)
    let r1 := (List.range p.1).foldl (step1 (gStorage w) A.tables) (0, 0, 0, 0, p.2)
    let r2 := (List.range' p.1 (cntNew - p.1)).foldl (step2 (gStorage w) A.tables) r1
    let r3 := (List.range A.freeTables.length).foldl
      (step3 (gStorage w) A.freeTables r2.2.2.2.2.MemoryPerEntity) (r2.1, r2.2.2.1)
    ({ r2.2.2.2.2 with FreeTables := A.freeTables.length, Capacity := r3.1, Size := r2.2.1,
                       Memory := r3.2, MemoryUsed := r2.2.2.2.1 } : G_stats_Archetype)) = _
  by_cases hlt : A.tables.tables.length < (gArchStats st).Tables.length
  · -- FEWER active tables than stored entries: the truncation
    simp only [hlt, decide_true, if_true]
    rw [h12 _ _ (by simp only [List.length_take]; omega) (Nat.le_refl _) rfl]
    simp only [loop3_eq, hfree]
    rfl
  · -- at least as many
    simp only [hlt, decide_false, Bool.false_eq_true, if_false]
    rw [h12 _ _ rfl (by omega) rfl]
    simp only [loop3_eq, hfree]
    rfl

/-! ## 5. consequences -/

/-- whatever the stored entry was, the translated source leaves as many table entries as the
    archetype has active tables (in particular it TRUNCATES a longer stored list) -/
theorem updateStats_tables_length (w : World) (A : Archetype) (st : ArchStats) :
    (archetype_UpdateStats (ofArch A) (gArchStats st) (gStorage w)).Tables.length =
      A.tables.tables.length := by
  rw [updateStats_eq]
  simp [gArchStats, archStatsUpdate]

/-- the translated source computes the FRESH entry when the stored entry carries the archetype's
    three immutable figures -/
theorem updateStats_eq_fresh (w : World) (A : Archetype) (st : ArchStats) (h : StatAgrees w st A) :
    archetype_UpdateStats (ofArch A) (gArchStats st) (gStorage w) =
      gArchStats (w.archStatsFresh A) := by
  rw [updateStats_eq, archStatsUpdate_eq_fresh w A st h]

/-- **`World.Stats()` of the model, per archetype, is what the translated source computes**: the
    entry at a position that has a stored entry is `archetype.UpdateStats` of the archetype, the
    stored entry and the table store — for any world and any stored object -/
theorem statsUpdate_entry (w : World) (st : WorldStats) (i : Nat) (A : Archetype) (s : ArchStats)
    (hA : w.archetypes[i]? = some A) (hs : st.archetypes[i]? = some s) :
    ((w.statsUpdate st).archetypes[i]?).map gArchStats =
      some (archetype_UpdateStats (ofArch A) (gArchStats s) (gStorage w)) := by
  have hi : i < st.archetypes.length := (List.getElem?_eq_some_iff.mp hs).1
  have hz : ((w.archetypes.take st.archetypes.length).zip st.archetypes)[i]? = some (A, s) :=
    List.getElem?_zip_eq_some.mpr ⟨by rw [List.getElem?_take_of_lt hi]; exact hA, hs⟩
  have hlen : i < (((w.archetypes.take st.archetypes.length).zip st.archetypes).map
      fun (p : Archetype × ArchStats) => w.archStatsUpdate p.1 p.2).length := by
    rw [List.length_map]; exact (List.getElem?_eq_some_iff.mp hz).1
  have : (w.statsUpdate st).archetypes[i]? = some (w.archStatsUpdate A s) := by
    show ((((w.archetypes.take st.archetypes.length).zip st.archetypes).map
      fun (p : Archetype × ArchStats) => w.archStatsUpdate p.1 p.2) ++ _)[i]? = _
    rw [List.getElem?_append_left hlen, List.getElem?_map, hz]
    rfl
  rw [this, Option.map_some, updateStats_eq]

end Ark.GenBridge.Book
