/-
  Ark.Proofs.GenBridge.BookStats — the incremental statistics of archetype.go / table.go
  (`table.Stats`, `table.UpdateStats`, `archetype.UpdateStats` over the RE-USED `stats.Archetype`),
  translated statement by statement from the Go source on every run (tools/extract/book.go →
  Ark/Generated/BookStats.lean), proved equal to the model's `tableStats` / `archStatsUpdate`
  for ALL worlds, ALL archetypes and EVERY stored object.

  * projections `gTable` (`ofTable` + `len`, `cap`), `gStorage`, `gTableStats`, `gArchStats`;
  * `tableStats_eq`, `tableUpdateStats_eq` — `table.Stats` / `table.UpdateStats` (which overwrites
    all four fields of the re-used entry) = the model's `tableStats`;
  * `IsRound`, `rounds_eq`, `foldl_additive1/2` — the loops of `archetype.UpdateStats` WHATEVER THEIR
    SHAPE: a loop over the active tables is recognised by what one round does (the entry of the
    `i`-th table is written at position `i` of the stored list — overwriting or appending — and its
    four figures are added to the sums), the loop over the free tables by being additive; the step
    functions of the generated definition are found by unification, never spelled;
  * `step1`–`step3`, `loop1_eq`, `loop2_eq`, `loop3_eq` — the three loops the source had when this
    file was written, as hand-written step functions with their closed forms (the in-place loop
    leaves what lies behind the first `cntOld` entries: a list that is not truncated keeps its
    stale tail); `updateStats_eq` does not go through them;
  * **`updateStats_eq`** — `archetype_UpdateStats (ofArch A) (gArchStats st) (gStorage w) =
    gArchStats (w.archStatsUpdate A st)`, WITHOUT hypothesis: a table ID that is not an index
    of `w.tables` reads the zero table on both sides (`gTable default = default`).  Its proof goes
    through for the in-place loop followed by the appending loop as well as for one merged loop
    (`if i < cntOld`), with the free tables summed before or after, and for `table.Stats` /
    `table.UpdateStats` defined through one another either way.

  The model is blind to the truncation of the re-used slice (`modelTablesNoTrunc_eq`); the
  translated source is not: with the truncation dropped from the Go function the generated
  definition keeps the stale tail of `stats.Tables` and `updateStats_eq` is false (the hypothesis
  `st.Tables.length = max L0 lo` of `rounds_eq` fails for the first loop).

  That the generated function is SYNTACTICALLY the truncation followed by `step1`, `step2`, `step3`
  is checked apart, in Ark/Props/C19SrcShape.lean (a shape pin: it fails for every rewording).

  Core Lean only.
-/
import Ark.Generated.BookStats
import Ark.Proofs.GenBridge.BookArchetype
import Ark.Proofs.Stats

set_option autoImplicit false

namespace Ark.GenBridge.Book
open Ark Ark.World Ark.Generated.Book

/-! ## 1. projections -/

/-- the model's table as the structure generated from the Go struct, WITH `len` and `cap` -/
def gTable (T : Table) : G_table := { ofTable T with len := T.len, cap := T.cap }

/-- the table store -/
def gStorage (w : World) : G_storage := { tables := w.tables.map gTable }

def gTableStats (t : TableStats) : G_stats_Table :=
  { Size := t.size, Capacity := t.capacity, Memory := t.memory, MemoryUsed := t.memoryUsed }

/-- `stats.Archetype` (the fields `archetype.UpdateStats` reads or writes; `componentIDs` and
    `numRelations` are neither) -/
def gArchStats (s : ArchStats) : G_stats_Archetype :=
  { Tables := s.tables.map gTableStats, Size := s.size, Capacity := s.capacity, Memory := s.memory,
    MemoryUsed := s.memoryUsed, MemoryPerEntity := s.memoryPerEntity, FreeTables := s.freeTables }

theorem gTable_default : gTable default = default := rfl

/-- `storage.tables[id]` on the projected store is the projection of the model's `w.tbl id`,
    for EVERY `id` (out of range: the zero table on both sides) -/
theorem gStorage_getD (w : World) (id : Nat) :
    (gStorage w).tables.getD id default = gTable (w.tbl id) := by
  simp only [gStorage, World.tbl, List.getD_eq_getElem?_getD, List.getElem?_map]
  cases w.tables[id]? <;> rfl

/-! ## 2. `table.Stats`, `table.UpdateStats` -/

/-- `table.Stats` = the model's `tableStats` -/
theorem tableStats_eq (T : Table) (mpe : Nat) :
    table_Stats (gTable T) mpe = gTableStats (tableStats T mpe) := rfl

/-- `table.UpdateStats` overwrites all four fields of the re-used entry: = `tableStats`, whatever
    the entry was -/
theorem tableUpdateStats_eq (T : Table) (mpe : Nat) (old : G_stats_Table) :
    table_UpdateStats (gTable T) mpe old = gTableStats (tableStats T mpe) := rfl

theorem tableUpdateStats_eq_stats (t : G_table) (mpe : Nat) (old : G_stats_Table) :
    table_UpdateStats t mpe old = table_Stats t mpe := rfl

/-! ## 3. the loops of `archetype.UpdateStats`, whatever their shape

The loop bodies of the generated definition are never spelled here: a loop over the active tables is
recognised by what one round DOES (`IsRound`: the entry of the `i`-th table is written at position
`i` of the stored list — overwriting the slot if there is one, appending otherwise — and its four
figures are added to the sums), the loop over the free tables by being additive.  The step
functions are found by unification; the per-round obligations are discharged by `simp`.  So the
proof goes through for the source with one in-place loop followed by one appending loop as well as
for one merged loop, with the free tables summed before or after. -/

/-- the state of the loops: `cap`, `count`, `memory`, `memoryUsed`, `stats` -/
abbrev Acc := Nat × Nat × Nat × Nat × G_stats_Archetype

/-- the entry of the `i`-th active table -/
def entry (S : G_storage) (tbls : List Nat) (mpe : Nat) (i : Nat) : G_stats_Table :=
  table_Stats (S.tables.getD (tbls.getD i 0) default) mpe

/-- the four figures of the entries `g i`, `i ∈ l`, summed -/
def sumOf (f : G_stats_Table → Nat) (g : Nat → G_stats_Table) (l : List Nat) : Nat :=
  (l.map fun i => f (g i)).sum

theorem sumOf_append (f : G_stats_Table → Nat) (g : Nat → G_stats_Table) (l₁ l₂ : List Nat) :
    sumOf f g (l₁ ++ l₂) = sumOf f g l₁ + sumOf f g l₂ := by
  simp [sumOf]

theorem sumOf_cons (f : G_stats_Table → Nat) (g : Nat → G_stats_Table) (x : Nat) (l : List Nat) :
    sumOf f g (x :: l) = f (g x) + sumOf f g l := by
  simp [sumOf]

/-- write `x` at position `i`: overwrite the slot when it exists, append otherwise -/
def putAt (l : List G_stats_Table) (i : Nat) (x : G_stats_Table) : List G_stats_Table :=
  if i < l.length then l.set i x else l ++ [x]

theorem putAt_length (l : List G_stats_Table) (i : Nat) (x : G_stats_Table) (L0 : Nat)
    (h : l.length = max L0 i) : (putAt l i x).length = max L0 (i + 1) := by
  unfold putAt
  split
  · rw [List.length_set]; omega
  · rw [List.length_append, List.length_singleton]; omega

theorem putAt_take (l : List G_stats_Table) (i : Nat) (x : G_stats_Table) (h : i ≤ l.length) :
    (putAt l i x).take (i + 1) = l.take i ++ [x] := by
  unfold putAt
  split
  · next hlt =>
    rw [List.take_set, List.take_succ_eq_append_getElem hlt,
      List.set_append_right _ _ (by rw [List.length_take]; omega)]
    simp [List.length_take, Nat.min_eq_left h]
  · next hge =>
    have : i = l.length := by omega
    subst this
    rw [List.take_of_length_le (by simp), List.take_of_length_le (Nat.le_refl _)]

theorem putAt_drop (l : List G_stats_Table) (i k : Nat) (x : G_stats_Table) :
    (putAt l i x).drop (i + 1 + k) = l.drop (i + 1 + k) := by
  unfold putAt
  split
  · rw [List.drop_set_of_lt (by omega)]
  · rw [List.drop_eq_nil_of_le (by simp; omega), List.drop_eq_nil_of_le (by omega)]

/-- `F` is one round of a statistics loop -/
def IsRound (S : G_storage) (tbls : List Nat) (mpe L0 : Nat) (F : Acc → Nat → Acc) (lo hi : Nat) : Prop :=
  ∀ (c n m u : Nat) (st : G_stats_Archetype) (i : Nat), lo ≤ i → i < hi → st.MemoryPerEntity = mpe →
    st.Tables.length = max L0 i →
    F (c, n, m, u, st) i =
      (c + (entry S tbls mpe i).Capacity, n + (entry S tbls mpe i).Size,
       m + (entry S tbls mpe i).Memory, u + (entry S tbls mpe i).MemoryUsed,
       { st with Tables := putAt st.Tables i (entry S tbls mpe i) })

theorem rounds_eq (S : G_storage) (tbls : List Nat) (mpe L0 : Nat) (F : Acc → Nat → Acc) :
    ∀ (len lo : Nat) (a : Acc), IsRound S tbls mpe L0 F lo (lo + len) →
    a.2.2.2.2.MemoryPerEntity = mpe → a.2.2.2.2.Tables.length = max L0 lo →
    (List.range' lo len).foldl F a =
      (a.1 + sumOf (·.Capacity) (entry S tbls mpe) (List.range' lo len),
       a.2.1 + sumOf (·.Size) (entry S tbls mpe) (List.range' lo len),
       a.2.2.1 + sumOf (·.Memory) (entry S tbls mpe) (List.range' lo len),
       a.2.2.2.1 + sumOf (·.MemoryUsed) (entry S tbls mpe) (List.range' lo len),
       { a.2.2.2.2 with Tables := a.2.2.2.2.Tables.take lo ++
           (List.range' lo len).map (entry S tbls mpe) ++ a.2.2.2.2.Tables.drop (lo + len) }) := by
  intro len
  induction len with
  | zero =>
    intro lo a _ _ _
    obtain ⟨c, n, m, u, st⟩ := a
    simp [sumOf]
  | succ len ih =>
    intro lo a hF hmpe hlen
    obtain ⟨c, n, m, u, st⟩ := a
    rw [List.range'_succ, List.foldl_cons, hF c n m u st lo (Nat.le_refl _) (by omega) hmpe hlen]
    have hF' : IsRound S tbls mpe L0 F (lo + 1) (lo + 1 + len) :=
      fun c n m u st i h1 h2 => hF c n m u st i (by omega) (by omega)
    rw [ih (lo + 1) _ hF']
    · have h1 : lo ≤ st.Tables.length := by simp only at hlen; omega
      have h2 : lo + 1 + len = lo + (len + 1) := by omega
      have h3 := putAt_drop st.Tables lo len (entry S tbls mpe lo)
      rw [h2] at h3
      simp only [sumOf_cons, Nat.add_assoc, List.map_cons, putAt_take _ _ _ h1, h3, h2,
        List.append_assoc, List.singleton_append]
    · exact hmpe
    · exact putAt_length _ _ _ _ hlen


theorem foldl_additive1 (F : Nat → Nat → Nat) (hF : ∀ (t i : Nat), F t i = t + F 0 i) (l : List Nat)
    (t : Nat) : l.foldl F t = t + (l.map (F 0)).sum := by
  induction l generalizing t with
  | nil => simp
  | cons x xs ih => rw [List.foldl_cons, ih, hF t x]; simp [Nat.add_assoc]

theorem foldl_additive2 (F : Nat × Nat → Nat → Nat × Nat)
    (hF : ∀ (c m i : Nat), F (c, m) i = (c + (F (0, 0) i).1, m + (F (0, 0) i).2)) (l : List Nat)
    (a : Nat × Nat) :
    l.foldl F a = (a.1 + (l.map fun i => (F (0, 0) i).1).sum,
                   a.2 + (l.map fun i => (F (0, 0) i).2).sum) := by
  induction l generalizing a with
  | nil => simp
  | cons x xs ih =>
    obtain ⟨c, m⟩ := a
    rw [List.foldl_cons, ih, hF c m x]; simp [Nat.add_assoc]

/-! ## 3b. the three loops the source had when this file was written

`step1`, `step2`, `step3` are hand-written step functions (they do not mention the generated
`archetype_UpdateStats`), `loop1_eq`, `loop2_eq`, `loop3_eq` their closed forms.  `updateStats_eq`
does NOT go through them. -/

/-- the body of the in-place loop (as the source had it when this file was written; `Ark.Props.C19SrcShape`
    checks by `rfl` whether it still IS the generated body — no proof here depends on that) -/
def step1 (S : G_storage) (tables : TableIDs) : Acc → Nat → Acc :=
  fun (cap, count, memory, memoryUsed, stats) i =>
    let out_1 := (table_UpdateStats ((((S).tables).getD ((((tables).tables).getD (i) 0)) default)) ((stats).MemoryPerEntity) ((((stats).Tables).getD (i) default)))
    let stats := ({ (stats) with Tables := (((stats).Tables).set (i) (out_1)) } : G_stats_Archetype)
    let cap := (cap + ((((stats).Tables).getD (i) default)).Capacity)
    let count := (count + ((((stats).Tables).getD (i) default)).Size)
    let memory := (memory + ((((stats).Tables).getD (i) default)).Memory)
    let memoryUsed := (memoryUsed + ((((stats).Tables).getD (i) default)).MemoryUsed)
    (cap, count, memory, memoryUsed, stats)

/-- the body of the appending loop -/
def step2 (S : G_storage) (tables : TableIDs) : Acc → Nat → Acc :=
  fun (cap, count, memory, memoryUsed, stats) i =>
    let tableStats := (table_Stats ((((S).tables).getD ((((tables).tables).getD (i) 0)) default)) ((stats).MemoryPerEntity))
    let stats := ({ (stats) with Tables := ((stats).Tables ++ [tableStats]) } : G_stats_Archetype)
    let cap := (cap + (tableStats).Capacity)
    let count := (count + (tableStats).Size)
    let memory := (memory + (tableStats).Memory)
    let memoryUsed := (memoryUsed + (tableStats).MemoryUsed)
    (cap, count, memory, memoryUsed, stats)

/-- the body of the free-table loop -/
def step3 (S : G_storage) (free : List Nat) (mpe : Nat) : Nat × Nat → Nat → Nat × Nat :=
  fun (cap, memory) i_2 =>
    let id := ((free).getD (i_2) 0)
    let cap := (cap + ((((S).tables).getD (id) default)).cap)
    let memory := (memory + (mpe * ((((S).tables).getD (id) default)).cap))
    (cap, memory)

/-- one round of the in-place loop, at an index inside the re-used slice -/
theorem step1_eq (S : G_storage) (tables : TableIDs) (c n m u : Nat) (st : G_stats_Archetype)
    (i : Nat) (hi : i < st.Tables.length) :
    step1 S tables (c, n, m, u, st) i =
      (c + (entry S tables.tables st.MemoryPerEntity i).Capacity,
       n + (entry S tables.tables st.MemoryPerEntity i).Size,
       m + (entry S tables.tables st.MemoryPerEntity i).Memory,
       u + (entry S tables.tables st.MemoryPerEntity i).MemoryUsed,
       { st with Tables := st.Tables.set i (entry S tables.tables st.MemoryPerEntity i) }) := by
  have hget : ∀ (x : G_stats_Table), (st.Tables.set i x).getD i default = x := by
    intro x
    rw [List.getD_eq_getElem?_getD, List.getElem?_set_self hi]; rfl
  simp only [step1, tableUpdateStats_eq_stats, hget, entry]

/-- **the in-place loop**: the first `k` entries of the re-used slice are overwritten, what lies
    behind them stays; the four sums of the new entries are accumulated -/
theorem loop1_eq (S : G_storage) (tables : TableIDs) : ∀ (k c n m u : Nat) (st : G_stats_Archetype),
    k ≤ st.Tables.length →
    (List.range k).foldl (step1 S tables) (c, n, m, u, st) =
      (c + sumOf (·.Capacity) (entry S tables.tables st.MemoryPerEntity) (List.range k),
       n + sumOf (·.Size) (entry S tables.tables st.MemoryPerEntity) (List.range k),
       m + sumOf (·.Memory) (entry S tables.tables st.MemoryPerEntity) (List.range k),
       u + sumOf (·.MemoryUsed) (entry S tables.tables st.MemoryPerEntity) (List.range k),
       { st with Tables := (List.range k).map (entry S tables.tables st.MemoryPerEntity) ++
                   st.Tables.drop k }) := by
  intro k
  induction k with
  | zero => intro c n m u st _; simp [sumOf]
  | succ k ih =>
    intro c n m u st hk
    rw [List.range_succ, List.foldl_append, ih c n m u st (by omega), List.foldl_cons,
      List.foldl_nil]
    have hlen : ((List.range k).map (entry S tables.tables st.MemoryPerEntity)).length = k := by
      simp
    rw [step1_eq _ _ _ _ _ _ _ _ (by
      show k < ((List.range k).map (entry S tables.tables st.MemoryPerEntity) ++
        st.Tables.drop k).length
      rw [List.length_append, hlen, List.length_drop]; omega)]
    have hd : st.Tables.drop k = st.Tables[k] :: st.Tables.drop (k + 1) := by
      rw [List.drop_eq_getElem_cons (by omega)]
    rw [List.set_append_right _ _ (by rw [hlen]; exact Nat.le_refl _), hlen, Nat.sub_self, hd,
      List.set_cons_zero]
    simp [sumOf, Nat.add_assoc]

/-- **the appending loop** -/
theorem loop2_eq (S : G_storage) (tables : TableIDs) : ∀ (len lo c n m u : Nat)
    (st : G_stats_Archetype),
    (List.range' lo len).foldl (step2 S tables) (c, n, m, u, st) =
      (c + sumOf (·.Capacity) (entry S tables.tables st.MemoryPerEntity) (List.range' lo len),
       n + sumOf (·.Size) (entry S tables.tables st.MemoryPerEntity) (List.range' lo len),
       m + sumOf (·.Memory) (entry S tables.tables st.MemoryPerEntity) (List.range' lo len),
       u + sumOf (·.MemoryUsed) (entry S tables.tables st.MemoryPerEntity) (List.range' lo len),
       { st with Tables := st.Tables ++
                   (List.range' lo len).map (entry S tables.tables st.MemoryPerEntity) }) := by
  intro len
  induction len with
  | zero => intro lo c n m u st; simp [sumOf]
  | succ len ih =>
    intro lo c n m u st
    rw [List.range'_succ, List.foldl_cons]
    have hs : step2 S tables (c, n, m, u, st) lo =
        (c + (entry S tables.tables st.MemoryPerEntity lo).Capacity,
         n + (entry S tables.tables st.MemoryPerEntity lo).Size,
         m + (entry S tables.tables st.MemoryPerEntity lo).Memory,
         u + (entry S tables.tables st.MemoryPerEntity lo).MemoryUsed,
         { st with Tables := st.Tables ++ [entry S tables.tables st.MemoryPerEntity lo] }) := rfl
    rw [hs, ih]
    simp only [sumOf_cons, Nat.add_assoc, List.map_cons, List.append_assoc, List.singleton_append]

/-- **the free-table loop** -/
theorem loop3_eq (S : G_storage) (free : List Nat) (mpe : Nat) : ∀ (k c m : Nat),
    (List.range k).foldl (step3 S free mpe) (c, m) =
      (c + ((List.range k).map fun i => (S.tables.getD (free.getD i 0) default).cap).sum,
       m + mpe * ((List.range k).map fun i => (S.tables.getD (free.getD i 0) default).cap).sum) := by
  intro k
  induction k with
  | zero => intro c m; simp
  | succ k ih =>
    intro c m
    rw [List.range_succ, List.foldl_append, ih, List.foldl_cons, List.foldl_nil]
    simp only [step3, List.map_append, List.map_cons, List.map_nil, List.sum_append, List.sum_cons,
      List.sum_nil, Nat.add_zero, Nat.mul_add, Nat.add_assoc]

/-! ## 4. `archetype.UpdateStats` = `archStatsUpdate` -/

theorem range_map_getD' {β : Type} (f : Nat → β) (l : List Nat) :
    ((List.range l.length).map fun i => f (l.getD i 0)) = l.map f := by
  apply List.ext_getElem
  · simp
  · intro i h1 h2
    have hi : i < l.length := by simpa using h1
    simp [List.getD_eq_getElem?_getD, List.getElem?_eq_getElem hi]

/-- the entry of the `i`-th active table on the projected store is the projection of the model's
    `tableStats` -/
theorem entry_eq (w : World) (tbls : List Nat) (mpe i : Nat) :
    entry (gStorage w) tbls mpe i = gTableStats (tableStats (w.tbl (tbls.getD i 0)) mpe) := by
  rw [entry, gStorage_getD]; rfl

theorem entries_eq (w : World) (tbls : List Nat) (mpe : Nat) :
    (List.range tbls.length).map (entry (gStorage w) tbls mpe) =
      (tbls.map fun t => tableStats (w.tbl t) mpe).map gTableStats :=
  calc (List.range tbls.length).map (entry (gStorage w) tbls mpe)
      = (List.range tbls.length).map
          (fun i => gTableStats (tableStats (w.tbl (tbls.getD i 0)) mpe)) :=
        List.map_congr_left fun i _ => entry_eq w tbls mpe i
    _ = tbls.map (fun t => gTableStats (tableStats (w.tbl t) mpe)) :=
        range_map_getD' (fun t => gTableStats (tableStats (w.tbl t) mpe)) tbls
    _ = _ := by rw [List.map_map]; rfl

theorem sumOf_entries (w : World) (tbls : List Nat) (mpe : Nat) (f : G_stats_Table → Nat)
    (f' : TableStats → Nat) (hf : ∀ (t : TableStats), f (gTableStats t) = f' t) :
    sumOf f (entry (gStorage w) tbls mpe) (List.range tbls.length) =
      ((tbls.map fun t => tableStats (w.tbl t) mpe).map f').sum := by
  have h : (List.range tbls.length).map (fun i => f (entry (gStorage w) tbls mpe i)) =
      (tbls.map fun t => tableStats (w.tbl t) mpe).map f' :=
    calc (List.range tbls.length).map (fun i => f (entry (gStorage w) tbls mpe i))
        = (List.range tbls.length).map
            (fun i => f' (tableStats (w.tbl (tbls.getD i 0)) mpe)) :=
          List.map_congr_left fun i _ => by rw [entry_eq, hf]
      _ = tbls.map (fun t => f' (tableStats (w.tbl t) mpe)) :=
          range_map_getD' (fun t => f' (tableStats (w.tbl t) mpe)) tbls
      _ = _ := by rw [List.map_map]; rfl
  rw [sumOf, h]

theorem range_split' (k n : Nat) (hkn : k ≤ n) :
    List.range k ++ List.range' k (n - k) = List.range n := by
  rw [List.range_eq_range', List.range_eq_range']
  have := List.range'_append (s := 0) (m := k) (n := n - k) (step := 1)
  rw [Nat.one_mul, Nat.zero_add] at this
  rw [this]
  congr 1
  omega

theorem sumOf_nil (f : G_stats_Table → Nat) (g : Nat → G_stats_Table) : sumOf f g [] = 0 := rfl

/-- two consecutive loops over the positions below `n` are one -/
theorem sumOf_split (f : G_stats_Table → Nat) (g : Nat → G_stats_Table) (a n : Nat) (h : a ≤ n) :
    sumOf f g (List.range a) + sumOf f g (List.range' a (n - a)) = sumOf f g (List.range n) := by
  rw [← sumOf_append, range_split' a n h]

theorem map_split {β : Type} (g : Nat → β) (a n : Nat) (h : a ≤ n) :
    List.map g (List.range a) ++ List.map g (List.range' a (n - a)) = List.map g (List.range n) := by
  rw [← List.map_append, range_split' a n h]

theorem map_split_assoc {β : Type} (g : Nat → β) (a n : Nat) (h : a ≤ n) (z : List β) :
    List.map g (List.range a) ++ (List.map g (List.range' a (n - a)) ++ z) =
      List.map g (List.range n) ++ z := by
  rw [← List.append_assoc, map_split g a n h]

theorem drop_take_self' {β : Type} (l : List β) (n : Nat) : (l.take n).drop n = [] :=
  List.drop_eq_nil_of_le (List.length_take_le n l)

theorem drop_map_range {β : Type} (g : Nat → β) (a k : Nat) :
    (List.map g (List.range a)).drop (a + k) = [] :=
  List.drop_eq_nil_of_le (by simp)

theorem take_map_range {β : Type} (g : Nat → β) (a : Nat) :
    (List.map g (List.range a)).take a = List.map g (List.range a) :=
  List.take_of_length_le (by simp)

theorem sum_map_mul_left {α : Type} (xs : List α) (f : α → Nat) (k : Nat) :
    (xs.map fun x => k * f x).sum = k * (xs.map f).sum := by
  induction xs with
  | nil => simp
  | cons x xs ih => simp [ih, Nat.mul_add]

/-- one round of a loop over the active tables (`IsRound`), for a step function found by
    unification: the cases "the slot exists" / "the slot does not exist" are decided first (`i < L0`
    with `L0` the length of the stored list after the truncation), `simp` does the rest -/
macro "stats_round" L0:term : tactic => `(tactic| (
  intro c n m u s i hlo hhi hmpe hlen
  simp only [gArchStats, ofArch, List.length_take, List.length_map, Nat.zero_add] at hlo hhi hlen
  by_cases hi : i < $L0
  · first
    | (exfalso; omega)
    | (have hil : i < s.Tables.length := by omega
       simp [putAt, entry, tableUpdateStats_eq_stats, gArchStats, ofArch, hi, hil, hmpe,
         List.getD_eq_getElem?_getD]
       done)
  · first
    | (exfalso; omega)
    | (have hil : s.Tables.length = i := by omega
       subst hil
       simp [putAt, entry, tableUpdateStats_eq_stats, gArchStats, ofArch, hi, hmpe,
         List.getD_eq_getElem?_getD]
       done)))

/-- the loop over the free tables, as a sum: over a single figure or over a pair of figures -/
macro "stats_free" : tactic => `(tactic| (
  try (rw [foldl_additive1]; rotate_left; (· intros; (try simp only []); omega))
  try (rw [foldl_additive2]; rotate_left; (· intros; simp))))

/-- the loops over the active tables: the first one starts at position 0; a second one, if the source
    has one, goes on where the first one stopped -/
macro "stats_rounds" w:term:max A:term:max st:term:max L0:term:max : tactic => `(tactic| (
  rw [rounds_eq (gStorage $w) (Archetype.tables $A).tables (ArchStats.memoryPerEntity $st) $L0 _ _ 0]
  rotate_left
  · stats_round $L0
  · simp [gArchStats]
  · simp [gArchStats, ofArch]
  try (
    rw [rounds_eq (gStorage $w) (Archetype.tables $A).tables (ArchStats.memoryPerEntity $st) $L0]
    rotate_left
    · stats_round $L0
    · simp [gArchStats]
    · (simp [gArchStats, ofArch] <;> omega))))

/-- the sums and the list of the entries, in the model's terms: consecutive loops are joined
    (`hle`: the stored list, after the truncation, is not longer than the list of active tables),
    what is left of the stored list behind the active tables is empty (`hZ`) -/
macro "stats_finish" w:term:max hfree:term:max hle:term:max hZ:term:max : tactic => `(tactic| (
  simp only [← List.range_eq_range', Nat.zero_add, Nat.add_zero, List.take_zero, List.nil_append,
    List.append_nil, gArchStats, ofArch, List.length_map, List.length_take, Nat.sub_self,
    List.range'_zero, List.map_nil, sumOf_nil, drop_take_self', $hZ:term, drop_map_range, take_map_range, Nat.le_refl,
    Nat.le_add_right, $hle:term,
    map_split _ _ _ $hle, map_split_assoc _ _ _ $hle, sumOf_split _ _ _ _ $hle, sum_map_mul_left]
  all_goals try simp only [entries_eq, $hfree:term,
    sumOf_entries $w _ _ (·.Capacity) (·.capacity) (fun _ => rfl),
    sumOf_entries $w _ _ (·.Size) (·.size) (fun _ => rfl),
    sumOf_entries $w _ _ (·.Memory) (·.memory) (fun _ => rfl),
    sumOf_entries $w _ _ (·.MemoryUsed) (·.memoryUsed) (fun _ => rfl)]
  all_goals simp [Nat.add_comm]))

/-- **`archetype.UpdateStats`, as translated from the source, is the model's `archStatsUpdate`** —
    for every world, every archetype and EVERY stored object (more, fewer or as many table
    entries as the archetype has active tables; any figures).  No hypothesis: table IDs outside
    `w.tables` read the zero table on both sides. -/
theorem updateStats_eq (w : World) (A : Archetype) (st : ArchStats) :
    archetype_UpdateStats (ofArch A) (gArchStats st) (gStorage w) =
      gArchStats (w.archStatsUpdate A st) := by
  -- the model side
  have hmodel : gArchStats (w.archStatsUpdate A st) =
      { Tables := (A.tables.tables.map fun t => tableStats (w.tbl t) st.memoryPerEntity).map
          gTableStats
        Size := ((A.tables.tables.map fun t => tableStats (w.tbl t) st.memoryPerEntity).map
          (·.size)).sum
        Capacity := ((A.tables.tables.map fun t => tableStats (w.tbl t) st.memoryPerEntity).map
          (·.capacity)).sum + (A.freeTables.map fun t => (w.tbl t).cap).sum
        Memory := ((A.tables.tables.map fun t => tableStats (w.tbl t) st.memoryPerEntity).map
          (·.memory)).sum + st.memoryPerEntity * (A.freeTables.map fun t => (w.tbl t).cap).sum
        MemoryUsed := ((A.tables.tables.map fun t => tableStats (w.tbl t) st.memoryPerEntity).map
          (·.memoryUsed)).sum
        MemoryPerEntity := st.memoryPerEntity
        FreeTables := A.freeTables.length } := by
    simp only [gArchStats, archStatsUpdate, map_take_append_map_drop, foldl_add_zero]
  rw [hmodel]
  -- the free tables
  have hfree : ((List.range A.freeTables.length).map fun i =>
      ((gStorage w).tables.getD (A.freeTables.getD i 0) default).cap) =
      A.freeTables.map fun t => (w.tbl t).cap := by
    have h : (fun i => ((gStorage w).tables.getD (A.freeTables.getD i 0) default).cap) =
        fun i => (w.tbl (A.freeTables.getD i 0)).cap := by
      funext i; rw [gStorage_getD]; rfl
    rw [h]
    exact range_map_getD' (fun t => (w.tbl t).cap) A.freeTables
  -- what is left of the stored list behind the active tables, after the truncation: nothing
  have hdrop : ∀ (k : Nat), st.tables.length ≤ k → List.drop k (List.map gTableStats st.tables) = [] :=
    fun k hk => List.drop_eq_nil_of_le (by rw [List.length_map]; exact hk)
  unfold archetype_UpdateStats
  by_cases hlt : A.tables.tables.length < st.tables.length
  · -- FEWER active tables than stored entries: the truncation
    have hlt' : (ofArch A).tables.tables.length < (gArchStats st).Tables.length := by
      simpa [ofArch, gArchStats] using hlt
    simp only [hlt', decide_true, if_true, List.range_eq_range']
    stats_free
    stats_rounds w A st (min A.tables.tables.length st.tables.length)
    stats_finish w hfree (Nat.le_refl A.tables.tables.length) (drop_take_self' (β := G_stats_Table))
  · -- at least as many
    have hlt' : ¬ (ofArch A).tables.tables.length < (gArchStats st).Tables.length := by
      simpa [ofArch, gArchStats] using hlt
    simp only [hlt', decide_false, Bool.false_eq_true, if_false, List.range_eq_range']
    stats_free
    stats_rounds w A st st.tables.length
    stats_finish w hfree (Nat.le_of_not_lt hlt) hdrop

/-! ## 5. consequences -/

/-- whatever the stored entry was, the translated source leaves as many table entries as the
    archetype has active tables (in particular it TRUNCATES a longer stored list) -/
theorem updateStats_tables_length (w : World) (A : Archetype) (st : ArchStats) :
    (archetype_UpdateStats (ofArch A) (gArchStats st) (gStorage w)).Tables.length =
      A.tables.tables.length := by
  rw [updateStats_eq]
  simp [gArchStats, archStatsUpdate]

/-- the translated source computes the FRESH entry when the stored entry carries the archetype's
    three immutable figures -/
theorem updateStats_eq_fresh (w : World) (A : Archetype) (st : ArchStats) (h : StatAgrees w st A) :
    archetype_UpdateStats (ofArch A) (gArchStats st) (gStorage w) =
      gArchStats (w.archStatsFresh A) := by
  rw [updateStats_eq, archStatsUpdate_eq_fresh w A st h]

/-- **`World.Stats()` of the model, per archetype, is what the translated source computes**: the
    entry at a position that has a stored entry is `archetype.UpdateStats` of the archetype, the
    stored entry and the table store — for any world and any stored object -/
theorem statsUpdate_entry (w : World) (st : WorldStats) (i : Nat) (A : Archetype) (s : ArchStats)
    (hA : w.archetypes[i]? = some A) (hs : st.archetypes[i]? = some s) :
    ((w.statsUpdate st).archetypes[i]?).map gArchStats =
      some (archetype_UpdateStats (ofArch A) (gArchStats s) (gStorage w)) := by
  have hi : i < st.archetypes.length := (List.getElem?_eq_some_iff.mp hs).1
  have hz : ((w.archetypes.take st.archetypes.length).zip st.archetypes)[i]? = some (A, s) :=
    List.getElem?_zip_eq_some.mpr ⟨by rw [List.getElem?_take_of_lt hi]; exact hA, hs⟩
  have hlen : i < (((w.archetypes.take st.archetypes.length).zip st.archetypes).map
      fun (p : Archetype × ArchStats) => w.archStatsUpdate p.1 p.2).length := by
    rw [List.length_map]; exact (List.getElem?_eq_some_iff.mp hz).1
  have : (w.statsUpdate st).archetypes[i]? = some (w.archStatsUpdate A s) := by
    show ((((w.archetypes.take st.archetypes.length).zip st.archetypes).map
      fun (p : Archetype × ArchStats) => w.archStatsUpdate p.1 p.2) ++ _)[i]? = _
    rw [List.getElem?_append_left hlen, List.getElem?_map, hz]
    rfl
  rw [this, Option.map_some, updateStats_eq]

end Ark.GenBridge.Book
