/-
  Ark.Proofs.GenBridge.BookLookup — the exact table lookup (`table.MatchesExact`, `table.Matches`
  of table.go; `archetype.GetTable`, `archetype.getTableSlowPath` of archetype.go), translated
  statement by statement from the Go source on every run (tools/extract/book.go →
  Ark/Generated/BookLookup.lean), proved equal to the model's `Table.matchesExact`,
  `Table.matchesRels` and `World.getTable`, INCLUDING which panic is raised.

  Vocabulary.
  * The generated functions return `GoRes R` (`.ok r` / `.panic ⟨message, integer arguments⟩`; for
    `panic(fmt.Sprintf(f, …))` the message is the format string `f`).  `panicKind` reads the message
    as the model's `PanicKind` ("relation targets must be fully specified" ↦ `.relUnspecified`,
    "component %d is not a relation component" ↦ `.notRelation`, "relation component %d specified
    more than once" ↦ `.relTwice`, anything else — the nil dereference — ↦ `.runtime`), and
    `GoRes.classify` turns a `GoRes R` into a `KRes R` (`.ok r` / `.panic kind`).
  * `ofTableL T` is the model's table as the Go `table` the lookup reads: `components` (Go:
    `[]*column`, 256 entries, nil for the components the table has no column for) has at `c` the
    column `⟨target, isRelation⟩` of `T.colIdx c`; `relationIDs`, `id` as in the model.
    `ofStorageL w` are the world's tables; `ofArchM`, `ofRel` come from `BookArchetype`.
  * Hypotheses.  `IdsLt256 T` (a table's component IDs are < 256 — Go's `ID.id` is a `uint8`, the
    `components` array has 256 entries; `SInv` provides it: `idsLt256_of_sinv`).  For `GetTable`:
    `LookupOK w A` (the tables the archetype lists — in `tables` and in its relation index — exist,
    have their position as `id` and satisfy `IdsLt256`; provided by `SInv` and `RInv`:
    `lookupOK_of_inv`), `rels.length < 256` (the source compares `uint8(len(relations))`, see the
    finding below) and — as in `getTables_eq` — that the first named relation component is a column
    of the archetype (for a component that is not, the source indexes `relationTables[-1]`: a Go
    runtime panic, the model's `.panic .runtime`; the translation has no negative numbers).

  FINDING (`uint8(len(relations))`).  `getTableSlowPath` compares `uint8(len(relations)) <
  a.numRelations`.  For a relation list of 256 entries the conversion wraps to 0 and the source
  panics "relation targets must be fully specified" although enough relations were given (the
  model — like a reader of the message — goes on to the duplicate scan: `.relTwice`; both sides
  panic, only the message differs): `getTable_len256_differs` below.  Hence the hypothesis
  `rels.length < 256` in `getTableSlowPath_eq` / `getTable_eq`.
-/
import Ark.Generated.BookLookup
import Ark.Proofs.GenBridge.BookArchetype
import Ark.Proofs.SInv

namespace Ark.GenBridge.Book
open Ark Ark.Generated.Book

-- the `simp` calls that normalise the generated terms list the lemmas for every shape the source may
-- take (e.g. `for j := 0; j < i; j++` / `for j := range i`); for the current shape some are not used
set_option linter.unusedSimpArgs false

/-! ### results with classified panics -/

/-- a result whose panic is one of the model's panic kinds -/
inductive KRes (α : Type) where
  | ok : α → KRes α
  | panic : PanicKind → KRes α
  deriving Repr, DecidableEq

/-- the panic message of the source as the model's panic kind -/
def panicKind (p : GoPanic) : PanicKind :=
  if p.msg = "relation targets must be fully specified" then .relUnspecified
  else if p.msg = "component %d is not a relation component" then .notRelation
  else if p.msg = "relation component %d specified more than once" then .relTwice
  else .runtime

/-- a generated result with its panic classified -/
def _root_.Ark.Generated.Book.GoRes.classify {α : Type} : GoRes α → KRes α
  | .ok a => .ok a
  | .panic p => .panic (panicKind p)

/-- the model's result of a world operation without the state (the operations here do not change it) -/
def resK {α : Type} : Res World α → KRes α
  | .ok a _ => .ok a
  | .panic k _ => .panic k

/-- the outcome of the model's `matchesExact` as a result -/
def exactK : Table.ExactRes → KRes Bool
  | .yes => .ok true
  | .no => .ok false
  | .tooFew => .panic .relUnspecified
  | .notRelation => .panic .notRelation

/-- the outcome of the model's `matchesRels` as a result (`none`: Go's nil dereference) -/
def matchesK : Option Bool → KRes Bool
  | some b => .ok b
  | none => .panic .runtime

/-! ### loops with an early exit

The translator renders `return`/`panic` inside a loop by a fold whose state carries
`ret : Option <result>`; once it is `some`, the remaining iterations keep it.  Such a fold is
`List.findSome?` of the per-iteration outcome.  The generated step function is matched by
unification (`F`), the outcome `g` is given by the proof: the statement does not depend on how the
source spells the loop body. -/

theorem foldl_early {ι ρ : Type} (xs : List ι) (F : Option ρ → ι → Option ρ) (g : ι → Option ρ)
    (hF : ∀ (ret : Option ρ) (x : ι), x ∈ xs → F ret x = if ret.isSome then ret else g x)
    (init : Option ρ) :
    xs.foldl F init = init.or (xs.findSome? g) := by
  induction xs generalizing init with
  | nil => cases init <;> rfl
  | cons x xs ih =>
    rw [List.foldl_cons, ih (fun ret y hy => hF ret y (List.mem_cons_of_mem _ hy)),
      hF init x (List.mem_cons_self ..)]
    cases init with
    | some r => rfl
    | none =>
      simp only [Option.isSome_none, Bool.false_eq_true, if_false, Option.none_or, List.findSome?_cons]
      cases g x <;> rfl

/-- visiting the positions of a list is visiting its elements -/
theorem findSome?_range_getElem {α ρ : Type} (l : List α) (g : α → Option ρ) (G : Nat → Option ρ)
    (hG : ∀ (i : Nat) (h : i < l.length), G i = g l[i]) :
    (List.range l.length).findSome? G = l.findSome? g := by
  induction l generalizing G with
  | nil => rfl
  | cons x xs ih =>
    rw [List.length_cons, List.range_succ_eq_map, List.findSome?_cons, List.findSome?_map,
      hG 0 (by simp), List.findSome?_cons]
    have := ih (G ∘ Nat.succ) (fun i h => by
      have := hG (i + 1) (by simp; omega)
      simpa using this)
    simp only [List.getElem_cons_zero]
    rw [this]

/-! ### the representation of tables, storage -/

/-- a table's component IDs are below 256 (Go's `ID.id` is a `uint8`) -/
def IdsLt256 (T : Table) : Prop := ∀ (c : Comp), c ∈ T.ids → c < 256

/-- the column of component `c` as the Go `column` the lookup reads (`none`: nil) -/
def colOf (T : Table) (c : Comp) : Option G_column :=
  (T.colIdx c).map fun i =>
    ({ target := T.targets.getD i Ent.zero, isRelation := T.isRel.getD i false } : G_column)

/-- the model's table as the Go `table` of the lookup -/
def ofTableL (T : Table) : G_table_L :=
  { components := (List.range 256).map (colOf T)
    relationIDs := T.relIDs.map ofRel
    id := T.id }

/-- the world's tables as the Go `storage` of the lookup -/
def ofStorageL (w : World) : G_storage_L := { tables := w.tables.map ofTableL }

theorem mem_ids_of_colIdx {T : Table} {c : Comp} {i : Nat} (h : T.colIdx c = some i) : c ∈ T.ids := by
  unfold Table.colIdx at h
  simp only at h
  split at h
  · rename_i hlt; exact List.idxOf_lt_length_iff.mp hlt
  · cases h

theorem components_getD (T : Table) (h : IdsLt256 T) (c : Nat) :
    (ofTableL T).components.getD c none = colOf T c := by
  by_cases hc : c < 256
  · simp [ofTableL, List.getD_eq_getElem?_getD, hc]
  · have hnone : T.colIdx c = none := by
      cases hi : T.colIdx c with
      | none => rfl
      | some i =>
        exact absurd (h c (mem_ids_of_colIdx hi)) hc
    simp [ofTableL, List.getD_eq_getElem?_getD, hc, colOf, hnone]

theorem storage_getD (w : World) (t : Nat) (ht : t < w.tables.length) :
    (ofStorageL w).tables.getD t default = ofTableL (w.tbl t) := by
  simp [ofStorageL, World.tbl, List.getD_eq_getElem?_getD, ht]

theorem ofRel_getElem (rels : List RelID) (i : Nat) (h : i < rels.length) :
    (rels.map ofRel).getD i default = ofRel rels[i] := by
  simp [List.getD_eq_getElem?_getD, h]

/-! ### `MatchesExact` -/

/-- the outcome of one iteration of the loop of `MatchesExact` for the relation `r` (`none`: go on) -/
def exactStep (T : Table) (r : RelID) : Option (GoRes Bool) :=
  match T.colIdx r.comp with
  | none => none
  | some i =>
    if !(T.isRel.getD i false) then
      some (.panic { msg := "component %d is not a relation component", args := [r.comp] })
    else if r.target != T.targets.getD i Ent.zero then some (.ok false) else none

theorem exactStep_go (T : Table) (rels : List RelID) :
    (match rels.findSome? (exactStep T) with
      | some r => r.classify
      | none => .ok true) = exactK (Table.matchesExact.go T rels) := by
  induction rels with
  | nil => rfl
  | cons r rest ih =>
    rw [List.findSome?_cons]
    unfold Table.matchesExact.go
    cases hc : T.colIdx r.comp with
    | none =>
      have hs : exactStep T r = none := by simp [exactStep, hc]
      rw [hs]; exact ih
    | some i =>
      cases hr : T.isRel[i]?.getD false with
      | false =>
        have hs : exactStep T r =
            some (.panic { msg := "component %d is not a relation component", args := [r.comp] }) := by
          simp [exactStep, hc, hr, List.getD_eq_getElem?_getD]
        rw [hs]
        simp [hr, GoRes.classify, panicKind, exactK, List.getD_eq_getElem?_getD]
      | true =>
        by_cases ht : r.target = T.targets[i]?.getD Ent.zero
        · have hs : exactStep T r = none := by simp [exactStep, hc, hr, ht, List.getD_eq_getElem?_getD]
          rw [hs]
          simpa [hr, ht, List.getD_eq_getElem?_getD] using ih
        · have hs : exactStep T r = some (.ok false) := by simp [exactStep, hc, hr, ht, List.getD_eq_getElem?_getD]
          rw [hs]
          simp [hr, ht, GoRes.classify, exactK, List.getD_eq_getElem?_getD]

/-- **`MatchesExact(relations)` as in the source = the model's `Table.matchesExact`**, with the
    panic it raises ("relation targets must be fully specified" / "component %d is not a relation
    component"; the nil dereference the translation makes explicit never happens). -/
theorem matchesExact_eq (T : Table) (rels : List RelID) (hids : IdsLt256 T) :
    (table_MatchesExact (ofTableL T) (rels.map ofRel)).classify = exactK (T.matchesExact rels) := by
  unfold table_MatchesExact Table.matchesExact
  have hl : (ofTableL T).relationIDs.length = T.relIDs.length := by simp [ofTableL]
  simp only [List.length_map, hl]
  by_cases hfew : rels.length < T.relIDs.length
  · simp [hfew, GoRes.classify, panicKind, exactK]
  · simp only [hfew, decide_false, Bool.false_eq_true, if_false]
    rw [foldl_early (List.range rels.length) _ (fun i => exactStep T (rels.getD i default))]
    · rw [findSome?_range_getElem rels (exactStep T) _ (fun i h => by
        simp [List.getD_eq_getElem?_getD, h])]
      simp only [Option.none_or]
      rw [← exactStep_go]
      cases rels.findSome? (exactStep T) <;> rfl
    · intro ret i hi
      have hi' : i < rels.length := List.mem_range.mp hi
      cases ret with
      | some r => simp
      | none =>
        have hget : rels.getD i default = rels[i] := by simp [List.getD_eq_getElem?_getD, hi']
        simp only [Option.isSome_none, Bool.false_eq_true, if_false, ofRel_getElem rels i hi',
          components_getD T hids, hget, ofRel, exactStep, colOf]
        cases T.colIdx rels[i].comp with
        | none => simp
        | some j =>
          cases T.isRel.getD j false <;> simp

/-! ### `Matches` -/

/-- Go's panic for a nil dereference -/
def nilDeref : GoPanic :=
  { msg := "runtime error: invalid memory address or nil pointer dereference", args := [] }

/-- the outcome of one iteration of the loop of `Matches` for the relation `r` (`none`: go on) -/
def matchStep (T : Table) (r : RelID) : Option (GoRes Bool) :=
  match T.colIdx r.comp with
  | none => some (.panic nilDeref)
  | some i => if r.target != T.targets.getD i Ent.zero then some (.ok false) else none

theorem matchStep_go (T : Table) (rels : List RelID) :
    (match rels.findSome? (matchStep T) with
      | some r => r.classify
      | none => .ok true) = matchesK (Table.matchesRels.go T rels) := by
  induction rels with
  | nil => rfl
  | cons r rest ih =>
    rw [List.findSome?_cons]
    unfold Table.matchesRels.go
    cases hc : T.colIdx r.comp with
    | none =>
      have hs : matchStep T r = some (.panic nilDeref) := by simp [matchStep, hc]
      rw [hs]
      simp [GoRes.classify, panicKind, nilDeref, matchesK]
    | some i =>
      by_cases ht : r.target = T.targets[i]?.getD Ent.zero
      · have hs : matchStep T r = none := by simp [matchStep, hc, ht, List.getD_eq_getElem?_getD]
        rw [hs]
        simpa [ht, List.getD_eq_getElem?_getD] using ih
      · have hs : matchStep T r = some (.ok false) := by
          simp [matchStep, hc, ht, List.getD_eq_getElem?_getD]
        rw [hs]
        simp [ht, GoRes.classify, matchesK, List.getD_eq_getElem?_getD]

/-- **`Matches(relations)` as in the source = the model's `Table.matchesRels`**; a relation naming a
    component the table has no column for is Go's nil dereference (`.runtime`), in the source as in
    the model. -/
theorem matches_eq (T : Table) (rels : List RelID) (hids : IdsLt256 T) :
    (table_Matches (ofTableL T) (rels.map ofRel)).classify = matchesK (T.matchesRels rels) := by
  -- The guard of the source (`len(relations) == 0 || !t.HasRelations()`, in whichever order the two
  -- operands are written) is never spelled here: the model's guard is decided first, the source's `if`
  -- is then discharged by `if_pos`/`if_neg` (its condition found by unification) and `simp` on the atoms.
  have hl : (ofTableL T).relationIDs.length = T.relIDs.length := by simp [ofTableL]
  by_cases hc : (rels.isEmpty || !T.hasRelations) = true
  · have hM : T.matchesRels rels = some true := by simp only [Table.matchesRels, hc, if_true]
    have hat : rels = [] ∨ T.relIDs = [] := by
      cases rels <;> cases h : T.relIDs <;> simp_all [Table.hasRelations]
    rw [hM]
    unfold table_Matches
    rw [if_pos (by rcases hat with h | h <;> simp [h, hl])]
    rfl
  · have hM : T.matchesRels rels = Table.matchesRels.go T rels := by
      simp only [Table.matchesRels, hc, Bool.false_eq_true, if_false]
    have hat : rels ≠ [] ∧ T.relIDs ≠ [] := by
      cases rels <;> cases h : T.relIDs <;> simp_all [Table.hasRelations]
    rw [hM]
    unfold table_Matches
    rw [if_neg (by
      have h1 : rels.length ≠ 0 := fun h => hat.1 (List.eq_nil_of_length_eq_zero h)
      have h2 : T.relIDs.length ≠ 0 := fun h => hat.2 (List.eq_nil_of_length_eq_zero h)
      simp [hl, h1, h2, Nat.pos_of_ne_zero h2])]
    simp only [List.length_map]
    rw [foldl_early (List.range rels.length) _ (fun i => matchStep T (rels.getD i default))]
    · rw [findSome?_range_getElem rels (matchStep T) _ (fun i h => by
        simp [List.getD_eq_getElem?_getD, h])]
      simp only [Option.none_or]
      rw [← matchStep_go]
      cases rels.findSome? (matchStep T) <;> rfl
    · intro ret i hi
      have hi' : i < rels.length := List.mem_range.mp hi
      cases ret with
      | some r => simp
      | none =>
        have hget : rels.getD i default = rels[i] := by simp [List.getD_eq_getElem?_getD, hi']
        simp only [Option.isSome_none, Bool.false_eq_true, if_false, ofRel_getElem rels i hi',
          components_getD T hids, hget, ofRel, matchStep, colOf, nilDeref]
        cases T.colIdx rels[i].comp <;> simp

/-! ### the duplicate scan of `getTableSlowPath` -/

/-- the panic of the duplicate scan -/
def dupPanic (ρ : Type) (c : Nat) : GoRes ρ :=
  .panic { msg := "relation component %d specified more than once", args := [c] }

/-- the outcome of the two nested loops over the positions of the component list `cs` -/
def dupScan (ρ : Type) (cs : List Nat) : Option (GoRes ρ) :=
  (List.range' 1 (cs.length - 1)).findSome? fun i =>
    (List.range' 0 i).findSome? fun j =>
      if cs.getD i 0 == cs.getD j 0 then some (dupPanic ρ (cs.getD i 0)) else none

theorem dupScan_eq_none_iff (ρ : Type) (cs : List Nat) : dupScan ρ cs = none ↔ cs.Nodup := by
  unfold dupScan
  simp only [List.findSome?_eq_none_iff, List.mem_range'_1, Nat.zero_add, Nat.zero_le, true_and,
    ite_eq_right_iff, reduceCtorEq, imp_false, beq_iff_eq, List.Nodup, List.pairwise_iff_getElem]
  constructor
  · intro h i j hi hj hij heq
    refine h j ⟨by omega, by omega⟩ i hij ?_
    simp [List.getD_eq_getElem?_getD, hi, hj, heq]
  · intro h i hi j hj heq
    have hi' : i < cs.length := by omega
    have hj' : j < cs.length := by omega
    simp only [List.getD_eq_getElem?_getD, List.getElem?_eq_getElem hi', List.getElem?_eq_getElem hj',
      Option.getD_some] at heq
    exact h j i hj' hi' hj heq.symm

theorem dupScan_some (ρ : Type) (cs : List Nat) (r : GoRes ρ) (h : dupScan ρ cs = some r) :
    ∃ (c : Nat), r = dupPanic ρ c := by
  unfold dupScan at h
  obtain ⟨i, _, hi⟩ := List.exists_of_findSome?_eq_some h
  obtain ⟨j, _, hj⟩ := List.exists_of_findSome?_eq_some hi
  split at hj
  · exact ⟨_, (Option.some.inj hj).symm⟩
  · cases hj

/-- the duplicate found by the scan (the scan without the type of the result it is embedded in) -/
def dupFind (cs : List Nat) : Option Nat :=
  (List.range' 1 (cs.length - 1)).findSome? fun i =>
    (List.range' 0 i).findSome? fun j =>
      if cs.getD i 0 == cs.getD j 0 then some (cs.getD i 0) else none

theorem findSome?_map_opt {α β γ : Type} (l : List α) (f : α → Option β) (g : β → γ) :
    l.findSome? (fun x => (f x).map g) = (l.findSome? f).map g := by
  induction l with
  | nil => rfl
  | cons x xs ih =>
    rw [List.findSome?_cons, List.findSome?_cons]
    cases f x with
    | some b => rfl
    | none => exact ih

/-- the scan is the same in whatever result type it is embedded (in the caller: the result of
    `getTableSlowPath`; in a helper function: the helper's own result) -/
theorem dupScan_eq_map (ρ : Type) (cs : List Nat) : dupScan ρ cs = (dupFind cs).map (dupPanic ρ) := by
  unfold dupScan dupFind
  rw [← findSome?_map_opt]
  congr 1
  funext i
  rw [← findSome?_map_opt]
  congr 1
  funext j
  split <;> rfl

theorem dupScan_dup (cs : List Nat) (h : ¬ cs.Nodup) :
    ∃ (c : Nat), ∀ (ρ : Type), dupScan ρ cs = some (dupPanic ρ c) := by
  cases hf : dupFind cs with
  | none =>
    exfalso; apply h
    rw [← dupScan_eq_none_iff Unit, dupScan_eq_map, hf]; rfl
  | some c => exact ⟨c, fun ρ => by rw [dupScan_eq_map, hf]; rfl⟩

theorem comp_getD (rels : List RelID) (i : Nat) :
    ((rels.map ofRel).getD i default).component.id = (rels.map (·.comp)).getD i 0 := by
  by_cases h : i < rels.length
  · simp [List.getD_eq_getElem?_getD, h, ofRel]
  · simp [List.getD_eq_getElem?_getD, h]
    rfl

/-! ### `GetTable` -/

/-- the model's result of `getTable` as the result the source returns: the table found, by value -/
def expectK (w : World) : Res World (Option Nat) → KRes (Option G_table_L × Bool)
  | .ok (some t) _ => .ok (some (ofTableL (w.tbl t)), true)
  | .ok none _ => .ok (none, false)
  | .panic k _ => .panic k

/-- the tables an archetype lists (its only table when it has no relation column; the tables of its
    relation index) exist, and their component IDs are below 256 -/
structure LookupOK (w : World) (A : Archetype) : Prop where
  first : A.hasRelations = false → ∀ (t : Nat), A.tables.tables.head? = some t → t < w.tables.length
  index : ∀ (i g : Nat) (ts : TableIDs), AL.find? (A.relationTables.getD i []) g = some ts →
    ∀ (t : Nat), t ∈ ts.tables → t < w.tables.length ∧ IdsLt256 (w.tbl t)

/-- the outcome of one iteration of the last loop of `getTableSlowPath` for the table `t` -/
def lookStep (w : World) (rels : List RelID) (t : Nat) : Option (GoRes (Option G_table_L × Bool)) :=
  match table_MatchesExact (ofTableL (w.tbl t)) (rels.map ofRel) with
  | .panic e => some (.panic e)
  | .ok c => if c then some (.ok (some (ofTableL (w.tbl t)), true)) else none

theorem classify_ok {α : Type} {x : GoRes α} {a : α} (h : x.classify = .ok a) : x = .ok a := by
  cases x with
  | ok b => simp only [GoRes.classify, KRes.ok.injEq] at h; rw [h]
  | panic p => simp [GoRes.classify] at h

theorem classify_panic {α : Type} {x : GoRes α} {k : PanicKind} (h : x.classify = .panic k) :
    ∃ (p : GoPanic), x = .panic p ∧ panicKind p = k := by
  cases x with
  | ok b => simp [GoRes.classify] at h
  | panic p => exact ⟨p, rfl, by simpa [GoRes.classify] using h⟩

theorem lookStep_go (w : World) (rels : List RelID) (ts : List Nat)
    (hts : ∀ (t : Nat), t ∈ ts → IdsLt256 (w.tbl t)) :
    (match ts.findSome? (lookStep w rels) with
      | some r => r.classify
      | none => .ok (none, false)) = expectK w (World.getTable.go rels w ts) := by
  induction ts with
  | nil => rfl
  | cons t rest ih =>
    rw [List.findSome?_cons]
    unfold World.getTable.go
    have hm := matchesExact_eq (w.tbl t) rels (hts t (List.mem_cons_self ..))
    have ih' := ih (fun t' h => hts t' (List.mem_cons_of_mem _ h))
    cases hx : (w.tbl t).matchesExact rels with
    | yes =>
      rw [hx] at hm
      have hs : lookStep w rels t = some (.ok (some (ofTableL (w.tbl t)), true)) := by
        simp [lookStep, classify_ok hm]
      rw [hs]; rfl
    | no =>
      rw [hx] at hm
      have hs : lookStep w rels t = none := by simp [lookStep, classify_ok hm]
      rw [hs]; exact ih'
    | tooFew =>
      rw [hx] at hm
      obtain ⟨p, hp, hk⟩ := classify_panic hm
      have hs : lookStep w rels t = some (.panic p) := by simp [lookStep, hp]
      rw [hs]
      simp [GoRes.classify, hk, expectK]
    | notRelation =>
      rw [hx] at hm
      obtain ⟨p, hp, hk⟩ := classify_panic hm
      have hs : lookStep w rels t = some (.panic p) := by simp [lookStep, hp]
      rw [hs]
      simp [GoRes.classify, hk, expectK]

/-- **`getTableSlowPath` as in the source = the slow path of the model's `getTable`** (an archetype
    with relation columns and at least one active table): the count check, the duplicate scan, the
    lookup of the first relation in the relation index and the exact match of the tables listed
    there, with the panic each of them raises. -/
theorem getTableSlowPath_eq (w : World) (a : Nat) (rels : List RelID)
    (hne : (w.arch a).tables.tables.isEmpty = false) (hrel : (w.arch a).hasRelations = true)
    (hok : LookupOK w (w.arch a)) (hlen : rels.length < 256)
    (h256 : ∀ (r : RelID), rels.head? = some r → r.comp < 256)
    (hrt : World.getTable a rels w ≠ .panic .runtime w) :
    (archetype_getTableSlowPath (ofArchM (w.arch a)) (ofStorageL w) (rels.map ofRel)).classify =
      expectK w (World.getTable a rels w) := by
  have hrt' := hrt
  revert hrt'
  unfold archetype_getTableSlowPath World.getTable
  intro hrt'
  simp only [hne, hrel, Bool.false_eq_true, if_false, Bool.not_true]
  generalize hA : w.arch a = A at *
  have hnum : (ofArchM A).numRelations = A.numRel := rfl
  have hrt : (ofArchM A).relationTables = A.relationTables := rfl
  -- `for j := 0; j < i; j++` and `for j := range i` are the same list of positions
  simp only [List.length_map, List.length_take, hnum, hrt, Nat.mod_eq_of_lt hlen, Nat.sub_zero,
    ← List.range_eq_range']
  by_cases hfew : rels.length < A.numRel
  · simp [hfew, GoRes.classify, panicKind, expectK]
  · simp only [hfew, decide_false, Bool.false_eq_true, if_false]
    -- the duplicate scan (in place, or in a helper function called here; the earlier entries
    -- visited by position `j < i` or by ranging over `relations[:i]`)
    rw [foldl_early (List.range' 1 (rels.length - 1)) _
      (fun i => (List.range i).findSome? fun j =>
        if (rels.map (·.comp)).getD i 0 == (rels.map (·.comp)).getD j 0
        then some (dupPanic _ ((rels.map (·.comp)).getD i 0)) else none)
      (by
        intro ret i hi
        have hmin : min i rels.length = i := by
          have := (List.mem_range'_1.mp hi).2
          omega
        cases ret with
        | some r => simp
        | none =>
          simp only [Option.isSome_none, Bool.false_eq_true, if_false]
          try simp only [hmin]
          rw [foldl_early (List.range i) _ (fun j =>
            if (rels.map (·.comp)).getD i 0 == (rels.map (·.comp)).getD j 0
            then some (dupPanic _ ((rels.map (·.comp)).getD i 0)) else none)
            (by
              intro ret j hj
              have hj' : j < i := List.mem_range.mp hj
              have htake : ∀ (l : List G_relationID), (l.take i).getD j default = l.getD j default := by
                intro l
                simp [List.getD_eq_getElem?_getD, List.getElem?_take, hj']
              cases ret with
              | some r => simp
              | none =>
                -- what remains (if anything) is the order of the two sides of `==`
                simp only [htake, comp_getD, dupPanic, Option.isSome_none, Bool.false_eq_true, if_false] <;> (
                  generalize (rels.map (·.comp)).getD i 0 = x
                  generalize (rels.map (·.comp)).getD j 0 = y
                  by_cases h : x = y
                  · subst h; simp
                  · have h' : ¬ y = x := fun e => h e.symm
                    simp [h, h']))]
          rw [ite_self, Option.none_or])]
    have hscan : ∀ (ρ : Type), (List.range' 1 (rels.length - 1)).findSome? (fun i =>
        (List.range i).findSome? fun j =>
          if (rels.map (·.comp)).getD i 0 == (rels.map (·.comp)).getD j 0
          then some (dupPanic ρ ((rels.map (·.comp)).getD i 0)) else none) =
        dupScan ρ (rels.map (·.comp)) := by
      intro ρ
      simp [dupScan, List.range_eq_range']
    rw [hscan, Option.none_or]
    by_cases hnd : (rels.map (·.comp)).Nodup
    case neg =>
      obtain ⟨c, hc⟩ := dupScan_dup _ hnd
      have htw : World.namedTwice [] rels = true := (World.namedTwice_nil_eq_true_iff rels).mpr hnd
      rw [hc]
      simp [htw, dupPanic, GoRes.classify, panicKind, expectK]
    case pos =>
      have hd : ∀ (ρ : Type), dupScan ρ (rels.map (·.comp)) = none :=
        fun ρ => (dupScan_eq_none_iff ρ _).mpr hnd
      have htw : World.namedTwice [] rels = false := (World.namedTwice_nil_eq_false_iff rels).mpr hnd
      rw [hd]
      simp only [htw, Bool.false_eq_true, if_false]
      cases rels with
      | nil =>
        exfalso
        have : 0 < A.numRel := by simpa [Archetype.hasRelations] using hrel
        simp at hfew; omega
      | cons r0 rest =>
        have hlt := h256 r0 rfl
        have hsome : (A.colIdx r0.comp).isSome = true := by
          cases hc : A.colIdx r0.comp with
          | some i => rfl
          | none =>
            exfalso; apply hrt'
            simp [hne, hrel, htw, hc]
            simp at hfew; omega
        obtain ⟨i, hi⟩ := Option.isSome_iff_exists.mp hsome
        have hidx : (ofArchM A).componentsMap.getD r0.comp 0 = i := by
          simp [ofArchM, List.getD_eq_getElem?_getD, hlt, hi]
        simp only [List.map_cons, List.getD_cons_zero, ofRel, hidx, hi]
        cases hf : AL.find? (A.relationTables.getD i []) r0.target.id with
        | none => simp [GoRes.classify, expectK]
        | some ts =>
          simp only [Option.isSome_some, Bool.not_true, Bool.false_eq_true, if_false, Option.getD_some]
          have hts := hok.index i r0.target.id ts hf
          rw [foldl_early (List.range ts.tables.length) _
            (fun k => lookStep w (r0 :: rest) (ts.tables.getD k 0))
            (by
              intro ret k hk
              have hk' : k < ts.tables.length := List.mem_range.mp hk
              cases ret with
              | some r => simp
              | none =>
                have hmem : ts.tables.getD k 0 ∈ ts.tables := by
                  simp [List.getD_eq_getElem?_getD, hk']
                have hst := storage_getD w _ (hts _ hmem).1
                simp only [Option.isSome_none, Bool.false_eq_true, if_false, hst, lookStep,
                  List.map_cons, ofRel]
                cases table_MatchesExact (ofTableL (w.tbl (ts.tables.getD k 0)))
                  (({ target := r0.target, component := { id := r0.comp } } : G_relationID) ::
                    rest.map ofRel) with
                | panic e => simp
                | ok c => cases c <;> simp)]
          rw [findSome?_range_getElem ts.tables (lookStep w (r0 :: rest)) _ (fun k h => by
            simp [List.getD_eq_getElem?_getD, h])]
          simp only [Option.none_or]
          rw [← lookStep_go w (r0 :: rest) ts.tables (fun t ht => (hts t ht).2)]
          cases ts.tables.findSome? (lookStep w (r0 :: rest)) <;> rfl

/-- **`GetTable(storage, relations)` as in the source = the model's `World.getTable`**: the result
    (no table / the table found, by value), or the panic raised ("relation targets must be fully
    specified", "relation component %d specified more than once", "component %d is not a relation
    component"), for every relation list of fewer than 256 entries on which the model does not
    report the Go runtime panic (the first relation names a component that is not a column of the
    archetype: index −1, which the translation cannot express). -/
theorem getTable_eq (w : World) (a : Nat) (rels : List RelID)
    (hok : LookupOK w (w.arch a)) (hlen : rels.length < 256)
    (h256 : ∀ (r : RelID), rels.head? = some r → r.comp < 256)
    (hrt : World.getTable a rels w ≠ .panic .runtime w) :
    (archetype_GetTable (ofArchM (w.arch a)) (ofStorageL w) (rels.map ofRel)).classify =
      expectK w (World.getTable a rels w) := by
  -- shape-robust: the two early returns are decided by `simp` from the facts about the archetype,
  -- whichever way the source spells the tests
  have htt : (ofArchM (w.arch a)).tables.tables = (w.arch a).tables.tables := rfl
  have hnn : (ofArchM (w.arch a)).numRelations = (w.arch a).numRel := rfl
  cases hts : (w.arch a).tables.tables with
  | nil =>
    simp [archetype_GetTable, World.getTable, htt, hts, GoRes.classify, expectK]
  | cons t0 trest =>
    have hne : (w.arch a).tables.tables.isEmpty = false := by rw [hts]; rfl
    cases hrel : (w.arch a).hasRelations with
    | false =>
      have hnum : (w.arch a).numRel = 0 := by simpa [Archetype.hasRelations] using hrel
      have hfirst : t0 < w.tables.length := hok.first hrel t0 (by rw [hts]; rfl)
      have hst := storage_getD w _ hfirst
      have hst' : (ofStorageL w).tables[t0]?.getD default = ofTableL (w.tbl t0) := by
        simpa [List.getD_eq_getElem?_getD] using hst
      simp [archetype_GetTable, archetype_HasRelations, World.getTable, htt, hnn, hts, hnum,
        Archetype.hasRelations, hst, hst', GoRes.classify, expectK]
    | true =>
      have hnum : 0 < (w.arch a).numRel := by simpa [Archetype.hasRelations] using hrel
      have := getTableSlowPath_eq w a rels hne hrel hok hlen h256 hrt
      simpa [archetype_GetTable, archetype_HasRelations, htt, hnn, hts, hnum, Nat.ne_of_gt hnum] using this

/-! ### the hypotheses are provided by the invariants -/

theorem mask_toList_lt (m : Mask) (n c : Nat) (h : c ∈ m.toList n) : c < 256 := by
  have hg : m.get c = true := by
    simp only [Mask.toList, List.mem_filter] at h; exact h.2
  by_cases hc : c < 256
  · exact hc
  · simp [Mask.get, BitVec.getLsbD_of_ge m c (by omega)] at hg

/-- under `SInv` the component IDs of every table are below 256 (they are bits of a 256-bit mask) -/
theorem idsLt256_of_sinv {w : World} (h : SInvMid w) {t : Nat} {T : Table}
    (hT : w.tables[t]? = some T) : IdsLt256 T := by
  obtain ⟨A, hA, hids, _⟩ := h.tblArch t T hT
  intro c hc
  rw [hids, (h.comps _ A hA).1] at hc
  exact mask_toList_lt _ _ _ hc

/-- `SInv` (tables an archetype lists exist, table layout) and `RInv` (the relation index lists
    active tables only) provide `LookupOK` for every archetype (also for an index out of range) -/
theorem lookupOK_of_inv {w : World} (hS : SInvMid w) (hR : RInv w) (a : Nat) : LookupOK w (w.arch a) := by
  cases hA : w.archetypes[a]? with
  | none =>
    have hd : w.arch a = default := by simp [World.arch, List.getD_eq_getElem?_getD, hA]
    rw [hd]
    refine ⟨fun _ t ht => ?_, fun i g ts hf => ?_⟩
    · cases ht
    · have : (default : Archetype).relationTables.getD i [] = [] := by
        show ([] : List (AL TableIDs)).getD i [] = []
        simp
      rw [this] at hf; cases hf
  | some A =>
    rw [World.arch_of_get hA]
    have hex : ∀ (t : Nat), t ∈ A.tables.tables → t < w.tables.length ∧ IdsLt256 (w.tbl t) := by
      intro t ht
      obtain ⟨T, hT, _⟩ := hS.owned a A t hA (Or.inl ht)
      have hlt : t < w.tables.length := by
        rcases Nat.lt_or_ge t w.tables.length with h | h
        · exact h
        · rw [List.getElem?_eq_none h] at hT; cases hT
      have htbl : w.tbl t = T := by simp [World.tbl, List.getD_eq_getElem?_getD, hT]
      exact ⟨hlt, htbl ▸ idsLt256_of_sinv hS hT⟩
    refine ⟨fun _ t ht => (hex t ?_).1, fun i g ts hf t ht => hex t ?_⟩
    · cases h : A.tables.tables with
      | nil => rw [h] at ht; cases ht
      | cons t0 rest => rw [h] at ht; cases ht; simp
    · exact (hR a A hA).relIndexSound i g ts hf t ht

/-- `getTable_eq` on every world satisfying the invariants -/
theorem getTable_eq_of_inv (w : World) (a : Nat) (rels : List RelID) (hS : SInvMid w) (hR : RInv w)
    (hlen : rels.length < 256) (h256 : ∀ (r : RelID), rels.head? = some r → r.comp < 256)
    (hrt : World.getTable a rels w ≠ .panic .runtime w) :
    (archetype_GetTable (ofArchM (w.arch a)) (ofStorageL w) (rels.map ofRel)).classify =
      expectK w (World.getTable a rels w) :=
  getTable_eq w a rels (lookupOK_of_inv hS hR a) hlen h256 hrt

/-- the table returned is the table of the model's ID: under `SInv` the `id` field of the value
    returned is that ID -/
theorem ofTableL_id_of_sinv {w : World} (h : SInvMid w) {t : Nat} (ht : t < w.tables.length) :
    (ofTableL (w.tbl t)).id = t := by
  have hT : w.tables[t]? = some (w.tbl t) := by
    simp [World.tbl, List.getD_eq_getElem?_getD, List.getElem?_eq_getElem ht]
  obtain ⟨_, _, _, _, _, hid⟩ := h.tblArch t _ hT
  exact hid

theorem ne_runtime_of_resK {w : World} {r : Res World (Option Nat)} (h : resK r ≠ .panic .runtime) :
    r ≠ .panic .runtime w := by
  intro he; rw [he] at h; exact h rfl

/-! ### a decidable form of `LookupOK` (for concrete worlds) -/

/-- every table the archetype lists (in `tables` and in its relation index) exists and has component
    IDs below 256 -/
def lookupOKB (w : World) (A : Archetype) : Bool :=
  A.tables.tables.all (fun t => decide (t < w.tables.length)) &&
  A.relationTables.all fun m => m.all fun p => p.2.tables.all fun t =>
    decide (t < w.tables.length) && (w.tbl t).ids.all fun c => decide (c < 256)

theorem lookupOKB_sound {w : World} {A : Archetype} (h : lookupOKB w A = true) : LookupOK w A := by
  simp only [lookupOKB, Bool.and_eq_true, List.all_eq_true, decide_eq_true_eq] at h
  obtain ⟨h1, h2⟩ := h
  refine ⟨fun _ t ht => h1 t (List.mem_of_mem_head? ht), fun i g ts hf t ht => ?_⟩
  have hm : A.relationTables.getD i [] ∈ A.relationTables := by
    rw [List.getD_eq_getElem?_getD]
    cases hi : A.relationTables[i]? with
    | none => rw [List.getD_eq_getElem?_getD, hi] at hf; cases hf
    | some m => exact List.mem_of_getElem? hi
  obtain ⟨hlt, hids⟩ := h2 _ hm _ (AL.mem_of_find? _ g ts hf) t ht
  exact ⟨hlt, fun c hc => hids c hc⟩

/-! ### non-vacuity: a world with a relation archetype and two of its tables -/

namespace Example

def run : World.ProbeRunner := fun _ _ _ => pure ()
def x : Ent := ⟨2, 0⟩
def y : Ent := ⟨3, 0⟩

/-- component 0 is a relation component, component 1 is not; entities `x = 2.0`, `y = 3.0`; archetype 1
    = `{0, 1}` has table 1 (`0 → x`, entity `4.0`) and table 2 (`0 → y`, entity `5.0`) -/
def lw : World :=
  let w := World.init 2 2
  let w := (World.registerComponent { isRel := true } w).state
  let w := (World.registerComponent {} w).state
  let w := (World.opNewEntity run .unsafe_ [] [] [] w).state
  let w := (World.opNewEntity run .unsafe_ [] [] [] w).state
  let w := (World.opNewEntity run .typed [0, 1] [] [⟨0, x⟩] w).state
  (World.opNewEntity run .typed [0, 1] [] [⟨0, y⟩] w).state

example : ((lw.arch 1).hasRelations, (lw.arch 1).tables.tables, (lw.tbl 1).relIDs, (lw.tbl 2).relIDs) =
    (true, [1, 2], [⟨0, x⟩], [⟨0, y⟩]) := by decide +kernel

/-- the hypotheses of `getTable_eq` hold on this world, for both archetypes -/
theorem lw_ok : LookupOK lw (lw.arch 1) ∧ LookupOK lw (lw.arch 0) ∧ IdsLt256 (lw.tbl 1) :=
  ⟨lookupOKB_sound (by decide +kernel), lookupOKB_sound (by decide +kernel), by
    unfold IdsLt256; decide +kernel⟩

/-- the generated functions, run: the table found (by value, `id = 2`), no table for an unknown target,
    and each of the three panics with its message and argument -/
example :
    archetype_GetTable (ofArchM (lw.arch 1)) (ofStorageL lw) [ofRel ⟨0, y⟩] =
      .ok (some (ofTableL (lw.tbl 2)), true) ∧
    (ofTableL (lw.tbl 2)).id = 2 ∧
    archetype_GetTable (ofArchM (lw.arch 1)) (ofStorageL lw) [ofRel ⟨0, ⟨4, 0⟩⟩] = .ok (none, false) ∧
    archetype_GetTable (ofArchM (lw.arch 1)) (ofStorageL lw) [] =
      .panic { msg := "relation targets must be fully specified", args := [] } ∧
    archetype_GetTable (ofArchM (lw.arch 1)) (ofStorageL lw) [ofRel ⟨1, x⟩, ofRel ⟨0, x⟩, ofRel ⟨1, y⟩] =
      .panic { msg := "relation component %d specified more than once", args := [1] } ∧
    archetype_GetTable (ofArchM (lw.arch 1)) (ofStorageL lw) [ofRel ⟨0, x⟩, ofRel ⟨1, x⟩] =
      .panic { msg := "component %d is not a relation component", args := [1] } ∧
    archetype_GetTable (ofArchM (lw.arch 0)) (ofStorageL lw) [ofRel ⟨0, x⟩] =
      .ok (some (ofTableL (lw.tbl 0)), true) := by
  decide +kernel

/-- … and the model on the same arguments (what `getTable_eq` equates them with) -/
example :
    resK (World.getTable 1 [⟨0, y⟩] lw) = .ok (some 2) ∧
    resK (World.getTable 1 [⟨0, ⟨4, 0⟩⟩] lw) = .ok none ∧
    resK (World.getTable 1 [] lw) = .panic .relUnspecified ∧
    resK (World.getTable 1 [⟨1, x⟩, ⟨0, x⟩, ⟨1, y⟩] lw) = .panic .relTwice ∧
    resK (World.getTable 1 [⟨0, x⟩, ⟨1, x⟩] lw) = .panic .notRelation ∧
    resK (World.getTable 0 [⟨0, x⟩] lw) = .ok (some 0) := by
  decide +kernel

/-- `getTable_eq` instantiated -/
example :
    (archetype_GetTable (ofArchM (lw.arch 1)) (ofStorageL lw) ([⟨0, y⟩].map ofRel)).classify =
      expectK lw (World.getTable 1 [⟨0, y⟩] lw) :=
  getTable_eq lw 1 [⟨0, y⟩] lw_ok.1 (by decide) (by intro r h; cases h; decide)
    (ne_runtime_of_resK (by decide +kernel))

/-- `MatchesExact` / `Matches` run on table 2 (`0 → y`): match, mismatch, too few, a non-relation
    component; `Matches` with a component that is no column is Go's nil dereference -/
example :
    table_MatchesExact (ofTableL (lw.tbl 2)) [ofRel ⟨0, y⟩] = .ok true ∧
    table_MatchesExact (ofTableL (lw.tbl 2)) [ofRel ⟨0, x⟩] = .ok false ∧
    table_MatchesExact (ofTableL (lw.tbl 2)) [ofRel ⟨0, ⟨3, 1⟩⟩] = .ok false ∧
    table_MatchesExact (ofTableL (lw.tbl 2)) [] =
      .panic { msg := "relation targets must be fully specified", args := [] } ∧
    table_MatchesExact (ofTableL (lw.tbl 2)) [ofRel ⟨1, y⟩] =
      .panic { msg := "component %d is not a relation component", args := [1] } ∧
    table_MatchesExact (ofTableL (lw.tbl 2)) [ofRel ⟨7, y⟩, ofRel ⟨0, y⟩] = .ok true ∧
    table_Matches (ofTableL (lw.tbl 2)) [ofRel ⟨0, y⟩] = .ok true ∧
    table_Matches (ofTableL (lw.tbl 2)) [] = .ok true ∧
    table_Matches (ofTableL (lw.tbl 2)) [ofRel ⟨0, x⟩] = .ok false ∧
    table_Matches (ofTableL (lw.tbl 2)) [ofRel ⟨7, y⟩] = .panic nilDeref ∧
    (lw.tbl 2).matchesRels [⟨7, y⟩] = none := by
  decide +kernel

/-- **the finding**: 256 relations for an archetype with one relation component.  The source
    compares `uint8(len(relations)) = 0` with `numRelations = 1` and panics "relation targets must be
    fully specified"; the model (the count is sufficient) goes on to the duplicate scan.  Both
    panic; the message differs.  Hence `rels.length < 256` in `getTable_eq`. -/
theorem getTable_len256_differs :
    (archetype_GetTable (ofArchM (lw.arch 1)) (ofStorageL lw)
        ((List.replicate 256 (⟨0, x⟩ : RelID)).map ofRel)).classify = .panic .relUnspecified ∧
    resK (World.getTable 1 (List.replicate 256 ⟨0, x⟩) lw) = .panic .relTwice := by
  constructor <;> decide +kernel

end Example

end Ark.GenBridge.Book
