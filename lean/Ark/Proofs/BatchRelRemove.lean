/-
  Ark.Proofs.BatchRelRemove — C06 + C04 with relations, part 4: `World.RemoveEntities(batch, nil)`
  on a world WITH relations, when some of the removed entities are relation targets.

  * `opRemoveEntities_eq_rel` — without observers and callback, the batch is the un-indexing loop
    `removeTablesW w ts` (of `Ark.Proofs.BatchRemove`) over the selected tables followed by
    `cleanupAll (cleanupList w ts)`: `cleanupArchetypes e` and the reset of the target flag for
    every selected entity that carried the flag, in table/row order;
  * `unindexed_base` — the world after the un-indexing loop satisfies the cleanup invariants
    `CleanBaseD D` for the pending dead targets `D = cleanupList w ts`;
  * `cleanupAll_spec` — the fold of the multi-target cleanup over the pending targets;
  * `opRemoveEntities_rel_spec` — **the batch never fails**, `TInv` holds for the free list
    extended by the removed IDs, every selected entity is dead and un-indexed, every other entity
    keeps components and values, its targets are unchanged except that a removed target reads
    as the zero entity.
  Kernel-only proofs, core Lean only.
-/
import Ark.Proofs.BatchRelLoops
import Ark.Proofs.BatchRemove

set_option autoImplicit false

namespace Ark

open World Ark.Props.C01World QueryRel

/-! ## 1. the batch removal as un-indexing followed by the cleanups -/

namespace World

/-- a `for` loop with a mutable variable whose body, on states satisfying `P`, always continues,
    performs a pure state update that keeps `P` and updates the variable by a pure function -/
def foldSt {σ α : Type} (f : World → α → World) (h : σ → World → α → σ) :
    List α → σ → World → σ
  | [], s, _ => s
  | a :: l, s, w => foldSt f h l (h s w a) (f w a)

theorem forIn_foldSt {σ α : Type} (P : World → Prop) (f : World → α → World)
    (h : σ → World → α → σ) (g : α → σ → W (ForInStep σ))
    (hg : ∀ (a : α) (s : σ) (w : World), P w → g a s w = .ok (ForInStep.yield (h s w a)) (f w a))
    (hP : ∀ (a : α) (w : World), P w → P (f w a)) :
    ∀ (l : List α) (s : σ) (w : World), P w →
      (forIn l s g : W σ) w = .ok (foldSt f h l s w) (l.foldl f w)
  | [], _, _, _ => rfl
  | a :: l, s, w, hw => by
    rw [List.forIn_cons, M.bind_apply, hg a s w hw]
    exact forIn_foldSt P f h g hg hP l (h s w a) (f w a) (hP a w hw)

theorem foldSt_const {σ α : Type} (f : World → α → World) (h : σ → α → σ) :
    ∀ (l : List α) (s : σ) (w : World), foldSt f (fun s _ a => h s a) l s w = l.foldl h s
  | [], _, _ => rfl
  | a :: l, s, w => by rw [foldSt, foldSt_const f h l, List.foldl_cons]

theorem foldl_collect {α β : Type} (ge : α → β) (p : β → Bool) :
    ∀ (l : List α) (s : List β),
      l.foldl (fun s i => if p (ge i) = true then s ++ [ge i] else s) s = s ++ (l.map ge).filter p
  | [], s => by simp
  | a :: l, s => by
    rw [List.foldl_cons, foldl_collect ge p l, List.map_cons, List.filter_cons]
    by_cases hp : p (ge a) = true
    · rw [if_pos hp, if_pos hp, List.append_assoc]; rfl
    · rw [if_neg hp, if_neg hp]

/-- a `for` loop without mutable variables is `forM'` -/
theorem forIn_unit_forM' {α : Type} (f : α → W Unit) (g : α → PUnit → W (ForInStep PUnit))
    (hg : ∀ (a : α) (w : World), g a PUnit.unit w =
      match f a w with
      | .ok _ s => .ok (ForInStep.yield PUnit.unit) s
      | .panic k s => .panic k s) :
    ∀ (l : List α) (w : World),
      (forIn l PUnit.unit g : W PUnit) w =
        match M.forM' l f w with
        | .ok _ s => .ok PUnit.unit s
        | .panic k s => .panic k s
  | [], _ => rfl
  | a :: l, w => by
    rw [List.forIn_cons, M.bind_apply, hg a w]
    simp only [M.forM', bind, M.bind]
    cases f a w with
    | panic k s => rfl
    | ok u s => exact forIn_unit_forM' f g hg l s

/-- the entities `RemoveEntities` collects for cleanup: the selected entities that carry the
    target flag, in table/row order -/
def cleanupList (w : World) (ts : List Nat) : List Ent :=
  (ts.flatMap (rowsOf w)).filter fun e => w.isTarget.getD e.id false

/-- one iteration of the cleanup loop of `RemoveEntities` -/
def cleanupOne (e : Ent) : W Unit := do
  cleanupArchetypes e
  M.modify fun w => { w with isTarget := w.isTarget.set e.id false }

/-- the cleanup loop of `RemoveEntities` -/
def cleanupAll (l : List Ent) : W Unit := M.forM' l cleanupOne

theorem cleanupOne_eq (e : Ent) (w : World) :
    cleanupOne e w =
      match cleanupArchetypes e w with
      | .panic k s => .panic k s
      | .ok _ s => .ok () (unflagW s e) := by
  simp only [cleanupOne, bind, M.bind, M.modify]
  cases cleanupArchetypes e w <;> rfl

theorem killStep_isTarget (w : World) (e : Ent) : (killStep w e).isTarget = w.isTarget := rfl

theorem foldl_killStep_isTarget (ge : Nat → Ent) : ∀ (l : List Nat) (w : World),
    (l.foldl (fun W i => killStep W (ge i)) w).isTarget = w.isTarget
  | [], _ => rfl
  | a :: l, w => by rw [List.foldl_cons, foldl_killStep_isTarget ge l]; rfl

theorem removeTableW_isTarget (w : World) (t : Nat) : (removeTableW w t).isTarget = w.isTarget := by
  simp only [removeTableW, modTbl, setTbl]
  exact foldl_killStep_isTarget _ _ _

theorem removeTableW_tbl_ne (w : World) {t t' : Nat} (h : t ≠ t') :
    (removeTableW w t).tbl t' = w.tbl t' := by
  rw [removeTableW_eq]
  simp only [tbl, List.getD_eq_getElem?_getD, List.getElem?_set_ne h]

/-- the cleanup list the un-indexing loop accumulates -/
theorem foldSt_cleanup (I : List Bool) : ∀ (ts : List Nat) (s : List Ent) (w : World), ts.Nodup →
    foldSt removeTableW (fun s W t => s ++ (rowsOf W t).filter fun e => I.getD e.id false) ts s w =
      s ++ (ts.flatMap (rowsOf w)).filter fun e => I.getD e.id false
  | [], s, _, _ => by simp [foldSt]
  | t :: ts, s, w, hnd => by
    have hnd' := List.nodup_cons.mp hnd
    rw [foldSt, foldSt_cleanup I ts _ _ hnd'.2]
    have hrows : ts.flatMap (rowsOf (removeTableW w t)) = ts.flatMap (rowsOf w) := by
      apply flatMap_congr'
      intro t' ht'
      exact rowsOf_congr (removeTableW_tbl_ne w (fun hh => hnd'.1 (hh ▸ ht')))
    rw [hrows, List.flatMap_cons, List.filter_append, List.append_assoc]

/-- **the batch removal, relations allowed**: without observers and callback,
    `RemoveEntities(batch, nil)` is the un-indexing loop over the tables the filter selects,
    followed by the cleanup of every selected entity that carried the target flag -/
theorem opRemoveEntities_eq_rel (run : ProbeRunner) (fo : FilterObj) (extra : List RelID) (w : World)
    (hl : w.isLocked = false) (hno : ∀ (evt : Nat), w.obs.hasObservers evt = false)
    {ts : List Nat} (hts : getBatchTables fo extra w = .ok ts w) (hnd : ts.Nodup) :
    opRemoveEntities run fo extra false w = cleanupAll (cleanupList w ts) (removeTablesW w ts) := by
  unfold opRemoveEntities
  simp only [M.bind_apply, checkLocked_unlocked w hl, M.get_apply, hno, Bool.or_self,
    Bool.false_eq_true, if_false, M.pure_apply, hts]
  rw [forIn_foldSt (fun W => W.isTarget = w.isTarget) removeTableW
    (fun s W t => s ++ (rowsOf W t).filter fun e => w.isTarget.getD e.id false) _ ?_ ?_ ts [] w rfl]
  · simp only [foldSt_cleanup w.isTarget ts [] w hnd, List.nil_append]
    rw [forIn_unit_forM' cleanupOne _ ?_]
    · simp only [cleanupAll, cleanupList, removeTablesW]
      generalize M.forM' (List.filter _ _) cleanupOne _ = r
      cases r <;> rfl
    · intro a W
      simp only [cleanupOne, bind, M.bind, M.modify, M.pure_apply]
      cases cleanupArchetypes a W <;> rfl
  · intro t s W hW
    simp only [M.bind_apply, M.get_apply]
    rw [forIn_foldSt (fun W' => W'.isTarget = w.isTarget)
      (fun W' i => killStep W' ((W.tbl t).getEntity i))
      (fun s _ i => if (fun e : Ent => w.isTarget.getD e.id false) ((W.tbl t).getEntity i) = true
        then s ++ [(W.tbl t).getEntity i] else s) _ ?_ ?_ _ s W hW]
    · simp only [M.modify_apply, M.pure_apply]
      have hc := foldl_collect (fun i => (W.tbl t).getEntity i)
        (fun e : Ent => w.isTarget.getD e.id false) (List.range (W.tbl t).len) s
      rw [foldSt_const, hc]
      rfl
    · intro i s' W' hW'
      simp only [M.bind_apply, M.get_apply, hW']
      split <;> rfl
    · intro i W' hW'; exact hW'
  · intro t W hW
    rw [removeTableW_isTarget]; exact hW

end World

/-! ## 2. the world after the un-indexing loop -/

namespace World

theorem removeTablesW_more {w : World} {ts : List Nat} (hnd : ts.Nodup) :
    (removeTablesW w ts).relationArchetypes = w.relationArchetypes ∧
    (removeTablesW w ts).cache = w.cache ∧ (removeTablesW w ts).componentIndex = w.componentIndex := by
  rw [removeTablesW_eq ts w hnd]; exact ⟨rfl, rfl, rfl⟩

/-- distinct rows hold distinct IDs -/
theorem rows_ids_nodup' {w : World} (h : IdxInv w) {ts : List Nat}
    (S : TableSet w ts) : ((ts.flatMap (rowsOf w)).map (·.id)).Nodup := by
  simp only [List.map_flatMap]
  unfold List.Nodup
  rw [List.pairwise_flatMap]
  constructor
  · intro t ht
    have htl := S.lt t ht
    simp only [rowsOf, List.map_map]
    rw [List.pairwise_map]
    refine List.Pairwise.imp_of_mem ?_ (List.nodup_range (n := (w.tbl t).len))
    intro a b ha hb hab heq
    exact hab (h.row_inj (get_of_lt htl) (get_of_lt htl) (List.mem_range.mp ha)
      (List.mem_range.mp hb) heq).2
  · refine List.Pairwise.imp_of_mem ?_ S.nodup
    intro t t' ht ht' hne x hx y hy hxy
    simp only [rowsOf, List.map_map, List.mem_map, List.mem_range, Function.comp] at hx hy
    obtain ⟨r, hr, rfl⟩ := hx
    obtain ⟨r', hr', rfl⟩ := hy
    exact hne (h.row_inj (get_of_lt (S.lt t ht)) (get_of_lt (S.lt t' ht')) hr hr' hxy).1

/-- an indexed ID belongs to the rows of `ts` iff its table is in `ts` -/
theorem mem_rows_ids_iff' {w : World} (h : IdxInv w) {ts : List Nat}
    (S : TableSet w ts) {i t r : Nat} (hi : w.entities[i]? = some (t, r)) (ht : t ≠ maxU32) :
    i ∈ (ts.flatMap (rowsOf w)).map (·.id) ↔ t ∈ ts := by
  obtain ⟨hT, hr, hid⟩ := h.indexed hi ht
  constructor
  · intro hm
    obtain ⟨e, he, rfl⟩ := List.mem_map.mp hm
    obtain ⟨t', r', ht', hr', rfl⟩ := mem_rows.mp he
    have := h.rowIdx t' _ r' (get_of_lt (S.lt t' ht')) hr'
    rw [hi] at this
    rw [(Prod.mk.inj (Option.some.inj this)).1]; exact ht'
  · intro hts
    exact List.mem_map.mpr ⟨_, mem_rows.mpr ⟨t, r, hts, hr, rfl⟩, hid⟩

end World

/-- what the un-indexing loop of `RemoveEntities` over the tables `ts` guarantees (`w` before,
    `w0` after; the removed entities are `ts.flatMap (rowsOf w)`) -/
structure UnindexedPost (w : World) (fl : List Nat) (ts : List Nat) (w0 : World) : Prop where
  link : PLink w0 ((ts.flatMap (rowsOf w)).reverse.map (·.id) ++ fl)
  ms : MetaStep w w0
  pool : w0.pool = (ts.flatMap (rowsOf w)).foldl Pool.recycle w.pool
  isTarget : w0.isTarget = w.isTarget
  obs : w0.obs = w.obs
  locks : w0.locks = w.locks
  maxComps : w0.maxComps = w.maxComps
  componentIndex : w0.componentIndex = w.componentIndex
  entitiesLen : w0.entities.length = w.entities.length
  /-- a handle with the ID of a removed entity is alive iff it carries the next generation -/
  removedAlive : ∀ (e : Ent), e ∈ ts.flatMap (rowsOf w) → ∀ (x : Ent), x.id = e.id →
    w0.alive x = (e.gen + 1 == x.gen)
  aliveFrame : ∀ (x : Ent), x.id ∉ (ts.flatMap (rowsOf w)).map (·.id) → w0.alive x = w.alive x
  entryIn : ∀ (i : Nat), i ∈ (ts.flatMap (rowsOf w)).map (·.id) →
    ∃ (r : Nat), w0.entities[i]? = some (maxU32, r)
  entryOut : ∀ (i : Nat), i ∉ (ts.flatMap (rowsOf w)).map (·.id) → w0.entities[i]? = w.entities[i]?
  tblIn : ∀ (t : Nat), t ∈ ts → w0.tbl t = (w.tbl t).reset
  tblOut : ∀ (t : Nat), t ∉ ts → w0.tables[t]? = w.tables[t]?
  frame : ∀ (j : Nat), j ∉ (ts.flatMap (rowsOf w)).map (·.id) → SameEnt w w0 j
  rowsAlive : RowsAlive w0
  /-- the removed entities were alive and sat in the selected tables -/
  live : ∀ (e : Ent), e ∈ ts.flatMap (rowsOf w) → 2 ≤ e.id ∧ e.id ∉ fl ∧ w.alive e = true ∧
    ∃ (t r : Nat), t ∈ ts ∧ w.entities[e.id]? = some (t, r)
  idsNodup : ((ts.flatMap (rowsOf w)).map (·.id)).Nodup

/-- **the un-indexing loop** under the pool link: the index entries of the entities in the rows
    of `ts` are un-indexed, their handles recycled in table/row order, the tables reset -/
theorem removeTablesW_link {w : World} {fl : List Nat} (L : PLink w fl) (hR : RowsAlive w)
    {ts : List Nat} (S : TableSet w ts) : UnindexedPost w fl ts (removeTablesW w ts) := by
  obtain ⟨fE, fT, fP, fEl, fTl, fA, fK, fI, fO, fL, fM, _⟩ := removeTablesW_fields (w := w) S.nodup
  obtain ⟨fRA, fC, fCI⟩ := removeTablesW_more (w := w) S.nodup
  have hids := rows_ids_nodup' L.idx S
  -- the removed handles
  have hes : ∀ (e : Ent), e ∈ ts.flatMap (rowsOf w) → 2 ≤ e.id ∧ e.id ∉ fl ∧
      w.pool.ents[e.id]? = some e ∧ w.alive e = true ∧
      ∃ (t r : Nat), t ∈ ts ∧ w.entities[e.id]? = some (t, r) := by
    intro e he
    obtain ⟨t, r, ht, hr, rfl⟩ := mem_rows.mp he
    obtain ⟨a1, a2, a4⟩ := L.row_live_id (S.lt t ht) hr
    have ha := hR.tbl hr
    have hin : ((w.tbl t).getEntity r).id < w.pool.ents.length := by
      rw [← L.lenEq]; exact (List.getElem?_eq_some_iff.mp a4).1
    exact ⟨a1, a2, (L.aliveIff _ a2 hin).mp ha, ha, t, r, ht, a4⟩
  obtain ⟨p1, p2, p3, p4, p5⟩ := Pool.recycleAll_spec _ w.pool fl L.pool
    (fun e he => ⟨(hes e he).1, (hes e he).2.1, (hes e he).2.2.1⟩) hids
  rw [← fP] at p1 p2 p3 p4 p5
  have hst' : ∀ (x : Ent), x ∈ (removeTablesW w ts).pool.stale → x.gen = maxU32 := by
    rw [p5]; exact L.stale
  have htm : ∀ (t : Nat), t < w.tables.length → t ≠ maxU32 := by
    intro t ht; have := L.fewTables; omega
  -- tables
  have hTin : ∀ (t : Nat), t ∈ ts → (removeTablesW w ts).tbl t = (w.tbl t).reset := by
    intro t ht
    apply tbl_of_get
    rw [fT, if_pos ht, get_of_lt (S.lt t ht)]; rfl
  have hTout : ∀ (t : Nat), t ∉ ts → (removeTablesW w ts).tables[t]? = w.tables[t]? := by
    intro t ht; rw [fT, if_neg ht]
  have hTout' : ∀ (t : Nat), t ∉ ts → (removeTablesW w ts).tbl t = w.tbl t := by
    intro t ht; simp only [tbl, List.getD_eq_getElem?_getD, hTout t ht]
  -- entries
  have hEin : ∀ (i : Nat), i ∈ (ts.flatMap (rowsOf w)).map (·.id) →
      ∃ (r : Nat), (removeTablesW w ts).entities[i]? = some (maxU32, r) := by
    intro i hi
    obtain ⟨e, he, rfl⟩ := List.mem_map.mp hi
    obtain ⟨_, _, _, _, t, r, _, hx⟩ := hes e he
    exact ⟨r, by rw [fE, if_pos hi, hx]; rfl⟩
  have hEout : ∀ (i : Nat), i ∉ (ts.flatMap (rowsOf w)).map (·.id) →
      (removeTablesW w ts).entities[i]? = w.entities[i]? := by
    intro i hi; rw [fE, if_neg hi]
  have hidx : IdxInv (removeTablesW w ts) := by
    refine ⟨?_, ?_, ?_, ?_⟩
    · intro t T hT
      by_cases ht : t ∈ ts
      · rw [fT, if_pos ht, get_of_lt (S.lt t ht)] at hT
        cases hT
        exact Table.reset_shape (L.idx.shape t _ (get_of_lt (S.lt t ht)))
      · rw [hTout t ht] at hT; exact L.idx.shape t T hT
    · intro t T hT
      by_cases ht : t ∈ ts
      · rw [fT, if_pos ht, get_of_lt (S.lt t ht)] at hT
        cases hT
        exact L.idx.tid t (w.tbl t) (get_of_lt (S.lt t ht))
      · rw [hTout t ht] at hT; exact L.idx.tid t T hT
    · intro t T r hT hr
      by_cases ht : t ∈ ts
      · rw [fT, if_pos ht, get_of_lt (S.lt t ht)] at hT
        cases hT
        exact absurd hr (Nat.not_lt_zero _)
      · rw [hTout t ht] at hT
        have hx := L.idx.rowIdx t T r hT hr
        have hni : (T.getEntity r).id ∉ (ts.flatMap (rowsOf w)).map (·.id) := by
          intro hm
          exact ht ((mem_rows_ids_iff' L.idx S hx (htm t (lt_of_get hT))).mp hm)
        rw [hEout _ hni]; exact hx
    · intro i t r hi ht
      by_cases hm : i ∈ (ts.flatMap (rowsOf w)).map (·.id)
      · obtain ⟨r', hr'⟩ := hEin i hm
        rw [hr'] at hi
        exact absurd (Prod.mk.inj (Option.some.inj hi)).1.symm ht
      · rw [hEout i hm] at hi
        obtain ⟨T, hT, hr, hid⟩ := L.idx.idxRow i t r hi ht
        have hnt : t ∉ ts := fun hh => hm ((mem_rows_ids_iff' L.idx S hi ht).mpr hh)
        exact ⟨T, by rw [hTout t hnt]; exact hT, hr, hid⟩
  have hmemfl : ∀ (i : Nat), i ∈ (ts.flatMap (rowsOf w)).reverse.map (·.id) ++ fl ↔
      (i ∈ (ts.flatMap (rowsOf w)).map (·.id) ∨ i ∈ fl) := by
    intro i; simp [List.mem_append]
  have hlink : PLink (removeTablesW w ts) ((ts.flatMap (rowsOf w)).reverse.map (·.id) ++ fl) := by
    refine
      { idx := hidx
        pool := p1
        stale := hst'
        lenEq := by rw [fEl, p4]; exact L.lenEq
        tgtLen := by rw [fI, fEl]; exact L.tgtLen
        freeUnindexed := ?_
        reservedUnindexed := ?_
        liveIndexed := ?_
        fewTables := by rw [fTl]; exact L.fewTables }
    · intro i hi
      by_cases hm : i ∈ (ts.flatMap (rowsOf w)).map (·.id)
      · exact hEin i hm
      · rw [hEout i hm]
        rcases (hmemfl i).mp hi with h1 | h1
        · exact absurd h1 hm
        · exact L.freeUnindexed i h1
    · intro i hi
      by_cases hm : i ∈ (ts.flatMap (rowsOf w)).map (·.id)
      · exact hEin i hm
      · rw [hEout i hm]; exact L.reservedUnindexed i hi
    · intro i h2 hlt hnf
      have hm : i ∉ (ts.flatMap (rowsOf w)).map (·.id) := fun hh => hnf ((hmemfl i).mpr (Or.inl hh))
      rw [hEout i hm]
      exact L.liveIndexed i h2 (by rw [← fEl]; exact hlt) (fun hh => hnf ((hmemfl i).mpr (Or.inr hh)))
  have hms : MetaStep w (removeTablesW w ts) := by
    refine ⟨fA, fK, fRA, fC, fTl, ?_⟩
    intro t _
    by_cases ht : t ∈ ts
    · rw [hTin t ht]; exact ⟨rfl, rfl, rfl, rfl, rfl, rfl, rfl, rfl⟩
    · rw [hTout' t ht]; exact Table.SameMeta.refl _
  have hAF : ∀ (x : Ent), x.id ∉ (ts.flatMap (rowsOf w)).map (·.id) →
      (removeTablesW w ts).alive x = w.alive x := by
    intro x hx
    exact Pool.alive_congr_slot x p5 p4 (p3 x.id hx)
  refine
    { link := hlink
      ms := hms
      pool := fP
      isTarget := fI
      obs := fO
      locks := fL
      maxComps := fM
      componentIndex := fCI
      entitiesLen := fEl
      removedAlive := ?_
      aliveFrame := hAF
      entryIn := hEin
      entryOut := hEout
      tblIn := hTin
      tblOut := hTout
      frame := ?_
      rowsAlive := ?_
      live := fun e he => ⟨(hes e he).1, (hes e he).2.1, (hes e he).2.2.2.1, (hes e he).2.2.2.2⟩
      idsNodup := hids }
  · intro e he x hx
    obtain ⟨nx, hnx⟩ := p2 e he
    show (removeTablesW w ts).pool.alive x = _
    have hin : x.id < (removeTablesW w ts).pool.ents.length := by
      rw [hx]; exact (List.getElem?_eq_some_iff.mp hnx).1
    rw [Pool.alive_of_lt x hin, hx, hnx]
  · intro j hj
    have he := hEout j hj
    cases hx : w.entities[j]? with
    | none => exact same_of_entry he (fun t r hh => by rw [hx] at hh; cases hh)
    | some p =>
      obtain ⟨t, r⟩ := p
      by_cases ht : t = maxU32
      · exact same_of_entry he (fun t' r' hh => by rw [hx] at hh; cases hh; exact ht)
      · obtain ⟨hT, _, _⟩ := L.idx.indexed hx ht
        have hnt : t ∉ ts := fun hh => hj ((mem_rows_ids_iff' L.idx S hx ht).mpr hh)
        exact same_of_rows hx (by rw [he]; exact hx) ht ht hT (by rw [hTout t hnt]; exact hT) rfl
          (fun _ => rfl)
  · apply rowsAlive_of_tbl
    intro t r hr
    by_cases hts : t ∈ ts
    · rw [hTin t hts] at hr; exact absurd hr (Nat.not_lt_zero _)
    · rw [hTout' t hts] at hr ⊢
      have ht := tbl_len_pos_lt hr
      have hx := L.idx.rowIdx t _ r (get_of_lt ht) hr
      have hni : ((w.tbl t).getEntity r).id ∉ (ts.flatMap (rowsOf w)).map (·.id) := by
        intro hm
        exact hts ((mem_rows_ids_iff' L.idx S hx (htm t ht)).mp hm)
      rw [hAF _ hni]; exact hR.tbl hr

/-- under the invariants, a target read through the index is the zero entity or alive -/
theorem targetOf_zero_or_alive {w : World} (hI : IdxInv w) (hE : FreeEmpty w) (hT : TargetsOK w) {j : Nat}
    {c : Comp} {x : Ent} (h : targetOf w j c = some x) : x.isZero = true ∨ w.alive x = true := by
  simp only [targetOf] at h
  cases hx : w.entities[j]? with
  | none => rw [hx] at h; cases h
  | some p =>
    obtain ⟨tj, r⟩ := p
    rw [hx] at h
    simp only at h
    by_cases ht : tj = maxU32
    · rw [if_pos ht] at h; cases h
    · rw [if_neg ht] at h
      obtain ⟨T, hT', hr, _⟩ := hI.idxRow j tj r hx ht
      rw [hT'] at h
      simp only [Option.bind_some, Table.targetAt] at h
      have hfree : T.isFree = false := by
        cases hf : T.isFree with
        | false => rfl
        | true => have := hE tj T hT' hf; omega
      cases hc : T.colIdx c with
      | none => rw [hc] at h; cases h
      | some k =>
        rw [hc] at h
        simp only [Option.bind_some] at h
        split at h
        · rename_i hk
          have := hT tj T hT' hfree k hk
          rw [Option.some.inj h] at this
          exact this
        · cases h

/-- **the world after the un-indexing loop satisfies the cleanup invariants** for the pending
    dead targets `cleanupList w ts` -/
theorem unindexed_base {w : World} {fl : List Nat} (h : TInv w fl) (hR : RowsAlive w)
    {ts : List Nat} (S : TableSet w ts) :
    CleanBaseD (cleanupList w ts) (removeTablesW w ts) ∧ RInv (removeTablesW w ts) ∧
    DeadSet (removeTablesW w ts).pool (cleanupList w ts) := by
  have u := removeTablesW_link h.link hR S
  have hmemD : ∀ (x : Ent), x ∈ cleanupList w ts ↔
      x ∈ ts.flatMap (rowsOf w) ∧ w.isTarget.getD x.id false = true := by
    intro x; simp only [cleanupList, List.mem_filter]
  refine ⟨?_, h.rel.rinv.of_sameMeta u.ms.archetypes u.ms.len u.ms.tmeta, ?_⟩
  · refine
      { idx := u.link.idx
        sinv := h.rel.sinv.of_sameMeta u.ms.archetypes u.ms.kinds u.ms.len u.ms.tmeta
        tgts := ?_
        rels := h.rel.aux.rels.of_sameMeta u.ms.len u.ms.tmeta
        cacheRels := by intro e he; rw [u.ms.cache] at he; exact h.rel.aux.cacheRels e he
        flags := h.flags.of_metaStep u.ms (fun i hi => by rw [u.isTarget]; exact hi)
        freeEmpty := ?_
        relArchs := by
          intro b B hB' hrel
          rw [u.ms.archetypes] at hB'; rw [u.ms.relationArchetypes]
          exact h.rel.aux.relArchs b B hB' hrel }
    · intro t T hT hf i hi
      obtain ⟨hlt, rfl, hT0⟩ := get_sameMeta u.ms.len hT
      have sm := u.ms.tmeta t hlt
      rw [sm.targets]
      rw [sm.isFree] at hf; rw [sm.isRel] at hi
      rcases h.rel.aux.targets t _ hT0 hf i hi with h1 | h1
      · exact Or.inl h1
      · by_cases hm : ((w.tbl t).targets.getD i Ent.zero).id ∈ (ts.flatMap (rowsOf w)).map (·.id)
        · right; right
          obtain ⟨e, he, hid⟩ := List.mem_map.mp hm
          have heq : e = (w.tbl t).targets.getD i Ent.zero :=
            h.link.alive_inj (u.live e he).2.2.1 h1 hid
          rw [← heq]
          refine (hmemD e).2 ⟨he, ?_⟩
          have hz : ((w.tbl t).targets.getD i Ent.zero).isZero = false := by
            rw [← heq]
            simp only [Ent.isZero, beq_eq_false_iff_ne]
            have := (u.live e he).1; omega
          have := h.flags t _ hT0 hf i hi hz
          rw [← heq] at this; exact this
        · right; left
          refine ⟨by rw [u.aliveFrame _ hm]; exact h1, ?_⟩
          intro d hd hid
          exact hm (hid ▸ List.mem_map_of_mem ((hmemD d).1 hd).1)
    · intro t T hT hf
      by_cases ht : t ∈ ts
      · rw [← tbl_of_get hT, u.tblIn t ht]; rfl
      · rw [u.tblOut t ht] at hT; exact h.freeEmpty t T hT hf
  · constructor
    · intro d hd
      obtain ⟨hd1, _⟩ := (hmemD d).1 hd
      show (removeTablesW w ts).alive d = false
      rw [u.removedAlive d hd1 d rfl]
      simp
    · intro d hd
      have := (u.live d ((hmemD d).1 hd).1).1
      omega

/-! ## 3. the cleanup loop over the pending targets -/

namespace World

theorem unflagW_fields (w : World) (e : Ent) :
    (unflagW w e).tables = w.tables ∧ (unflagW w e).entities = w.entities ∧
    (unflagW w e).archetypes = w.archetypes ∧ (unflagW w e).kinds = w.kinds ∧
    (unflagW w e).pool = w.pool ∧ (unflagW w e).cache = w.cache ∧
    (unflagW w e).relationArchetypes = w.relationArchetypes ∧
    (unflagW w e).maxComps = w.maxComps ∧ (unflagW w e).obs = w.obs ∧
    (unflagW w e).locks = w.locks ∧ (unflagW w e).componentIndex = w.componentIndex :=
  ⟨rfl, rfl, rfl, rfl, rfl, rfl, rfl, rfl, rfl, rfl, rfl⟩

theorem unflagW_qkeep (w : World) (e : Ent) : QKeep w (unflagW w e) :=
  ⟨fun hr => hr, fun hc => hc.of_frame ⟨rfl, rfl, rfl, fun _ => rfl⟩, fun he => he⟩

end World

/-- the invariant of the cleanup loop of `RemoveEntities`: `w0` = the world after the un-indexing
    loop, `Dall` = all collected targets, `rest` = the targets still pending -/
structure AllInv (Dall : List Ent) (N : Nat) (w0 : World) (rest : List Ent) (w : World) : Prop where
  base : CleanBaseD rest w
  rinv : RInv w
  qk : QKeep w0 w
  pool : w.pool = w0.pool
  kinds : w.kinds = w0.kinds
  maxComps : w.maxComps = w0.maxComps
  relationArchetypes : w.relationArchetypes = w0.relationArchetypes
  obs : w.obs = w0.obs
  locks : w.locks = w0.locks
  idxSame : IdxSame w0 w
  same : ∀ (j : Nat), SameEnt w0 w j
  tgt : ∀ (j : Nat) (c : Comp), TgtStepP w0.pool (targetOf w0 j c) (targetOf w j c)
  flagLen : w.isTarget.length = w0.isTarget.length
  /-- only the flags of collected targets change -/
  flagOut : ∀ (i : Nat), (∀ (d : Ent), d ∈ Dall → d.id ≠ i) →
    w.isTarget.getD i false = w0.isTarget.getD i false
  sub : ∀ (d : Ent), d ∈ rest → d ∈ Dall
  len : w.tables.length + rest.length * w0.relationArchetypes.length ≤ N

/-- **the cleanup loop**: `cleanupArchetypes e` and the reset of the flag for every pending
    target, in order — never panics; afterwards nothing is pending -/
theorem cleanupAll_spec {Dall : List Ent} {N : Nat} {w0 : World} (hD : DeadSet w0.pool Dall)
    (hN : N + 1 ≤ maxU32) (hrows : 2 * w0.entities.length < 2 ^ 32) :
    ∀ (rest : List Ent) (w : World), AllInv Dall N w0 rest w →
      ∃ (w' : World), cleanupAll rest w = .ok () w' ∧ AllInv Dall N w0 [] w' := by
  apply forM'_hoare
  intro g rest w hI
  have hlen := hI.len
  simp only [List.length_cons, Nat.add_mul, Nat.one_mul] at hlen
  have hDw : DeadSet w.pool (g :: rest) := by
    rw [hI.pool]
    exact ⟨fun d hd => hD.dead d (hI.sub d hd), fun d hd => hD.nz d (hI.sub d hd)⟩
  obtain ⟨w1, hok, cl⟩ := cleanupArchetypes_specD hI.base hDw List.mem_cons_self hI.rinv
    (by rw [hI.relationArchetypes]; omega) (by rw [hI.idxSame.len]; exact hrows)
  refine ⟨unflagW w1 g, by rw [cleanupOne_eq, hok], ?_⟩
  have hg0 : g.id ≠ 0 := hDw.nz g List.mem_cons_self
  refine
    { base :=
        { idx := cl.base.idx.congr rfl rfl
          sinv := cl.base.sinv.congr rfl rfl rfl
          tgts := ?_
          rels := cl.base.rels
          cacheRels := cl.base.cacheRels
          flags := ?_
          freeEmpty := cl.base.freeEmpty
          relArchs := cl.base.relArchs }
      rinv := cl.rinv.congr rfl rfl
      qk := (hI.qk.trans cl.qk).trans (unflagW_qkeep w1 g)
      pool := cl.frame.pool.trans hI.pool
      kinds := cl.frame.kinds.trans hI.kinds
      maxComps := cl.frame.maxComps.trans hI.maxComps
      relationArchetypes := cl.frame.relationArchetypes.trans hI.relationArchetypes
      obs := cl.frame.obs.trans hI.obs
      locks := cl.frame.locks.trans hI.locks
      idxSame := hI.idxSame.trans (cl.frame.idxSame.trans (IdxSame.of_eq rfl))
      same := fun j => (hI.same j).trans ((cl.frame.same j).congr rfl rfl)
      tgt := ?_
      flagLen := ?_
      flagOut := ?_
      sub := fun d hd => hI.sub d (List.mem_cons_of_mem _ hd)
      len := ?_ }
  · intro t T hT hf i hi
    rcases cl.base.tgts t T hT hf i hi with h1 | ⟨h1, h2⟩ | h1
    · exact Or.inl h1
    · exact Or.inr (Or.inl ⟨h1, fun d hd => h2 d (List.mem_cons_of_mem _ hd)⟩)
    · rcases List.mem_cons.1 h1 with h3 | h3
      · exact absurd (by rw [h3]) (cl.noTarget t T hT hf i hi)
      · exact Or.inr (Or.inr h3)
  · intro t T hT hf i hi hz
    have hne := cl.noTarget t T hT hf i hi
    show (w1.isTarget.set g.id false).getD (T.targets.getD i Ent.zero).id false = true
    rw [List.getD_eq_getElem?_getD, List.getElem?_set_ne (fun x => hne x.symm),
      ← List.getD_eq_getElem?_getD]
    exact cl.base.flags t T hT hf i hi hz
  · intro j c
    have h1 := hI.tgt j c
    have h2 := cl.frame.tgt j c
    rw [hI.pool] at h2
    exact h1.trans h2
  · show (w1.isTarget.set g.id false).length = w0.isTarget.length
    rw [List.length_set, cl.frame.isTarget]; exact hI.flagLen
  · intro i hi
    have hne : g.id ≠ i := hi g (hI.sub g List.mem_cons_self)
    show (w1.isTarget.set g.id false).getD i false = w0.isTarget.getD i false
    rw [List.getD_eq_getElem?_getD, List.getElem?_set_ne hne, ← List.getD_eq_getElem?_getD,
      cl.frame.isTarget]
    exact hI.flagOut i hi
  · show w1.tables.length + rest.length * w0.relationArchetypes.length ≤ N
    have := cl.len
    rw [hI.relationArchetypes] at this
    omega

/-! ## 4. what removing a set of entities guarantees in a world with relations -/

/-- a target among the removed entities reads as the zero entity -/
def zeroIn (es : List Ent) (x : Ent) : Ent := if x ∈ es then Ent.zero else x

/-- the observable outcome of removing the entities `es` (alive, distinct IDs) from a world with
    relations, in the order of the list; only `pool` and the free list depend on the order -/
structure RemovedAllRelPost (w : World) (fl : List Nat) (es : List Ent) (w' : World) : Prop where
  /-- all invariants are kept; the IDs are pushed on the free list in order -/
  tinv : TInv w' (es.reverse.map (·.id) ++ fl)
  pool : w'.pool = es.foldl Pool.recycle w.pool
  /-- a handle with the ID of a removed entity is alive iff it carries the next generation -/
  removedAlive : ∀ (e : Ent), e ∈ es → ∀ (x : Ent), x.id = e.id → w'.alive x = (e.gen + 1 == x.gen)
  aliveFrame : ∀ (x : Ent), x.id ∉ es.map (·.id) → w'.alive x = w.alive x
  /-- every other entity keeps components and values; a target among the removed entities reads
      as the zero entity, every other target is kept -/
  frame : ∀ (j : Nat), j ∉ es.map (·.id) → SameEnt w w' j ∧
    ∀ (c : Comp), targetOf w' j c = (targetOf w j c).map (zeroIn es)
  /-- the removed IDs point at no table any more -/
  unindexed : ∀ (e : Ent), e ∈ es → (∀ (c : Comp), valOf w' e.id c = none) ∧
    compsOf w' e.id = none ∧ ∀ (c : Comp), targetOf w' e.id c = none
  obs : w'.obs = w.obs
  locks : w'.locks = w.locks
  kinds : w'.kinds = w.kinds
  maxComps : w'.maxComps = w.maxComps
  relationArchetypes : w'.relationArchetypes = w.relationArchetypes
  entitiesLen : w'.entities.length = w.entities.length
  tablesLen : w'.tables.length ≤ w.tables.length + es.length * w.relationArchetypes.length
  /-- rows hold alive handles, the component index and the empty cache carry over -/
  qk : QKeep w w'

theorem RemovedAllRelPost.dead {w w' : World} {fl : List Nat} {es : List Ent}
    (p : RemovedAllRelPost w fl es w') : ∀ (e : Ent), e ∈ es → w'.alive e = false := by
  intro e he
  rw [p.removedAlive e he e rfl]
  simp

theorem zeroDead_of_ok {p : Pool} {x : Ent} (h : x.isZero = true ∨ p.alive x = true) :
    zeroDead p x = x := by
  unfold zeroDead
  rcases h with h | h <;> simp [h]

/-- **the batch removal under `TInv`**: the un-indexing loop over the existing tables `ts` (no
    table twice) followed by the cleanup of the flagged entities never fails and removes exactly
    the entities in the rows of `ts` -/
theorem removeBatch_rel_spec {w : World} {fl : List Nat} (h : TInv w fl) (hR : RowsAlive w)
    {ts : List Nat} (S : TableSet w ts)
    (hfew : w.tables.length + (cleanupList w ts).length * w.relationArchetypes.length + 1 ≤ maxU32)
    (hrows : 2 * w.entities.length < 2 ^ 32) :
    ∃ (w' : World), cleanupAll (cleanupList w ts) (removeTablesW w ts) = .ok () w' ∧
      RemovedAllRelPost w fl (ts.flatMap (rowsOf w)) w' := by
  have u := removeTablesW_link h.link hR S
  obtain ⟨hB, hRi, hDd⟩ := unindexed_base h hR S
  have hinit : AllInv (cleanupList w ts)
      (w.tables.length + (cleanupList w ts).length * w.relationArchetypes.length)
      (removeTablesW w ts) (cleanupList w ts) (removeTablesW w ts) :=
    { base := hB, rinv := hRi, qk := QKeep.refl _, pool := rfl, kinds := rfl, maxComps := rfl,
      relationArchetypes := rfl, obs := rfl, locks := rfl, idxSame := IdxSame.refl _,
      same := fun _ => ⟨fun _ => rfl, rfl⟩, tgt := fun _ _ => TgtStepP.refl _ _, flagLen := rfl,
      flagOut := fun _ _ => rfl, sub := fun _ hd => hd
      len := by rw [u.ms.len, u.ms.relationArchetypes]; exact Nat.le_refl _ }
  obtain ⟨w', hok, hI⟩ := cleanupAll_spec hDd hfew (by rw [u.entitiesLen]; exact hrows) _ _ hinit
  refine ⟨w', hok, ?_⟩
  have hlen' : w'.tables.length ≤
      w.tables.length + (cleanupList w ts).length * w.relationArchetypes.length := by
    have := hI.len; simpa using this
  have hal : ∀ (x : Ent), w'.alive x = (removeTablesW w ts).alive x := fun x => by
    simp only [World.alive, hI.pool]
  have hTOK : TargetsOK w' := by
    intro t T hT hf i hi
    rcases hI.base.tgts t T hT hf i hi with h1 | ⟨h1, _⟩ | h1
    · exact Or.inl h1
    · exact Or.inr h1
    · cases h1
  have qk0 : QKeep w (removeTablesW w ts) :=
    ⟨fun _ => u.rowsAlive,
     fun hc => hc.of_frame ⟨u.componentIndex, u.ms.kinds, by rw [u.ms.archetypes],
       fun a => by simp only [arch, u.ms.archetypes]⟩,
     fun he => he.of_eq u.ms.cache⟩
  refine
    { tinv :=
        { rel :=
            { sinv := hI.base.sinv
              rinv := hI.rinv
              aux :=
                { targets := hTOK
                  rels := hI.base.rels
                  relArchs := hI.base.relArchs
                  cacheRels := hI.base.cacheRels } }
          flags := hI.base.flags
          freeEmpty := hI.base.freeEmpty
          link := u.link.transfer hI.base.idx hI.pool hI.idxSame hI.flagLen (by omega)
          kindsLe := by rw [hI.kinds, hI.maxComps, u.ms.kinds, u.maxComps]; exact h.kindsLe }
      pool := by rw [hI.pool]; exact u.pool
      removedAlive := fun e he x hx => by rw [hal]; exact u.removedAlive e he x hx
      aliveFrame := fun x hx => by rw [hal]; exact u.aliveFrame x hx
      frame := ?_
      unindexed := ?_
      obs := hI.obs.trans u.obs
      locks := hI.locks.trans u.locks
      kinds := hI.kinds.trans u.ms.kinds
      maxComps := hI.maxComps.trans u.maxComps
      relationArchetypes := hI.relationArchetypes.trans u.ms.relationArchetypes
      entitiesLen := hI.idxSame.len.trans u.entitiesLen
      tablesLen := by
        refine Nat.le_trans hlen' (Nat.add_le_add_left (Nat.mul_le_mul_right _ ?_) _)
        exact List.length_filter_le _ _
      qk := qk0.trans hI.qk }
  · intro j hj
    refine ⟨(u.frame j hj).trans (hI.same j), fun c => ?_⟩
    have t0 : targetOf (removeTablesW w ts) j c = targetOf w j c := u.ms.targetOf (u.entryOut j hj) c
    -- the cleanup resets exactly the dead targets
    have t1 : targetOf w' j c = (targetOf w j c).map (zeroDead (removeTablesW w ts).pool) := by
      rcases hI.tgt j c with k | k
      · rw [k, t0]
        cases ho : targetOf w j c with
        | none => rfl
        | some x =>
          have hx : targetOf w' j c = some x := by rw [k, t0, ho]
          have := targetOf_zero_or_alive hI.base.idx hI.base.freeEmpty hTOK hx
          rw [hal] at this
          rw [Option.map_some, zeroDead_of_ok this]
      · rw [k, t0]
    rw [t1]
    cases ho : targetOf w j c with
    | none => rfl
    | some x =>
      simp only [Option.map_some, Option.some.injEq]
      have hx := targetOf_zero_or_alive h.link.idx h.freeEmpty h.rel.aux.targets ho
      unfold zeroIn
      by_cases hm : x ∈ ts.flatMap (rowsOf w)
      · rw [if_pos hm]
        have hd : (removeTablesW w ts).pool.alive x = false := by
          have := u.removedAlive x hm x rfl
          simp only [World.alive] at this
          rw [this]; simp
        have hz : x.isZero = false := by
          simp only [Ent.isZero, beq_eq_false_iff_ne]
          have := (u.live x hm).1; omega
        unfold zeroDead
        rw [hd, hz]; rfl
      · rw [if_neg hm]
        apply zeroDead_of_ok
        rcases hx with h1 | h1
        · exact Or.inl h1
        · right
          have hni : x.id ∉ (ts.flatMap (rowsOf w)).map (·.id) := by
            intro hmm
            obtain ⟨e, he, hid⟩ := List.mem_map.mp hmm
            have := h.link.alive_inj (u.live e he).2.2.1 h1 hid
            exact hm (this ▸ he)
          have := u.aliveFrame x hni
          simp only [World.alive] at this h1
          rw [this]; exact h1
  · intro e he
    obtain ⟨r, hr⟩ := u.entryIn e.id (List.mem_map_of_mem he)
    have hentry : w'.entities[e.id]? = some (maxU32, r) := by
      rcases hI.idxSame.entry e.id with k | ⟨t0, r0, _, _, k1, k2, _⟩
      · rw [k]; exact hr
      · rw [hr] at k1
        exact absurd (Prod.mk.inj (Option.some.inj k1)).1.symm k2
    exact ⟨fun c => by simp only [valOf, hentry, if_true],
      by simp only [compsOf, hentry, if_true], fun c => by simp only [targetOf, hentry, if_true]⟩

/-- **C06 + C04, `RemoveEntities(batch, nil)` with relation targets among the removed**: on an
    unlocked world without observers satisfying `TInv` whose rows hold alive handles, for a batch
    whose table selection succeeded with the duplicate-free list `ts` of existing tables: the
    call never fails, `TInv` holds for the free list extended by the removed IDs, every entity in
    the rows of `ts` is dead and un-indexed, every other entity keeps liveness, components and
    values, and its targets are unchanged except that a removed target reads as the zero entity. -/
theorem opRemoveEntities_rel_spec (run : ProbeRunner) {w : World} {fl : List Nat} (h : TInv w fl)
    (hR : RowsAlive w) (hl : w.isLocked = false)
    (hno : ∀ (evt : Nat), w.obs.hasObservers evt = false) (fo : FilterObj) (extra : List RelID)
    {ts : List Nat} (hts : getBatchTables fo extra w = .ok ts w) (S : TableSet w ts)
    (hfew : w.tables.length + (cleanupList w ts).length * w.relationArchetypes.length + 1 ≤ maxU32)
    (hrows : 2 * w.entities.length < 2 ^ 32) :
    ∃ (w' : World), opRemoveEntities run fo extra false w = .ok () w' ∧
      RemovedAllRelPost w fl (ts.flatMap (rowsOf w)) w' := by
  rw [opRemoveEntities_eq_rel run fo extra w hl hno hts S.nodup]
  exact removeBatch_rel_spec h hR S hfew hrows

end Ark
