/-
  Ark.Proofs.CallbacksBatch — C08/C09 at world level, part 6: the batch idiom `fireRows` and the
  batch operations `NewBatch` and `RemoveEntities` with observers.

  * `rowsLog rec fired ents w` — what notifying the observers `fired` for every entity of `ents`,
    one entity after the other, appends to the log.
  * `fireRows_readOnly` — the batch idiom of events.go callers
    (`for i in rows: if !fire(row i, earlyOut) break; earlyOut = false`) loses no callback: whether
    an observer fires depends on masks only, which are the same for all rows of a table, so if the
    first row notifies nobody no row would.
  * `opNewBatch_obs_eq` — `NewBatch(count, ids…)`: all creation callbacks run AFTER all entities
    are created, on the locked world.
  * `opRemoveEntities_obs_eq` — `RemoveEntities(batch)`: all removal callbacks (table by table,
    row by row) run BEFORE any entity is removed, on the locked, otherwise unchanged world.

  Kernel-only proofs, core Lean only.
-/
import Ark.Proofs.CallbacksCbs
import Ark.Proofs.BatchRemove

set_option autoImplicit false

namespace Ark

open World Spec Ark.Props.C01World QueryExact

/-- what notifying the observers `fired` for every entity of `ents` in turn appends to the log
    (newest first) -/
def rowsLog (rec : World → Nat → Ent → Probe → List LogEv) (fired : List Nat) :
    List Ent → World → List LogEv
  | [], _ => []
  | e :: es, w =>
    rowsLog rec fired es (w.addLog (notifyAll rec e fired w)) ++ notifyAll rec e fired w

theorem rowsLog_nil_fired (rec : World → Nat → Ent → Probe → List LogEv) :
    ∀ (ents : List Ent) (w : World), rowsLog rec [] ents w = []
  | [], _ => rfl
  | e :: es, w => by
    simp only [rowsLog, notifyAll, List.append_nil, addLog_nil]
    exact rowsLog_nil_fired rec es w

/-- the `cb` records of a batch notification: for every entity in order, every fired observer in
    order (newest first, hence reversed) -/
theorem cbsOf_rowsLog {rec : World → Nat → Ent → Probe → List LogEv} (hn : NoCb rec)
    (fired : List Nat) : ∀ (ents : List Ent) (w : World),
      cbsOf (rowsLog rec fired ents w)
        = (ents.flatMap fun e => fired.map fun l => (l, e)).reverse
  | [], _ => rfl
  | e :: es, w => by
    rw [rowsLog, cbsOf_append, cbsOf_rowsLog hn fired es, cbsOf_notifyAll hn]
    simp only [List.flatMap_cons, List.reverse_append]

/-- for a log-blind runner every record of a batch notification is a function of the one world -/
theorem rowsLog_blind {rec : World → Nat → Ent → Probe → List LogEv} (hb : LogBlind rec)
    (fired : List Nat) : ∀ (ents : List Ent) (w : World),
      rowsLog rec fired ents w
        = (ents.reverse.flatMap fun e => fired.reverse.flatMap fun l => notifyFlat rec l e w)
  | [], _ => rfl
  | e :: es, w => by
    rw [rowsLog, rowsLog_blind hb fired es, notifyAll_blind hb]
    simp only [List.reverse_cons, List.flatMap_append, List.flatMap_cons, List.flatMap_nil,
      List.append_nil]
    congr 1
    apply flatMap_congr'
    intro x _
    apply flatMap_congr'
    intro l _
    simp only [notifyFlat, addLog_obs]
    congr 1
    apply flatMap_congr'
    intro p _
    exact hb w _ l x p

section

variable {rec : World → Nat → Ent → Probe → List LogEv}

/-- **the batch idiom loses no callback.**  `fire e earlyOut` notifies the observers `fired` —
    the same list for every row and whatever `earlyOut` is — and reports whether there were any.
    Then the loop with its early exit notifies `fired` for every entity, in order. -/
theorem fireRows_readOnly (fire : Ent → Bool → W Bool) (fired : List Nat) (o : ObsMgr)
    (hfire : ∀ (e : Ent) (eo : Bool) (w : World), w.obs = o →
      fire e eo w = .ok (!fired.isEmpty) (w.addLog (notifyAll rec e fired w))) :
    ∀ (ents : List Ent) (w : World), w.obs = o →
      fireRows fire ents w = .ok () (w.addLog (rowsLog rec fired ents w)) := by
  have loop : ∀ (ents : List Ent) (eo : Bool) (w : World), w.obs = o →
      ∃ s, (forIn ents eo (fun e (s : Bool) => (do
          let found ← fire e s
          if (!found) = true then pure (ForInStep.done s)
          else pure (ForInStep.yield false) : W (ForInStep Bool))) : W Bool) w
        = .ok s (w.addLog (rowsLog rec fired ents w)) := by
    intro ents
    induction ents with
    | nil => intro eo w _; exact ⟨eo, rfl⟩
    | cons e es ih =>
      intro eo w hw
      rw [List.forIn_cons, M.bind_apply, M.bind_apply, hfire e eo w hw]
      cases hf : fired with
      | nil =>
        refine ⟨eo, ?_⟩
        simp only [List.isEmpty_nil, Bool.not_true, Bool.not_false, if_true, M.pure_apply,
          rowsLog_nil_fired, notifyAll, addLog_nil]
      | cons x xs =>
        obtain ⟨s, hs⟩ := ih false (w.addLog (notifyAll rec e (x :: xs) w)) (by rw [← hw]; rfl)
        refine ⟨s, ?_⟩
        simp only [List.isEmpty_cons, Bool.not_false, Bool.not_true, Bool.false_eq_true, if_false,
          M.pure_apply]
        rw [← hf] at hs ⊢
        rw [hs]
        simp only [rowsLog, addLog_addLog]
  intro ents w hw
  obtain ⟨s, hs⟩ := loop ents true w hw
  unfold fireRows
  simp only [M.bind_apply]
  rw [hs]
  rfl

end

/-! ## `NewBatch` -/

namespace World

theorem createStep_log (t start : Nat) (w : World) (k : Nat) : (createStep t start w k).log = w.log := by
  rw [createStep_upd]; rfl

theorem createEntitiesW_log (w : World) (t n : Nat) : (createEntitiesW w t n).log = w.log :=
  foldl_createStep_keep (·.log) t _ (createStep_log t _) _ _

/-- the entities of the rows `[start, start + count)` of table `t` -/
def rowEnts (w : World) (t start count : Nat) : List Ent :=
  (List.range count).map fun i => (w.tbl t).getEntity (start + i)

end World

section

variable {run : ProbeRunner} {S : Probe → Prop} {rec : World → Nat → Ent → Probe → List LogEv}

/-- **`NewBatch(count, ids…)` with observers** (equation; no callback function, no relations):
    after the table lookup (`w1`) ALL entities are created (`createEntitiesW`); then, if
    `OnCreateEntity` observers are registered, the world is locked and for every new entity in row
    order the observers selected by the documented rule for the mask of `ids` are notified — on
    the LOCKED world with ALL entities created — and the lock is released. -/
theorem opNewBatch_obs_eq (hro : ReadOnly run S rec) (p : Path) (count : Nat) (ids : List Comp)
    (vals : List (Comp × Val)) (w : World) (hs : ScriptsIn w.obs S) (hok : ObsOK w.obs)
    (hl : w.isLocked = false) {t a : Nat} {m : Mask} {w1 : World}
    (hfoc : findOrCreateTableAdd 0 Mask.empty ids [] w = .ok (t, a, m) w1)
    {l1 l2 : Lock} {b : Nat} (hL : LockCycle w.locks l1 b l2) :
    opNewBatch run p count ids vals [] false w = .ok (t, (w1.tbl t).len)
      ((createEntitiesW w1 t count).reframe w.obs
        (rowsLog rec (firing w.obs Ev.onCreateEntity (.entity (Mask.ofList ids)))
          (rowEnts (createEntitiesW w1 t count) t (w1.tbl t).len count)
          ((createEntitiesW w1 t count).withLocks l1) ++ w.log)
        (lockAfter w Ev.onCreateEntity l2)) := by
  obtain ⟨hobs, hlog, hlocks⟩ : w1.obs = w.obs ∧ w1.log = w.log ∧ w1.locks = w.locks := by
    have := (frames_findOrCreateTableAdd 0 Mask.empty ids []).state_frame w
    rw [hfoc] at this; exact this
  have hobsC : (createEntitiesW w1 t count).obs = w.obs := by rw [createEntitiesW_obs, hobs]
  have hlogC : (createEntitiesW w1 t count).log = w.log := by rw [createEntitiesW_log, hlog]
  have hlocksC : (createEntitiesW w1 t count).locks = w.locks := by rw [createEntitiesW_locks, hlocks]
  unfold lockAfter
  cases hh : w.obs.hasObservers Ev.onCreateEntity with
  | false =>
    have hhC : (createEntitiesW w1 t count).obs.hasObservers Ev.onCreateEntity = false := by
      rw [hobsC]; exact hh
    rw [firing_nil_of_no_observers (hok.agg _) hh, rowsLog_nil_fired]
    have hself : (createEntitiesW w1 t count).reframe w.obs ([] ++ w.log) w.locks
        = createEntitiesW w1 t count := reframe_eq_self hobsC hlogC hlocksC
    simp only [Bool.false_eq_true, if_false, hself]
    cases p <;>
    simp [opNewBatch, preCheck, preCheckMap, preCheckTyped, M.forM', bind, M.bind,
      M.get, checkLocked_unlocked w hl, hfoc, createEntities_eq, registerTargets, M.modify,
      hhC, pure, M.pure]
  | true =>
    have hhC : (createEntitiesW w1 t count).obs.hasObservers Ev.onCreateEntity = true := by
      rw [hobsC]; exact hh
    have hLC : LockCycle (createEntitiesW w1 t count).locks l1 b l2 := by rw [hlocksC]; exact hL
    have hrows := fireRows_readOnly (rec := rec)
      (fun e eo => fireCreateEntity run e (Mask.ofList ids) eo)
      (firing w.obs Ev.onCreateEntity (.entity (Mask.ofList ids))) w.obs
      (fun e eo X hX => by
        rw [fireCreateEntity_readOnly hro X (by rw [hX]; exact hs) (by rw [hX]; exact hok), hX])
      (rowEnts ((createEntitiesW w1 t count).withLocks l1) t (w1.tbl t).len count)
      ((createEntitiesW w1 t count).withLocks l1) hobsC
    have hun : ∀ lg, World.unlock b (((createEntitiesW w1 t count).withLocks l1).addLog lg)
        = .ok () ((((createEntitiesW w1 t count).withLocks l1).addLog lg).withLocks l2) :=
      fun lg => unlock_of_cycle hLC rfl
    have hfin : ∀ lg, (((createEntitiesW w1 t count).withLocks l1).addLog lg).withLocks l2
        = (createEntitiesW w1 t count).reframe w.obs (lg ++ w.log) l2 := by
      intro lg
      rw [← hobsC, ← hlogC]; rfl
    simp only [if_true]
    unfold rowEnts at hrows
    cases p <;>
    simp [opNewBatch, preCheck, preCheckMap, preCheckTyped, M.forM', bind, M.bind,
      M.get, checkLocked_unlocked w hl, hfoc, createEntities_eq, registerTargets, M.modify,
      hhC, lock_of_cycle hLC, hrows, hun, hfin, rowEnts, pure, M.pure] <;> rfl

end

/-! ## `RemoveEntities` -/

/-- what a sequence of steps, each appending `F a X` to the log of the world `X` it runs on,
    appends altogether -/
def seqLog {α : Type} (F : α → World → List LogEv) : List α → World → List LogEv
  | [], _ => []
  | a :: as, X => seqLog F as (X.addLog (F a X)) ++ F a X

/-- a `for` loop whose body only appends to the log -/
theorem forIn_seqLog {α : Type} (F : α → World → List LogEv) (P : World → Prop)
    (hP : ∀ (X : World) (lg : List LogEv), P X → P (X.addLog lg))
    (g : α → PUnit → W (ForInStep PUnit))
    (hg : ∀ (a : α) (X : World), P X →
      g a PUnit.unit X = .ok (ForInStep.yield PUnit.unit) (X.addLog (F a X))) :
    ∀ (as : List α) (X : World), P X →
      (forIn as PUnit.unit g : W PUnit) X = .ok PUnit.unit (X.addLog (seqLog F as X))
  | [], _, _ => rfl
  | a :: as, X, hX => by
    rw [List.forIn_cons, M.bind_apply, hg a X hX]
    simp only []
    rw [forIn_seqLog F P hP g hg as _ (hP X _ hX)]
    simp only [seqLog, addLog_addLog]

theorem seqLog_nil {α : Type} : ∀ (as : List α) (X : World), seqLog (fun _ _ => []) as X = []
  | [], _ => rfl
  | a :: as, X => by simp only [seqLog, List.append_nil, addLog_nil]; exact seqLog_nil as X

namespace World

theorem killStep_reframe (w : World) (e : Ent) (o : ObsMgr) (lg : List LogEv) (lk : Lock) :
    killStep (w.reframe o lg lk) e = (killStep w e).reframe o lg lk := rfl

theorem foldl_killStep_reframe (f : Nat → Ent) (o : ObsMgr) (lg : List LogEv) (lk : Lock) :
    ∀ (l : List Nat) (w : World),
      l.foldl (fun W i => killStep W (f i)) (w.reframe o lg lk)
        = (l.foldl (fun W i => killStep W (f i)) w).reframe o lg lk
  | [], _ => rfl
  | i :: l, w => by
    simp only [List.foldl_cons, killStep_reframe]
    exact foldl_killStep_reframe f o lg lk l _

theorem removeTableW_reframe (w : World) (t : Nat) (o : ObsMgr) (lg : List LogEv) (lk : Lock) :
    removeTableW (w.reframe o lg lk) t = (removeTableW w t).reframe o lg lk := by
  unfold removeTableW
  have h1 : (w.reframe o lg lk).tbl t = w.tbl t := rfl
  rw [h1, foldl_killStep_reframe]
  rfl

theorem removeTablesW_reframe (o : ObsMgr) (lg : List LogEv) (lk : Lock) :
    ∀ (ts : List Nat) (w : World),
      removeTablesW (w.reframe o lg lk) ts = (removeTablesW w ts).reframe o lg lk
  | [], _ => rfl
  | t :: ts, w => by
    simp only [removeTablesW, List.foldl_cons, removeTableW_reframe]
    exact removeTablesW_reframe o lg lk ts _

/-- the cleanup part of `RemoveEntities` on a world without relation targets -/
theorem NoTargets.addLog {X : World} (h : NoTargets X) (lg : List LogEv) : NoTargets (X.addLog lg) := h

end World

/-- the log of the entity-removal callbacks of a batch: table by table, row by row -/
def tablesLog (rec : World → Nat → Ent → Probe → List LogEv) (m : ObsMgr) :
    List Nat → World → List LogEv :=
  seqLog fun t X =>
    rowsLog rec (firing m Ev.onRemoveEntity (.entity (X.arch (X.tbl t).arch).mask))
      ((List.range (X.tbl t).len).map (X.tbl t).getEntity) X

section

variable {run : ProbeRunner} {S : Probe → Prop} {rec : World → Nat → Ent → Probe → List LogEv}

set_option linter.unusedSimpArgs false in
/-- **`RemoveEntities(batch)` with observers** (equation; no callback function, no relation
    targets, the selected tables without relation columns): if `OnRemoveEntity` or
    `OnRemoveRelations` observers are registered the world is locked; then for every selected
    table, for every row, the `OnRemoveEntity` observers the documented rule selects for the
    table's mask are notified — ALL of them on the locked, otherwise unchanged world, before any
    entity is removed; then all entities are removed and the lock is released. -/
theorem opRemoveEntities_obs_eq (hro : ReadOnly run S rec) (fo : FilterObj) (extra : List RelID)
    (w : World) (hs : ScriptsIn w.obs S) (hok : ObsOK w.obs) (hl : w.isLocked = false)
    (hT : NoTargets w) {ts : List Nat} (hts : getBatchTables fo extra w = .ok ts w)
    (hnr : ∀ t ∈ ts, (w.tbl t).hasRelations = false)
    {l1 l2 : Lock} {b : Nat} (hL : LockCycle w.locks l1 b l2) :
    opRemoveEntities run fo extra false w = .ok ()
      ((removeTablesW w ts).reframe w.obs
        (tablesLog rec w.obs ts (w.withLocks l1) ++ w.log)
        (if w.obs.hasObservers Ev.onRemoveEntity || w.obs.hasObservers Ev.onRemoveRelations
          then l2 else w.locks)) := by
  -- the three loops, on any world `X` that is `w` up to log and lock
  have hEnt : ∀ (X : World), X.obs = w.obs →
      (forIn ts PUnit.unit (fun t (_ : PUnit) => (do
          let w ← M.get
          fireRows (fun e eo => fireRemoveEntity run e (w.arch (w.tbl t).arch).mask eo)
            (List.map (w.tbl t).getEntity (List.range (w.tbl t).len))
          pure (ForInStep.yield PUnit.unit) : W (ForInStep PUnit))) : W PUnit) X
        = .ok PUnit.unit (X.addLog (tablesLog rec w.obs ts X)) := by
    intro X hX
    refine forIn_seqLog _ (fun Y => Y.obs = w.obs) (fun _ _ h => h) _ ?_ ts X hX
    intro t Y hY
    simp only [M.bind_apply, M.get_apply]
    rw [fireRows_readOnly (rec := rec) _
      (firing w.obs Ev.onRemoveEntity (.entity (Y.arch (Y.tbl t).arch).mask)) w.obs
      (fun e eo Z hZ => by
        rw [fireRemoveEntity_readOnly hro Z (by rw [hZ]; exact hs) (by rw [hZ]; exact hok), hZ])
      _ Y hY]
    rfl
  have hRel : ∀ (X : World), (∀ t ∈ ts, (X.tbl t).hasRelations = false) →
      (forIn ts PUnit.unit (fun t (_ : PUnit) => (do
          let w ← M.get
          if (!(w.tbl t).hasRelations) = true then pure (ForInStep.yield PUnit.unit)
          else do
            fireRows (fun e eo => fireRemoveEntityRel run e (w.arch (w.tbl t).arch).mask eo)
              (List.map (w.tbl t).getEntity (List.range (w.tbl t).len))
            pure (ForInStep.yield PUnit.unit) : W (ForInStep PUnit))) : W PUnit) X
        = .ok PUnit.unit X := by
    intro X hX
    have key : ∀ (l : List Nat), (∀ t ∈ l, (X.tbl t).hasRelations = false) →
        (forIn l PUnit.unit (fun t (_ : PUnit) => (do
          let w ← M.get
          if (!(w.tbl t).hasRelations) = true then pure (ForInStep.yield PUnit.unit)
          else do
            fireRows (fun e eo => fireRemoveEntityRel run e (w.arch (w.tbl t).arch).mask eo)
              (List.map (w.tbl t).getEntity (List.range (w.tbl t).len))
            pure (ForInStep.yield PUnit.unit) : W (ForInStep PUnit))) : W PUnit) X
          = .ok PUnit.unit X := by
      intro l
      induction l with
      | nil => intro _; rfl
      | cons t l ih =>
        intro h
        rw [List.forIn_cons, M.bind_apply, M.bind_apply, M.get_apply]
        simp only [h t List.mem_cons_self, Bool.not_false, if_true, M.pure_apply]
        exact ih (fun t' ht' => h t' (List.mem_cons_of_mem _ ht'))
    exact key ts hX
  have hRem : ∀ (X : World), NoTargets X →
      (forIn ts ([] : List Ent) (fun t (__s : List Ent) => (do
          let w ← M.get
          let __s ← forIn (List.range (w.tbl t).len) __s fun i (__s : List Ent) => (do
            let w_1 ← M.get
            if w_1.isTarget.getD ((w.tbl t).getEntity i).id false = true then do
              M.modify fun w_2 => { w_2 with
                entities := w_2.entities.modify ((w.tbl t).getEntity i).id fun x => (maxU32, x.snd)
                pool := w_2.pool.recycle ((w.tbl t).getEntity i) }
              pure (ForInStep.yield (__s ++ [(w.tbl t).getEntity i]))
            else do
              M.modify fun w_2 => { w_2 with
                entities := w_2.entities.modify ((w.tbl t).getEntity i).id fun x => (maxU32, x.snd)
                pool := w_2.pool.recycle ((w.tbl t).getEntity i) }
              pure (ForInStep.yield __s) : W (ForInStep (List Ent)))
          M.modify fun w => w.modTbl t Table.reset
          pure (ForInStep.yield __s) : W (ForInStep (List Ent)))) : W (List Ent)) X
        = .ok [] (removeTablesW X ts) := by
    intro X hX
    rw [forIn_fold_inv NoTargets removeTableW _ [] ?_ ?_ ts X hX]
    · rfl
    · intro t W hW
      simp only [M.bind_apply, M.get_apply]
      rw [forIn_fold_inv NoTargets (fun W' i => killStep W' ((W.tbl t).getEntity i)) _ [] ?_ ?_ _ W hW]
      · rfl
      · intro i W' hW'
        simp only [M.bind_apply, M.get_apply, hW' _, Bool.false_eq_true, if_false]
        rfl
      · intro i W' hW'; exact hW'
    · intro t W hW
      have : ∀ (l : List Nat) (W' : World), NoTargets W' →
          NoTargets (l.foldl (fun W' i => killStep W' ((W.tbl t).getEntity i)) W') := by
        intro l
        induction l with
        | nil => intro W' h; exact h
        | cons x l ih => intro W' h; exact ih _ h
      exact this _ W hW
  have htsL : getBatchTables fo extra (w.withLocks l1) = .ok ts (w.withLocks l1) := by
    have := frames_getBatchTables fo extra w w.obs w.log l1
    rw [hts] at this
    exact this
  have hun : ∀ (X : World), X.locks = l1 → World.unlock b X = .ok () (X.withLocks l2) :=
    fun X hX => unlock_of_cycle hL hX
  have hnoE : w.obs.hasObservers Ev.onRemoveEntity = false → ∀ X, tablesLog rec w.obs ts X = [] := by
    intro hh X
    unfold tablesLog
    have : (fun t (X : World) =>
        rowsLog rec (firing w.obs Ev.onRemoveEntity (.entity (X.arch (X.tbl t).arch).mask))
          ((List.range (X.tbl t).len).map (X.tbl t).getEntity) X) = fun _ _ => [] := by
      funext t X
      rw [firing_nil_of_no_observers (hok.agg _) hh, rowsLog_nil_fired]
    rw [this, seqLog_nil]
  have hfinish : ∀ LG : List LogEv, World.unlock b (removeTablesW (w.reframe w.obs LG l1) ts)
      = .ok () ((removeTablesW w ts).reframe w.obs LG l2) := by
    intro LG
    rw [removeTablesW_reframe]
    exact hun _ rfl
  unfold opRemoveEntities
  cases hE : w.obs.hasObservers Ev.onRemoveEntity <;> cases hR : w.obs.hasObservers Ev.onRemoveRelations
  · -- no observers at all: no lock
    simp only [M.bind_apply, checkLocked_unlocked w hl, M.get_apply, hE, hR, Bool.or_self,
      Bool.false_eq_true, if_false, M.pure_apply, hts]
    rw [hRem w hT]
    simp only [List.forIn_nil, M.pure_apply, hnoE hE, List.nil_append]
    rw [← removeTablesW_reframe, reframe_self]
  · simp only [M.bind_apply, checkLocked_unlocked w hl, M.get_apply, hE, hR, Bool.or_true,
      Bool.or_false, Bool.true_or, Bool.false_or, Bool.false_eq_true, if_false, if_true,
      M.pure_apply, lock_of_cycle hL, htsL]
    rw [hRel (w.withLocks l1) hnr]
    simp only []
    rw [hRem (w.withLocks l1) hT]
    simp only [List.forIn_nil, M.pure_apply, hnoE hE, List.nil_append]
    exact hfinish w.log
  · simp only [M.bind_apply, checkLocked_unlocked w hl, M.get_apply, hE, hR, Bool.or_true,
      Bool.or_false, Bool.true_or, Bool.false_or, Bool.false_eq_true, if_false, if_true,
      M.pure_apply, lock_of_cycle hL, htsL]
    rw [hEnt (w.withLocks l1) rfl]
    simp only []
    rw [hRem ((w.withLocks l1).addLog _) hT]
    simp only [List.forIn_nil, M.pure_apply]
    exact hfinish _
  · simp only [M.bind_apply, checkLocked_unlocked w hl, M.get_apply, hE, hR, Bool.or_true,
      Bool.or_false, Bool.true_or, Bool.false_or, Bool.false_eq_true, if_false, if_true,
      M.pure_apply, lock_of_cycle hL, htsL]
    rw [hEnt (w.withLocks l1) rfl]
    simp only []
    rw [hRel ((w.withLocks l1).addLog _) hnr]
    simp only []
    rw [hRem ((w.withLocks l1).addLog _) hT]
    simp only [List.forIn_nil, M.pure_apply]
    exact hfinish _

end

/-! ## the callback records of the batches, and the operations under the invariant -/

/-- the `cb` records of the entity-removal callbacks of a batch: for every table in order, for
    every row in order, every observer selected for the table's mask in order -/
theorem cbsOf_tablesLog {rec : World → Nat → Ent → Probe → List LogEv} (hn : NoCb rec) (m : ObsMgr) :
    ∀ (ts : List Nat) (X : World),
      cbsOf (tablesLog rec m ts X)
        = (ts.flatMap fun t => ((List.range (X.tbl t).len).map (X.tbl t).getEntity).flatMap fun e =>
            (firing m Ev.onRemoveEntity (.entity (X.arch (X.tbl t).arch).mask)).map
              fun l => (l, e)).reverse
  | [], _ => rfl
  | t :: ts, X => by
    show cbsOf (seqLog _ ts _ ++ _) = _
    rw [cbsOf_append, cbsOf_rowsLog hn]
    have := cbsOf_tablesLog hn m ts (X.addLog
      (rowsLog rec (firing m Ev.onRemoveEntity (.entity (X.arch (X.tbl t).arch).mask))
        ((List.range (X.tbl t).len).map (X.tbl t).getEntity) X))
    unfold tablesLog at this
    rw [this]
    simp only [List.flatMap_cons, List.reverse_append]
    rfl

/-- for a log-blind runner ALL records of the removal callbacks of a batch are functions of the
    one world the first callback saw -/
theorem tablesLog_blind {rec : World → Nat → Ent → Probe → List LogEv} (hb : LogBlind rec)
    (m : ObsMgr) : ∀ (ts : List Nat) (X : World), X.obs = m →
      tablesLog rec m ts X
        = (ts.reverse.flatMap fun t =>
            ((List.range (X.tbl t).len).map (X.tbl t).getEntity).reverse.flatMap fun e =>
              (firing m Ev.onRemoveEntity (.entity (X.arch (X.tbl t).arch).mask)).reverse.flatMap
                fun l => notifyFlat rec l e X)
  | [], _, _ => rfl
  | t :: ts, X, hX => by
    show seqLog _ ts _ ++ _ = _
    have := tablesLog_blind hb m ts (X.addLog
      (rowsLog rec (firing m Ev.onRemoveEntity (.entity (X.arch (X.tbl t).arch).mask))
        ((List.range (X.tbl t).len).map (X.tbl t).getEntity) X)) hX
    unfold tablesLog at this
    have e2 := rowsLog_blind hb (firing m Ev.onRemoveEntity (.entity (X.arch (X.tbl t).arch).mask))
      ((List.range (X.tbl t).len).map (X.tbl t).getEntity) X
    rw [this, e2]
    simp only [List.reverse_cons, List.flatMap_append, List.flatMap_cons, List.flatMap_nil,
      List.append_nil]
    congr 1
    apply flatMap_congr'
    intro t' _
    apply flatMap_congr'
    intro e _
    apply flatMap_congr'
    intro l _
    simp only [notifyFlat, addLog_obs]
    congr 1
    apply flatMap_congr'
    intro p _
    exact hb X _ l e p

namespace World

theorem createStep_reframe (t start : Nat) (w : World) (k : Nat) (o : ObsMgr) (lg : List LogEv)
    (lk : Lock) :
    createStep t start (w.reframe o lg lk) k = (createStep t start w k).reframe o lg lk := by
  rw [createStep_upd, createStep_upd]; rfl

theorem foldl_createStep_reframe (t start : Nat) (o : ObsMgr) (lg : List LogEv) (lk : Lock) :
    ∀ (l : List Nat) (w : World),
      l.foldl (createStep t start) (w.reframe o lg lk)
        = (l.foldl (createStep t start) w).reframe o lg lk
  | [], _ => rfl
  | k :: l, w => by
    simp only [List.foldl_cons, createStep_reframe]
    exact foldl_createStep_reframe t start o lg lk l _

theorem createEntitiesW_reframe (w : World) (t n : Nat) (o : ObsMgr) (lg : List LogEv) (lk : Lock) :
    createEntitiesW (w.reframe o lg lk) t n = (createEntitiesW w t n).reframe o lg lk := by
  unfold createEntitiesW createPrefix
  have h1 : (w.reframe o lg lk).tbl t = w.tbl t := rfl
  have h2 : (w.reframe o lg lk).modTbl t (fun T => T.alloc n)
      = (w.modTbl t fun T => T.alloc n).reframe o lg lk := rfl
  rw [h1, h2, foldl_createStep_reframe]

end World

section

variable {run : ProbeRunner} {S : Probe → Prop} {rec : World → Nat → Ent → Probe → List LogEv}
  {w : World} {fl : List Nat}

/-- **C08 + C09 for `NewBatch(count, ids…)`** (no callback function).  The batch succeeds as on
    the world without observers (`w1` after the table lookup, then `createEntitiesW`) and leaves
    that world with the observers put back; its `cb` records are, for every new entity in row
    order, the `OnCreateEntity` observers the documented rule selects for the mask of `ids`; and
    for a log-blind runner ALL records are functions of the one world `seen` — ALL entities
    created, the world locked: every callback of the batch runs AFTER all entities exist. -/
theorem newBatch_callbacks (st : Setting run S rec w fl) (hb : LogBlind rec) (run0 : ProbeRunner)
    (p : Path) (hl : w.isLocked = false) {ids : List Comp} (hnd : ids.Nodup)
    (hreg : ∀ (c : Comp), c ∈ ids → c < w.kinds.length) (vals : List (Comp × Val)) (count : Nat)
    {l1 l2 : Lock} {b : Nat} (hL : LockCycle w.locks l1 b l2) :
    ∃ (t : Nat) (w1 seen w' : World),
      opNewBatch run0 p count ids vals [] false w.noObs
        = .ok (t, (w1.tbl t).len) (createEntitiesW w1 t count) ∧
      opNewBatch run p count ids vals [] false w = .ok (t, (w1.tbl t).len) w' ∧
      FrameOf (createEntitiesW w1 t count) w w' ∧
      seen = (createEntitiesW w1 t count).reframe w.obs w.log l1 ∧ seen.isLocked = true ∧
      cbsOf w'.log =
        ((rowEnts seen t (w1.tbl t).len count).flatMap fun e =>
          (firing w.obs Ev.onCreateEntity (.entity (Mask.ofList ids))).map fun l => (l, e)).reverse
        ++ cbsOf w.log ∧
      w'.log =
        ((rowEnts seen t (w1.tbl t).len count).reverse.flatMap fun e =>
          (firing w.obs Ev.onCreateEntity (.entity (Mask.ofList ids))).reverse.flatMap
            fun l => notifyFlat rec l e seen) ++ w.log := by
  have h := st.inv
  obtain ⟨t, a, w1, hfoc0, fc, _, _, _⟩ :=
    h.sinv.findOrCreateTableAdd_spec_new h.idx hnd hreg (fun c _ => h.noRelKinds c)
  have hu := findOrCreateTableAdd_untouched hfoc0
  have hfoc : findOrCreateTableAdd 0 Mask.empty ids [] w
      = .ok (t, a, Mask.ofList ids) (w1.reframe w.obs w.log w.locks) := by
    have := frames_findOrCreateTableAdd 0 Mask.empty ids [] w.noObs w.obs w.log w.locks
    rw [hfoc0] at this
    exact this
  have heq := opNewBatch_obs_eq st.ro p count ids vals w st.scripts st.obs hl hfoc hL
  have h0 := opNewBatch_eq run0 p count ids vals w.noObs hl hfoc0 (by rw [hu.obs]; exact h.noObs)
  rw [createEntitiesW_reframe] at heq
  refine ⟨t, w1, (createEntitiesW w1 t count).reframe w.obs w.log l1, _, h0, heq, rfl, rfl,
    Ark.LockCycle.locked hL, ?_, ?_⟩
  · show cbsOf (rowsLog rec _ _ _ ++ w.log) = _
    rw [cbsOf_append, cbsOf_rowsLog st.noCb]
    rfl
  · show rowsLog rec _ _ _ ++ w.log = _
    rw [rowsLog_blind hb]
    rfl

/-- **C08 + C09 for `RemoveEntities(batch)`** (uncached filter, no callback function).  The batch
    succeeds as on the world without observers and leaves that world with the observers put back;
    its `cb` records are, for every selected table in order, for every row in order, the
    `OnRemoveEntity` observers the documented rule selects for the table's mask; and for a
    log-blind runner ALL records are functions of the one world `w.withLocks l1`: every callback
    of the batch runs BEFORE any entity is removed, under the lock. -/
theorem removeEntities_callbacks (st : Setting run S rec w fl) (hb : LogBlind rec)
    (run0 : ProbeRunner) (hl : w.isLocked = false) (fo : FilterObj) (extra : List RelID)
    (hc : fo.cache = none) {l1 l2 : Lock} {b : Nat} (hL : LockCycle w.locks l1 b l2) :
    ∃ w' : World,
      opRemoveEntities run0 fo extra false w.noObs
        = .ok () (removeTablesW w.noObs (World.selTables w.noObs fo.filter)) ∧
      opRemoveEntities run fo extra false w = .ok () w' ∧
      FrameOf (removeTablesW w.noObs (World.selTables w.noObs fo.filter)) w w' ∧
      cbsOf w'.log =
        ((World.selTables w fo.filter).flatMap fun t =>
          ((List.range (w.tbl t).len).map (w.tbl t).getEntity).flatMap fun e =>
            (firing w.obs Ev.onRemoveEntity (.entity (w.arch (w.tbl t).arch).mask)).map
              fun l => (l, e)).reverse ++ cbsOf w.log ∧
      w'.log =
        ((World.selTables w fo.filter).reverse.flatMap fun t =>
          ((List.range (w.tbl t).len).map (w.tbl t).getEntity).reverse.flatMap fun e =>
            (firing w.obs Ev.onRemoveEntity (.entity (w.arch (w.tbl t).arch).mask)).reverse.flatMap
              fun l => notifyFlat rec l e (w.withLocks l1)) ++ w.log := by
  have h := st.inv
  have hts0 := getBatchTables_frag h fo extra hc
  have hts : getBatchTables fo extra w = .ok (World.selTables w fo.filter) w := by
    have := frames_getBatchTables fo extra w.noObs w.obs w.log w.locks
    rw [hts0] at this
    exact this
  have hnr : ∀ t ∈ World.selTables w fo.filter, (w.tbl t).hasRelations = false := by
    intro t ht
    have S := selTables_tableSet h fo.filter
    have hlt : t < w.tables.length := S.lt t ht
    have := CInv.relIDs_nil h hlt
    show (!(w.tbl t).relIDs.isEmpty) = false
    rw [show (w.tbl t).relIDs = [] from this]; rfl
  have heq := opRemoveEntities_obs_eq st.ro fo extra w st.scripts st.obs hl (h.noTargets) hts hnr hL
  refine ⟨_, opRemoveEntities_eq run0 fo extra w.noObs hl h.noObs h.noTargets hts0, heq, ?_, ?_, ?_⟩
  · show _ = (removeTablesW w.noObs _).reframe w.obs _ _
    rw [noObs_eq_reframe, removeTablesW_reframe]
    rfl
  · show cbsOf (tablesLog rec w.obs _ (w.withLocks l1) ++ w.log) = _
    rw [cbsOf_append, cbsOf_tablesLog st.noCb]
    rfl
  · show tablesLog rec w.obs _ (w.withLocks l1) ++ w.log = _
    rw [tablesLog_blind hb w.obs _ (w.withLocks l1) rfl]
    rfl

end

end Ark
