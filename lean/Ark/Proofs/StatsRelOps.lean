/-
  Ark.Proofs.StatsRelOps — property C19 for worlds WITH relation tables, part 4: every entity
  operation of the relation machines is `Fr` (see `Ark.Proofs.StatsRelStep`): run on a world
  without observers, with ANY callback runner, it neither reads nor writes the statistics object
  and on success only appends archetypes, keeps component list and relation count of the
  existing ones, keeps the registered sizes and registers no observer.

  `fr_opNewEntity`, `fr_opAdd`, `fr_opRemove`, `fr_opExchange`, `fr_opSetRelations`, `fr_opSet`,
  `fr_opRemoveEntity` (with `cleanupArchetypes`: relation tables are freed and recycled),
  `fr_opCopyEntity`.

  Kernel-only proofs, core Lean only.
-/
import Ark.Proofs.StatsRelStep
import Ark.Proofs.CallbacksRel
import Ark.Proofs.TargetsMove

set_option autoImplicit false

namespace Ark

open World

namespace World

variable (run : ProbeRunner)

theorem fr_fireCreateEntityIfHas (e : Ent) (mask : Mask) : Fr (fireCreateEntityIfHas run e mask) :=
  Fr.of_skip fun w hno => fireCreateEntityIfHas_none run e mask w (hno _)

theorem fr_fireCreateEntityRelIfHas (e : Ent) (mask : Mask) :
    Fr (fireCreateEntityRelIfHas run e mask) :=
  Fr.of_skip fun w hno => fireCreateEntityRelIfHas_none run e mask w (hno _)

theorem fr_fireAddIfHas (evt : Nat) (e : Ent) (old new : Mask) :
    Fr (fireAddIfHas run evt e old new) :=
  Fr.of_skip fun w hno => fireAddIfHas_none run evt e old new w (hno _)

/-- the leaves of an operation: primitives that are `Fr` -/
syntax "fr_leaf" : tactic
macro_rules | `(tactic| fr_leaf) => `(tactic| exact Fr.pure _)
macro_rules | `(tactic| fr_leaf) => `(tactic| exact Fr.assert _ _)
macro_rules | `(tactic| fr_leaf) => `(tactic| exact Fr.panic _)
macro_rules | `(tactic| fr_leaf) => `(tactic| exact fr_checkLocked)
macro_rules | `(tactic| fr_leaf) => `(tactic| apply fr_preCheck)
macro_rules | `(tactic| fr_leaf) => `(tactic| apply fr_writeVals)
macro_rules | `(tactic| fr_leaf) => `(tactic| apply fr_registerTargets)
macro_rules | `(tactic| fr_leaf) => `(tactic| apply fr_placeNew)
macro_rules | `(tactic| fr_leaf) => `(tactic| apply fr_getTable)
macro_rules | `(tactic| fr_leaf) => `(tactic| apply fr_createTable)
macro_rules | `(tactic| fr_leaf) => `(tactic| apply fr_findOrCreateTableAdd)
macro_rules | `(tactic| fr_leaf) => `(tactic| apply fr_findOrCreateTableRemove)
macro_rules | `(tactic| fr_leaf) => `(tactic| apply fr_findOrCreateTable)
macro_rules | `(tactic| fr_leaf) => `(tactic| apply fr_fireCreateEntityIfHas)
macro_rules | `(tactic| fr_leaf) => `(tactic| apply fr_fireCreateEntityRelIfHas)
macro_rules | `(tactic| fr_leaf) => `(tactic| apply fr_fireAddIfHas)

/-- walk over a tree of `if`s, `get`s and binds down to the leaves (not through a `get` whose
    body tests for observers: that one is resolved by hand with `Fr.get_bind_noObs`) -/
syntax "fr_tree" : tactic
macro_rules
  | `(tactic| fr_tree) => `(tactic| repeat' (first
      | with_reducible fr_leaf
      | with_reducible apply Fr.ite
      | ((with_reducible refine Fr.get_bind' ?_ fun _ => ?_); (intro _ _; rfl))
      | ((with_reducible refine Fr.bind ?_ fun x => ?_); rotate_left;
          (obtain ⟨_, _⟩ := x; dsimp only); rotate_left)
      | (with_reducible refine Fr.bind ?_ fun _ => ?_)))

/-! ## `NewEntity` -/

theorem fr_newEntityCore (ids : List Comp) (rels : List RelID) : Fr (newEntityCore ids rels) := by
  unfold newEntityCore
  refine Fr.bind fr_checkLocked fun _ => ?_
  refine Fr.bind (fr_findOrCreateTableAdd _ _ _ _) fun x => ?_
  obtain ⟨t, a, m⟩ := x
  dsimp only
  refine Fr.bind (fr_placeNew _ _) fun y => ?_
  obtain ⟨e, i⟩ := y
  dsimp only
  refine Fr.bind (fr_registerTargets _) fun _ => ?_
  exact Fr.get_bind' (fun _ _ => rfl) fun w => Fr.pure _

theorem fr_opNewEntity (p : Path) (ids : List Comp) (vals : List (Comp × Val)) (rels : List RelID) :
    Fr (opNewEntity run p ids vals rels) := by
  unfold opNewEntity
  refine Fr.bind (fr_preCheck _ _ _) fun _ => ?_
  refine Fr.bind (fr_newEntityCore _ _) fun x => ?_
  obtain ⟨e, mask⟩ := x
  dsimp only
  fr_tree

/-! ## `Add`, `Remove`, `Exchange` -/

theorem fr_addCore (e : Ent) (add : List Comp) (rels : List RelID) : Fr (addCore e add rels) := by
  unfold addCore
  refine Fr.bind fr_checkLocked fun _ => ?_
  refine Fr.get_bind' (fun _ _ => rfl) fun w => ?_
  refine Fr.bind (Fr.assert _ _) fun _ => ?_
  refine Fr.bind (Fr.assert _ _) fun _ => ?_
  generalize w.index e.id = ix
  obtain ⟨oldT, row⟩ := ix
  dsimp only
  refine Fr.bind (fr_findOrCreateTableAdd _ _ _ _) fun x => ?_
  obtain ⟨newT, newA, mask⟩ := x
  dsimp only
  refine fr_addMove_bind e oldT row newT mask fun _ => ?_
  refine Fr.bind (fr_registerTargets _) fun _ => ?_
  exact Fr.get_bind' (fun _ _ => rfl) fun w => Fr.pure _


macro_rules | `(tactic| fr_leaf) => `(tactic| apply fr_addCore)

theorem fr_opAdd (p : Path) (e : Ent) (ids : List Comp) (vals : List (Comp × Val))
    (rels : List RelID) : Fr (opAdd run p e ids vals rels) := by
  unfold opAdd
  dsimp only
  fr_tree

theorem fr_removeCore (e : Ent) (rem : List Comp) : Fr (removeCore run e rem) := by
  unfold removeCore
  refine Fr.bind fr_checkLocked fun _ => ?_
  refine Fr.get_bind' (fun _ _ => rfl) fun w => ?_
  refine Fr.bind (Fr.assert _ _) fun _ => ?_
  refine Fr.bind (Fr.assert _ _) fun _ => ?_
  generalize w.index e.id = ix
  obtain ⟨oldT, row⟩ := ix
  dsimp only
  refine Fr.bind (fr_findOrCreateTableRemove _ _ _) fun x => ?_
  obtain ⟨newT, a, mask, relRemoved⟩ := x
  dsimp only
  refine Fr.get_bind_noObs (g := ?g) (fun _ _ => rfl) (fun w hno => ?e) (fun w => ?_)
  case e =>
    simp only [hno _, Bool.and_false, Bool.or_false, Bool.false_eq_true, if_false]
    exact rfl
  exact fr_addMove e oldT row newT mask

macro_rules | `(tactic| fr_leaf) => `(tactic| apply fr_removeCore)

theorem fr_opRemove (p : Path) (e : Ent) (ids : List Comp) : Fr (opRemove run p e ids) := by
  unfold opRemove
  dsimp only
  fr_tree


theorem fr_exchangeCore (e : Ent) (add rem : List Comp) (rels : List RelID) :
    Fr (exchangeCore run e add rem rels) := by
  unfold exchangeCore
  refine Fr.bind fr_checkLocked fun _ => ?_
  refine Fr.get_bind' (fun _ _ => rfl) fun w => ?_
  refine Fr.bind (Fr.assert _ _) fun _ => ?_
  refine Fr.bind (Fr.assert _ _) fun _ => ?_
  generalize w.index e.id = ix
  obtain ⟨oldT, row⟩ := ix
  dsimp only
  refine Fr.bind (fr_findOrCreateTable _ _ _ _ _) fun x => ?_
  obtain ⟨newT, newA, mask, relRemoved⟩ := x
  dsimp only
  have rest : Fr ((fun w => let (N, i) := (w.tbl newT).add e; Res.ok i (w.setTbl newT N) : W Nat) >>=
      fun newIndex => moveRow e oldT row newT newIndex mask >>= fun _ =>
        registerTargets rels >>= fun _ => M.get >>= fun w_2 =>
          (Pure.pure ((w.arch (w.tbl oldT).arch).mask, (w_2.arch newA).mask) : W (Mask × Mask))) := by
    refine fr_addMove_bind e oldT row newT mask fun _ => ?_
    refine Fr.bind (fr_registerTargets _) fun _ => ?_
    exact Fr.get_bind' (fun _ _ => rfl) fun w => Fr.pure _
  apply Fr.ite
  · refine Fr.get_bind_noObs (g := ?g) (fun _ _ => rfl) (fun w1 hno => ?e) (fun w1 => ?_)
    case e =>
      simp only [hno _, Bool.and_false, Bool.or_false, Bool.false_eq_true, if_false]
      exact rfl
    exact rest
  · exact rest

macro_rules | `(tactic| fr_leaf) => `(tactic| apply fr_exchangeCore)

theorem fr_opExchange (p : Path) (e : Ent) (add : List Comp) (vals : List (Comp × Val))
    (rem : List Comp) (rels : List RelID) : Fr (opExchange run p e add vals rem rels) := by
  unfold opExchange
  dsimp only
  fr_tree

/-! ## `Set`, `SetRelations` -/

theorem fr_opSet (e : Ent) (ids : List Comp) (vals : List (Comp × Val)) :
    Fr (opSet run e ids vals) := by
  unfold opSet
  refine Fr.get_bind' (fun _ _ => rfl) fun w => ?_
  refine Fr.bind (Fr.assert _ _) fun _ => ?_
  dsimp only
  refine Fr.bind (Fr.assert _ _) fun _ => ?_
  refine Fr.bind (fr_writeVals _ _) fun _ => ?_
  refine Fr.get_bind_noObs (g := ?g) (fun _ _ => rfl) (fun w hno => ?e) (fun w => ?_)
  case e =>
    simp only [hno _, Bool.false_eq_true, if_false]
    exact rfl
  exact Fr.pure _

theorem fr_getExchangeTargets (T : Table) (rels : List RelID) : Fr (getExchangeTargets T rels) :=
  fun w _ =>
  ⟨fun st => by
      rw [getExchangeTargets_any T rels w (w.setStats st)]
      have hs := getExchangeTargets_state T rels w
      cases hr : getExchangeTargets T rels w with
      | ok r s => rw [hr] at hs; simp only [Res.state] at hs; subst hs; rfl
      | panic k s => rw [hr] at hs; simp only [Res.state] at hs; subst hs; rfl,
    fun a w' h => by
      have hs := getExchangeTargets_state T rels w
      rw [h] at hs
      simp only [Res.state] at hs
      subst hs
      exact RStep.refl _⟩

theorem fr_setRelationsCore (e : Ent) (rels : List RelID) : Fr (setRelationsCore run e rels) := by
  unfold setRelationsCore
  refine Fr.bind fr_checkLocked fun _ => ?_
  refine Fr.get_bind' (fun _ _ => rfl) fun w => ?_
  refine Fr.bind (Fr.assert _ _) fun _ => ?_
  refine Fr.bind (Fr.assert _ _) fun _ => ?_
  generalize w.index e.id = ix
  obtain ⟨oldT, row⟩ := ix
  dsimp only
  refine Fr.bind (fr_getExchangeTargets _ _) fun x => ?_
  apply Fr.ite
  · exact Fr.pure _
  have rest : ∀ (newT : Nat), Fr (M.get >>= fun w_1 =>
      if w_1.obs.hasObservers Ev.onRemoveRelations = true then do
        let l ← lock
        let _ ← fireSet run Ev.onRemoveRelations e x.2.snd (w_1.arch (w.tbl oldT).arch).mask true
        unlock l
        let newIndex ← (fun w => Res.ok ((w.tbl newT).add e).snd (w.setTbl newT ((w.tbl newT).add e).fst) : W Nat)
        moveRow e oldT row newT newIndex (w_1.arch (w.tbl oldT).arch).mask
        registerTargets rels
        let w_2 ← M.get
        if w_2.obs.hasObservers Ev.onAddRelations = true then do
          let _ ← fireSet run Ev.onAddRelations e x.2.snd (w_2.arch (w.tbl oldT).arch).mask true
          pure ()
        else pure ()
      else do
        let newIndex ← (fun w => Res.ok ((w.tbl newT).add e).snd (w.setTbl newT ((w.tbl newT).add e).fst) : W Nat)
        moveRow e oldT row newT newIndex (w_1.arch (w.tbl oldT).arch).mask
        registerTargets rels
        let w_2 ← M.get
        if w_2.obs.hasObservers Ev.onAddRelations = true then do
          let _ ← fireSet run Ev.onAddRelations e x.2.snd (w_2.arch (w.tbl oldT).arch).mask true
          pure ()
        else pure ()) := by
    intro newT
    refine Fr.get_bind_noObs (g := ?g) (fun _ _ => rfl) (fun w1 hno => ?e) (fun w1 => ?_)
    case e =>
      simp only [hno _, Bool.false_eq_true, if_false]
      exact rfl
    refine fr_addMove_bind e oldT row newT _ fun _ => ?_
    refine Fr.bind (fr_registerTargets _) fun _ => ?_
    refine Fr.get_bind_noObs (g := ?g2) (fun _ _ => rfl) (fun w2 hno => ?e2) (fun w2 => ?_)
    case e2 =>
      simp only [hno _, Bool.false_eq_true, if_false]
      exact rfl
    exact Fr.pure _
  refine Fr.bind (fr_getTable _ _) fun r => ?_
  cases r with
  | some t => exact rest t
  | none => exact Fr.bind (fr_createTable _ _) fun newT => rest newT

theorem fr_opSetRelations (p : Path) (e : Ent) (mapperIds : List Comp) (rels : List RelID) :
    Fr (opSetRelations run p e mapperIds rels) := by
  unfold opSetRelations
  exact Fr.bind (fr_preCheck _ _ _) fun _ => fr_setRelationsCore run e rels


/-! ## `RemoveEntity` with `cleanupArchetypes` -/

theorem foldl_setStats {γ : Type} (F : World → γ → World)
    (hF : ∀ (w : World) (st : WorldStats) (x : γ), F (w.setStats st) x = (F w x).setStats st)
    (st : WorldStats) : ∀ (l : List γ) (w : World),
      l.foldl F (w.setStats st) = (l.foldl F w).setStats st
  | [], _ => rfl
  | x :: l, w => by
    simp only [List.foldl_cons]
    rw [hF, foldl_setStats F hF st l]

theorem moveEntitiesW_setStats (w : World) (st : WorldStats) (src dst count : Nat) :
    moveEntitiesW (w.setStats st) src dst count = (moveEntitiesW w src dst count).setStats st := by
  rw [moveEntitiesW_def, moveEntitiesW_def]
  let X := w.modTbl dst fun D => D.addAll (w.tbl src) count
  let l := List.range ((X.tbl dst).len - (w.tbl dst).len)
  have h := foldl_setStats (idxStep dst (w.tbl dst).len) (fun _ _ _ => rfl) st l X
  show ((l.foldl (idxStep dst (w.tbl dst).len) (X.setStats st)).modTbl src Table.reset) = _
  rw [h]
  rfl

theorem fr_moveEntities (src dst count : Nat) : Fr (moveEntities src dst count) := fun w _ =>
  ⟨fun st => by
      rw [moveEntities_eq, moveEntities_eq, moveEntitiesW_setStats]; rfl,
    fun a w' h => by
      rw [moveEntities_eq] at h
      injection h with _ h; subst h
      obtain ⟨h1, h2, _, _, _, _, h7, _, _⟩ := moveEntitiesW_fields w src dst count
      exact RStep.of_eq h1 h2
        (moveEntitiesW_keep (·.stats) (fun _ _ _ => rfl) (fun _ _ _ _ => rfl) w src dst count) h7⟩

/-- overwrite one archetype keeping its component list and relation count -/
theorem rstep_modArch (w : World) (a : Nat) (f : Archetype → Archetype)
    (hc : (f (w.arch a)).comps = (w.arch a).comps)
    (hn : (f (w.arch a)).numRel = (w.arch a).numRel) : RStep w (w.modArch a f) :=
  RStep.of_sstep_obs (SStep.modArch w a f hc hn) rfl

/-- the freeing block of the inner loop of `cleanupArchetypes`: the table leaves the active list
    of its archetype -/
theorem rstep_free (w : World) (a tid : Nat) :
    RStep w ((w.modArch a fun A => A.freeTable tid).modTbl tid fun T => { T with isFree := true }) := by
  have h1 := rstep_modArch w a (fun A => A.freeTable tid)
    (Archetype.freeTable_archRel _ tid).comps (Archetype.freeTable_archRel _ tid).numRel
  have h2 : RStep (w.modArch a fun A => A.freeTable tid)
      ((w.modArch a fun A => A.freeTable tid).modTbl tid fun T => { T with isFree := true }) :=
    RStep.of_eq rfl rfl rfl rfl
  exact h1.trans h2

theorem fr_cleanTable (g : Ent) (a tid : Nat) : Fr (cleanTable g a tid) := by
  unfold cleanTable
  refine Fr.get_bind' (fun _ _ => rfl) fun w => ?_
  dsimp only
  have tail : Fr ((M.modify fun w => (w.modArch a fun A => A.freeTable tid).modTbl tid
      fun T => { T with isFree := true }) >>= fun _ => (M.modify fun w => w.cacheRemoveTable tid : W Unit)) :=
    Fr.bind (Fr.modify (fun _ _ => rfl) fun w => rstep_free w a tid) fun _ =>
      Fr.modify (fun _ _ => rfl) fun _ => RStep.of_eq rfl rfl rfl rfl
  apply Fr.ite
  · split
    · exact Fr.bind (Fr.panic _) fun _ => tail
    · refine Fr.bind (fr_getTable _ _) fun r => ?_
      cases r with
      | some t =>
        exact Fr.bind (Fr.pure t) fun nt => Fr.bind (fr_moveEntities _ _ _) fun _ => tail
      | none =>
        exact Fr.bind (fr_createTable _ _) fun nt => Fr.bind (fr_moveEntities _ _ _) fun _ => tail
  · exact tail

theorem fr_cleanArch (g : Ent) (a : Nat) : Fr (cleanArch g a) := by
  unfold cleanArch
  refine Fr.get_bind' (fun _ _ => rfl) fun w => ?_
  split
  · exact Fr.pure _
  · refine Fr.bind (Fr.forM' (fr_cleanTable g a) _) fun _ => ?_
    exact Fr.modify (fun _ _ => rfl) fun w => rstep_modArch w a _ rfl rfl

/-- **`cleanupArchetypes`** — relation tables are emptied into (recycled or new) tables and
    freed: archetypes keep their component lists, the statistics object is not touched -/
theorem fr_cleanupArchetypes (g : Ent) : Fr (cleanupArchetypes g) := by
  have h : Fr (M.get >>= fun w => M.forM' w.relationArchetypes (cleanArch g)) :=
    Fr.get_bind' (fun _ _ => rfl) fun w => Fr.forM' (fr_cleanArch g) _
  exact h

macro_rules | `(tactic| fr_leaf) => `(tactic| apply fr_cleanupArchetypes)

theorem fr_opRemoveEntity (e : Ent) : Fr (opRemoveEntity run e) := by
  unfold opRemoveEntity
  refine Fr.bind fr_checkLocked fun _ => ?_
  refine Fr.get_bind_noObs (g := ?g) (fun _ _ => rfl) (fun w hno => ?e) (fun w => ?_)
  case e =>
    simp only [hno _, Bool.and_false, Bool.or_false, Bool.false_eq_true, if_false]
    exact rfl
  refine Fr.bind (Fr.assert _ _) fun _ => ?_
  generalize w.index e.id = ix
  obtain ⟨t, row⟩ := ix
  dsimp only
  refine Fr.bind (Fr.modify (g := fun w => removeRowOf w e t row) (removeRowOf_setStats · · e t row)
    fun w => RStep.of_sstep_obs (SStep.removeRowOf w e t row) (Quiet.removeRowOf w e t row).obs)
    fun _ => ?_
  refine Fr.get_bind' (fun _ _ => rfl) fun w => ?_
  apply Fr.ite
  · exact Fr.bind (fr_cleanupArchetypes e) fun _ =>
      Fr.modify (fun _ _ => rfl) fun _ => RStep.of_eq rfl rfl rfl rfl
  · exact Fr.pure _

/-! ## `CopyEntity`, `Shrink` -/

theorem fr_opCopyEntity (src : Ent) : Fr (opCopyEntity run src) := by
  unfold opCopyEntity
  refine Fr.bind fr_checkLocked fun _ => ?_
  refine Fr.get_bind' (fun _ _ => rfl) fun w => ?_
  refine Fr.bind (Fr.assert _ _) fun _ => ?_
  generalize w.index src.id = ix
  obtain ⟨t, row⟩ := ix
  dsimp only
  refine Fr.bind (fr_placeNew _ _) fun y => ?_
  obtain ⟨e, idx⟩ := y
  dsimp only
  refine Fr.bind (Fr.modify (fun _ _ => rfl) fun _ => RStep.of_eq rfl rfl rfl rfl) fun _ => ?_
  refine Fr.get_bind' (fun _ _ => rfl) fun w => ?_
  fr_tree

end World

end Ark
