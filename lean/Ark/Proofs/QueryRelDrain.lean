/-
  Ark.Proofs.QueryRelDrain — property C03 with RELATION TARGETS, part 2: from the selected tables
  to the visited entities, and the complete iteration `World.drain fo extra`.

  * `PLink.row_live_id`, `PLink.table_of_entry` — rows ↔ index under the pool link of `TInv`;
  * `ExactRelVisits w fl f rels visits` — the entity-set statement (`nodup`, `sound`, `complete`,
    `data`, `targets`); `exact_of_rows_rel` (rows → entities);
  * `EntMatches`, `ExactRelVisits.visited_iff` — with `RowsAlive`: the visited HANDLES are exactly
    the alive entities whose component set (`compsOf`) passes the mask test and whose targets
    (`targetOf`) are the ones asked for; `ExactRelVisits.alive`, `.target_ok`, `.nil_of_dead`;
  * `ExtraOK`, `preCheckTyped_ok_iff`, `preCheckTyped_cases`, `drain_rejected` — the validation
    of per-call relations by typed filters;
  * `qOpen_uncached_rel`, `qOpen_cached_rel`, `RelQueryExactOn`, `drain_rel_of_selected`
    (generic in the opened query), `drain_rel_of_archs`, `drain_rel_untyped`, `drain_rel`
    (uncached), `drain_rel_cached`.
  Kernel-only proofs, core Lean only.
-/
import Ark.Proofs.QueryRel
import Ark.Proofs.RowsAlive
import Ark.Proofs.TargetsHist

set_option autoImplicit false

namespace Ark
namespace QueryRel

open World Drain Ark.Props.C01World QueryExact

/-! ## 6. index ↔ rows under the pool link -/

section
variable {w : World} {fl : List Nat}

/-- **tables → index**: the entity in a live row has a live ID indexed to exactly that row -/
theorem _root_.Ark.PLink.row_live_id (h : PLink w fl) {t r : Nat} (ht : t < w.tables.length)
    (hr : r < (w.tbl t).len) :
    2 ≤ ((w.tbl t).getEntity r).id ∧ ((w.tbl t).getEntity r).id ∉ fl ∧
    w.entities[((w.tbl t).getEntity r).id]? = some (t, r) := by
  have hx := h.idx.rowIdx t _ r (get_of_lt ht) hr
  have htm : t ≠ maxU32 := by have := h.fewTables; omega
  refine ⟨?_, ?_, hx⟩
  · rcases Nat.lt_or_ge ((w.tbl t).getEntity r).id 2 with h1 | h1
    · obtain ⟨r', hr'⟩ := h.reservedUnindexed _ h1
      rw [hr'] at hx
      exact absurd (Prod.mk.inj (Option.some.inj hx)).1.symm htm
    · exact h1
  · intro hm
    obtain ⟨r', hr'⟩ := h.freeUnindexed _ hm
    rw [hr'] at hx
    exact absurd (Prod.mk.inj (Option.some.inj hx)).1.symm htm

/-- **index → tables** -/
theorem _root_.Ark.PLink.table_of_entry (h : PLink w fl) {i t r : Nat}
    (hi : w.entities[i]? = some (t, r)) (ht : t ≠ maxU32) :
    t < w.tables.length ∧ r < (w.tbl t).len ∧ ((w.tbl t).getEntity r).id = i := by
  obtain ⟨T, hT, hr, hid⟩ := h.idx.idxRow i t r hi ht
  have := tbl_of_get hT
  subst this
  exact ⟨lt_of_get hT, hr, hid⟩

end

/-! ## 7. the entity-set statement -/

/-- **what a complete iteration of a query with filter `f` and relations `rels` over the world
    `w` must deliver** (`fl` = ghost free list of the entity pool: the IDs `≥ 2` outside `fl` are
    the alive ones).
    `nodup`: no ID twice; `sound`: every visit is an alive ID, at the row the entity index records
    for it, reporting the handle stored there, in a table whose archetype mask the filter matches,
    and for every relation of the query the entity's target (read through the index, `targetOf`)
    is the target asked for; `complete`: every alive ID whose archetype mask matches and whose
    targets are the ones asked for is visited (at its row); `data`: random access through the
    index (`valOf`) reads the cell of the visited row; `targets`: the relation targets the cursor
    yields (the visited table's target at the relation column) are the entity's `targetOf`. -/
structure ExactRelVisits (w : World) (fl : List Nat) (f : Filter) (rels : List RelID)
    (visits : List Visit) : Prop where
  nodup : (visits.map (·.e.id)).Nodup
  sound : ∀ (v : Visit), v ∈ visits → 2 ≤ v.e.id ∧ v.e.id ∉ fl ∧
    w.entities[v.e.id]? = some (v.table, v.row) ∧
    v.table ≠ maxU32 ∧ v.table < w.tables.length ∧ v.row < (w.tbl v.table).len ∧
    v.e = (w.tbl v.table).getEntity v.row ∧
    f.matchesMask (w.arch (w.tbl v.table).arch).mask = true ∧
    ∀ (r : RelID), r ∈ rels → targetOf w v.e.id r.comp = some r.target
  complete : ∀ (i t r : Nat), 2 ≤ i → i ∉ fl → w.entities[i]? = some (t, r) → t ≠ maxU32 →
    f.matchesMask (w.arch (w.tbl t).arch).mask = true →
    (∀ (rl : RelID), rl ∈ rels → targetOf w i rl.comp = some rl.target) →
    ∃ (v : Visit), v ∈ visits ∧ v.e.id = i ∧ v.table = t ∧ v.row = r
  data : ∀ (v : Visit), v ∈ visits → ∀ (c : Comp),
    valOf w v.e.id c = (w.tbl v.table).getComp c v.row
  targets : ∀ (v : Visit), v ∈ visits → ∀ (c : Comp),
    targetOf w v.e.id c = (w.tbl v.table).targetAt c

/-- **from rows to entities**: a visit list that enumerates the rows of a good table list and
    reports the handles stored there is exact -/
theorem exact_of_rows_rel {w : World} {fl : List Nat} (L : PLink w fl) (f : Filter)
    (rels : List RelID) (ts : List Nat) (hok : RelTablesOK w f rels ts) (visits : List Visit)
    (h3 : visits.map (fun v => (v.table, v.row)) = ts.flatMap (rowsOf w))
    (h4 : visits.map (·.e) = (ts.flatMap (rowsOf w)).map
      (fun p => (w.tbl p.1).getEntity p.2)) :
    ExactRelVisits w fl f rels visits := by
  have hfew := L.fewTables
  have hv : ∀ (v : Visit), v ∈ visits → v.table ∈ ts ∧ v.row < (w.tbl v.table).len ∧
      v.e = (w.tbl v.table).getEntity v.row := by
    intro v hvm
    have hm : (v.table, v.row) ∈ ts.flatMap (rowsOf w) := by
      rw [← h3]; exact List.mem_map.mpr ⟨v, hvm, rfl⟩
    obtain ⟨m1, m2⟩ := mem_rows.mp hm
    exact ⟨m1, m2, map_pointwise visits (fun v => (v.table, v.row)) (·.e)
      (fun p => (w.tbl p.1).getEntity p.2) _ h3 h4 v hvm⟩
  have hbase : ∀ (v : Visit), v ∈ visits → 2 ≤ v.e.id ∧ v.e.id ∉ fl ∧
      w.entities[v.e.id]? = some (v.table, v.row) ∧
      v.table ≠ maxU32 ∧ v.table < w.tables.length ∧ v.row < (w.tbl v.table).len ∧
      v.e = (w.tbl v.table).getEntity v.row ∧ TblMatch w f rels v.table := by
    intro v hvm
    obtain ⟨v1, v2, v3⟩ := hv v hvm
    obtain ⟨s1, s2⟩ := hok.sound _ v1
    obtain ⟨r1, r2, r4⟩ := L.row_live_id s1 v2
    rw [← v3] at r1 r2 r4
    exact ⟨r1, r2, r4, by omega, s1, v2, v3, s2⟩
  have htgt : ∀ (v : Visit), v ∈ visits → ∀ (c : Comp),
      targetOf w v.e.id c = (w.tbl v.table).targetAt c := by
    intro v hvm c
    obtain ⟨_, _, s3, s4, s5, _⟩ := hbase v hvm
    exact targetOf_of_entry s3 s4 (get_of_lt s5) c
  refine ⟨?_, ?_, ?_, ?_, htgt⟩
  · have hnd : (visits.map (fun v => (v.table, v.row))).Nodup := by
      rw [h3]; exact rows_nodup w _ hok.nodup
    refine nodup_map_of_nodup_map visits _ _ hnd ?_
    intro a ha b hb heq
    have ea := (hbase a ha).2.2.1
    have eb := (hbase b hb).2.2.1
    rw [show a.e.id = b.e.id from heq, eb] at ea
    exact (Option.some.inj ea).symm
  · intro v hvm
    obtain ⟨s1, s2, s3, s4, s5, s6, s7, s8, s9⟩ := hbase v hvm
    refine ⟨s1, s2, s3, s4, s5, s6, s7, s8, ?_⟩
    intro r hr
    rw [htgt v hvm]; exact s9 r hr
  · intro i t r _ _ hi htm hmatch hall
    obtain ⟨e1, e2, e3⟩ := L.table_of_entry hi htm
    have hts : t ∈ ts := by
      refine hok.complete t e1 (by omega) ⟨hmatch, ?_⟩
      intro rl hrl
      rw [← targetOf_of_entry hi htm (get_of_lt e1)]; exact hall rl hrl
    have hm : (t, r) ∈ visits.map (fun v => (v.table, v.row)) := by
      rw [h3]; exact mem_rows.mpr ⟨hts, e2⟩
    obtain ⟨v, hvm, hveq⟩ := List.mem_map.mp hm
    injection hveq with hvt hvr
    refine ⟨v, hvm, ?_, hvt, hvr⟩
    rw [(hv v hvm).2.2, hvt, hvr]; exact e3
  · intro v hvm c
    obtain ⟨_, _, s3, s4, s5, _⟩ := hbase v hvm
    simp only [valOf, s3, s4, if_false, get_of_lt s5, Option.bind_some]

/-- with `RowsAlive`: every reported handle is alive -/
theorem ExactRelVisits.alive {w : World} {fl : List Nat} {f : Filter} {rels : List RelID}
    {visits : List Visit} (X : ExactRelVisits w fl f rels visits) (hra : RowsAlive w) :
    ∀ (v : Visit), v ∈ visits → w.alive v.e = true := by
  intro v hv
  obtain ⟨_, _, _, _, _, s6, s7, _⟩ := X.sound v hv
  rw [s7]; exact hra.tbl s6

/-- the yielded targets are zero or alive (`TargetsOK`) -/
theorem ExactRelVisits.target_ok {w : World} {fl : List Nat} {f : Filter} {rels : List RelID}
    {visits : List Visit} (X : ExactRelVisits w fl f rels visits) (hT : TargetsOK w)
    (hfe : FreeEmpty w) {v : Visit} (hv : v ∈ visits) {c : Comp} {g : Ent}
    (hg : (w.tbl v.table).targetAt c = some g) : g.isZero = true ∨ w.alive g = true := by
  obtain ⟨_, _, _, _, s5, s6, _⟩ := X.sound v hv
  have hnf := notFree_of_rows hfe s5 (by omega)
  simp only [Table.targetAt] at hg
  cases hc : (w.tbl v.table).colIdx c with
  | none => rw [hc] at hg; cases hg
  | some k =>
    rw [hc] at hg
    simp only [Option.bind_some] at hg
    split at hg
    · rename_i hk
      have := hT _ _ (get_of_lt s5) hnf k hk
      rw [Option.some.inj hg] at this; exact this
    · cases hg

/-! ### the entity-level reading: handles, component sets -/

/-- **the entity with ID `i` matches the query**: the filter's mask test holds of its component
    set (`compsOf`, the column list of its table read through the index — so the ID is indexed to
    a table) and for every relation of the query its target (`targetOf`) is the target asked for -/
def EntMatches (w : World) (f : Filter) (rels : List RelID) (i : Nat) : Prop :=
  (∃ (cs : List Comp), compsOf w i = some cs ∧ f.matchesMask (Mask.ofList cs) = true) ∧
  ∀ (r : RelID), r ∈ rels → targetOf w i r.comp = some r.target

/-- the column list of a table, as a mask, is the mask of its archetype -/
theorem ofList_ids {w : World} (h : SInvMid w) {t : Nat} {T : Table}
    (hT : w.tables[t]? = some T) : Mask.ofList T.ids = (w.arch T.arch).mask := by
  obtain ⟨A, hA, e1, _⟩ := h.tblArch t T hT
  rw [arch_of_get hA, e1, (h.comps _ A hA).1]
  apply Mask.ext_get
  intro c hc
  rw [Mask.get_ofList]
  cases hg : A.mask.get c with
  | true =>
    have := (Mask.mem_toList A.mask w.kinds.length c).mpr ⟨h.maskReg _ A hA c hg, hg⟩
    simp [hc, this]
  | false =>
    have : c ∉ A.mask.toList w.kinds.length := fun hm => by
      have := ((Mask.mem_toList _ _ _).mp hm).2
      rw [hg] at this; cases this
    simp [this]

/-- `compsOf` of an indexed ID -/
theorem compsOf_of_entry {w : World} {i t r : Nat} (hi : w.entities[i]? = some (t, r))
    (ht : t ≠ maxU32) (hlt : t < w.tables.length) : compsOf w i = some (w.tbl t).ids := by
  simp only [compsOf, hi, ht, if_false, get_of_lt hlt, Option.map_some]

/-- an ID with a component set is indexed to a table -/
theorem entry_of_compsOf {w : World} {i : Nat} {cs : List Comp} (h : compsOf w i = some cs) :
    ∃ (t r : Nat), w.entities[i]? = some (t, r) ∧ t ≠ maxU32 ∧ t < w.tables.length ∧
      cs = (w.tbl t).ids := by
  simp only [compsOf] at h
  cases hx : w.entities[i]? with
  | none => rw [hx] at h; cases h
  | some p =>
    obtain ⟨t, r⟩ := p
    rw [hx] at h
    simp only at h
    by_cases hm : t = maxU32
    · rw [if_pos hm] at h; cases h
    · rw [if_neg hm] at h
      cases hT : w.tables[t]? with
      | none => rw [hT] at h; cases h
      | some T =>
        rw [hT] at h
        simp only [Option.map_some, Option.some.injEq] at h
        exact ⟨t, r, rfl, hm, lt_of_get hT, by rw [tbl_of_get hT]; exact h.symm⟩

/-- **the visited handles are exactly the alive entities that match** (needs `RowsAlive`: the
    index knows IDs only, the handle reported is the one stored in the row) -/
theorem ExactRelVisits.visited_iff {w : World} {fl : List Nat} {f : Filter} {rels : List RelID}
    {visits : List Visit} (X : ExactRelVisits w fl f rels visits) (h : TInv w fl)
    (hra : RowsAlive w) :
    (visits.map (·.e)).Nodup ∧
    ∀ (e : Ent), e ∈ visits.map (·.e) ↔ w.alive e = true ∧ EntMatches w f rels e.id := by
  have hS := h.rel.sinv.toSInvMid
  refine ⟨?_, ?_⟩
  · have := X.nodup
    exact nodup_map_of_nodup_map visits (fun v => v.e.id) (fun v => v.e) this
      (fun a _ b _ hab => congrArg Ent.id hab)
  · intro e
    constructor
    · intro he
      obtain ⟨v, hv, rfl⟩ := List.mem_map.mp he
      obtain ⟨_, _, s3, s4, s5, _, _, s8, s9⟩ := X.sound v hv
      refine ⟨X.alive hra v hv, ⟨_, compsOf_of_entry s3 s4 s5, ?_⟩, s9⟩
      rw [ofList_ids hS (get_of_lt s5)]; exact s8
    · rintro ⟨hal, ⟨cs, hcs, hm⟩, hall⟩
      obtain ⟨t, r, hi, htm, hlt, rfl⟩ := entry_of_compsOf hcs
      obtain ⟨h2, hnf⟩ := h.link.indexed_live hi htm
      rw [ofList_ids hS (get_of_lt hlt)] at hm
      obtain ⟨v, hv, hid, _, _⟩ := X.complete e.id t r h2 hnf hi htm hm hall
      have := h.link.alive_inj (X.alive hra v hv) hal hid
      exact List.mem_map.mpr ⟨v, hv, this⟩

/-- a query naming a dead (non-zero) target visits nothing: no relation column holds a dead
    handle (`TargetsOK`) -/
theorem ExactRelVisits.nil_of_dead {w : World} {fl : List Nat} {f : Filter} {rels : List RelID}
    {visits : List Visit} (X : ExactRelVisits w fl f rels visits) (hT : TargetsOK w)
    (hfe : FreeEmpty w) {r : RelID} (hr : r ∈ rels) (hz : r.target.isZero = false)
    (hd : w.alive r.target = false) : visits = [] := by
  cases hvs : visits with
  | nil => rfl
  | cons v rest =>
    have hv : v ∈ visits := by rw [hvs]; exact List.mem_cons_self
    obtain ⟨_, _, _, _, _, _, _, _, s9⟩ := X.sound v hv
    have h1 := s9 r hr
    rw [X.targets v hv] at h1
    rcases X.target_ok hT hfe hv h1 with h2 | h2
    · rw [hz] at h2; cases h2
    · rw [hd] at h2; cases h2

/-! ## 8. opening a query with per-call relations -/

/-- **what `Query(rel…)` of a typed filter checks of the per-call relations** (`preCheckTyped`):
    the target is the zero entity or alive, the component is a relation component and the
    filter's mask requires it -/
def ExtraOK (w : World) (m : Mask) (extra : List RelID) : Prop :=
  ∀ (r : RelID), r ∈ extra → (r.target.isZero = true ∨ w.alive r.target = true) ∧
    w.isRelComp r.comp = true ∧ m.get r.comp = true

/-- `preCheckTyped` passes exactly on `ExtraOK` relation lists (and never changes the world) -/
theorem preCheckTyped_ok_iff (m : Mask) (w : World) : ∀ (extra : List RelID),
    preCheckTyped m extra w = .ok () w ↔ ExtraOK w m extra := by
  intro extra
  induction extra with
  | nil => exact ⟨fun _ r hr => (by cases hr), fun _ => rfl⟩
  | cons r rest ih =>
    have hstep : preCheckTyped m (r :: rest) w =
        if (!r.target.isZero && !w.alive r.target) = true then .panic .deadTarget w
        else if w.isRelComp r.comp = true then
          (if m.get r.comp = true then preCheckTyped m rest w else .panic .relNotInMask w)
        else .panic .notRelation w := by
      simp only [preCheckTyped, M.forM', bind, M.bind, checkRelationTarget,
        checkRelationComponent, M.assert]
      by_cases h1 : (!r.target.isZero && !w.alive r.target) = true
      · simp only [h1, if_true]
      · simp only [h1, Bool.false_eq_true, if_false]
        by_cases h2 : w.isRelComp r.comp = true
        · simp only [h2, if_true]
          by_cases h3 : m.get r.comp = true
          · simp only [h3, if_true]
          · simp only [h3, Bool.false_eq_true, if_false]
        · simp only [h2, Bool.false_eq_true, if_false]
    rw [hstep]
    constructor
    · intro h
      split at h
      · cases h
      · rename_i h1
        split at h
        · rename_i h2
          split at h
          · rename_i h3
            have hrest := ih.mp h
            intro x hx
            rcases List.mem_cons.mp hx with rfl | hx
            · refine ⟨?_, h2, h3⟩
              cases hz : x.target.isZero with
              | true => exact Or.inl rfl
              | false =>
                cases ha : w.alive x.target with
                | true => exact Or.inr rfl
                | false => simp [hz, ha] at h1
            · exact hrest x hx
          · cases h
        · cases h
    · intro h
      obtain ⟨h1, h2, h3⟩ := h r List.mem_cons_self
      have h1' : ¬ (!r.target.isZero && !w.alive r.target) = true := by
        rcases h1 with h1 | h1 <;> simp [h1]
      rw [if_neg h1', if_pos h2, if_pos h3]
      exact ih.mpr (fun x hx => h x (List.mem_cons_of_mem _ hx))

/-- `preCheckTyped` only reads the world -/
theorem preCheckTyped_cases (m : Mask) (w : World) : ∀ (extra : List RelID),
    preCheckTyped m extra w = .ok () w ∨ ∃ (k : PanicKind), preCheckTyped m extra w = .panic k w := by
  intro extra
  induction extra with
  | nil => exact Or.inl rfl
  | cons r rest ih =>
    simp only [preCheckTyped, M.forM', bind, M.bind, checkRelationTarget,
      checkRelationComponent, M.assert]
    by_cases h1 : (!r.target.isZero && !w.alive r.target) = true
    · simp only [h1, if_true]; exact Or.inr ⟨_, rfl⟩
    · simp only [h1, Bool.false_eq_true, if_false]
      by_cases h2 : w.isRelComp r.comp = true
      · simp only [h2, if_true]
        by_cases h3 : m.get r.comp = true
        · simp only [h3, if_true]; exact ih
        · simp only [h3, Bool.false_eq_true, if_false]; exact Or.inr ⟨_, rfl⟩
      · simp only [h2, Bool.false_eq_true, if_false]; exact Or.inr ⟨_, rfl⟩

/-- **a typed query whose per-call relations are not `ExtraOK` is rejected**: `Query(rel…)`
    panics before taking the lock, nothing is visited, the world is unchanged -/
theorem drain_rejected (fo : FilterObj) (extra : List RelID) (w : World) (ht : fo.typed = true)
    (hbad : ¬ ExtraOK w fo.filter.mask extra) :
    ∃ (k : PanicKind), qOpen fo extra w = .panic k w ∧ drain fo extra w = .panic k w := by
  rcases preCheckTyped_cases fo.filter.mask w extra with h | ⟨k, h⟩
  · exact absurd ((preCheckTyped_ok_iff _ w extra).mp h) hbad
  · have h1 : qOpen fo extra w = .panic k w := by
      unfold qOpen
      simp [ht, bind, M.bind, h]
    exact ⟨k, h1, by simp [drain, bind, M.bind, h1]⟩

/-- the relations a typed query is opened with are typed (given that the fixed ones are) -/
theorem ExtraOK.relsTyped {w : World} {f : Filter} {extra : List RelID}
    (h : ExtraOK w f.mask extra) : RelsTyped w f extra :=
  fun r hr => (h r hr).2

/-- the query object `Query(extra…)` returns for an unregistered filter, with lock bit `b` -/
def openedRelQ (fo : FilterObj) (extra : List RelID) (w : World) (b : Nat) : QueryObj :=
  { filter := fo.filter, rels := fo.rels ++ extra, cacheTables := none, rare := rareOf fo w,
    lockBit := b }

/-- `FilterN.Query(extra…)` / `UnsafeFilter.Query(extra…)` on an unregistered filter -/
theorem qOpen_uncached_rel (fo : FilterObj) (extra : List RelID) (w : World) (l1 : Lock) (b : Nat)
    (hc : fo.cache = none)
    (hpre : fo.typed = true → preCheckTyped fo.filter.mask extra w = .ok () w)
    (hl : w.locks.lock = some (l1, b)) :
    qOpen fo extra w = .ok (openedRelQ fo extra w b) (w.withLocks l1) := by
  have heff : effRels fo extra = fo.rels ++ extra := by simp [effRels, hc]
  unfold qOpen openedRelQ rareOf World.withLocks
  cases ht : fo.typed with
  | false => simp [hc, heff, World.lock, hl, bind, M.bind, M.get, pure, M.pure]
  | true =>
    have := hpre ht
    simp [hc, this, heff, World.lock, hl, bind, M.bind, M.get, pure, M.pure]

/-! ## 9. the complete iteration -/

/-- the counting walk does not look at the lock -/
theorem qSelected_withLocks (w : World) (l : Lock) (q : QueryObj) :
    qSelected (w.withLocks l) q = qSelected w q := rfl

/-- everything C03 says about one query with relations, on the world `w` before the query: the
    opened query `q` lives on the locked world `w1`; the iteration returns `visits` and leaves
    `w2`; `rels` are the relations in force (`fo.rels ++ extra`). -/
structure RelQueryExactOn (w : World) (fl : List Nat) (fo : FilterObj) (extra : List RelID)
    (w1 : World) (q : QueryObj) (visits : List Visit) (w2 : World) : Prop where
  opened : qOpen fo extra w = .ok q w1
  drained : drain fo extra w = .ok visits w2
  exact : ExactRelVisits w fl fo.filter (fo.rels ++ extra) visits
  /-- `Count` equals the number of entities visited -/
  count : qCount w1 q = some visits.length
  /-- `EntityAt(i)` is the `i`-th visited entity … -/
  entityAt : ∀ (i : Nat) (hi : i < visits.length), qEntityAt w1 q i = some (some visits[i].e)
  /-- … and the out-of-bounds panic from `Count` on -/
  entityAtOut : ∀ (i : Nat), visits.length ≤ i → qEntityAt w1 q i = some none

/-- **generic in the opened query**: `Query(extra…)` returned `q` with lock bit `b` on the world
    `w` locked with `l1`; the counting walk of `q` selects a good table list.  Then `drain` visits
    exactly the matching alive entities, and changes nothing but the lock. -/
theorem drain_rel_of_selected {w : World} {fl : List Nat} (L : PLink w fl) (fo : FilterObj)
    (extra : List RelID) {l1 l2 : Lock} {b : Nat} (hu : l1.unlock b = some l2) {q : QueryObj}
    (ho : qOpen fo extra w = .ok q (w.withLocks l1)) (hqb : q.lockBit = b) {ts : List Nat}
    (hsel : qSelected (w.withLocks l1) q = some ts)
    (hok : RelTablesOK w fo.filter (fo.rels ++ extra) ts) :
    ∃ (visits : List Visit),
      RelQueryExactOn w fl fo extra (w.withLocks l1) q visits (w.withLocks l2) := by
  obtain ⟨w1, hw1⟩ : ∃ w1 : World, w1 = w.withLocks l1 := ⟨_, rfl⟩
  rw [← hw1] at ho hsel ⊢
  have hrows : rowsOf w1 = rowsOf w := by rw [hw1]; rfl
  have hw2 : ({ w1 with locks := l2 } : World) = w.withLocks l2 := by rw [hw1]; rfl
  obtain ⟨visits, hd, h3, h4⟩ := drain_rows_monadic fo extra w w1 q _ l2 ho hsel hok.nodup
    (by rw [hqb, hw1]; exact hu)
  have hget : (fun p : Nat × Nat => (w1.tbl p.1).getEntity p.2) =
      (fun p : Nat × Nat => (w.tbl p.1).getEntity p.2) := by rw [hw1]; rfl
  rw [hrows] at h3 h4
  rw [hget] at h4
  rw [hw2] at hd
  have hexp : expected w1 q = some (ts.flatMap (rowsOf w)) := by
    simp [expected, hsel, hrows]
  have hlen : visits.length = (ts.flatMap (rowsOf w)).length := by
    rw [← h3, List.length_map]
  refine ⟨visits, ho, hd, exact_of_rows_rel L fo.filter _ _ hok visits h3 h4, ?_, ?_, ?_⟩
  · simp only [qCount, hsel, Option.map_some]
    rw [hlen, flatMap_rowsOf_length, foldl_add_eq_sum, hw1]
    rfl
  · intro i hi
    have hi' : i < (ts.flatMap (rowsOf w)).length := by
      rw [← hlen]; exact hi
    rw [(entityAt_eq_visit w1 q _ i hexp).1 hi']
    have : visits[i].e = (visits.map (·.e))[i]'(by rw [List.length_map]; exact hi) := by
      rw [List.getElem_map]
    rw [this]
    simp only [h4, List.getElem_map]
    exact congrArg (fun x => some (some x)) (congrFun hget _)
  · intro i hi
    exact (entityAt_eq_visit w1 q _ i hexp).2 (by rw [← hlen]; exact hi)

/-- **generic in the walked archetype list** (uncached): if the archetype list the query walks is
    duplicate-free, consists of existing archetypes and contains every archetype the filter
    matches, `drain` visits exactly the matching alive entities with the targets asked for, and
    changes nothing but the lock. -/
theorem drain_rel_of_archs {w : World} {fl : List Nat} (h : TInv w fl) (fo : FilterObj)
    (extra : List RelID) (hc : fo.cache = none)
    (hpre : fo.typed = true → ExtraOK w fo.filter.mask extra)
    (hr : RelsTyped w fo.filter (fo.rels ++ extra))
    {l1 l2 : Lock} {b : Nat} (hL : LockCycle w.locks l1 b l2)
    (harchs : ArchsOK w fo.filter (w.archList (rareOf fo w))) :
    ∃ (q : QueryObj) (visits : List Visit),
      RelQueryExactOn w fl fo extra (w.withLocks l1) q visits (w.withLocks l2) := by
  have ho : qOpen fo extra w = .ok (openedRelQ fo extra w b) (w.withLocks l1) :=
    qOpen_uncached_rel fo extra w l1 b hc
      (fun ht => (preCheckTyped_ok_iff _ w extra).mpr (hpre ht)) hL.lock
  have H := tablesInv_of_rel h.rel
  have hok := relsOK_of_typed h.rel.sinv.toSInvMid hr
  have hsel : qSelected (w.withLocks l1) (openedRelQ fo extra w b) =
      some (relSel w fo.filter (fo.rels ++ extra) (w.archList (rareOf fo w))) := by
    rw [qSelected_withLocks]
    exact qSelected_rel H (openedRelQ fo extra w b) rfl hok harchs.lt
  obtain ⟨visits, Q⟩ := drain_rel_of_selected h.link fo extra hL.unlock ho rfl hsel
    (RelTablesOK.of_archs h.rel h.freeEmpty hr harchs)
  exact ⟨_, visits, Q⟩

/-- **the untyped walk** (`UnsafeFilter`, or a typed filter without type parameters): the query
    walks all archetypes. -/
theorem drain_rel_untyped {w : World} {fl : List Nat} (h : TInv w fl) (fo : FilterObj)
    (extra : List RelID) (hc : fo.cache = none) (hu : fo.typed = false ∨ fo.ids = [])
    (hpre : fo.typed = true → ExtraOK w fo.filter.mask extra)
    (hr : RelsTyped w fo.filter (fo.rels ++ extra))
    {l1 l2 : Lock} {b : Nat} (hL : LockCycle w.locks l1 b l2) :
    ∃ (q : QueryObj) (visits : List Visit),
      RelQueryExactOn w fl fo extra (w.withLocks l1) q visits (w.withLocks l2) := by
  apply drain_rel_of_archs h fo extra hc hpre hr hL
  have : rareOf fo w = none := by
    rcases hu with hu | hu <;> simp [rareOf, hu]
  rw [this]
  exact ArchsOK.all w fo.filter

/-- **every unregistered filter object whose mask requires its type parameters** (`FilterOK`;
    a typed filter with type parameters walks `componentIndex[rare]`, hence `CIdx`). -/
theorem drain_rel {w : World} {fl : List Nat} (h : TInv w fl) (hx : CIdx w) (fo : FilterObj)
    (extra : List RelID) (hc : fo.cache = none) (hokf : FilterOK fo)
    (hpre : fo.typed = true → ExtraOK w fo.filter.mask extra)
    (hr : RelsTyped w fo.filter (fo.rels ++ extra))
    {l1 l2 : Lock} {b : Nat} (hL : LockCycle w.locks l1 b l2) :
    ∃ (q : QueryObj) (visits : List Visit),
      RelQueryExactOn w fl fo extra (w.withLocks l1) q visits (w.withLocks l2) :=
  drain_rel_of_archs h fo extra hc hpre hr hL
    (ArchsOK.of_filterOK hx h.rel.sinv.maskReg fo hokf)

/-! ## 10. the cached variant -/

/-- the query object `Query(extra…)` returns for a registered filter: the entry's table list,
    only the per-call relations are matched by the cursor -/
def openedRelQC (fo : FilterObj) (extra : List RelID) (w : World) (ce : CacheEntry) (b : Nat) :
    QueryObj :=
  { filter := fo.filter, rels := extra, cacheTables := some ce.tables.tables, rare := rareOf fo w,
    lockBit := b }

theorem qOpen_cached_rel (fo : FilterObj) (extra : List RelID) (w : World) (l1 : Lock) (b : Nat)
    {id : Nat} {ce : CacheEntry} (hc : fo.cache = some id) (he : w.cacheEntry? id = some ce)
    (hpre : fo.typed = true → preCheckTyped fo.filter.mask extra w = .ok () w)
    (hl : w.locks.lock = some (l1, b)) :
    qOpen fo extra w = .ok (openedRelQC fo extra w ce b) (w.withLocks l1) := by
  have heff : effRels fo extra = extra := by simp [effRels, hc]
  unfold qOpen openedRelQC rareOf World.withLocks
  cases ht : fo.typed with
  | false => simp [hc, he, heff, World.lock, hl, bind, M.bind, M.get, pure, M.pure]
  | true =>
    have := hpre ht
    simp [hc, he, this, heff, World.lock, hl, bind, M.bind, M.get, pure, M.pure]

/-- **the cached variant**: a registered filter object whose cache entry was made for its filter
    and its fixed relations (`CacheInv`: the entry lists the `Selected` tables for the FIXED
    relations; the per-call relations are matched by the cursor) visits the same entity set. -/
theorem drain_rel_cached {w : World} {fl : List Nat} (h : TInv w fl) (hC : CacheInv w)
    (fo : FilterObj) (extra : List RelID) {id : Nat} {ce : CacheEntry} (hc : fo.cache = some id)
    (he : w.cacheEntry? id = some ce) (hf : ce.filter = fo.filter) (hrl : ce.rels = fo.rels)
    (hpre : fo.typed = true → ExtraOK w fo.filter.mask extra)
    (hr : RelsTyped w fo.filter (fo.rels ++ extra))
    {l1 l2 : Lock} {b : Nat} (hL : LockCycle w.locks l1 b l2) :
    ∃ (q : QueryObj) (visits : List Visit),
      RelQueryExactOn w fl fo extra (w.withLocks l1) q visits (w.withLocks l2) := by
  have ho : qOpen fo extra w = .ok (openedRelQC fo extra w ce b) (w.withLocks l1) :=
    qOpen_cached_rel fo extra w l1 b hc he
      (fun ht => (preCheckTyped_ok_iff _ w extra).mpr (hpre ht)) hL.lock
  obtain ⟨hmem, _⟩ := hC.entry_of_lookup he
  have hr' : RelsTyped w ce.filter (ce.rels ++ extra) := by rw [hf, hrl]; exact hr
  obtain ⟨hnone, hok⟩ := RelTablesOK.of_cached h.rel h.freeEmpty hC hmem hr'
  rw [hf, hrl] at hok
  have hsel : qSelected (w.withLocks l1) (openedRelQC fo extra w ce b) =
      some (cachedSel w extra ce.tables.tables) := by
    rw [qSelected_withLocks]
    exact qSelected_cached w (openedRelQC fo extra w ce b) _ rfl (fun t ht _ => hnone t ht)
  obtain ⟨visits, Q⟩ := drain_rel_of_selected h.link fo extra hL.unlock ho rfl hsel hok
  exact ⟨_, visits, Q⟩

end QueryRel
end Ark
