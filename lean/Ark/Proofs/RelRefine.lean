/-
  Ark.Proofs.RelRefine — the refinement machine for the fragment WITH relation components
  (C01 + C04 over histories), part 1: the abstract specification, the history machine and the
  inductive invariant.

  * `Ark.RelRefine.Entry` / `Spec` / `SS`: the specification state — alive handle ↦ (component ↦
    value, relation component ↦ target), and the registry (zero-size and relation flags);
  * `Op` = `reg | new p | add p | rem p | setrel p | set | del`, `specStep`, `pre`, `exec`, `guard`, `step`,
    `reach`;
  * `EntOK` (one entry is realised by the world: `compsOf`, `valOf`, `targetOf`), the inductive
    invariant `HInv` = `TInv` ∧ pool ghost state ∧ unlocked ∧ no observers ∧ registry agreement ∧
    every entry realised ∧ every specified target is the zero entity or has an entry;
  * association-list facts and the generic update lemmas `HInv.update`, `HInv.created`.

  The world-level specifications the machine needs beyond `Ark/Proofs/Targets*.lean` are in
  `Ark/Proofs/RelSpecs.lean`, totality of `NewEntity` / `Add` with relations in
  `Ark/Proofs/RelTotal.lean`, `Remove` with relations in `Ark/Proofs/RelRemove.lean`, the step
  lemmas in `Ark/Proofs/RelRefineSteps.lean`, the theorems over histories in
  `Ark/Proofs/RelRefineHist.lean`, the property statements in `Ark/Props/C04Hist.lean`.
  Kernel-only proofs, core Lean only.
-/
import Ark.Proofs.RelSpecs

set_option autoImplicit false

namespace Ark

open World Ark.Props.C01World

namespace RelRefine

open Refine (Comps keys sortedIds writeComps zeros)

/-! ## 1. the abstract specification -/

/-- what the specification records about one entity: component ↦ value (all components, also
    the relation components) and relation component ↦ target -/
structure Entry where
  comps : Comps
  rels : List RelID
  deriving DecidableEq, Repr

/-- **the abstract specification state**: alive handle ↦ entry -/
abbrev Spec := List (Ent × Entry)

def find : Spec → Ent → Option Entry
  | [], _ => none
  | x :: rest, e => if x.1 = e then some x.2 else find rest e

/-- change the entry of `e` -/
def upd (s : Spec) (e : Ent) (f : Entry → Entry) : Spec :=
  s.map fun x => if x.1 = e then (x.1, f x.2) else x

/-- drop the entry of `e` -/
def del : Spec → Ent → Spec
  | [], _ => []
  | x :: rest, e => if x.1 = e then rest else x :: del rest e

/-- a relation after the removal of `g`: a target `g` becomes the zero entity -/
def zeroRel (g : Ent) (r : RelID) : RelID := if r.target = g then ⟨r.comp, Ent.zero⟩ else r

def Entry.detach (g : Ent) (en : Entry) : Entry := { en with rels := en.rels.map (zeroRel g) }

/-- every target equal to `g`, in every entry, becomes the zero entity -/
def detach (g : Ent) (s : Spec) : Spec := s.map fun x => (x.1, x.2.detach g)

/-- assignment: a relation of `new` replaces the relation of `old` on the same component -/
def setRels (old new : List RelID) : List RelID :=
  old.map fun r =>
    match new.find? (fun r' => r'.comp == r.comp) with
    | some r' => r'
    | none => r

/-- the specification state: entities, and the registry (zero-size flag and relation flag per
    component ID) -/
structure SS where
  ents : Spec
  zst : List Bool
  isRel : List Bool

/-- the relation arguments of a call adding the components `ids` are well-formed: no relation
    component named twice, each names a relation component among `ids`, and every relation
    component among `ids` is named -/
def RelsWF (ir : List Bool) (ids : List Comp) (rels : List RelID) : Prop :=
  (rels.map (·.comp)).Nodup ∧ (∀ r ∈ rels, r.comp ∈ ids ∧ ir.getD r.comp false = true) ∧
    ∀ c ∈ ids, ir.getD c false = true → c ∈ rels.map (·.comp)

instance (ir : List Bool) (ids : List Comp) (rels : List RelID) : Decidable (RelsWF ir ids rels) :=
  inferInstanceAs (Decidable ((rels.map (·.comp)).Nodup ∧
    (∀ r ∈ rels, r.comp ∈ ids ∧ ir.getD r.comp false = true) ∧
    ∀ c ∈ ids, ir.getD c false = true → c ∈ rels.map (·.comp)))

/-- every target named is the zero entity or a handle of the specification (= alive) -/
def TargetsValid (s : Spec) (rels : List RelID) : Prop :=
  ∀ r ∈ rels, r.target.isZero = true ∨ (find s r.target).isSome = true

instance (s : Spec) (rels : List RelID) : Decidable (TargetsValid s rels) :=
  inferInstanceAs (Decidable (∀ r ∈ rels, r.target.isZero = true ∨ (find s r.target).isSome = true))

/-- the precondition of `NewEntity(ids…, rels…)` -/
def NewOK (ss : SS) (ids : List Comp) (rels : List RelID) : Prop :=
  ids.Nodup ∧ (∀ c ∈ ids, c < ss.zst.length) ∧ RelsWF ss.isRel ids rels ∧ TargetsValid ss.ents rels

instance (ss : SS) (ids : List Comp) (rels : List RelID) : Decidable (NewOK ss ids rels) :=
  inferInstanceAs (Decidable (ids.Nodup ∧ (∀ c ∈ ids, c < ss.zst.length) ∧ RelsWF ss.isRel ids rels ∧
    TargetsValid ss.ents rels))

/-- the precondition of `Add(e, ids…, rels…)` on an entity with the entry `en` -/
def AddOK (ss : SS) (en : Entry) (ids : List Comp) (rels : List RelID) : Prop :=
  (ids ≠ [] ∧ ids.Nodup ∧ ∀ c ∈ ids, c < ss.zst.length ∧ c ∉ keys en.comps) ∧
    RelsWF ss.isRel ids rels ∧ TargetsValid ss.ents rels

instance (ss : SS) (en : Entry) (ids : List Comp) (rels : List RelID) :
    Decidable (AddOK ss en ids rels) :=
  inferInstanceAs (Decidable ((ids ≠ [] ∧ ids.Nodup ∧ ∀ c ∈ ids, c < ss.zst.length ∧ c ∉ keys en.comps) ∧
    RelsWF ss.isRel ids rels ∧ TargetsValid ss.ents rels))

/-- the precondition of `SetRelations(e, rels…)` on an entity with the entry `en` -/
def SetRelOK (ss : SS) (en : Entry) (rels : List RelID) : Prop :=
  rels ≠ [] ∧ (rels.map (·.comp)).Nodup ∧ (∀ r ∈ rels, r.comp ∈ en.rels.map (·.comp)) ∧
    TargetsValid ss.ents rels

instance (ss : SS) (en : Entry) (rels : List RelID) : Decidable (SetRelOK ss en rels) :=
  inferInstanceAs (Decidable (rels ≠ [] ∧ (rels.map (·.comp)).Nodup ∧
    (∀ r ∈ rels, r.comp ∈ en.rels.map (·.comp)) ∧ TargetsValid ss.ents rels))

/-- the relations as the specification records them -/
abbrev Rels := List RelID

/-- the operations of the fragment -/
inductive Op
  /-- register a component type of the given size; `isRel`: a relation component -/
  | reg (size : Nat) (zst : Bool) (isRel : Bool)
  /-- `NewEntity(ids…, rels…)` through the access path `p`, writing `vals` -/
  | new (p : Path) (ids : List Comp) (vals : Comps) (rels : Rels)
  /-- `Add(e, ids…, rels…)` through the access path `p`, writing `vals` -/
  | add (p : Path) (e : Ent) (ids : List Comp) (vals : Comps) (rels : Rels)
  /-- `Remove(e, ids…)` through the access path `p` (relation components or not) -/
  | rem (p : Path) (e : Ent) (ids : List Comp)
  /-- `SetRelations(e, rels…)` through the access path `p` -/
  | setrel (p : Path) (e : Ent) (rels : Rels)
  /-- `Set(e, …)` for the components mentioned in `vals` -/
  | set (e : Ent) (vals : Comps)
  /-- `RemoveEntity(e)` -/
  | del (e : Ent)
  deriving Repr

/-- **the specification step.**  `fresh` is the handle a successful `new` returns.  An operation
    whose precondition fails leaves the specification unchanged.  `del e` drops `e`'s entry AND
    sets to the zero entity every target equal to `e` in every other entry. -/
def specStep (ss : SS) (fresh : Ent) : Op → SS
  | .reg _ z ir =>
    if ss.zst.length < 256 then { ss with zst := ss.zst ++ [z], isRel := ss.isRel ++ [ir] } else ss
  | .new _ ids vals rels =>
    if NewOK ss ids rels then
      { ss with ents := (fresh, ⟨writeComps ss.zst vals (zeros ids), rels⟩) :: ss.ents }
    else ss
  | .add _ e ids vals rels =>
    match find ss.ents e with
    | none => ss
    | some en =>
      if AddOK ss en ids rels then
        { ss with ents := upd ss.ents e fun en =>
            ⟨writeComps ss.zst vals (en.comps ++ zeros ids), en.rels ++ rels⟩ }
      else ss
  | .rem _ e ids =>
    match find ss.ents e with
    | none => ss
    | some en =>
      if ids ≠ [] ∧ ids.Nodup ∧ ∀ c ∈ ids, c ∈ keys en.comps then
        { ss with ents := upd ss.ents e fun en =>
            ⟨en.comps.filter fun cv => decide (cv.1 ∉ ids), en.rels.filter fun r => decide (r.comp ∉ ids)⟩ }
      else ss
  | .setrel _ e rels =>
    match find ss.ents e with
    | none => ss
    | some en =>
      if SetRelOK ss en rels then
        { ss with ents := upd ss.ents e fun en => { en with rels := setRels en.rels rels } }
      else ss
  | .set e vals =>
    match find ss.ents e with
    | none => ss
    | some en =>
      if ∀ cv ∈ vals, cv.1 ∈ keys en.comps then
        { ss with ents := upd ss.ents e fun en => { en with comps := writeComps ss.zst vals en.comps } }
      else ss
  | .del e =>
    match find ss.ents e with
    | none => ss
    | some _ => { ss with ents := detach e (del ss.ents e) }

/-- the precondition of an operation, in terms of the specification only -/
def pre (ss : SS) : Op → Prop
  | .reg _ _ _ => ss.zst.length < 256
  | .new _ ids _ rels => NewOK ss ids rels
  | .add _ e ids _ rels => ∃ en, find ss.ents e = some en ∧ AddOK ss en ids rels
  | .rem _ e ids => ∃ en, find ss.ents e = some en ∧
      (ids ≠ [] ∧ ids.Nodup ∧ ∀ c ∈ ids, c ∈ keys en.comps)
  | .setrel _ e rels => ∃ en, find ss.ents e = some en ∧ SetRelOK ss en rels
  | .set e vals => ∃ en, find ss.ents e = some en ∧ ∀ cv ∈ vals, cv.1 ∈ keys en.comps
  | .del e => ∃ en, find ss.ents e = some en

/-- run one model operation; the result carries the returned handle.  `SetRelations` through a
    typed path uses the mapper of exactly the components named. -/
def exec (run : ProbeRunner) (w : World) : Op → Res World (Option Ent)
  | .reg size z ir =>
    match registerComponent { isRel := ir, zst := z, size := size } w with
    | .ok _ w' => .ok none w'
    | .panic k w' => .panic k w'
  | .new p ids vals rels =>
    match opNewEntity run p ids vals rels w with
    | .ok e w' => .ok (some e) w'
    | .panic k w' => .panic k w'
  | .add p e ids vals rels =>
    match opAdd run p e ids vals rels w with
    | .ok _ w' => .ok none w'
    | .panic k w' => .panic k w'
  | .rem p e ids =>
    match opRemove run p e ids w with
    | .ok _ w' => .ok none w'
    | .panic k w' => .panic k w'
  | .setrel p e rels =>
    match opSetRelations run p e (rels.map (·.comp)) rels w with
    | .ok _ w' => .ok none w'
    | .panic k w' => .panic k w'
  | .set e vals =>
    match opSet run e (keys vals) vals w with
    | .ok _ w' => .ok none w'
    | .panic k w' => .panic k w'
  | .del e =>
    match opRemoveEntity run e w with
    | .ok _ w' => .ok none w'
    | .panic k w' => .panic k w'

/-- world + ghost history + specification -/
structure St where
  w : World
  /-- handles returned so far, newest first -/
  issued : List Ent
  ss : SS

/-- the targets a client can name: the zero entity or a handle it was given -/
def tgtsExpr (s : St) (rels : Rels) : Bool :=
  rels.all fun r => r.target.isZero || decide (r.target ∈ s.issued)

/-- what the machine still asks of the relation arguments of `new` / `add` / `xchg` on path `p`
    (the part of `RelsWF` that no pre-validation checks): no relation component named twice and
    every relation component among `ids` named — when the archetype is new or has no active
    table, `GetTable` answers "no table" before any check and `createTable` notices a violation
    only after the archetype was created (with an active table the slow path of `GetTable`
    refuses both without effect, a component named twice since the repair of defect D26; whether
    a table is active is not a matter of the specification state, so the conjuncts stay) —, and through `Map[T]`, whose pre-validation has no membership
    check in the model, every relation is on a component among `ids`.  (A relation on a
    non-relation component, and — through `Unsafe` since its repair, and `MapN` — on a component
    that is not among `ids`, is refused before anything is touched: such a call is a step.) -/
def RelsStep (ir : List Bool) (p : Path) (ids : List Comp) (rels : List RelID) : Prop :=
  (rels.map (·.comp)).Nodup ∧ (p = .map1 → ∀ r ∈ rels, r.comp ∈ ids) ∧
    ∀ c ∈ ids, ir.getD c false = true → c ∈ rels.map (·.comp)

instance (ir : List Bool) (p : Path) (ids : List Comp) (rels : List RelID) :
    Decidable (RelsStep ir p ids rels) :=
  inferInstanceAs (Decidable ((rels.map (·.comp)).Nodup ∧ (p = .map1 → ∀ r ∈ rels, r.comp ∈ ids) ∧
    ∀ c ∈ ids, ir.getD c false = true → c ∈ rels.map (·.comp)))

/-- a well-formed relation list is one the machine admits, on every path -/
theorem RelsWF.relsStep {ir : List Bool} {ids : List Comp} {rels : List RelID}
    (h : RelsWF ir ids rels) (p : Path) : RelsStep ir p ids rels :=
  ⟨h.1, fun _ r hr => (h.2.1 r hr).1, h.2.2⟩

/-- what is a step of the machine.  Handles are opaque and component IDs are obtained by
    registration, so an operation on a handle that no `new` returned, or adding an unregistered
    component ID, is not a step.  The relation arguments of `new` / `add` must satisfy
    `RelsStep`: the model creates the archetype before `createTable` notices a relation component
    named twice (refused with `relTwice` since the repair of defect D18; accepted before) or a
    missing relation — such a call is refused, but not without effect.  (Before the repair of the
    `Unsafe` API the whole of `RelsWF` was asked: a relation on a non-relation component or on a
    component not added was caught by `createTable` too, through `Unsafe`.)  `setrel` has no
    such restriction: a relation component named twice (refused since
    the repair of defect D19), a component the entity lacks and a dead target are rejected
    without effect on every path.  A dead target IS a step of `new` / `add`, on every path: it
    is rejected without effect.  (Before the repair of the `Unsafe` API — which now validates its
    relation arguments like the typed API, `ToCheckedRelationIDsForUnsafe` — a dead target through
    `Unsafe` was not a step: the archetype was created before the target was checked.) -/
def guard (s : St) : Op → Bool
  | .reg _ _ _ => true
  | .new p ids _ rels =>
    (ids.all fun c => decide (c < s.ss.zst.length)) && decide (RelsStep s.ss.isRel p ids rels) &&
      tgtsExpr s rels
  | .add p e ids _ rels =>
    decide (e ∈ s.issued) && (ids.all fun c => decide (c < s.ss.zst.length)) &&
      decide (RelsStep s.ss.isRel p ids rels) && tgtsExpr s rels
  | .rem _ e _ => decide (e ∈ s.issued)
  | .setrel _ e rels => decide (e ∈ s.issued) && tgtsExpr s rels
  | .set e _ => decide (e ∈ s.issued)
  | .del e => decide (e ∈ s.issued)

/-- the handle returned, if any -/
def retOf : Res World (Option Ent) → Option Ent
  | .ok r _ => r
  | .panic _ _ => none

/-- the handles the client holds after a call -/
def issuedAfter (issued : List Ent) (r : Res World (Option Ent)) : List Ent :=
  match retOf r with
  | some e => e :: issued
  | none => issued

/-- one step in lock step: the model operation and the specification step.  A panic keeps the
    state the model reached (Go `recover`); that a rejected call leaves the world unchanged is a
    theorem, not part of the definition. -/
def step (run : ProbeRunner) (s : St) (op : Op) : St :=
  if guard s op = true then
    let r := exec run s.w op
    ⟨r.state, issuedAfter s.issued r, specStep s.ss ((retOf r).getD default) op⟩
  else s

def runOps (run : ProbeRunner) (s : St) (ops : List Op) : St := ops.foldl (step run) s

def St.init (cap rel : Nat) : St := ⟨World.init cap rel, [], ⟨[], [], []⟩⟩

/-- the state reached from `NewWorld(cap, rel)` by the history `ops` -/
def reach (run : ProbeRunner) (cap rel : Nat) (ops : List Op) : St := runOps run (St.init cap rel) ops

theorem reach_snoc (run : ProbeRunner) (cap rel : Nat) (ops : List Op) (op : Op) :
    reach run cap rel (ops ++ [op]) = step run (reach run cap rel ops) op := by
  simp only [reach, runOps, List.foldl_append, List.foldl_cons, List.foldl_nil]

/-! ## 2. association-list facts -/

theorem find_some_mem {s : Spec} {e : Ent} {en : Entry} (h : find s e = some en) : (e, en) ∈ s := by
  induction s with
  | nil => cases h
  | cons x rest ih =>
    simp only [find] at h
    split at h
    · rename_i hx
      injection h with h
      obtain ⟨a, b⟩ := x
      simp only at hx h
      subst hx; subst h
      exact List.mem_cons_self
    · exact List.mem_cons_of_mem _ (ih h)

theorem find_none_iff {s : Spec} {e : Ent} : find s e = none ↔ e ∉ s.map (·.1) := by
  induction s with
  | nil => simp [find]
  | cons x rest ih =>
    simp only [find, List.map_cons, List.mem_cons, not_or]
    split
    · rename_i hx
      simp only [reduceCtorEq, false_iff, not_and]
      intro hne; exact absurd hx.symm hne
    · rename_i hx
      rw [ih]
      exact ⟨fun hh => ⟨fun he => hx he.symm, hh⟩, fun hh => hh.2⟩

theorem find_isSome_iff {s : Spec} {e : Ent} : (find s e).isSome = true ↔ e ∈ s.map (·.1) := by
  cases hf : find s e with
  | none => simp only [Option.isSome_none, Bool.false_eq_true, false_iff]; exact find_none_iff.mp hf
  | some en =>
    simp only [Option.isSome_some, true_iff]
    exact List.mem_map.mpr ⟨(e, en), find_some_mem hf, rfl⟩

theorem find_of_mem {s : Spec} (hnd : (s.map (·.1)).Nodup) {e : Ent} {en : Entry}
    (h : (e, en) ∈ s) : find s e = some en := by
  induction s with
  | nil => cases h
  | cons x rest ih =>
    simp only [List.map_cons, List.nodup_cons] at hnd
    simp only [find]
    rcases List.mem_cons.mp h with rfl | hm
    · simp
    · have hne : x.1 ≠ e := by
        intro hx
        apply hnd.1
        rw [hx]
        exact List.mem_map.mpr ⟨(e, en), hm, rfl⟩
      rw [if_neg hne]
      exact ih hnd.2 hm

theorem upd_keys (s : Spec) (e : Ent) (f : Entry → Entry) : (upd s e f).map (·.1) = s.map (·.1) := by
  simp only [upd, List.map_map]
  apply List.map_congr_left
  intro x _
  simp only [Function.comp]
  split <;> rfl

theorem mem_upd {s : Spec} {e : Ent} {f : Entry → Entry} {x : Ent} {en : Entry}
    (h : (x, en) ∈ upd s e f) :
    (x = e ∧ ∃ en0, (e, en0) ∈ s ∧ en = f en0) ∨ (x ≠ e ∧ (x, en) ∈ s) := by
  simp only [upd, List.mem_map] at h
  obtain ⟨y, hy, heq⟩ := h
  split at heq
  · rename_i hye
    injection heq with h1 h2
    obtain ⟨a, b⟩ := y
    simp only at hye h1 h2
    subst hye
    exact Or.inl ⟨h1.symm, b, hy, h2.symm⟩
  · rename_i hye
    subst heq
    exact Or.inr ⟨hye, hy⟩

theorem find_upd_self {s : Spec} {e : Ent} {en : Entry} (f : Entry → Entry)
    (h : find s e = some en) : find (upd s e f) e = some (f en) := by
  induction s with
  | nil => cases h
  | cons x rest ih =>
    simp only [find] at h
    simp only [upd, List.map_cons]
    by_cases hx : x.1 = e
    · rw [if_pos hx] at h
      injection h with h
      simp only [hx, if_true, find, h]
    · rw [if_neg hx] at h
      simp only [hx, if_false, find]
      exact ih h

theorem find_upd_ne (s : Spec) {e x : Ent} (f : Entry → Entry) (hne : x ≠ e) :
    find (upd s e f) x = find s x := by
  induction s with
  | nil => rfl
  | cons y rest ih =>
    simp only [upd, List.map_cons]
    by_cases hy : y.1 = e
    · simp only [hy, if_true, find]
      rw [if_neg (fun hh => hne hh.symm), if_neg (fun hh => hne hh.symm)]
      exact ih
    · simp only [hy, if_false, find]
      split
      · rfl
      · exact ih

theorem del_keys (s : Spec) (e : Ent) : (del s e).map (·.1) = (s.map (·.1)).erase e := by
  induction s with
  | nil => rfl
  | cons x rest ih =>
    simp only [del, List.map_cons, List.erase_cons]
    by_cases hx : x.1 = e
    · simp [hx]
    · have : (x.1 == e) = false := by simpa using hx
      simp [hx, this, ih]

theorem mem_del {s : Spec} {e : Ent} {x : Ent × Entry} (h : x ∈ del s e) : x ∈ s := by
  induction s with
  | nil => cases h
  | cons y rest ih =>
    simp only [del] at h
    split at h
    · exact List.mem_cons_of_mem _ h
    · rcases List.mem_cons.mp h with rfl | hm
      · exact List.mem_cons_self
      · exact List.mem_cons_of_mem _ (ih hm)

theorem find_del_ne (s : Spec) {e x : Ent} (hne : x ≠ e) : find (del s e) x = find s x := by
  induction s with
  | nil => rfl
  | cons y rest ih =>
    simp only [del]
    by_cases hy : y.1 = e
    · simp only [hy, if_true, find]
      rw [if_neg (fun hh => hne hh.symm)]
    · simp only [hy, if_false, find]
      split
      · rfl
      · exact ih

theorem find_del_self {s : Spec} (hnd : (s.map (·.1)).Nodup) (e : Ent) : find (del s e) e = none := by
  apply find_none_iff.mpr
  rw [del_keys]
  exact List.Nodup.not_mem_erase hnd

theorem detach_keys (g : Ent) (s : Spec) : (detach g s).map (·.1) = s.map (·.1) := by
  simp only [detach, List.map_map]
  rfl

theorem find_detach (g : Ent) (s : Spec) (x : Ent) :
    find (detach g s) x = (find s x).map (Entry.detach g) := by
  induction s with
  | nil => rfl
  | cons y rest ih =>
    simp only [detach, List.map_cons, find]
    split
    · rfl
    · exact ih

theorem mem_detach {g : Ent} {s : Spec} {x : Ent} {en : Entry} (h : (x, en) ∈ detach g s) :
    ∃ en0, (x, en0) ∈ s ∧ en = en0.detach g := by
  simp only [detach, List.mem_map] at h
  obtain ⟨y, hy, heq⟩ := h
  injection heq with h1 h2
  obtain ⟨a, b⟩ := y
  simp only at h1 h2
  subst h1
  exact ⟨b, hy, h2.symm⟩

theorem zeroRel_comp (g : Ent) (r : RelID) : (zeroRel g r).comp = r.comp := by
  unfold zeroRel; split <;> rfl

theorem zeroRel_target (g : Ent) (r : RelID) :
    (zeroRel g r).target = if r.target = g then Ent.zero else r.target := by
  unfold zeroRel; split <;> rfl

theorem map_zeroRel_comp (g : Ent) (rs : List RelID) :
    (rs.map (zeroRel g)).map (·.comp) = rs.map (·.comp) := by
  rw [List.map_map]
  apply List.map_congr_left
  intro r _
  exact zeroRel_comp g r

/-- `setRels` keeps the components in place … -/
theorem setRels_comps (old new : List RelID) : (setRels old new).map (·.comp) = old.map (·.comp) := by
  simp only [setRels, List.map_map]
  apply List.map_congr_left
  intro r _
  simp only [Function.comp]
  cases hf : new.find? (fun r' => r'.comp == r.comp) with
  | none => rfl
  | some r' =>
    have := List.find?_some hf
    simp only [beq_iff_eq] at this
    exact this

/-- … a member of the result is a relation of `new` on a component of `old`, or a relation of
    `old` whose component `new` does not name -/
theorem mem_setRels {old new : List RelID} {r : RelID} (h : r ∈ setRels old new) :
    (r ∈ new ∧ r.comp ∈ old.map (·.comp)) ∨ (r ∈ old ∧ ∀ r' ∈ new, r'.comp ≠ r.comp) := by
  simp only [setRels, List.mem_map] at h
  obtain ⟨r0, hr0, heq⟩ := h
  cases hf : new.find? (fun r' => r'.comp == r0.comp) with
  | none =>
    rw [hf] at heq
    subst heq
    right
    refine ⟨hr0, fun r' hr' hc => ?_⟩
    have := List.find?_eq_none.mp hf r' hr'
    simp only [beq_iff_eq] at this
    exact this hc
  | some r' =>
    rw [hf] at heq
    subst heq
    left
    have hc := List.find?_some hf
    simp only [beq_iff_eq] at hc
    exact ⟨List.mem_of_find?_eq_some hf, by rw [hc]; exact List.mem_map.mpr ⟨r0, hr0, rfl⟩⟩

/-- the relation `setRels` records for a component `new` names (none twice) is the one given -/
theorem setRels_mem_new {old new : List RelID} (hnd : (new.map (·.comp)).Nodup) {r : RelID}
    (hr : r ∈ new) (hc : r.comp ∈ old.map (·.comp)) : r ∈ setRels old new := by
  obtain ⟨r0, hr0, hc0⟩ := List.mem_map.mp hc
  simp only [setRels, List.mem_map]
  refine ⟨r0, hr0, ?_⟩
  cases hf : new.find? (fun r' => r'.comp == r0.comp) with
  | none =>
    have := List.find?_eq_none.mp hf r hr
    simp only [beq_iff_eq] at this
    exact absurd hc0.symm this
  | some r' =>
    have h1 := List.find?_some hf
    simp only [beq_iff_eq] at h1
    have h2 := List.mem_of_find?_eq_some hf
    show r' = r
    exact eq_of_nodup_map (·.comp) new hnd r' r h2 hr (by rw [h1, hc0])

/-! ## 3. the inductive invariant -/

/-- what the specification says about one entity agrees with the world (`n` = number of
    registered component types, `ir` = their relation flags) -/
structure EntOK (w : World) (n : Nat) (ir : List Bool) (e : Ent) (en : Entry) : Prop where
  nodup : (keys en.comps).Nodup
  reg : ∀ c ∈ keys en.comps, c < n
  /-- the component set of the entity is the (sorted) key set of the specification -/
  comps : compsOf w e.id = some (sortedIds n (keys en.comps))
  /-- every component holds the value the specification records -/
  vals : ∀ cv ∈ en.comps, valOf w e.id cv.1 = some cv.2
  relNodup : (en.rels.map (·.comp)).Nodup
  /-- the specification records a target for exactly the relation components of the entity -/
  relKeys : ∀ c : Comp, c ∈ en.rels.map (·.comp) ↔ c ∈ keys en.comps ∧ ir.getD c false = true
  /-- every relation component has the target the specification records -/
  tgts : ∀ r ∈ en.rels, targetOf w e.id r.comp = some r.target

theorem EntOK.frame {w w' : World} {n : Nat} {ir : List Bool} {e : Ent} {en : Entry}
    (ok : EntOK w n ir e en) (hs : SameEnt w w' e.id)
    (ht : ∀ c : Comp, targetOf w' e.id c = targetOf w e.id c) : EntOK w' n ir e en :=
  ⟨ok.nodup, ok.reg, by rw [hs.2]; exact ok.comps, fun cv hcv => by rw [hs.1]; exact ok.vals cv hcv,
    ok.relNodup, ok.relKeys, fun r hr => by rw [ht]; exact ok.tgts r hr⟩

/-- the pool with the ghost history, as in `Ark.Proofs.PoolHistory` -/
def St.ps (s : St) : Pool.PS := ⟨s.w.pool, s.issued, s.ss.ents.map (·.1)⟩

/-- every target the specification records is the zero entity or has an entry itself -/
def SpecTargetsOK (s : Spec) : Prop := ∀ (e : Ent) (en : Entry), (e, en) ∈ s → TargetsValid s en.rels

/-- the inductive invariant of the history machine -/
structure HInv (s : St) (fl : List Nat) : Prop where
  tinv : TInv s.w fl
  ginv : Pool.GInv s.ps fl
  unlocked : s.w.isLocked = false
  noObs : ∀ evt : Nat, s.w.obs.hasObservers evt = false
  nodup : s.issued.Nodup
  /-- the specification's registry is the model's -/
  zstEq : s.ss.zst = s.w.kinds.map (·.zst)
  relEq : s.ss.isRel = s.w.kinds.map (·.isRel)
  maxc : s.w.maxComps = 256
  /-- **refinement**: every entry of the specification is realised by the world -/
  ok : ∀ (e : Ent) (en : Entry), (e, en) ∈ s.ss.ents → EntOK s.w s.w.kinds.length s.ss.isRel e en
  /-- every specified target is the zero entity or a specified entity -/
  tgtsOK : SpecTargetsOK s.ss.ents

theorem hinv_init (cap rel : Nat) : HInv (St.init cap rel) [] where
  tinv := tinv_init cap rel
  ginv := Pool.ginv_init
  unlocked := rfl
  noObs := fun _ => rfl
  nodup := List.nodup_nil
  zstEq := rfl
  relEq := rfl
  maxc := rfl
  ok := by intro e en h; cases h
  tgtsOK := by intro e en h; cases h

namespace HInv

variable {s : St} {fl : List Nat}

theorem zlen (H : HInv s fl) : s.ss.zst.length = s.w.kinds.length := by
  rw [H.zstEq, List.length_map]

theorem zget (H : HInv s fl) (c : Comp) : s.ss.zst.getD c false = (s.w.kinds.getD c {}).zst := by
  rw [H.zstEq]
  simp only [List.getD_eq_getElem?_getD, List.getElem?_map]
  cases s.w.kinds[c]? <;> rfl

theorem rget (H : HInv s fl) (c : Comp) : s.ss.isRel.getD c false = s.w.isRelComp c := by
  rw [H.relEq, World.isRelComp]
  simp only [List.getD_eq_getElem?_getD, List.getElem?_map]
  cases s.w.kinds[c]? <;> rfl

theorem reg256 (H : HInv s fl) {c : Nat} (hc : c < s.w.kinds.length) : c < 256 := by
  have := H.tinv.kindsLe; omega

theorem live_facts (H : HInv s fl) {e : Ent} {en : Entry} (hm : (e, en) ∈ s.ss.ents) :
    e ∈ s.issued ∧ s.w.alive e = true ∧ 2 ≤ e.id ∧ e.id ∉ fl ∧ find s.ss.ents e = some en ∧
    s.w.pool.ents[e.id]? = some e := by
  have hl : e ∈ s.ps.live := List.mem_map.mpr ⟨(e, en), hm, rfl⟩
  have hi := H.ginv.live_issued e hl
  obtain ⟨a, b, c⟩ := (H.ginv.live_iff e).mp hl
  exact ⟨hi, (Pool.alive_iff_live s.ps fl H.ginv e hi).mpr hl, a, b,
    find_of_mem H.ginv.live_nodup hm, c⟩

theorem find_of_alive (H : HInv s fl) {e : Ent} (hi : e ∈ s.issued) (ha : s.w.alive e = true) :
    ∃ en, find s.ss.ents e = some en ∧ (e, en) ∈ s.ss.ents := by
  have hl : e ∈ s.ps.live := (Pool.alive_iff_live s.ps fl H.ginv e hi).mp ha
  cases hf : find s.ss.ents e with
  | none => exact absurd hl (find_none_iff.mp hf)
  | some en => exact ⟨en, rfl, find_some_mem hf⟩

theorem find_of_dead (H : HInv s fl) {e : Ent} (hi : e ∈ s.issued) (hd : s.w.alive e = false) :
    find s.ss.ents e = none := by
  apply find_none_iff.mpr
  intro hl
  have : s.w.alive e = true := (Pool.alive_iff_live s.ps fl H.ginv e hi).mpr hl
  rw [hd] at this; cases this

/-- a handle of the specification is alive -/
theorem alive_of_find (H : HInv s fl) {e : Ent} (h : (find s.ss.ents e).isSome = true) :
    s.w.alive e = true := by
  cases hf : find s.ss.ents e with
  | none => rw [hf] at h; cases h
  | some en => exact (H.live_facts (find_some_mem hf)).2.1

/-- a handle that was issued has an ID inside the pool slice -/
theorem issued_in (H : HInv s fl) {e : Ent} (hi : e ∈ s.issued) : e.id < s.w.pool.ents.length := by
  obtain ⟨_, sl, hsl, _⟩ := H.ginv.issued_bound e hi
  exact (List.getElem?_eq_some_iff.mp hsl).1

/-- the targets a client can name (the zero entity or a handle it was given) have IDs inside the
    pool slice -/
theorem tgts_in (H : HInv s fl) {rels : Rels} (hx : tgtsExpr s rels = true) :
    ∀ (r : RelID), r ∈ rels → r.target.id < s.w.pool.ents.length := by
  intro r hr
  have h1 := List.all_eq_true.mp hx r hr
  rcases Bool.or_eq_true_iff.mp h1 with h2 | h2
  · have h3 : r.target.id = 0 := by simpa [Ent.isZero] using h2
    have := H.tinv.link.pool.len2
    omega
  · exact H.issued_in (of_decide_eq_true h2)

/-- valid targets (specification) are zero or alive (model) -/
theorem targets_alive (H : HInv s fl) {rels : Rels} (h : TargetsValid s.ss.ents rels) :
    ∀ (r : RelID), r ∈ rels → r.target.isZero = true ∨ s.w.alive r.target = true := by
  intro r hr
  rcases h r hr with h1 | h1
  · exact Or.inl h1
  · exact Or.inr (H.alive_of_find h1)

/-- valid targets (specification) have IDs inside the pool slice -/
theorem targets_in (H : HInv s fl) {rels : Rels} (h : TargetsValid s.ss.ents rels) :
    ∀ (r : RelID), r ∈ rels → r.target.id < s.w.pool.ents.length := by
  intro r hr
  rcases h r hr with h1 | h1
  · have h3 : r.target.id = 0 := by simpa [Ent.isZero] using h1
    have := H.tinv.link.pool.len2
    omega
  · cases hf : find s.ss.ents r.target with
    | none => rw [hf] at h1; cases h1
    | some en => exact Pool.lt_of_slot (H.live_facts (find_some_mem hf)).2.2.2.2.2

/-- two entries of the specification have different IDs -/
theorem id_inj (H : HInv s fl) {x y : Ent} {en en' : Entry} (hx : (x, en) ∈ s.ss.ents)
    (hy : (y, en') ∈ s.ss.ents) (hid : x.id = y.id) : x = y := by
  obtain ⟨_, _, _, _, _, h1⟩ := H.live_facts hx
  obtain ⟨_, _, _, _, _, h2⟩ := H.live_facts hy
  rw [hid, h2] at h1
  exact (Option.some.inj h1).symm

/-- the component set of a specified entity is the key set of its entry -/
theorem comps_iff (H : HInv s fl) {e : Ent} {en : Entry} (hm : (e, en) ∈ s.ss.ents) (c : Comp) :
    c ∈ sortedIds s.w.kinds.length (keys en.comps) ↔ c ∈ keys en.comps :=
  ⟨fun h => (Refine.mem_sortedIds.mp h).2,
    fun h => Refine.mem_sortedIds.mpr ⟨(H.ok e en hm).reg c h, h⟩⟩

/-- a component of a specified entity carries a target iff the specification records one -/
theorem target_isSome_iff (H : HInv s fl) {e : Ent} {en : Entry} (hm : (e, en) ∈ s.ss.ents)
    (c : Comp) : (targetOf s.w e.id c).isSome = true ↔ c ∈ en.rels.map (·.comp) := by
  have ok := H.ok e en hm
  rw [H.tinv.targetOf_isSome_iff ok.comps c, H.comps_iff hm c, ok.relKeys c, H.rget]

/-- **single-entity update**: the world changes only entity `e` (pool, registry, locks,
    observers kept), the specification changes only `e`'s entry, and the new entry is realised -/
theorem update (H : HInv s fl) {e : Ent} {en : Entry} (hm : (e, en) ∈ s.ss.ents) {w' : World}
    (f : Entry → Entry) (hc : TInv w' fl) (hpool : w'.pool = s.w.pool)
    (hl : w'.locks = s.w.locks) (ho : w'.obs = s.w.obs) (hk : w'.kinds = s.w.kinds)
    (hmax : w'.maxComps = s.w.maxComps)
    (hfr : ∀ j : Nat, j ≠ e.id → SameEnt s.w w' j ∧ ∀ c : Comp, targetOf w' j c = targetOf s.w j c)
    (hok : EntOK w' s.w.kinds.length s.ss.isRel e (f en))
    (htv : TargetsValid s.ss.ents (f en).rels) :
    HInv ⟨w', s.issued, ⟨upd s.ss.ents e f, s.ss.zst, s.ss.isRel⟩⟩ fl where
  tinv := hc
  ginv := by
    have : (⟨w', s.issued, ⟨upd s.ss.ents e f, s.ss.zst, s.ss.isRel⟩⟩ : St).ps = s.ps := by
      simp only [St.ps, hpool, upd_keys]
    rw [this]; exact H.ginv
  unlocked := by show w'.locks.isLocked = false; rw [hl]; exact H.unlocked
  noObs := fun evt => by show w'.obs.hasObservers evt = false; rw [ho]; exact H.noObs evt
  nodup := H.nodup
  zstEq := by show s.ss.zst = w'.kinds.map (·.zst); rw [hk]; exact H.zstEq
  relEq := by show s.ss.isRel = w'.kinds.map (·.isRel); rw [hk]; exact H.relEq
  maxc := hmax.trans H.maxc
  ok := by
    intro x en' hx
    show EntOK w' w'.kinds.length s.ss.isRel x en'
    rw [hk]
    rcases mem_upd hx with ⟨rfl, en0, h0, rfl⟩ | ⟨hne, hx'⟩
    · have h1 := find_of_mem H.ginv.live_nodup h0
      have h2 := find_of_mem H.ginv.live_nodup hm
      rw [h1] at h2
      rw [Option.some.inj h2]; exact hok
    · have hid : x.id ≠ e.id := fun hh => hne (H.id_inj hx' hm hh)
      exact (H.ok x en' hx').frame (hfr x.id hid).1 (hfr x.id hid).2
  tgtsOK := by
    intro x en' hx r hr
    show r.target.isZero = true ∨ (find (upd s.ss.ents e f) r.target).isSome = true
    have key : r.target.isZero = true ∨ (find s.ss.ents r.target).isSome = true := by
      rcases mem_upd hx with ⟨rfl, en0, h0, rfl⟩ | ⟨_, hx'⟩
      · have h1 := find_of_mem H.ginv.live_nodup h0
        have h2 := find_of_mem H.ginv.live_nodup hm
        rw [h1] at h2
        rw [Option.some.inj h2] at hr
        exact htv r hr
      · exact H.tgtsOK x en' hx' r hr
    rcases key with k | k
    · exact Or.inl k
    · right
      rw [find_isSome_iff] at k ⊢
      rw [upd_keys]; exact k

/-- the handle the pool returns next was never issued -/
theorem fresh_get (H : HInv s fl) : (s.w.pool.get).2 ∉ s.issued := by
  have g := Pool.get_spec s.w.pool fl H.tinv.link.pool
  intro hm
  obtain ⟨_, sl, hsl, hle, hlt⟩ := H.ginv.issued_bound _ hm
  have hsl' : s.w.pool.ents[(s.w.pool.get).2.id]? = some sl := hsl
  rcases g.cases with ⟨a, _, _⟩ | ⟨_, b, sl', hsl'', hgen⟩
  · rw [a, List.getElem?_eq_none (Nat.le_refl _)] at hsl'; cases hsl'
  · have hmem : (s.w.pool.get).2.id ∈ fl := by rw [b]; exact List.mem_cons_self
    have := hlt hmem
    rw [hsl''] at hsl'
    have : sl' = sl := Option.some.inj hsl'
    subst this
    omega

/-- **creation step**: the world `w'` results from taking the handle `(s.w.pool.get).2` from the
    pool, every other entity keeps components, values and targets, and the specification gets the
    new entry `en` -/
theorem created (H : HInv s fl) {w' : World} {en : Entry}
    (hc : TInv w' fl.tail) (hpool : w'.pool = (s.w.pool.get).1)
    (hl : w'.locks = s.w.locks) (ho : w'.obs = s.w.obs) (hk : w'.kinds = s.w.kinds)
    (hmax : w'.maxComps = s.w.maxComps)
    (hfr : ∀ j : Nat, j ≠ (s.w.pool.get).2.id →
      SameEnt s.w w' j ∧ ∀ c : Comp, targetOf w' j c = targetOf s.w j c)
    (hok : EntOK w' s.w.kinds.length s.ss.isRel (s.w.pool.get).2 en)
    (htv : TargetsValid s.ss.ents en.rels) :
    HInv ⟨w', (s.w.pool.get).2 :: s.issued,
      ⟨((s.w.pool.get).2, en) :: s.ss.ents, s.ss.zst, s.ss.isRel⟩⟩ fl.tail := by
  obtain ⟨fl1, g1⟩ := Pool.step_inv s.ps fl H.ginv .get
  have hps : s.ps.step .get =
      (⟨w', (s.w.pool.get).2 :: s.issued,
        ⟨((s.w.pool.get).2, en) :: s.ss.ents, s.ss.zst, s.ss.isRel⟩⟩ : St).ps := by
    show (⟨s.w.pool.get.1, _, _⟩ : Pool.PS) = ⟨w'.pool, _, _⟩
    rw [hpool]; rfl
  rw [hps] at g1
  have hfl : fl1 = fl.tail := g1.pinv.unique hc.link.pool
  subst hfl
  have hnew : ∀ (x : Ent) (en' : Entry), (x, en') ∈ s.ss.ents → x.id ≠ (s.w.pool.get).2.id := by
    intro x en' hx hid
    -- the new handle is live in the new ghost state, and so is `x`; same ID, so equal
    have h1 : x ∈ (s.ps.step .get).live := by
      rw [hps]; exact List.mem_cons_of_mem _ (List.mem_map.mpr ⟨(x, en'), hx, rfl⟩)
    have h2 : (s.w.pool.get).2 ∈ (s.ps.step .get).live := by rw [hps]; exact List.mem_cons_self
    rw [hps] at h1 h2
    obtain ⟨_, _, a⟩ := (g1.live_iff x).mp h1
    obtain ⟨_, _, b⟩ := (g1.live_iff _).mp h2
    rw [hid, b] at a
    have hx' : (s.w.pool.get).2 = x := Option.some.inj a
    exact H.fresh_get (hx' ▸ (H.live_facts hx).1)
  exact
    { tinv := hc
      ginv := g1
      unlocked := by show w'.locks.isLocked = false; rw [hl]; exact H.unlocked
      noObs := fun evt => by show w'.obs.hasObservers evt = false; rw [ho]; exact H.noObs evt
      nodup := List.nodup_cons.mpr ⟨H.fresh_get, H.nodup⟩
      zstEq := by show s.ss.zst = w'.kinds.map (·.zst); rw [hk]; exact H.zstEq
      relEq := by show s.ss.isRel = w'.kinds.map (·.isRel); rw [hk]; exact H.relEq
      maxc := hmax.trans H.maxc
      ok := by
        intro x en' hx
        show EntOK w' w'.kinds.length s.ss.isRel x en'
        rw [hk]
        rcases List.mem_cons.mp hx with heq | hx'
        · injection heq with h1 h2
          subst h1; subst h2
          exact hok
        · have hid := hnew x en' hx'
          exact (H.ok x en' hx').frame (hfr x.id hid).1 (hfr x.id hid).2
      tgtsOK := by
        intro x en' hx r hr
        show r.target.isZero = true ∨
          (find (((s.w.pool.get).2, en) :: s.ss.ents) r.target).isSome = true
        have key : r.target.isZero = true ∨ (find s.ss.ents r.target).isSome = true := by
          rcases List.mem_cons.mp hx with heq | hx'
          · injection heq with h1 h2
            subst h2
            exact htv r hr
          · exact H.tgtsOK x en' hx' r hr
        rcases key with k | k
        · exact Or.inl k
        · right
          rw [find_isSome_iff] at k ⊢
          exact List.mem_cons_of_mem _ k }

end HInv

end RelRefine

end Ark
