/-
  Ark.Proofs.GenBridge — ties the definitions REGENERATED from the Go source
  (Ark/Generated/Logic.lean, rewritten by tools/extract on every run) to the hand-written model:
  the model's predicates are proved equal to what the code says now, for all inputs.
  A change of the Go decision logic changes the generated definition and breaks these
  theorems (a harmless rewrite, e.g. commuted conjuncts, still passes: the proofs are Boolean
  case analyses over the mask tests, not syntactic equalities).
-/
import Ark.Generated.Logic
import Ark.Model.Observers
import Ark.Model.Table
import Ark.Model.World

namespace Ark.GenBridge
open Ark

/-- `fireCreateEntity`: the callback runs (no `continue`) exactly when the model's predicate holds. -/
theorem fireCreateEntity_skip_eq (d : ObsData) (mask : Mask) :
    Generated.fireCreateEntity_skip d.hasComps d.hasWith d.hasWithout d.compsMask d.withMask d.withoutMask mask
      = !Pred.entity d mask := by
  unfold Generated.fireCreateEntity_skip Pred.entity
  generalize d.hasComps = b1; generalize d.hasWith = b2; generalize d.hasWithout = b3
  cases b1 <;> cases b2 <;> cases b3 <;> simp <;>
    (first | rfl | (repeat (first | (cases Mask.contains _ _) | (cases Mask.containsAny _ _)) <;> simp))

/-- `fireCreateEntity`: the early-out taken by the code is the model's early-out. -/
theorem fireCreateEntity_early_eq (es : EvtState) (mask : Mask) :
    Generated.fireCreateEntity_early es.anyNoComps es.anyNoWith es.allComps es.allWith mask
      = Early.entity es mask := by
  unfold Generated.fireCreateEntity_early Early.entity
  generalize es.anyNoComps = b1; generalize es.anyNoWith = b2
  cases b1 <;> cases b2 <;> simp

/-- `fireCreateEntityRel`: the callback runs (no `continue`) exactly when the model's predicate holds. -/
theorem fireCreateEntityRel_skip_eq (d : ObsData) (mask : Mask) :
    Generated.fireCreateEntityRel_skip d.hasComps d.hasWith d.hasWithout d.compsMask d.withMask d.withoutMask mask
      = !Pred.entityRel d mask := by
  unfold Generated.fireCreateEntityRel_skip Pred.entityRel
  generalize d.hasComps = b1; generalize d.hasWith = b2; generalize d.hasWithout = b3
  cases b1 <;> cases b2 <;> cases b3 <;> simp <;>
    (first | rfl | (repeat (first | (cases Mask.contains _ _) | (cases Mask.containsAny _ _)) <;> simp))

/-- `fireCreateEntityRel`: the early-out taken by the code is the model's early-out. -/
theorem fireCreateEntityRel_early_eq (es : EvtState) (mask : Mask) :
    Generated.fireCreateEntityRel_early es.anyNoComps es.anyNoWith es.allComps es.allWith mask
      = Early.entityRel es mask := by
  unfold Generated.fireCreateEntityRel_early Early.entityRel
  generalize es.anyNoComps = b1; generalize es.anyNoWith = b2
  cases b1 <;> cases b2 <;> simp

/-- `fireRemoveEntity`: the callback runs (no `continue`) exactly when the model's predicate holds. -/
theorem fireRemoveEntity_skip_eq (d : ObsData) (mask : Mask) :
    Generated.fireRemoveEntity_skip d.hasComps d.hasWith d.hasWithout d.compsMask d.withMask d.withoutMask mask
      = !Pred.entity d mask := by
  unfold Generated.fireRemoveEntity_skip Pred.entity
  generalize d.hasComps = b1; generalize d.hasWith = b2; generalize d.hasWithout = b3
  cases b1 <;> cases b2 <;> cases b3 <;> simp <;>
    (first | rfl | (repeat (first | (cases Mask.contains _ _) | (cases Mask.containsAny _ _)) <;> simp))

/-- `fireRemoveEntity`: the early-out taken by the code is the model's early-out. -/
theorem fireRemoveEntity_early_eq (es : EvtState) (mask : Mask) :
    Generated.fireRemoveEntity_early es.anyNoComps es.anyNoWith es.allComps es.allWith mask
      = Early.entity es mask := by
  unfold Generated.fireRemoveEntity_early Early.entity
  generalize es.anyNoComps = b1; generalize es.anyNoWith = b2
  cases b1 <;> cases b2 <;> simp

/-- `fireRemoveEntityRel`: the callback runs (no `continue`) exactly when the model's predicate holds. -/
theorem fireRemoveEntityRel_skip_eq (d : ObsData) (mask : Mask) :
    Generated.fireRemoveEntityRel_skip d.hasComps d.hasWith d.hasWithout d.compsMask d.withMask d.withoutMask mask
      = !Pred.entityRel d mask := by
  unfold Generated.fireRemoveEntityRel_skip Pred.entityRel
  generalize d.hasComps = b1; generalize d.hasWith = b2; generalize d.hasWithout = b3
  cases b1 <;> cases b2 <;> cases b3 <;> simp <;>
    (first | rfl | (repeat (first | (cases Mask.contains _ _) | (cases Mask.containsAny _ _)) <;> simp))

/-- `fireRemoveEntityRel`: the early-out taken by the code is the model's early-out. -/
theorem fireRemoveEntityRel_early_eq (es : EvtState) (mask : Mask) :
    Generated.fireRemoveEntityRel_early es.anyNoComps es.anyNoWith es.allComps es.allWith mask
      = Early.entityRel es mask := by
  unfold Generated.fireRemoveEntityRel_early Early.entityRel
  generalize es.anyNoComps = b1; generalize es.anyNoWith = b2
  cases b1 <;> cases b2 <;> simp

/-- `fireAdd`: the callback runs (no `continue`) exactly when the model's predicate holds. -/
theorem fireAdd_skip_eq (d : ObsData) (oldMask : Mask) (newMask : Mask) :
    Generated.fireAdd_skip d.hasComps d.hasWith d.hasWithout d.compsMask d.withMask d.withoutMask oldMask newMask
      = !Pred.add d oldMask newMask := by
  unfold Generated.fireAdd_skip Pred.add
  generalize d.hasComps = b1; generalize d.hasWith = b2; generalize d.hasWithout = b3
  cases b1 <;> cases b2 <;> cases b3 <;> simp <;>
    (first | rfl | (repeat (first | (cases Mask.contains _ _) | (cases Mask.containsAny _ _)) <;> simp))

/-- `fireAdd`: the early-out taken by the code is the model's early-out. -/
theorem fireAdd_early_eq (es : EvtState) (oldMask : Mask) (newMask : Mask) :
    Generated.fireAdd_early es.anyNoComps es.anyNoWith es.allComps es.allWith oldMask newMask
      = Early.add es oldMask newMask := by
  unfold Generated.fireAdd_early Early.add
  generalize es.anyNoComps = b1; generalize es.anyNoWith = b2
  cases b1 <;> cases b2 <;> simp

/-- `fireRemove`: the callback runs (no `continue`) exactly when the model's predicate holds. -/
theorem fireRemove_skip_eq (d : ObsData) (oldMask : Mask) (newMask : Mask) :
    Generated.fireRemove_skip d.hasComps d.hasWith d.hasWithout d.compsMask d.withMask d.withoutMask oldMask newMask
      = !Pred.remove d oldMask newMask := by
  unfold Generated.fireRemove_skip Pred.remove
  generalize d.hasComps = b1; generalize d.hasWith = b2; generalize d.hasWithout = b3
  cases b1 <;> cases b2 <;> cases b3 <;> simp <;>
    (first | rfl | (repeat (first | (cases Mask.contains _ _) | (cases Mask.containsAny _ _)) <;> simp))

/-- `fireRemove`: the early-out taken by the code is the model's early-out. -/
theorem fireRemove_early_eq (es : EvtState) (oldMask : Mask) (newMask : Mask) :
    Generated.fireRemove_early es.anyNoComps es.anyNoWith es.allComps es.allWith oldMask newMask
      = Early.remove es oldMask newMask := by
  unfold Generated.fireRemove_early Early.remove
  generalize es.anyNoComps = b1; generalize es.anyNoWith = b2
  cases b1 <;> cases b2 <;> simp

/-- `fireSet`: the callback runs (no `continue`) exactly when the model's predicate holds. -/
theorem fireSet_skip_eq (d : ObsData) (mask : Mask) (newMask : Mask) :
    Generated.fireSet_skip d.hasComps d.hasWith d.hasWithout d.compsMask d.withMask d.withoutMask mask newMask
      = !Pred.set d mask newMask := by
  unfold Generated.fireSet_skip Pred.set
  generalize d.hasComps = b1; generalize d.hasWith = b2; generalize d.hasWithout = b3
  cases b1 <;> cases b2 <;> cases b3 <;> simp <;>
    (first | rfl | (repeat (first | (cases Mask.contains _ _) | (cases Mask.containsAny _ _)) <;> simp))

/-- `fireSet`: the early-out taken by the code is the model's early-out. -/
theorem fireSet_early_eq (es : EvtState) (mask : Mask) (newMask : Mask) :
    Generated.fireSet_early es.anyNoComps es.anyNoWith es.allComps es.allWith mask newMask
      = Early.set es mask newMask := by
  unfold Generated.fireSet_early Early.set
  generalize es.anyNoComps = b1; generalize es.anyNoWith = b2
  cases b1 <;> cases b2 <;> simp

/-- `fireSetRelations`: the callback runs (no `continue`) exactly when the model's predicate holds. -/
theorem fireSetRelations_skip_eq (d : ObsData) (mask : Mask) (newMask : Mask) :
    Generated.fireSetRelations_skip d.hasComps d.hasWith d.hasWithout d.compsMask d.withMask d.withoutMask mask newMask
      = !Pred.set d mask newMask := by
  unfold Generated.fireSetRelations_skip Pred.set
  generalize d.hasComps = b1; generalize d.hasWith = b2; generalize d.hasWithout = b3
  cases b1 <;> cases b2 <;> cases b3 <;> simp <;>
    (first | rfl | (repeat (first | (cases Mask.contains _ _) | (cases Mask.containsAny _ _)) <;> simp))

/-- `fireSetRelations`: the early-out taken by the code is the model's early-out. -/
theorem fireSetRelations_early_eq (es : EvtState) (mask : Mask) (newMask : Mask) :
    Generated.fireSetRelations_early es.anyNoComps es.anyNoWith es.allComps es.allWith mask newMask
      = Early.set es mask newMask := by
  unfold Generated.fireSetRelations_early Early.set
  generalize es.anyNoComps = b1; generalize es.anyNoWith = b2
  cases b1 <;> cases b2 <;> simp

/-- `fireCustom`: the callback runs (no `continue`) exactly when the model's predicate holds. -/
theorem fireCustom_skip_eq (d : ObsData) (mask : Mask) (entityMask : Mask) :
    Generated.fireCustom_skip d.hasComps d.hasWith d.hasWithout d.compsMask d.withMask d.withoutMask mask entityMask
      = !Pred.set d mask entityMask := by
  unfold Generated.fireCustom_skip Pred.set
  generalize d.hasComps = b1; generalize d.hasWith = b2; generalize d.hasWithout = b3
  cases b1 <;> cases b2 <;> cases b3 <;> simp <;>
    (first | rfl | (repeat (first | (cases Mask.contains _ _) | (cases Mask.containsAny _ _)) <;> simp))

/-- `fireCustom`: the early-out taken by the code is the model's early-out. -/
theorem fireCustom_early_eq (es : EvtState) (mask : Mask) (entityMask : Mask) :
    Generated.fireCustom_early es.anyNoComps es.anyNoWith es.allComps es.allWith mask entityMask
      = Early.set es mask entityMask := by
  unfold Generated.fireCustom_early Early.set
  generalize es.anyNoComps = b1; generalize es.anyNoWith = b2
  cases b1 <;> cases b2 <;> simp

/-- `filter.matches` is the model's `Filter.matchesMask`. -/
theorem filter_matches_eq (f : Filter) (m : Mask) :
    Generated.filter_matches f.mask f.without f.hasWithout m = f.matchesMask m := by
  unfold Generated.filter_matches Filter.matchesMask
  cases f.hasWithout <;> simp

/-- the loop of `observerManager.Reset` visits the event types the model visits -/
theorem observerReset_bound_eq (n : Nat) : Generated.observerReset_bound n = ObsMgr.resetBound n := by
  unfold Generated.observerReset_bound ObsMgr.resetBound
  omega

/-- the loop of `observerManager.Reset` visits every event type up to the highest registered one
    (for all 256 values of the `uint8` event type) -/
theorem observerReset_covers : ∀ maxEvt : Nat, maxEvt < 256 → ∀ e, e ≤ maxEvt → e < Generated.observerReset_bound maxEvt := by
  intro m _ e he
  unfold Generated.observerReset_bound
  omega

/-- `table.Extend` re-allocates exactly when the model does -/
theorem tableExtend_eq (t : Table) (n : Nat) :
    t.extend n = if Generated.tableExtend_noop t.len t.cap n then t else t.adjustCapacity (capPow2 (t.len + n)) := by
  unfold Table.extend Generated.tableExtend_noop
  rfl

/-- `table.Shrink` / `table.CanShrink` decide as the model does -/
theorem tableShrink_eq (t : Table) (m : Nat) :
    t.shrink m = if Generated.tableShrink_noop t.cap (max (capPow2 t.len) m) then (t, false)
                 else (t.adjustCapacity (max (capPow2 t.len) m), true) := by
  unfold Table.shrink Generated.tableShrink_noop
  rfl

theorem tableCanShrink_eq (t : Table) (m : Nat) :
    t.canShrink m = decide (Generated.tableCanShrink t.cap (max (capPow2 t.len) m)) := by
  unfold Table.canShrink Generated.tableCanShrink
  rfl

end Ark.GenBridge
